(** What [Server.filter] (Model.Shim.filter_certs) does to the in-memory table,
    the cache, the underlying agent and the closure's view - first for every
    fault script (what is removed from memory does not depend on the agent's
    answers), then exactly when no fault is injected. *)
From Verif Require Import Lib.Base Lib.Json Model.KeyId Model.UAgent Model.Shim Model.ShimSpec Model.ShimCheck
  Generated.ShimGen Proofs.ShimProofs.
Set Default Timeout 60.

(** ** Lists of blob ids *)
Lemma filter_filter {A} (f g : A -> bool) l :
  filter f (filter g l) = filter (fun x => g x && f x) l.
Proof.
  induction l as [|x l IH]; cbn [filter]; [reflexivity|].
  destruct (g x); cbn [filter andb]; [destruct (f x)|]; rewrite IH; reflexivity.
Qed.
Lemma filter_ext_in' {A} (f g : A -> bool) l :
  (forall x, In x l -> f x = g x) -> filter f l = filter g l.
Proof.
  induction l as [|x l IH]; intro H; cbn [filter]; [reflexivity|].
  rewrite (H x (or_introl eq_refl)), IH; [reflexivity|]. intros y Hy. apply H. right. exact Hy.
Qed.
Lemma filter_all_true {A} (f : A -> bool) l : (forall x, In x l -> f x = true) -> filter f l = l.
Proof.
  induction l as [|x l IH]; intro H; cbn [filter]; [reflexivity|].
  rewrite (H x (or_introl eq_refl)), IH; [reflexivity|]. intros y Hy. apply H. right. exact Hy.
Qed.

Lemma In_remove_blob x b l : In x (remove_blob b l) <-> In x l /\ x <> b.
Proof.
  unfold remove_blob. rewrite filter_In. split; intros [H1 H2]; split; try exact H1.
  - intro He. subst. rewrite N.eqb_refl in H2. discriminate.
  - apply negb_true_iff. apply N.eqb_neq. exact H2.
Qed.
Lemma remove_blob_notin b l : ~ In b l -> remove_blob b l = l.
Proof.
  intro H. unfold remove_blob. apply filter_all_true. intros x Hx.
  apply negb_true_iff. apply N.eqb_neq. intro He. subst. contradiction.
Qed.
Lemma NoDup_remove_blob b l : NoDup l -> NoDup (remove_blob b l).
Proof. apply NoDup_filter. Qed.
Lemma remove_first_In x b l : In x (remove_first b l) -> In x l.
Proof.
  induction l as [|y l IH]; cbn [remove_first]; [tauto|].
  destruct (N.eqb y b); cbn [In]; tauto.
Qed.
Lemma remove_first_nodup b l : NoDup l -> remove_first b l = remove_blob b l.
Proof.
  induction l as [|y l IH]; intro H; [reflexivity|].
  inversion H as [|? ? Hn Hd]; subst. cbn [remove_first remove_blob filter].
  destruct (N.eqb y b) eqn:E; cbn [negb].
  - apply N.eqb_eq in E. subst. symmetry. apply remove_blob_notin. exact Hn.
  - fold (remove_blob b l). rewrite IH; [reflexivity|exact Hd].
Qed.

(** [subl l' l]: [l'] is [l] with some elements filtered out. *)
Definition subl (l' l : list N) : Prop := exists f, l' = filter f l.
Lemma subl_refl l : subl l l.
Proof. exists (fun _ : N => true). symmetry. apply filter_all_true. reflexivity. Qed.
Lemma subl_trans a b c : subl a b -> subl b c -> subl a c.
Proof. intros [f ->] [g ->]. eexists. apply filter_filter. Qed.
Lemma subl_In l' l x : subl l' l -> In x l' -> In x l.
Proof. intros [f ->] H. apply filter_In in H. tauto. Qed.
Lemma subl_NoDup l' l : subl l' l -> NoDup l -> NoDup l'.
Proof. intros [f ->]. apply NoDup_filter. Qed.
Lemma subl_remove_blob b l : subl (remove_blob b l) l.
Proof. eexists. reflexivity. Qed.
Lemma subl_nil l : subl [] l.
Proof. exists (fun _ : N => false). induction l; cbn; auto. Qed.

(** Removing, one after the other, the elements of [l] that satisfy [p]. *)
Definition drop (p : N -> bool) (l : list N) (x : N) : bool := negb (p x && mem_b x l).
Ltac dfold :=
  match goal with
  | H : context [fold_left ?f ?l ?x] |- _ => destruct (fold_left f l x) as [[s' view'] e']
  end.

Section World.
  Variable info : N -> option cinfo.
  Variable script : nat -> option fault.
  Notation remove_key := (Shim.remove_key script).
  Notation closure := (Shim.closure script).
  Notation sweep := (Shim.sweep script).
  Notation acall := (Shim.acall script).

  (** ** The agent side of one call *)
  (** Handlers that only ever filter the identity list (everything except add). *)
  Definition shrinking {A} (f : uagent -> uagent * option A) : Prop :=
    forall u, subl (ids (fst (f u))) (ids u) /\ alive (fst (f u)) = alive u /\
              reqno (fst (f u)) = reqno u /\ rawlog (fst (f u)) = rawlog u.
  Lemma shrinking_list : shrinking u_list.
  Proof. intro u. cbn. split; [apply subl_refl|auto]. Qed.
  Lemma shrinking_remove b : shrinking (u_remove b).
  Proof.
    intro u. unfold u_remove. destruct (ulocked u); [cbn; split; [apply subl_refl|auto]|].
    destruct (mem_b b (ids u)); cbn; split; auto using subl_refl, subl_remove_blob.
  Qed.
  Lemma shrinking_sign b : shrinking (u_sign b).
  Proof.
    intro u. unfold u_sign. destruct (ulocked u); [cbn; split; [apply subl_refl|auto]|].
    destruct (mem_b b (ids u)); cbn; split; auto using subl_refl.
  Qed.
  Lemma shrinking_remove_all : shrinking u_remove_all.
  Proof.
    intro u. unfold u_remove_all. destruct (ulocked u); cbn; split; auto using subl_refl, subl_nil.
  Qed.

  Lemma call_shrinks {A} (f : uagent -> uagent * option A) u :
    shrinking f -> subl (ids (fst (call script f u))) (ids u).
  Proof.
    intro Hf. unfold call. destruct (alive u); cbn [negb fst]; [|apply subl_refl].
    destruct (script (reqno u)) as [ft|].
    - destruct (f_exec ft); [destruct (Hf (bump u)) as [H _]|]; destruct (is_close (f_kind ft)); cbn [fst];
        try exact H; apply subl_refl.
    - destruct (Hf (bump u)) as [H _]. exact H.
  Qed.
  Lemma acall_shrinks {A} (f : uagent -> uagent * option A) s :
    shrinking f -> subl (ids (ua (fst (acall f s)))) (ids (ua s)).
  Proof.
    intro Hf. unfold Shim.acall. destruct (closed s); [apply subl_refl|].
    pose proof (call_shrinks f (ua s) Hf) as H. destruct (call script f (ua s)) as [u' r]. exact H.
  Qed.

  (** ** [s.remove(key)] under any fault script *)
  (** What happens to the in-memory table never depends on the agent. *)
  Lemma remove_key_mem b s : mem (fst (remove_key b s)) = remove_blob b (mem s).
  Proof.
    unfold Shim.remove_key.
    set (s1 := if mem_b b (mem s) then set_mem (remove_blob b (mem s)) s else s).
    assert (H1 : mem s1 = remove_blob b (mem s)).
    { subst s1. destruct (mem_b b (mem s)) eqn:E; [reflexivity|].
      symmetry. apply remove_blob_notin. apply mem_b_false. exact E. }
    destruct (acall (u_remove b) s1) as [s2 r] eqn:Hc. apply acall_frame in Hc. destruct Hc as [Hm _].
    destruct r, (mem_b b (mem s)); cbn [fst]; try destruct (noup s2); cbn; congruence.
  Qed.
  Lemma remove_key_fail b s : snd (remove_key b s) = false -> ~ In b (mem s).
  Proof.
    unfold Shim.remove_key. destruct (mem_b b (mem s)) eqn:E.
    - destruct (acall (u_remove b) _) as [s2 [r|]]; cbn; discriminate.
    - intros _. apply mem_b_false. exact E.
  Qed.
  Lemma remove_key_rest b s :
    let s' := fst (remove_key b s) in
    subl (cache s') (cache s) /\ subl (ids (ua s')) (ids (ua s)) /\
    (noup s = false -> cache s' = cache s).
  Proof.
    unfold Shim.remove_key.
    set (s1 := if mem_b b (mem s) then set_mem (remove_blob b (mem s)) s else s).
    assert (H1 : cache s1 = cache s /\ ua s1 = ua s /\ noup s1 = noup s)
      by (subst s1; destruct (mem_b b (mem s)); auto).
    destruct H1 as [Hc1 [Hu1 Hn1]].
    pose proof (acall_shrinks (u_remove b) s1 (shrinking_remove b)) as Hids.
    destruct (acall (u_remove b) s1) as [s2 r] eqn:Hc. pose proof (acall_frame _ _ _ _ _ Hc) as [_ [Hc2 [_ [Hn2 _]]]].
    cbn [fst] in Hids. rewrite Hu1 in Hids.
    assert (Hno : noup s2 = noup s) by congruence.
    destruct r, (mem_b b (mem s)); cbn [fst]; try destruct (noup s2) eqn:Hn; cbn;
      rewrite ?Hc2, ?Hc1; repeat split; auto using subl_refl, subl_remove_blob; intros; congruence.
  Qed.

  (** ** The closure and the range loops *)
  Definition view_step (p : N -> bool) (v : list N) (b : N) : list N :=
    if p b then remove_first b v else v.

  Lemma sweep_any p l : forall s view e,
    let '(s', view', e') := sweep p l (s, view, e) in
    mem s' = filter (drop p l) (mem s) /\
    subl (cache s') (cache s) /\ subl (ids (ua s')) (ids (ua s)) /\
    (noup s = false -> cache s' = cache s) /\
    (e' = false -> e = false /\ view' = fold_left (view_step p) l view).
  Proof.
    unfold Shim.sweep. induction l as [|b l IH]; intros s view e; cbn [fold_left].
    - split; [symmetry; apply filter_all_true; intros x _; unfold drop; cbn; rewrite andb_false_r; reflexivity|].
      repeat split; auto using subl_refl.
    - destruct (p b) eqn:Hp.
      + unfold Shim.closure at 2.
        pose proof (remove_key_mem b s) as Hm. pose proof (remove_key_fail b s) as Hf.
        pose proof (remove_key_rest b s) as [Hc [Hi Hn]].
        pose proof (remove_key_frame script b s) as [_ [Hnu _]].
        destruct (remove_key b s) as [s1 ok]. cbn [fst snd] in *.
        destruct ok.
        * specialize (IH s1 (remove_first b view) e).
          dfold.
          destruct IH as [I1 [I2 [I3 [I4 I5]]]].
          split; [|repeat split; eauto using subl_trans].
          -- rewrite I1, Hm. unfold remove_blob. rewrite filter_filter. apply filter_ext_in'. intros x _.
             unfold drop, mem_b. cbn [existsb]. destruct (N.eqb_spec x b) as [->|Hne]; cbn; [rewrite Hp|]; reflexivity.
          -- intro H. rewrite <- (Hn H). apply I4. congruence.
          -- apply I5. assumption.
          -- destruct (I5 H) as [_ ->]. cbn [fold_left]. replace (view_step p view b) with (remove_first b view) by (unfold view_step; rewrite Hp; reflexivity). reflexivity.
        * specialize (IH s1 view true).
          dfold.
          destruct IH as [I1 [I2 [I3 [I4 I5]]]].
          split; [|repeat split; eauto using subl_trans].
          -- rewrite I1, Hm. unfold remove_blob. rewrite filter_filter. apply filter_ext_in'. intros x _.
             unfold drop, mem_b. cbn [existsb]. destruct (N.eqb_spec x b) as [->|Hne]; cbn; [rewrite Hp|]; reflexivity.
          -- intro H. rewrite <- (Hn H). apply I4. congruence.
          -- destruct (I5 H) as [Hd _]. discriminate.
          -- destruct (I5 H) as [Hd _]. discriminate.
      + specialize (IH s view e).
        dfold.
        destruct IH as [I1 [I2 [I3 [I4 I5]]]].
        split; [|repeat split; auto].
        -- rewrite I1. apply filter_ext_in'. intros x _. unfold drop, mem_b. cbn [existsb].
           destruct (N.eqb_spec x b) as [->|Hne]; cbn; [rewrite Hp|]; reflexivity.
        -- apply I5. assumption.
        -- destruct (I5 H) as [_ ->]. cbn [fold_left]. replace (view_step p view b) with view by (unfold view_step; rewrite Hp; reflexivity). reflexivity.
  Qed.

  Lemma view_fold_In p l : forall v x, In x (fold_left (view_step p) l v) -> In x v.
  Proof.
    induction l as [|b l IH]; intros v x H; cbn [fold_left] in H; [exact H|].
    apply IH in H. unfold view_step in H. destruct (p b); [eapply remove_first_In; eauto|exact H].
  Qed.
  Lemma view_fold_nodup p l : forall v, NoDup v -> fold_left (view_step p) l v = filter (drop p l) v.
  Proof.
    induction l as [|b l IH]; intros v Hv; cbn [fold_left].
    - symmetry. apply filter_all_true. intros x _. unfold drop. cbn. rewrite andb_false_r. reflexivity.
    - unfold view_step at 2. destruct (p b) eqn:Hp.
      + rewrite remove_first_nodup by exact Hv. rewrite IH by (apply NoDup_remove_blob; exact Hv).
        unfold remove_blob. rewrite filter_filter. apply filter_ext_in'. intros x _.
        unfold drop, mem_b. cbn [existsb]. destruct (N.eqb_spec x b) as [->|Hne]; cbn; [rewrite Hp|]; reflexivity.
      + rewrite IH by exact Hv. apply filter_ext_in'. intros x _. unfold drop, mem_b. cbn [existsb].
        destruct (N.eqb_spec x b) as [->|Hne]; cbn; [rewrite Hp|]; reflexivity.
  Qed.

  (** ** [Server.filter] under any fault script *)
  (** The property's "valid and backed": what [filter] keeps in memory when
      the agent reported the list [L]. *)
  Notation keeps := (ShimSpec.keeps info).

  Lemma drop_mem p l x : In x l -> drop p l x = negb (p x).
  Proof. intro H. unfold drop. apply mem_b_In in H. rewrite H, andb_true_r. reflexivity. Qed.

  Lemma remove_first_notin b v : ~ In b v -> remove_first b v = v.
  Proof.
    induction v as [|y v IH]; intro H; cbn [remove_first]; [reflexivity|].
    destruct (N.eqb_spec y b) as [->|Hne]; [exfalso; apply H; left; reflexivity|].
    rewrite IH; [reflexivity|]. intro Hi. apply H. right. exact Hi.
  Qed.
  Lemma view_fold_id p l v : (forall b, p b = true -> ~ In b v) -> fold_left (view_step p) l v = v.
  Proof.
    intro H. induction l as [|b l IH]; cbn [fold_left]; [reflexivity|].
    unfold view_step at 2. destruct (p b) eqn:Hp; [rewrite remove_first_notin by (apply H; exact Hp)|]; exact IH.
  Qed.
  Lemma orphan_not_listed L b : orphan_of info (map (pubkey_of info) L) b = true -> ~ In b L.
  Proof.
    unfold orphan_of. intros H Hi. apply negb_true_iff in H. apply mem_b_false in H. apply H.
    apply in_map. exact Hi.
  Qed.

  Lemma filter_certs_any now s :
    let '(s0, r) := acall u_list s in
    let '(s', res) := filter_certs info script now s in
    match r with
    | None => s' = s0 /\ res = None
    | Some L =>
        subl (mem s') (mem s) /\ subl (cache s') (cache s) /\ subl (ids (ua s')) (ids (ua s)) /\
        (noup s = false -> cache s' = cache s) /\
        (forall c, In c (mem s) -> keeps now L c = true -> In c (mem s')) /\
        (res <> None -> forall c, In c (mem s') -> keeps now L c = true) /\
        (forall view', res = Some view' -> NoDup L ->
           forall x, In x view' -> In x L /\ invalid_at info now x = false)
    end.
  Proof.
    unfold filter_certs. pose proof (acall_shrinks u_list s shrinking_list) as Hi0.
    destruct (acall u_list s) as [s0 r] eqn:Hc0. cbn [fst] in Hi0.
    pose proof (acall_frame _ _ _ _ _ Hc0) as [Hm0 [Hca0 [_ [Hn0 _]]]].
    destruct r as [L|]; [|auto].
    (* phase 1 *)
    set (porph := fun c => nonempty L && orphan_of info (map (pubkey_of info) L) c).
    set (x1 := match L with [] => (s0, L, false) | _ :: _ => _ end).
    assert (H1 : let '(s1, v1, e1) := x1 in
                 mem s1 = filter (fun c => negb (porph c)) (mem s0) /\
                 subl (cache s1) (cache s0) /\ subl (ids (ua s1)) (ids (ua s0)) /\
                 (noup s0 = false -> cache s1 = cache s0) /\ (e1 = false -> v1 = L) /\ noup s1 = noup s0).
    { subst x1 porph. destruct L as [|a L'].
      - cbn [nonempty andb negb]. split; [symmetry; apply filter_all_true; reflexivity|].
        repeat split; auto using subl_refl.
      - pose proof (sweep_any (orphan_of info (map (pubkey_of info) (a :: L'))) (mem s0) s0 (a :: L') false) as H.
        pose proof (sweep_frame script (orphan_of info (map (pubkey_of info) (a :: L'))) (mem s0) (s0, a :: L', false)) as [_ [Hf _]].
        destruct (sweep _ (mem s0) (s0, a :: L', false)) as [[s1 v1] e1]. cbn [fst] in Hf.
        destruct H as [I1 [I2 [I3 [I4 I5]]]]. split; [|repeat split; auto].
        + rewrite I1. apply filter_ext_in'. intros x Hx. rewrite drop_mem by exact Hx. reflexivity.
        + intro He. destruct (I5 He) as [_ ->]. apply view_fold_id. apply orphan_not_listed. }
    destruct x1 as [[s1 v1] e1]. destruct H1 as [Hm1 [Hca1 [Hi1 [Hn1 [Hv1 Hnu1]]]]].
    assert (Hsub1 : subl (mem s1) (mem s)) by (rewrite Hm1, Hm0; eexists; reflexivity).
    assert (Hkeep1 : forall c, In c (mem s) -> keeps now L c = true -> In c (mem s1)).
    { intros c Hc Hk. rewrite Hm1, Hm0. apply filter_In. split; [exact Hc|].
      unfold keeps in Hk. apply andb_true_iff in Hk. destruct Hk as [Hk _]. exact Hk. }
    destruct e1.
    { (* filterOrphanCerts returned an error *)
      split; [exact Hsub1|]. split; [rewrite <- Hca0; exact Hca1|]. split; [eauto using subl_trans|].
      split; [intro H; rewrite Hn1 by congruence; exact Hca0|]. split; [exact Hkeep1|].
      split; [congruence|]. intros; discriminate. }
    specialize (Hv1 eq_refl). subst v1.
    (* phase 2 *)
    pose proof (sweep_any (invalid_at info now) L s1 L false) as H2.
    pose proof (sweep_frame script (invalid_at info now) L (s1, L, false)) as [_ [Hnu2 _]].
    destruct (sweep (invalid_at info now) L (s1, L, false)) as [[s2 v2] e2] eqn:Hx2.
    destruct H2 as [Hm2 [Hca2 [Hi2 [Hn2 Hv2]]]]. cbn [fst] in *.
    pose proof (sweep_any (invalid_at info now) (mem s2) s2 v2 e2) as H3.
    destruct (sweep (invalid_at info now) (mem s2) (s2, v2, e2)) as [[s3 v3] e3].
    destruct H3 as [Hm3 [Hca3 [Hi3 [Hn3 Hv3]]]].
    assert (Hres : subl (mem s3) (mem s) /\ subl (cache s3) (cache s) /\ subl (ids (ua s3)) (ids (ua s)) /\
                   (noup s = false -> cache s3 = cache s) /\
                   (forall c, In c (mem s) -> keeps now L c = true -> In c (mem s3))).
    { split; [|split; [|split; [|split]]].
      - eapply subl_trans; [|exact Hsub1]. rewrite Hm3, Hm2. eapply subl_trans; eexists; reflexivity.
      - rewrite <- Hca0. eauto using subl_trans.
      - eauto using subl_trans.
      - intro H. rewrite Hn3, Hn2, Hn1, Hca0 by congruence. reflexivity.
      - intros c Hc Hk. specialize (Hkeep1 c Hc Hk). unfold keeps in Hk. apply andb_true_iff in Hk.
        destruct Hk as [_ Hk]. apply negb_true_iff in Hk.
        rewrite Hm3. apply filter_In. split; [rewrite Hm2; apply filter_In; split; [exact Hkeep1|]|];
          unfold drop; rewrite Hk; reflexivity. }
    destruct Hres as [R1 [R2 [R3 [R4 R5]]]].
    destruct e3.
    { split; [exact R1|]. split; [exact R2|]. split; [exact R3|]. split; [exact R4|]. split; [exact R5|].
      split; [congruence|]. intros; discriminate. }
    destruct (Hv3 eq_refl) as [-> Hv3']. destruct (Hv2 eq_refl) as [_ Hv2']. subst v2 v3.
    split; [exact R1|]. split; [exact R2|]. split; [exact R3|]. split; [exact R4|]. split; [exact R5|]. split.
    - (* survivors are valid and backed *)
      intros _ c Hc. rewrite Hm3 in Hc. apply filter_In in Hc. destruct Hc as [Hc2 Hd].
      rewrite drop_mem in Hd by exact Hc2.
      rewrite Hm2 in Hc2. apply filter_In in Hc2. destruct Hc2 as [Hc1 _].
      rewrite Hm1 in Hc1. apply filter_In in Hc1. destruct Hc1 as [_ Ho].
      unfold keeps. subst porph. cbn beta in Ho. rewrite Ho, Hd. reflexivity.
    - (* the view holds only valid identities the agent listed *)
      intros view' Hv HL x Hx. injection Hv as <-.
      apply view_fold_In in Hx. split; [eapply view_fold_In; eauto|].
      rewrite view_fold_nodup in Hx by exact HL. apply filter_In in Hx. destruct Hx as [HxL Hd].
      rewrite drop_mem in Hd by exact HxL. apply negb_true_iff in Hd. exact Hd.
  Qed.
End World.
