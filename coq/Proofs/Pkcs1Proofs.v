(** Proofs about Model.Pkcs1: the hand-written PKCS#1 v1.5 verifier accepts
    exactly the full-length blocks with one of the two identifier encodings,
    never panics, and Attest succeeds only after chain verification. *)
From Verif Require Import Lib.Base Lib.Bytes Lib.AttestLib Generated.AttestGen
     Model.Der Model.Pkcs1 Model.C06Check.
Set Default Timeout 120.

(** * Go int indexing at a non-negative index *)
Lemma zindex_of_nat {A} (l : list A) z n : z = Z.of_nat n -> zindex l z = go_index l n.
Proof.
  intros ->. unfold zindex. destruct (Z.ltb_spec (Z.of_nat n) 0); [lia|].
  rewrite Nat2Z.id. reflexivity.
Qed.

Lemma zslice_of_nat {A} (l : list A) lo hi a b :
  lo = Z.of_nat a -> hi = Z.of_nat b -> zslice l lo hi = go_slice l a b.
Proof.
  intros -> ->. unfold zslice.
  destruct (Z.ltb_spec (Z.of_nat a) 0); [lia|]. destruct (Z.ltb_spec (Z.of_nat b) 0); [lia|].
  cbn [orb]. rewrite !Nat2Z.id. reflexivity.
Qed.

Lemma zindex_neg {A} (l : list A) z : (z < 0)%Z -> zindex l z = Panic.
Proof. intros H. unfold zindex. destruct (Z.ltb_spec z 0); [reflexivity|lia]. Qed.

Definition is255 (b : N) : bool := N.eqb b 255.

Lemma pad_loop_spec em : forall n i ok, (i + n <= length em)%nat ->
  pad_loop em (Z.of_nat i) n ok = Val (ok && forallb is255 (firstn n (skipn i em))).
Proof.
  induction n as [|n IH]; intros i ok H; cbn [pad_loop].
  - cbn [firstn forallb]. rewrite andb_true_r; reflexivity.
  - rewrite (zindex_of_nat em _ i) by reflexivity.
    destruct (go_index_val em i) as (a & Ha & Hn); [lia|]. rewrite Ha. cbn [obind].
    replace (Z.of_nat i + 1)%Z with (Z.of_nat (S i)) by lia. rewrite IH by lia.
    rewrite (nth_error_skipn_hd _ _ _ Hn). cbn [firstn forallb].
    unfold ct_byte_eq, is255. rewrite andb_assoc; reflexivity.
Qed.

Lemma forallb_repeat_iff (l : bytes) : forallb is255 l = true <-> l = repeat 255%N (length l).
Proof.
  induction l as [|x l IH]; simpl; [tauto|].
  unfold is255 at 1. rewrite andb_true_iff, N.eqb_eq, IH. split.
  - intros [-> E]. f_equal; exact E.
  - intros [= -> E]. split; [reflexivity|exact E].
Qed.

Local Arguments skipn : simpl never.
Local Arguments firstn : simpl never.

(** * The layout, characterised once and used for both identifier encodings *)
Section Char.
  Variables (k : nat) (p hashed em : bytes).
  Let h := length hashed.
  Let t := (length p + h)%nat.
  Hypothesis Hlen : length em = k.
  Hypothesis Hk : (t + 3 <= k)%nat.

  Definition pieces_ok : Prop :=
    nth_error em 0 = Some 0%N /\ nth_error em 1 = Some 1%N /\
    firstn (k - (k - h)) (skipn (k - h) em) = hashed /\
    firstn ((k - h) - (k - t)) (skipn (k - t) em) = p /\
    nth_error em (k - t - 1) = Some 0%N /\
    forallb is255 (firstn (k - t - 1 - 2) (skipn 2 em)) = true.

  Lemma decomp : exists a0 a1 z,
    nth_error em 0 = Some a0 /\ nth_error em 1 = Some a1 /\ nth_error em (k - t - 1) = Some z /\
    em = [a0; a1] ++ firstn (k - t - 1 - 2) (skipn 2 em) ++ [z]
         ++ firstn ((k - h) - (k - t)) (skipn (k - t) em)
         ++ firstn (k - (k - h)) (skipn (k - h) em).
  Proof.
    destruct (nth_error em 0) as [a0|] eqn:E0; [|apply nth_error_None in E0; lia].
    destruct (nth_error em 1) as [a1|] eqn:E1; [|apply nth_error_None in E1; lia].
    destruct (nth_error em (k - t - 1)) as [z|] eqn:Ez; [|apply nth_error_None in Ez; lia].
    exists a0, a1, z. repeat split; try reflexivity.
    pose proof (nth_error_skipn_hd _ _ _ E0) as S0. pose proof (nth_error_skipn_hd _ _ _ E1) as S1.
    pose proof (nth_error_skipn_hd _ _ _ Ez) as Sz.
    change (skipn 0 em) with em in S0.
    assert (H1 : em = a0 :: a1 :: skipn 2 em) by (rewrite <- S1; exact S0).
    rewrite H1 at 1. cbn [app]. do 2 f_equal.
    rewrite <- (firstn_skipn (k - t - 1 - 2) (skipn 2 em)) at 1. f_equal.
    rewrite skipn_skipn'. replace (2 + (k - t - 1 - 2))%nat with (k - t - 1)%nat by lia.
    rewrite Sz. f_equal.
    replace (S (k - t - 1)) with (k - t)%nat by lia.
    rewrite <- (firstn_skipn (k - h - (k - t)) (skipn (k - t) em)) at 1. f_equal.
    rewrite skipn_skipn'. replace (k - t + (k - h - (k - t)))%nat with (k - h)%nat by lia.
    rewrite firstn_all2; [reflexivity|]. rewrite skipn_length; lia.
  Qed.

  Lemma char : pieces_ok <-> em = EM k p hashed.
  Proof.
    destruct decomp as (a0 & a1 & z & E0 & E1 & Ez & D).
    unfold pieces_ok, EM. fold h. fold t.
    rewrite E0, E1, Ez, forallb_repeat_iff.
    set (M := firstn (k - t - 1 - 2) (skipn 2 em)) in *.
    set (P := firstn (k - h - (k - t)) (skipn (k - t) em)) in *.
    set (Dg := firstn (k - (k - h)) (skipn (k - h) em)) in *.
    assert (LM : length M = (k - t - 3)%nat) by (unfold M; rewrite firstn_length, skipn_length; lia).
    assert (LP : length P = length p) by (unfold P; rewrite firstn_length, skipn_length; lia).
    assert (LD : length Dg = h) by (unfold Dg; rewrite firstn_length, skipn_length; lia).
    split.
    - intros (H0 & H1 & HD & HP & Hz & HM).
      injection H0 as ->. injection H1 as ->. injection Hz as ->.
      rewrite D. rewrite HM, LM, HD, HP. reflexivity.
    - intros E. rewrite D in E. cbn [app] in E.
      injection E as -> -> E.
      apply app_inj_len in E; [|rewrite repeat_length; lia]. destruct E as [EM' E].
      injection E as -> E.
      apply app_inj_len in E; [|lia]. destruct E as [EP ED].
      repeat split; try assumption; try reflexivity.
      rewrite LM. exact EM'.
  Qed.
End Char.

(** * The verifier with the guard and loop start the property needs *)
Definition verify_std := verify_with (Some (1%N, 11%Z)) 2%Z.

Theorem verify_iff k p1 p2 hashed em :
  length em = k -> (length p2 <= length p1)%nat -> (length p1 + length hashed + 11 <= k)%nat ->
  (exists b, verify_std k p1 p2 (length hashed) hashed em = Val b) /\
  (verify_std k p1 p2 (length hashed) hashed em = Val true
   <-> (em = EM k p1 hashed \/ em = EM k p2 hashed)).
Proof.
  intros Hlen H21 Hk.
  set (h := length hashed). set (t1 := (length p1 + h)%nat). set (t2 := (length p2 + h)%nat).
  assert (C1 := char k p1 hashed em Hlen ltac:(fold h; lia)).
  assert (C2 := char k p2 hashed em Hlen ltac:(fold h; lia)).
  unfold pieces_ok in C1, C2. fold h in C1, C2. fold t1 in C1. fold t2 in C2.
  unfold verify_std, verify_with. cbv zeta. fold h. cbn [N.eqb Pos.eqb].
  destruct (Z.ltb_spec (Z.of_nat k) (Z.of_nat (length p1) + Z.of_nat h + 11)) as [?|_]; [lia|].
  rewrite (zindex_of_nat em 0%Z 0%nat) by reflexivity.
  rewrite (zindex_of_nat em 1%Z 1%nat) by reflexivity.
  rewrite (zslice_of_nat em _ _ (k - h) k) by lia.
  rewrite (zslice_of_nat em _ _ (k - t1) (k - h)) by lia.
  rewrite (zslice_of_nat em _ _ (k - t2) (k - h)) by lia.
  rewrite (zindex_of_nat em _ (k - t1 - 1)) by lia.
  rewrite (zindex_of_nat em _ (k - t2 - 1)) by lia.
  destruct (go_index_val em 0) as (e0 & -> & N0); [lia|].
  destruct (go_index_val em 1) as (e1 & -> & N1); [lia|].
  destruct (go_index_val em (k - t1 - 1)) as (z1 & G1 & Nz1); [lia|].
  destruct (go_index_val em (k - t2 - 1)) as (z2 & G2 & Nz2); [lia|].
  rewrite !go_slice_val by lia. cbn [obind]. rewrite G1, G2. cbn [obind].
  rewrite N0, N1, Nz1 in C1. rewrite N0, N1, Nz2 in C2.
  set (dg := firstn (k - (k - h)) (skipn (k - h) em)) in *.
  set (s1 := firstn (k - h - (k - t1)) (skipn (k - t1) em)) in *.
  set (s2 := firstn (k - h - (k - t2)) (skipn (k - t2) em)) in *.
  unfold ct_compare, ct_byte_eq.
  destruct (bytes_eqb s1 p1 && (z1 =? 0)%N) eqn:P1; [|destruct (bytes_eqb s2 p2 && (z2 =? 0)%N) eqn:P2].
  - (* prefix1 ok *)
    cbv iota.
    replace (Z.to_nat (Z.of_nat k - (Z.of_nat (length p1) + Z.of_nat h) - 1 - 2)) with (k - t1 - 1 - 2)%nat by lia.
    change 2%Z with (Z.of_nat 2). rewrite pad_loop_spec by lia. split; [eauto|].
    apply andb_true_iff in P1 as [P1a P1b]. apply bytes_eqb_eq in P1a. apply N.eqb_eq in P1b.
    rewrite orb_true_l, andb_true_r.
    rewrite <- C1, <- C2.
    split.
    + intros H. left.
      injection H as H'. apply andb_true_iff in H' as [H' Hpad].
      apply andb_true_iff in H' as [H' Hd]. apply andb_true_iff in H' as [He0 He1].
      apply N.eqb_eq in He0, He1. apply bytes_eqb_eq in Hd.
      rewrite He0, He1, P1b. repeat split; assumption.
    + intros [H|H].
      * destruct H as (A0 & A1 & AD & AP & Az & AM).
        injection A0 as ->. injection A1 as ->.
        f_equal. rewrite AM, andb_true_r. cbn [N.eqb Pos.eqb andb]. apply bytes_eqb_eq. exact AD.
      * (* em also has the prefix-2 form: the padding check up to the shorter bound still passes *)
        destruct H as (A0 & A1 & AD & AP & Az & AM).
        injection A0 as ->. injection A1 as ->.
        f_equal. cbn [N.eqb Pos.eqb andb].
        assert (HD : bytes_eqb dg hashed = true) by (apply bytes_eqb_eq; exact AD). rewrite HD. cbn [andb].
        rewrite forallb_forall in AM |- *. intros x Hx. apply AM.
        replace (k - t2 - 1 - 2)%nat with ((k - t1 - 1 - 2) + (t1 - t2))%nat by lia.
        rewrite <- (firstn_skipn (k - t1 - 1 - 2) (firstn _ _)).
        rewrite firstn_firstn. rewrite Nat.min_l by lia. apply in_or_app; left; exact Hx.
  - (* prefix2 ok only *)
    cbv iota.
    replace (Z.to_nat (Z.of_nat k - (Z.of_nat (length p2) + Z.of_nat h) - 1 - 2)) with (k - t2 - 1 - 2)%nat by lia.
    change 2%Z with (Z.of_nat 2). rewrite pad_loop_spec by lia. split; [eauto|].
    apply andb_true_iff in P2 as [P2a P2b]. apply bytes_eqb_eq in P2a. apply N.eqb_eq in P2b.
    rewrite orb_true_r, andb_true_r.
    rewrite <- C1, <- C2.
    split.
    + intros H. right.
      injection H as H'. apply andb_true_iff in H' as [H' Hpad].
      apply andb_true_iff in H' as [H' Hd]. apply andb_true_iff in H' as [He0 He1].
      apply N.eqb_eq in He0, He1. apply bytes_eqb_eq in Hd.
      rewrite He0, He1, P2b. repeat split; assumption.
    + intros [H|H].
      * exfalso. destruct H as (_ & _ & _ & AP & Az & _).
        injection Az as ->. rewrite AP in P1.
        rewrite bytes_eqb_refl in P1. discriminate.
      * destruct H as (A0 & A1 & AD & AP & Az & AM).
        injection A0 as ->. injection A1 as ->.
        f_equal. rewrite AM, andb_true_r. cbn [N.eqb Pos.eqb andb]. apply bytes_eqb_eq. exact AD.
  - (* neither *)
    cbv iota.
    replace (Z.to_nat (Z.of_nat k - 0 - 1 - 2)) with (k - 1 - 2)%nat by lia.
    change 2%Z with (Z.of_nat 2). rewrite pad_loop_spec by lia. split; [eauto|].
    rewrite orb_false_r, andb_false_r. cbn [andb].
    rewrite <- C1, <- C2. split; [discriminate|].
    intros [H|H]; exfalso; destruct H as (_ & _ & _ & AP & Az & _); injection Az as ->; rewrite AP in *.
    + rewrite bytes_eqb_refl in P1; discriminate.
    + rewrite bytes_eqb_refl in P2; discriminate.
Qed.

(** Boolean form: the verifier computes membership in the two-element set. *)
Lemma verify_std_value k p1 p2 hashed em :
  length em = k -> (length p2 <= length p1)%nat -> (length p1 + length hashed + 11 <= k)%nat ->
  verify_std k p1 p2 (length hashed) hashed em =
  Val (bytes_eqb em (EM k p1 hashed) || bytes_eqb em (EM k p2 hashed)).
Proof.
  intros Hlen H21 Hk.
  destruct (verify_iff k p1 p2 hashed em Hlen H21 Hk) as [[b Hb] Hiff].
  rewrite Hb. f_equal.
  destruct b.
  - apply Hiff in Hb. symmetry. apply orb_true_iff.
    destruct Hb as [->| ->]; [left|right]; apply bytes_eqb_refl.
  - symmetry. apply orb_false_iff. split; apply bytes_eqb_neq; intros E;
      (assert (X : Val false = Val true) by (rewrite <- Hb; apply Hiff; auto)); discriminate X.
Qed.

Lemma verify_small_k k p1 p2 hl hashed em :
  (k < length p1 + hl + 11)%nat -> verify_std k p1 p2 hl hashed em = Val false.
Proof.
  intros H. unfold verify_std, verify_with. cbv zeta. cbn [N.eqb Pos.eqb].
  destruct (Z.ltb_spec (Z.of_nat k) (Z.of_nat (length p1) + Z.of_nat hl + 11)); [reflexivity|lia].
Qed.

Lemma verify_no_panic k p1 p2 hashed em :
  length em = k -> (length p2 <= length p1)%nat ->
  exists b, verify_std k p1 p2 (length hashed) hashed em = Val b.
Proof.
  intros Hlen H21.
  destruct (Nat.lt_ge_cases k (length p1 + length hashed + 11)) as [Hs|Hs].
  - exists false. apply verify_small_k. exact Hs.
  - apply verify_iff; assumption.
Qed.

(** * The generated facts are the ones the theorems need *)
Lemma gen_k_guard : k_guard = Some (1%N, 11%Z).
Proof. reflexivity. Qed.
Lemma gen_pad_loop_start : pad_loop_start = 2%Z.
Proof. reflexivity. Qed.
Lemma verify_is_std : verify = verify_std.
Proof. unfold verify, verify_std. rewrite gen_k_guard, gen_pad_loop_start. reflexivity. Qed.
Lemma gen_key_switch : key_switch_verify_types = [tx "*rsa.PublicKey"] /\ key_switch_otherwise = 2%N.
Proof. split; reflexivity. Qed.
Lemma gen_attest_chain_first : attest_verifies_chain_first = true.
Proof. reflexivity. Qed.
Lemma gen_attest_args :
  attest_check_args = [tx "attestCert.SignatureAlgorithm"; tx "attestCert.RawTBSCertificate";
                       tx "attestCert.Signature"; tx "f9Cert.PublicKey"].
Proof. reflexivity. Qed.

(** hashPrefixes1/2 are the DER DigestInfo headers with / without NULL. *)
Lemma prefix_tables : forall h,
  lookup (shash_name h) hash_prefixes1 = Some (spec_prefix h true) /\
  lookup (shash_name h) hash_prefixes2 = Some (spec_prefix h false) /\
  hash_size (shash_name h) = Some (shash_len h).
Proof. intros []; vm_compute; repeat split; reflexivity. Qed.

Lemma spec_prefix_lengths : forall h,
  (length (spec_prefix h false) <= length (spec_prefix h true))%nat.
Proof. intros []; vm_compute; lia. Qed.

(** The `switch algo` table is the specification's. *)
Definition action_of_spec (s : salgo) : N * str :=
  match s with
  | SHash h => (0%N, shash_name h)
  | SInsecure => (1%N, [])
  | SUnsupported => (2%N, [])
  end.

Lemma algo_small :
  forallb (fun a => let x := algo_action a in let y := action_of_spec (spec_algo a) in
                    N.eqb (fst x) (fst y) && str_eqb (snd x) (snd y))
          (map N.of_nat (seq 0 17)) = true.
Proof. vm_compute. reflexivity. Qed.

Lemma sigalg_values_small : forallb (fun p => (snd p <? 17)%N) sigalg_values = true.
Proof. vm_compute. reflexivity. Qed.

Lemma spec_algo_big a : (17 <= a)%N -> spec_algo a = SUnsupported.
Proof.
  intros H. destruct a as [|p]; [lia|]. unfold spec_algo.
  do 5 (try (destruct p as [p|p|]; try reflexivity; try lia)).
Qed.

Lemma algo_action_spec : forall a, algo_action a = action_of_spec (spec_algo a).
Proof.
  intros a. destruct (N.lt_ge_cases a 17) as [Hs|Hb].
  - pose proof algo_small as F. rewrite forallb_forall in F.
    specialize (F a). cbv zeta in F.
    assert (I : In a (map N.of_nat (seq 0 17))).
    { rewrite <- (N2Nat.id a). apply in_map. apply in_seq. lia. }
    apply F in I. apply andb_true_iff in I as [I1 I2].
    apply N.eqb_eq in I1. apply str_eqb_eq in I2.
    destruct (algo_action a), (action_of_spec (spec_algo a)). cbn in I1, I2. congruence.
  - rewrite (spec_algo_big a Hb). unfold algo_action, sigalg_name.
    destruct (find (fun p => (snd p =? a)%N) sigalg_values) as [p|] eqn:E; [|reflexivity].
    exfalso. apply find_some in E as [Hin He]. apply N.eqb_eq in He.
    pose proof sigalg_values_small as F. rewrite forallb_forall in F.
    apply F in Hin. apply N.ltb_lt in Hin. lia.
Qed.

(** * Attest, characterised by the specification *)
Definition spec_attest (chain_ok : bool) (algo : N) (digests : list (str * bytes)) (key : key)
  : result verr unit :=
  if negb chain_ok then Err EChain else
  match spec_algo algo with
  | SInsecure => Err EInsecure
  | SUnsupported => Err EUnsupported
  | SHash h =>
      match lookup (shash_name h) digests with
      | None => Err EUnsupported
      | Some d =>
          match key with
          | KOther => Err EUnsupported
          | KRsa k em =>
              if negb (Nat.eqb (length d) (shash_len h)) then Err EHashInfo
              else if (k <? length (spec_prefix h true) + shash_len h + 11)%nat then Err EVerification
              else if bytes_eqb em (EM k (spec_prefix h true) d) || bytes_eqb em (EM k (spec_prefix h false) d)
                   then Ok tt else Err EVerification
          end
      end
  end.

Definition key_len_ok (key : key) : Prop :=
  match key with KRsa k em => length em = k | KOther => True end.

Theorem attest_is_spec chain_ok algo digests key :
  key_len_ok key -> attest chain_ok algo digests key = Val (spec_attest chain_ok algo digests key).
Proof.
  intros Hk. unfold attest, spec_attest. rewrite gen_attest_chain_first. cbn [andb].
  destruct chain_ok; cbn [negb]; [|reflexivity].
  unfold check_signature. rewrite algo_action_spec.
  destruct (spec_algo algo) as [h| |]; cbn [action_of_spec]; try reflexivity.
  destruct (lookup (shash_name h) digests) as [d|]; [|reflexivity].
  destruct key as [k em|]; [|reflexivity].
  destruct gen_key_switch as [-> _]. cbn [existsb]. rewrite str_eqb_refl. cbn [orb].
  unfold verify_pkcs1, pkcs1_hash_info.
  destruct (prefix_tables h) as (-> & -> & ->).
  destruct (Nat.eqb_spec (length d) (shash_len h)) as [Hd|Hd]; cbn [negb]; [|reflexivity].
  rewrite verify_is_std. rewrite <- Hd.
  destruct (Nat.ltb_spec k (length (spec_prefix h true) + length d + 11)) as [Hs|Hs].
  - rewrite verify_small_k by exact Hs. reflexivity.
  - rewrite verify_std_value; [| exact Hk | apply spec_prefix_lengths | exact Hs].
    cbn [obind]. destruct (_ || _); reflexivity.
Qed.

(** Soundness in the words of the property. *)
Theorem attest_sound chain_ok algo digests key :
  key_len_ok key -> attest chain_ok algo digests key = Val (Ok tt) ->
  chain_ok = true /\
  exists h k em d,
    spec_algo algo = SHash h /\ key = KRsa k em /\ lookup (shash_name h) digests = Some d /\
    length d = shash_len h /\ (length (spec_prefix h true) + shash_len h + 11 <= k)%nat /\
    (em = EM k (spec_prefix h true) d \/ em = EM k (spec_prefix h false) d).
Proof.
  intros Hk H. rewrite attest_is_spec in H by exact Hk. injection H as H.
  unfold spec_attest in H.
  destruct chain_ok; cbn [negb] in H; [|discriminate]. split; [reflexivity|].
  destruct (spec_algo algo) as [h| |] eqn:Ea; try discriminate.
  destruct (lookup (shash_name h) digests) as [d|] eqn:El; [|discriminate].
  destruct key as [k em|]; [|discriminate].
  destruct (Nat.eqb_spec (length d) (shash_len h)) as [Hd|Hd]; cbn [negb] in H; [|discriminate].
  destruct (Nat.ltb_spec k (length (spec_prefix h true) + shash_len h + 11)) as [Hs|Hs]; [discriminate|].
  destruct (bytes_eqb em (EM k (spec_prefix h true) d) || bytes_eqb em (EM k (spec_prefix h false) d)) eqn:E; [|discriminate].
  exists h, k, em, d. repeat split; try assumption; try reflexivity.
  apply orb_true_iff in E. destruct E as [E|E]; apply bytes_eqb_eq in E; auto.
Qed.

(** Completeness: both identifier encodings are accepted. *)
Theorem attest_complete algo digests h k d with_null :
  spec_algo algo = SHash h -> lookup (shash_name h) digests = Some d -> length d = shash_len h ->
  (length (spec_prefix h true) + shash_len h + 11 <= k)%nat ->
  length (EM k (spec_prefix h with_null) d) = k ->
  attest true algo digests (KRsa k (EM k (spec_prefix h with_null) d)) = Val (Ok tt).
Proof.
  intros Ha Hl Hd Hk HL. rewrite attest_is_spec by exact HL.
  unfold spec_attest. cbn [negb]. rewrite Ha. cbv iota beta. unfold bytes in *. rewrite Hl. rewrite Hd, Nat.eqb_refl. cbn [negb].
  destruct (Nat.ltb_spec k (length (spec_prefix h true) + shash_len h + 11)) as [Hs|Hs]; [lia|].
  destruct with_null; rewrite bytes_eqb_refl; [reflexivity|rewrite orb_true_r; reflexivity].
Qed.

Lemma EM_length k p d : (length p + length d + 3 <= k)%nat -> length (EM k p d) = k.
Proof. intros H. unfold EM. rewrite !app_length, repeat_length. cbn [length]. lia. Qed.

Theorem attest_no_panic chain_ok algo digests key :
  key_len_ok key -> exists r, attest chain_ok algo digests key = Val r.
Proof. intros Hk. eexists. apply attest_is_spec. exact Hk. Qed.

(** The oracle evaluated on the implementation is the proven one. *)
Theorem oracle_model chain_ok algo digests key :
  key_len_ok key ->
  oracle_attest chain_ok algo digests key (obs_of_model (attest chain_ok algo digests key)) = true.
Proof.
  intros Hk. rewrite attest_is_spec by exact Hk.
  unfold oracle_attest, spec_accept, spec_attest, obs_of_model.
  destruct chain_ok; cbn [negb]; [|reflexivity].
  destruct (spec_algo algo) as [h| |]; try reflexivity.
  destruct key as [k em|].
  - destruct (lookup (shash_name h) digests) as [d|]; [|reflexivity].
    destruct (Nat.eqb (length d) (shash_len h)); cbn [negb]; [|reflexivity].
    unfold spec_dont_care, spec_block_ok.
    destruct (Nat.ltb_spec k (length (spec_prefix h true) + shash_len h + 11)) as [Hs|Hs].
    + destruct (Nat.leb_spec (length (spec_prefix h true) + shash_len h + 11) k); [lia|].
      cbn [andb]. destruct (_ && _); reflexivity.
    + destruct (Nat.leb_spec (length (spec_prefix h true) + shash_len h + 11) k); [|lia].
      cbn [andb]. destruct (_ || _); reflexivity.
  - destruct (lookup (shash_name h) digests); reflexivity.
Qed.

(** * Every altered signature or body is rejected (symbolic RSA and hash) *)
Lemma to_be_length k m : length (to_be k m) = k.
Proof. revert m; induction k as [|k IH]; intros m; cbn [to_be]; [reflexivity|]. rewrite app_length, IH. cbn. lia. Qed.

Lemma to_be_inj : forall k a b,
  (a < 256 ^ N.of_nat k)%N -> (b < 256 ^ N.of_nat k)%N -> to_be k a = to_be k b -> a = b.
Proof.
  induction k as [|k IH]; intros a b Ha Hb E.
  - cbn in Ha, Hb. lia.
  - cbn [to_be] in E.
    apply app_inj_len_r in E; [|reflexivity]. destruct E as [E1 E2]. injection E2 as E2.
    rewrite Nat2N.inj_succ, N.pow_succ_r' in Ha, Hb.
    assert (a / 256 = b / 256)%N as Hq.
    { apply IH; [apply N.div_lt_upper_bound; lia | apply N.div_lt_upper_bound; lia | exact E1]. }
    rewrite (N.div_mod a 256), (N.div_mod b 256) by lia. rewrite Hq, E2. reflexivity.
Qed.

Section Altered.
  (** The RSA public operation of the device key on signature values below the
      modulus, and the hash, as explicit premises. *)
  Variable modulus : N.
  Variable rsa_pub : N -> N.
  Variable hash : bytes -> bytes.
  Variable k : nat.
  Hypothesis modulus_fits : (modulus <= 256 ^ N.of_nat k)%N.
  Hypothesis rsa_pub_range : forall s, (rsa_pub s < modulus)%N.
  Hypothesis rsa_pub_inj : forall a b, (a < modulus)%N -> (b < modulus)%N -> rsa_pub a = rsa_pub b -> a = b.
  Hypothesis hash_collision_free : forall x y, hash x = hash y -> x = y.

  (** em := leftPad((sig^E mod N).Bytes(), k) *)
  Definition em_of (sig : N) : bytes := to_be k (rsa_pub sig).

  Variables p1 p2 : bytes.
  Hypothesis p21 : (length p2 <= length p1)%nat.

  Theorem altered_signature_rejected body sig sig' :
    (length p1 + length (hash body) + 11 <= k)%nat ->
    (sig < modulus)%N -> (sig' < modulus)%N -> sig <> sig' ->
    verify_std k p1 p2 (length (hash body)) (hash body) (em_of sig) = Val true ->
    verify_std k p1 p2 (length (hash body)) (hash body) (em_of sig') = Val true ->
    (em_of sig = EM k p1 (hash body) /\ em_of sig' = EM k p2 (hash body)) \/
    (em_of sig = EM k p2 (hash body) /\ em_of sig' = EM k p1 (hash body)).
  Proof.
    intros Hk Hs Hs' Hne V V'.
    apply (verify_iff k p1 p2 (hash body) (em_of sig)) in V; [|apply to_be_length|exact p21|exact Hk].
    apply (verify_iff k p1 p2 (hash body) (em_of sig')) in V'; [|apply to_be_length|exact p21|exact Hk].
    assert (D : em_of sig <> em_of sig').
    { intros E. apply Hne. apply rsa_pub_inj; try assumption.
      apply (to_be_inj k); try exact E;
        (eapply N.lt_le_trans; [apply rsa_pub_range|exact modulus_fits]). }
    destruct V as [V|V], V' as [V'|V']; try (exfalso; apply D; congruence); auto.
  Qed.

  Theorem altered_body_rejected body body' sig :
    length (hash body) = length (hash body') ->
    (length p1 + length (hash body) + 11 <= k)%nat ->
    verify_std k p1 p2 (length (hash body)) (hash body) (em_of sig) = Val true ->
    verify_std k p1 p2 (length (hash body')) (hash body') (em_of sig) = Val true ->
    body = body'.
  Proof.
    intros HL Hk V V'.
    apply (verify_iff k p1 p2 (hash body) (em_of sig)) in V; [|apply to_be_length|exact p21|exact Hk].
    apply (verify_iff k p1 p2 (hash body') (em_of sig)) in V'; [|apply to_be_length|exact p21|rewrite <- HL; exact Hk].
    apply hash_collision_free.
    assert (T : forall p p', EM k p (hash body) = EM k p' (hash body') -> hash body = hash body').
    { intros p p' E. unfold EM in E. rewrite !app_assoc in E.
      apply app_inj_len_r in E; [|exact HL]. apply E. }
    destruct V as [V|V], V' as [V'|V']; rewrite V in V'; eapply T; exact V'.
  Qed.
End Altered.

(** * Stated for the verifier as generated from /repo *)
Theorem verify_iff_gen k p1 p2 hashed em :
  length em = k -> (length p2 <= length p1)%nat -> (length p1 + length hashed + 11 <= k)%nat ->
  (verify k p1 p2 (length hashed) hashed em = Val true
   <-> (em = EM k p1 hashed \/ em = EM k p2 hashed)).
Proof. intros H1 H2 H3. rewrite verify_is_std. apply verify_iff; assumption. Qed.

Theorem verify_small_k_gen k p1 p2 hl hashed em :
  (k < length p1 + hl + 11)%nat -> verify k p1 p2 hl hashed em = Val false.
Proof. rewrite verify_is_std. apply verify_small_k. Qed.

Theorem verify_no_panic_gen k p1 p2 hashed em :
  length em = k -> (length p2 <= length p1)%nat ->
  exists b, verify k p1 p2 (length hashed) hashed em = Val b.
Proof. rewrite verify_is_std. apply verify_no_panic. Qed.

(** With the tables of signature.go: every hash, every key size, every block. *)
Theorem verify_tables_no_panic h k digest em :
  length em = k -> length digest = shash_len h ->
  exists p1 p2, lookup (shash_name h) hash_prefixes1 = Some p1 /\
                lookup (shash_name h) hash_prefixes2 = Some p2 /\
                exists b, verify k p1 p2 (shash_len h) digest em = Val b.
Proof.
  intros Hl Hd. destruct (prefix_tables h) as (E1 & E2 & _).
  exists (spec_prefix h true), (spec_prefix h false). repeat split; try assumption.
  rewrite <- Hd. apply verify_no_panic_gen; [exact Hl|apply spec_prefix_lengths].
Qed.

(** The same block type and digest but the guard removed: index out of range. *)
Example verify_without_guard_panics :
  verify_with None 2%Z 40 (spec_prefix SHA256 true) (spec_prefix SHA256 false) 32
              (repeat 7%N 32) (repeat 0%N 40) = Panic.
Proof. vm_compute. reflexivity. Qed.

Theorem algorithms_table :
  forall label, algo_action label =
    match spec_algo label with
    | SHash h => (0%N, shash_name h)
    | SInsecure => (1%N, [])
    | SUnsupported => (2%N, [])
    end.
Proof. exact algo_action_spec. Qed.

Theorem prefix_tables_der : forall h,
  lookup (shash_name h) hash_prefixes1 = Some (digestinfo_prefix (shash_oid h) true (shash_len h)) /\
  lookup (shash_name h) hash_prefixes2 = Some (digestinfo_prefix (shash_oid h) false (shash_len h)).
Proof. intros h. destruct (prefix_tables h) as (E1 & E2 & _). split; assumption. Qed.

Lemma altered_premises_satisfiable :
  let modulus := 256%N in let k := 1%nat in
  let rsa_pub := fun s : N => (s mod 256)%N in let hash := fun x : bytes => x in
  (modulus <= 256 ^ N.of_nat k)%N /\ (forall s, (rsa_pub s < modulus)%N) /\
  (forall a b, (a < modulus)%N -> (b < modulus)%N -> rsa_pub a = rsa_pub b -> a = b) /\
  (forall x y, hash x = hash y -> x = y).
Proof.
  cbv zeta. repeat split.
  - cbn. lia.
  - intros s. apply N.mod_lt. discriminate.
  - intros a b Ha Hb E. rewrite !N.mod_small in E by assumption. exact E.
  - auto.
Qed.
