(** Proofs about [Model/X509Fields.v]: the INTEGER codec (every integer, any
    size), the calendar (the closed form agrees with counting days, years 0 ..
    9999), the two time forms, the extension list and the name codec. *)
From Verif Require Import Lib.Base Lib.Bytes Model.Der Model.X509Env Model.X509Fields.
From Coq Require Import ZifyBool ZifyNat ZifyN Lia.
Local Open Scope Z_scope.

(** * Big-endian octets *)
Lemma from_be_snoc a b : from_be (a ++ [b]) = (from_be a * 256 + b)%N.
Proof. unfold from_be. rewrite fold_left_app. reflexivity. Qed.

Lemma be_n_length k : forall n, length (be_n k n) = k.
Proof. induction k as [|k IH]; intro n; simpl; [reflexivity|]. rewrite app_length, IH. simpl. lia. Qed.

Lemma from_be_be_n k : forall n, from_be (be_n k n) = (n mod 256 ^ N.of_nat k)%N.
Proof.
  induction k as [|k IH]; intro n.
  - simpl. rewrite N.mod_1_r. reflexivity.
  - cbn [be_n]. rewrite from_be_snoc, IH, Nat2N.inj_succ, N.pow_succ_r'.
    rewrite (N.mod_mul_r n 256 (256 ^ N.of_nat k)); [lia| lia |].
    apply N.pow_nonzero. lia.
Qed.

Lemma be_n_head k : forall n, be_n (S k) n = ((n / 256 ^ N.of_nat k) mod 256)%N :: be_n k n.
Proof.
  induction k as [|k IH]; intro n.
  - simpl. rewrite N.div_1_r. reflexivity.
  - change (be_n (S (S k)) n) with (be_n (S k) (n / 256)%N ++ [(n mod 256)%N]).
    rewrite IH. cbn [app be_n]. f_equal.
    rewrite N.div_div; [|lia|apply N.pow_nonzero; lia].
    rewrite Nat2N.inj_succ, N.pow_succ_r'. reflexivity.
Qed.

Lemma pow256 k : Z.of_N (256 ^ N.of_nat k) = 2 ^ (8 * Z.of_nat k).
Proof.
  rewrite N2Z.inj_pow, nat_N_Z. change (Z.of_N 256) with (2 ^ 8).
  rewrite <- Z.pow_mul_r by lia. reflexivity.
Qed.

(** * INTEGER *)
Lemma int_octets_bound z :
  let k := Z.of_nat (int_octets z) in
  1 <= k /\ - 2 ^ (8 * k - 1) <= z < 2 ^ (8 * k - 1).
Proof.
  cbv zeta. unfold int_octets.
  set (m := if z <? 0 then - z - 1 else z).
  set (bits := if m =? 0 then 0 else Z.log2 m + 1).
  assert (Hm : 0 <= m) by (unfold m; destruct (z <? 0) eqn:E; lia).
  assert (Hb : 0 <= bits) by (unfold bits; destruct (m =? 0); [lia|]; pose proof (Z.log2_nonneg m); lia).
  assert (Hmb : m < 2 ^ bits).
  { unfold bits. destruct (m =? 0) eqn:E; [simpl; lia|].
    assert (0 < m) by lia. pose proof (Z.log2_spec m H). replace (Z.log2 m + 1) with (Z.succ (Z.log2 m)) by lia. lia. }
  rewrite Nat2Z.inj_succ, Z2Nat.id by (apply Z.div_pos; lia).
  set (q := bits / 8).
  assert (Hq : 8 * q <= bits < 8 * q + 8) by (unfold q; pose proof (Z.div_mod bits 8); pose proof (Z.mod_pos_bound bits 8); lia).
  assert (Hq0 : 0 <= q) by (unfold q; apply Z.div_pos; lia).
  split; [lia|].
  assert (Hp : 2 ^ bits <= 2 ^ (8 * Z.succ q - 1)) by (apply Z.pow_le_mono_r; lia).
  unfold m in *. destruct (z <? 0) eqn:E; lia.
Qed.

Lemma int_octets_minimal z :
  let k := Z.of_nat (int_octets z) in
  2 <= k -> z < - 2 ^ (8 * k - 9) \/ 2 ^ (8 * k - 9) <= z.
Proof.
  cbv zeta. unfold int_octets.
  set (m := if z <? 0 then - z - 1 else z).
  set (bits := if m =? 0 then 0 else Z.log2 m + 1).
  assert (Hm : 0 <= m) by (unfold m; destruct (z <? 0) eqn:E; lia).
  assert (Hb : 0 <= bits) by (unfold bits; destruct (m =? 0); [lia|]; pose proof (Z.log2_nonneg m); lia).
  rewrite Nat2Z.inj_succ, Z2Nat.id by (apply Z.div_pos; lia).
  set (q := bits / 8).
  assert (Hq : 8 * q <= bits < 8 * q + 8) by (unfold q; pose proof (Z.div_mod bits 8); pose proof (Z.mod_pos_bound bits 8); lia).
  intro Hk.
  assert (Hb8 : 8 <= bits) by lia.
  assert (Hm0 : 0 < m) by (unfold bits in Hb8; destruct (m =? 0) eqn:E; lia).
  assert (Hlow : 2 ^ (bits - 1) <= m).
  { unfold bits. destruct (m =? 0) eqn:E; [lia|]. replace (Z.log2 m + 1 - 1) with (Z.log2 m) by lia.
    apply (Z.log2_spec m Hm0). }
  assert (Hp : 2 ^ (8 * Z.succ q - 9) <= 2 ^ (bits - 1)) by (apply Z.pow_le_mono_r; lia).
  unfold m in *. destruct (z <? 0) eqn:E; lia.
Qed.

Lemma int_octets_succ z : exists k', int_octets z = S k'.
Proof. unfold int_octets. eauto. Qed.

Theorem int_roundtrip z : int_value (enc_int z) = z.
Proof.
  unfold enc_int. destruct (int_octets_succ z) as [k' Hk].
  pose proof (int_octets_bound z) as [Hk1 Hz]. cbv zeta in Hk1, Hz. rewrite Hk in *.
  set (M := 2 ^ (8 * Z.of_nat (S k'))).
  assert (HM : 0 < M) by (apply Z.pow_pos_nonneg; lia).
  set (u := z mod M).
  assert (Hu : 0 <= u < M) by (apply Z.mod_pos_bound; exact HM).
  pose proof (be_n_head k' (Z.to_N u)) as Hh.
  unfold int_value. rewrite Hh. cbv beta iota. rewrite <- Hh.
  rewrite from_be_be_n, be_n_length.
  assert (HU : Z.of_N (Z.to_N u) = u) by (apply Z2N.id; lia).
  rewrite N2Z.inj_mod, pow256, HU. fold M. rewrite (Z.mod_small u M) by lia.
  set (P := 2 ^ (8 * Z.of_nat k')).
  assert (HP : 0 < P) by (apply Z.pow_pos_nonneg; lia).
  assert (HMP : M = P * 256).
  { unfold M, P. rewrite Nat2Z.inj_succ. replace (8 * Z.succ (Z.of_nat k')) with (8 * Z.of_nat k' + 8) by lia.
    rewrite Z.pow_add_r by lia. reflexivity. }
  assert (Hhalf : 2 ^ (8 * Z.of_nat (S k') - 1) = P * 128).
  { unfold P. rewrite Nat2Z.inj_succ. replace (8 * Z.succ (Z.of_nat k') - 1) with (8 * Z.of_nat k' + 7) by lia.
    rewrite Z.pow_add_r by lia. reflexivity. }
  rewrite Hhalf in Hz.
  assert (Hhd : Z.of_N ((Z.to_N u / 256 ^ N.of_nat k') mod 256)%N = (u / P) mod 256).
  { rewrite N2Z.inj_mod, N2Z.inj_div, pow256, HU. reflexivity. }
  destruct (128 <=? (Z.to_N u / 256 ^ N.of_nat k') mod 256)%N eqn:Eb.
  - apply N.leb_le in Eb. apply N2Z.inj_le in Eb. rewrite Hhd in Eb. change (Z.of_N 128) with 128 in Eb.
    (* the head octet is at least 128: z is negative *)
    assert (Hneg : z < 0).
    { destruct (Z.ltb_spec z 0) as [|Hpos]; [assumption|exfalso].
      assert (Huz : u = z) by (unfold u; apply Z.mod_small; lia). rewrite Huz in Eb.
      assert (z / P < 128) by (apply Z.div_lt_upper_bound; lia).
      assert (0 <= z / P) by (apply Z.div_pos; lia).
      rewrite Z.mod_small in Eb by lia. lia. }
    assert (u = z + M).
    { unfold u. rewrite <- (Z.mod_add z 1 M) by lia. rewrite Z.mul_1_l. apply Z.mod_small. lia. }
    lia.
  - apply N.leb_gt in Eb. apply N2Z.inj_lt in Eb. rewrite Hhd in Eb. change (Z.of_N 128) with 128 in Eb.
    destruct (Z.ltb_spec z 0) as [Hneg|Hpos].
    + exfalso.
      assert (Huz : u = z + M).
      { unfold u. rewrite <- (Z.mod_add z 1 M) by lia. rewrite Z.mul_1_l. apply Z.mod_small. lia. }
      assert (128 <= u / P) by (apply Z.div_le_lower_bound; lia).
      assert (u / P < 256) by (apply Z.div_lt_upper_bound; lia).
      rewrite Z.mod_small in Eb by lia. lia.
    + unfold u. apply Z.mod_small. lia.
Qed.

Theorem int_minimal z : int_ok (enc_int z) = true.
Proof.
  unfold enc_int. destruct (int_octets_succ z) as [k' Hk].
  pose proof (int_octets_bound z) as [Hk1 Hz]. pose proof (int_octets_minimal z) as Hmin.
  cbv zeta in Hk1, Hz, Hmin. rewrite Hk in *.
  destruct k' as [|k''].
  - (* one octet *) reflexivity.
  - set (M := 2 ^ (8 * Z.of_nat (S (S k'')))) in *.
    assert (HM : 0 < M) by (apply Z.pow_pos_nonneg; lia).
    set (u := z mod M).
    assert (Hu : 0 <= u < M) by (apply Z.mod_pos_bound; exact HM).
    assert (HU : Z.of_N (Z.to_N u) = u) by (apply Z2N.id; lia).
    set (P := 2 ^ (8 * Z.of_nat k'')).
    assert (HP : 0 < P) by (apply Z.pow_pos_nonneg; lia).
    assert (HMP : M = P * 65536).
    { unfold M, P. rewrite !Nat2Z.inj_succ. replace (8 * Z.succ (Z.succ (Z.of_nat k''))) with (8 * Z.of_nat k'' + 16) by lia.
      rewrite Z.pow_add_r by lia. reflexivity. }
    assert (Hhalf : 2 ^ (8 * Z.of_nat (S (S k'')) - 1) = P * 32768).
    { unfold P. rewrite !Nat2Z.inj_succ. replace (8 * Z.succ (Z.succ (Z.of_nat k'')) - 1) with (8 * Z.of_nat k'' + 15) by lia.
      rewrite Z.pow_add_r by lia. reflexivity. }
    assert (Hlow : 2 ^ (8 * Z.of_nat (S (S k'')) - 9) = P * 128).
    { unfold P. rewrite !Nat2Z.inj_succ. replace (8 * Z.succ (Z.succ (Z.of_nat k'')) - 9) with (8 * Z.of_nat k'' + 7) by lia.
      rewrite Z.pow_add_r by lia. reflexivity. }
    rewrite Hhalf in Hz. rewrite Hlow in Hmin. specialize (Hmin ltac:(lia)).
    rewrite be_n_head, be_n_head. unfold int_ok.
    set (a := u / P).
    set (b0 := ((Z.to_N u / 256 ^ N.of_nat (S k'')) mod 256)%N).
    set (b1 := ((Z.to_N u / 256 ^ N.of_nat k'') mod 256)%N).
    assert (H1 : Z.of_N b1 = a mod 256).
    { unfold b1, a. rewrite N2Z.inj_mod, N2Z.inj_div, pow256, HU. reflexivity. }
    assert (H0 : Z.of_N b0 = (a / 256) mod 256).
    { unfold b0, a. rewrite N2Z.inj_mod, N2Z.inj_div, pow256, HU.
      rewrite Nat2Z.inj_succ. replace (8 * Z.succ (Z.of_nat k'')) with (8 * Z.of_nat k'' + 8) by lia.
      rewrite Z.pow_add_r by lia. fold P. change (2 ^ 8) with 256.
      rewrite Z.div_div by lia. reflexivity. }
    destruct (Z.ltb_spec z 0) as [Hneg|Hpos].
    + assert (Huz : u = z + M).
      { unfold u. rewrite <- (Z.mod_add z 1 M) by lia. rewrite Z.mul_1_l. apply Z.mod_small. lia. }
      assert (Ha1 : 32768 <= a) by (apply Z.div_le_lower_bound; lia).
      assert (Ha2 : a < 65408) by (apply Z.div_lt_upper_bound; lia).
      clearbody b0 b1 a. lia.
    + assert (Huz : u = z) by (unfold u; apply Z.mod_small; lia).
      assert (Ha1 : 128 <= a) by (apply Z.div_le_lower_bound; lia).
      assert (Ha2 : a < 32768) by (apply Z.div_lt_upper_bound; lia).
      clearbody b0 b1 a. lia.
Qed.

(** * Calendar: the closed form counts days, for every date of the years 0 .. 9999 *)
Lemma dfc_day y m d : days_from_civil y m d = days_from_civil y m 1 + (d - 1).
Proof. unfold days_from_civil. destruct (m <=? 2), (2 <? m); lia. Qed.

Lemma naive_day y m d : days_naive y m d = days_naive y m 1 + (d - 1).
Proof. unfold days_naive. lia. Qed.

Definition months12 : list Z := [1; 2; 3; 4; 5; 6; 7; 8; 9; 10; 11; 12].

Fixpoint sweep (n : nat) (y acc : Z) : bool :=
  match n with
  | O => true
  | S k =>
      forallb (fun m => days_from_civil y m 1 =? acc + sum_months y (Z.to_nat (m - 1)) - 719528) months12
      && sweep k (y + 1) (acc + year_len y)
  end.

Lemma in_months12 m : 1 <= m <= 12 -> In m months12.
Proof.
  intro H. assert (m = 1 \/ m = 2 \/ m = 3 \/ m = 4 \/ m = 5 \/ m = 6 \/ m = 7 \/ m = 8 \/ m = 9 \/ m = 10 \/ m = 11 \/ m = 12) as Hc by lia.
  unfold months12. simpl. lia.
Qed.

Lemma sweep_sound n : forall y acc, 0 <= y -> acc = sum_years (Z.to_nat y) -> sweep n y acc = true ->
  forall y' m, y <= y' < y + Z.of_nat n -> 1 <= m <= 12 -> days_from_civil y' m 1 = days_naive y' m 1.
Proof.
  induction n as [|n IH]; intros y acc Hy Hacc Hs y' m Hy' Hm; [lia|].
  cbn [sweep] in Hs. apply andb_prop in Hs as [Hrow Hrest].
  destruct (Z.eq_dec y' y) as [->|Hne].
  - rewrite forallb_forall in Hrow. specialize (Hrow m (in_months12 m Hm)).
    apply Z.eqb_eq in Hrow. rewrite Hrow, Hacc. unfold days_naive. lia.
  - apply (IH (y + 1) (acc + year_len y)); try assumption; try lia.
    rewrite Hacc. replace (Z.to_nat (y + 1)) with (S (Z.to_nat y)) by lia.
    cbn [sum_years]. rewrite Z2Nat.id by lia. reflexivity.
Qed.

Definition ten_k : nat := Z.to_nat 10000.
Lemma ten_k_val : Z.of_nat ten_k = 10000.
Proof. vm_compute. reflexivity. Qed.

Lemma sweep_all : sweep ten_k 0 0 = true.
Proof. vm_compute. reflexivity. Qed.

Theorem days_from_civil_calendar y m d :
  0 <= y <= 9999 -> 1 <= m <= 12 -> days_from_civil y m d = days_naive y m d.
Proof.
  intros Hy Hm. rewrite dfc_day, naive_day. f_equal.
  apply (sweep_sound ten_k 0 0 ltac:(lia) eq_refl sweep_all); [rewrite ten_k_val; lia | exact Hm].
Qed.

(** * The two time forms *)
Lemma two_print2 z : 0 <= z < 100 -> two (dig (z / 10)) (dig z) = Some z.
Proof.
  intro H. unfold two, digit, dig.
  assert (Ha : 0 <= (z / 10) mod 10 < 10) by (apply Z.mod_pos_bound; lia).
  assert (Hb : 0 <= z mod 10 < 10) by (apply Z.mod_pos_bound; lia).
  set (a := (z / 10) mod 10) in *. set (b := z mod 10) in *.
  assert (Hz : z = 10 * a + b).
  { unfold a, b. rewrite Z.mod_small by (split; [apply Z.div_pos; lia | apply Z.div_lt_upper_bound; lia]).
    apply Z.div_mod. lia. }
  replace ((48 <=? Z.to_N (48 + a))%N && (Z.to_N (48 + a) <=? 57)%N) with true by lia.
  replace ((48 <=? Z.to_N (48 + b))%N && (Z.to_N (48 + b) <=? 57)%N) with true by lia.
  f_equal. lia.
Qed.

Lemma clock_bounds y mo d h mi s : clock_ok y mo d h mi s = true ->
  1 <= mo <= 12 /\ 1 <= d <= 31 /\ h < 24 /\ mi < 60 /\ s < 60.
Proof.
  unfold clock_ok, month_len. intro H.
  destruct (mo =? 2); [destruct (is_leap y)|destruct ((mo =? 4) || (mo =? 6) || (mo =? 9) || (mo =? 11))]; lia.
Qed.

Theorem utctime_roundtrip y mo d h mi s :
  1950 <= y <= 2049 -> 0 <= h -> 0 <= mi -> 0 <= s -> clock_ok y mo d h mi s = true ->
  parse_utctime (print_utctime y mo d h mi s) = Some (unix_of y mo d h mi s).
Proof.
  intros Hy Hh Hmi Hs Hc. pose proof (clock_bounds _ _ _ _ _ _ Hc) as [Hmo [Hd [Hh' [Hmi' Hs']]]].
  unfold print_utctime, print2. cbn [app]. unfold parse_utctime. cbn [N.eqb Pos.eqb negb].
  assert (Hyy : 0 <= y mod 100 < 100) by (apply Z.mod_pos_bound; lia).
  rewrite !two_print2 by lia.
  assert (Hyr : (if 50 <=? y mod 100 then 1900 + y mod 100 else 2000 + y mod 100) = y).
  { destruct (Z.leb_spec 50 (y mod 100)); Z.div_mod_to_equations; lia. }
  rewrite Hyr, Hc. reflexivity.
Qed.

Theorem gentime_roundtrip y mo d h mi s :
  0 <= y <= 9999 -> 0 <= h -> 0 <= mi -> 0 <= s -> clock_ok y mo d h mi s = true ->
  parse_gentime (print_gentime y mo d h mi s) = Some (unix_of y mo d h mi s).
Proof.
  intros Hy Hh Hmi Hs Hc. pose proof (clock_bounds _ _ _ _ _ _ Hc) as [Hmo [Hd [Hh' [Hmi' Hs']]]].
  unfold print_gentime, print2. cbn [app]. unfold parse_gentime. cbn [N.eqb Pos.eqb negb].
  assert (Hyy : 0 <= y mod 100 < 100) by (apply Z.mod_pos_bound; lia).
  assert (Hyc : 0 <= y / 100 < 100) by (split; [apply Z.div_pos; lia | apply Z.div_lt_upper_bound; lia]).
  rewrite !two_print2 by lia.
  replace (100 * (y / 100) + y mod 100) with y by (pose proof (Z.div_mod y 100); lia).
  rewrite Hc. reflexivity.
Qed.

(** seconds are counted from the calendar: a date later by whole days is later by 86400 s per day *)
Theorem unix_of_calendar y mo d h mi s :
  0 <= y <= 9999 -> 1 <= mo <= 12 ->
  unix_of y mo d h mi s = days_naive y mo d * 86400 + h * 3600 + mi * 60 + s.
Proof. intros Hy Hm. unfold unix_of. rewrite days_from_civil_calendar by assumption. reflexivity. Qed.

(** * Extensions and names *)
Theorem ext_roundtrip e : dec_ext (enc_ext e) = Some e.
Proof. destruct e as [[oid crit] v]. destruct crit; reflexivity. Qed.

Lemma map_opt_map {A B} (f : A -> option B) (g : B -> A) :
  (forall x, f (g x) = Some x) -> forall l, map_opt f (map g l) = Some l.
Proof. intros H l. induction l as [|x r IH]; simpl; [reflexivity|]. rewrite H, IH. reflexivity. Qed.

Theorem exts_roundtrip l before after :
  existsb is_ctx3 before = false ->
  exts_of_tail (before ++ ext_node l :: after) = Some l.
Proof.
  intro Hb. unfold exts_of_tail.
  assert (Hf : find is_ctx3 (before ++ ext_node l :: after) = Some (ext_node l)).
  { induction before as [|x r IH]; simpl in *.
    - reflexivity.
    - apply Bool.orb_false_iff in Hb as [Hx Hr]. rewrite Hx. apply IH. exact Hr. }
  rewrite Hf. unfold ext_node. apply map_opt_map. exact ext_roundtrip.
Qed.

Theorem exts_absent tail : existsb is_ctx3 tail = false -> exts_of_tail tail = Some [].
Proof.
  intro H. unfold exts_of_tail.
  assert (Hf : find is_ctx3 tail = None).
  { induction tail as [|x r IH]; simpl in *; [reflexivity|].
    apply Bool.orb_false_iff in H as [Hx Hr]. rewrite Hx. apply IH. exact Hr. }
  rewrite Hf. reflexivity.
Qed.

Theorem atv_roundtrip a : dec_atv (enc_atv a) = Some a.
Proof. destruct a as [[oid tag] v]. reflexivity. Qed.

Theorem name_roundtrip rdns : dec_name (enc_name rdns) = Some (concat rdns).
Proof.
  unfold dec_name, enc_name.
  rewrite (map_opt_map dec_rdn (fun r => DCons 49 (map enc_atv r))); [reflexivity|].
  intro r. unfold dec_rdn. apply map_opt_map. exact atv_roundtrip.
Qed.

(** * All fields together: what a conforming encoder writes is read back *)
Theorem fields_roundtrip ver serial ta tb nb na issuer subject exts
        sa oid params bits uids sigalg sig :
  parse_time ta = Some nb -> parse_time tb = Some na ->
  existsb is_ctx3 uids = false ->
  cert_fields (mkEnv (Some (DCons 160 [DPrim 2 (enc_int (ver - 1))])) (DPrim 2 (enc_int serial)) sa
                     (enc_name issuer) (DCons 48 [ta; tb]) (enc_name subject) oid params bits
                     (uids ++ [ext_node exts]) sigalg sig)
  = Some (mkFields ver serial nb na (concat issuer) (concat subject) exts).
Proof.
  intros Ha Hb Hu. unfold cert_fields. cbn [e_version e_serial e_validity e_issuer e_subject e_tail].
  unfold version_of, serial_of, validity_of. rewrite !int_minimal, !int_roundtrip, Ha, Hb, !name_roundtrip.
  rewrite (exts_roundtrip exts uids [] Hu). f_equal. f_equal. lia.
Qed.

(** version 1 (the field is absent) and no extensions *)
Theorem fields_roundtrip_v1 serial ta tb nb na issuer subject sa oid params bits sigalg sig :
  parse_time ta = Some nb -> parse_time tb = Some na ->
  cert_fields (mkEnv None (DPrim 2 (enc_int serial)) sa (enc_name issuer) (DCons 48 [ta; tb]) (enc_name subject)
                     oid params bits [] sigalg sig)
  = Some (mkFields 1 serial nb na (concat issuer) (concat subject) []).
Proof.
  intros Ha Hb. unfold cert_fields. cbn [e_version e_serial e_validity e_issuer e_subject e_tail].
  unfold version_of, serial_of, validity_of. rewrite !int_minimal, !int_roundtrip, Ha, Hb, !name_roundtrip.
  reflexivity.
Qed.
