(** C07: the shim never lists or signs with certificates outside their
    validity window, purges them, and drops keyless hardware certificates. *)
From Verif Require Import Lib.Base Lib.Json Model.KeyId Model.UAgent Model.Shim Model.ShimSpec Model.ShimCheck Model.C07Check
  Generated.ShimGen Proofs.ShimProofs Proofs.ShimFilterProofs Proofs.ShimInvProofs Proofs.ShimExactProofs.
Set Default Timeout 60.

(** ** The translated ValidateSSHCertTime is the property's window test. *)
Lemma to_int64_small z : (0 <= z <= 9223372036854775807)%Z -> to_int64 z = z.
Proof. intro H. unfold to_int64. rewrite Z.mod_small by lia. lia. Qed.
Ltac cmp_cases :=
  repeat match goal with
  | |- context [Z.ltb ?a ?b] => destruct (Z.ltb_spec a b)
  | |- context [Z.leb ?a ?b] => destruct (Z.leb_spec a b)
  | |- context [Z.eqb ?a ?b] => destruct (Z.eqb_spec a b)
  end.
Lemma valid_time va vb now : validate_ssh_cert_time va vb now = spec_window va vb now.
Proof.
  unfold validate_ssh_cert_time, spec_window, int64_max. cbn zeta.
  pose proof (N2Z.is_nonneg va) as Ha. pose proof (N2Z.is_nonneg vb) as Hb.
  rewrite ?Z.gtb_ltb, ?Z.geb_leb.
  repeat match goal with
  | |- context [if Z.ltb ?a ?b then _ else _] => destruct (Z.ltb_spec a b)
  | |- context [if Z.leb ?a ?b then _ else _] => destruct (Z.leb_spec a b)
  end;
  rewrite ?to_int64_small by lia;
  repeat match goal with |- context [Z.min ?a ?b] => destruct (Z.min_spec a b) as [[? ->]|[? ->]] end;
  cmp_cases; cbn; try reflexivity; try lia.
Qed.

(** Unlimited validity never expires. *)
Lemma forever_valid va now :
  (Z.of_N va <= now)%Z -> (now < 2 ^ 63)%Z ->
  validate_ssh_cert_time va 18446744073709551615 now = true.
Proof.
  intros H1 H2. rewrite valid_time. unfold spec_window, int64_max.
  apply andb_true_iff. split; apply Z.leb_le; lia.
Qed.

Section World.
  Variable info : N -> option cinfo.
  Notation Inv := (ShimInvProofs.Inv info).

  Lemma spec_valid_eq now b : spec_valid info now b = valid_at info now b.
  Proof.
    unfold spec_valid, valid_at, invalid_at, valid_window. destruct (info b) as [ci|]; [|reflexivity].
    rewrite negb_involutive. symmetry. apply valid_time.
  Qed.
  Lemma spec_pubkey_eq b : spec_pubkey info b = pubkey_of info b.
  Proof. reflexivity. Qed.
  Lemma keeps_spec now L c : keeps info now L c = spec_backed info L c && spec_valid info now c.
  Proof.
    rewrite spec_valid_eq. unfold keeps, valid_at. f_equal.
    destruct L as [|a L]; [reflexivity|]. cbn [nonempty andb spec_backed]. unfold orphan_of.
    rewrite negb_involutive. reflexivity.
  Qed.

  Lemma forallb_sortN f l : forallb f (sortN l) = true <-> (forall x, In x l -> f x = true).
  Proof.
    rewrite forallb_forall. split; intros H x Hx; apply H; apply sortN_In; exact Hx.
  Qed.
  Lemma mem_b_sortN b l : mem_b b (sortN l) = mem_b b l.
  Proof.
    destruct (mem_b b l) eqn:E.
    - apply mem_b_In. apply sortN_In. apply mem_b_In. exact E.
    - apply mem_b_false. intro H. apply (proj1 (sortN_In b l)) in H. apply (proj2 (mem_b_In b l)) in H. congruence.
  Qed.

  Lemma obs_reported_eq s : obs_reported (obs_of s) = reported (ua s).
  Proof. unfold obs_reported, reported, ulocked. cbn. destruct (upass (ua s)); reflexivity. Qed.

  (** The listing clauses of the oracle follow from the exact description of
      List / Signers. *)
  Lemma listing_ok now s s' :
    upass (ua s') = upass (ua s) ->
    mem s' = filter (keeps info now (reported (ua s))) (mem s) ->
    ids (ua s') = (if ulocked (ua s) then ids (ua s) else filter (valid_at info now) (ids (ua s))) ->
    oracle_listing info (obs_of s) (obs_of s') now (listing_of info now s) = true.
  Proof.
    intros Hp Hm Hi. unfold oracle_listing.
    assert (Hrep : obs_reported (obs_of s) = reported (ua s)) by apply obs_reported_eq.
    assert (Hrep' : obs_reported (obs_of s') = filter (valid_at info now) (reported (ua s))).
    { rewrite obs_reported_eq. apply reported_filter; assumption. }
    rewrite Hrep, Hrep'. cbn [o_mem obs_of].
    repeat (apply andb_true_iff; split).
    - apply forallb_forall. intros x Hx. unfold listing_of in Hx. apply in_app_or in Hx.
      destruct Hx as [Hx|Hx]; apply filter_In in Hx; destruct Hx as [Hx1 Hx2].
      + rewrite keeps_spec in Hx2. apply andb_true_iff in Hx2. tauto.
      + apply filter_In in Hx1. rewrite spec_valid_eq. tauto.
    - apply forallb_sortN. intros x Hx. rewrite Hm in Hx. apply filter_In in Hx. destruct Hx as [_ Hx].
      rewrite keeps_spec in Hx. apply andb_true_iff in Hx. tauto.
    - apply forallb_forall. intros x Hx. apply filter_In in Hx. rewrite spec_valid_eq. tauto.
    - apply forallb_sortN. intros x Hx. rewrite Hm in Hx. apply filter_In in Hx. destruct Hx as [_ Hx].
      rewrite keeps_spec in Hx. apply andb_true_iff in Hx. tauto.
    - apply forallb_sortN. intros x Hx. rewrite mem_b_sortN.
      destruct (spec_valid info now x && spec_backed info (reported (ua s)) x) eqn:E; [|reflexivity].
      cbn [negb orb]. apply mem_b_In. rewrite Hm. apply filter_In. split; [exact Hx|].
      rewrite keeps_spec. rewrite andb_comm. exact E.
    - apply forallb_sortN. intros x Hx. apply mem_b_In. unfold listing_of. apply in_or_app. left.
      rewrite <- Hm. exact Hx.
  Qed.

  Section NoFault.
    Variable script : nat -> option fault.
    Hypothesis nofault : forall n, script n = None.
    Notation step := (Shim.step info script).

    Lemma live_dec s : live s \/ ~ live s.
    Proof.
      unfold live. destruct (closed s), (alive (ua s)); auto; right; intros [? ?]; discriminate.
    Qed.

    (** A signing request naming a certificate outside its window fails. *)
    Lemma sign_invalid now s key data flags :
      Inv s -> locked s = false -> invalid_at info now key = true ->
      is_err_reply (snd (step now s (Sign key data flags))) = true.
    Proof.
      intros HI Hlk Hinv. destruct (live_dec s) as [Hl|Hd].
      - pose proof (sign_nf info script nofault now s key data flags Hl HI Hlk) as H. cbn zeta in H.
        destruct (step now s (Sign key data flags)) as [s' r]. destruct H as [-> _]. cbn [snd].
        assert (Hc : is_cert info key = true).
        { unfold invalid_at in Hinv. unfold is_cert. destruct (info key); [reflexivity|discriminate]. }
        assert (Hm : mem_b key (filter (keeps info now (reported (ua s))) (mem s)) = false).
        { apply mem_b_false. intro H. apply filter_In in H. destruct H as [_ H]. unfold keeps in H.
          rewrite Hinv in H. rewrite andb_false_r in H. discriminate. }
        assert (Hs : sign_with info now s key data flags = RErr EOther).
        { unfold sign_with.
          assert (Hn : mem_b key (filter (valid_at info now) (reported (ua s))) = false).
          { apply mem_b_false. intro H. apply filter_In in H. destruct H as [_ H]. unfold valid_at in H.
            rewrite Hinv in H. discriminate. }
          rewrite Hn. reflexivity. }
        rewrite Hc, Hm, Hs. destruct (ysshca info key && noup s); reflexivity.
      - cbn [Shim.step]. rewrite Hlk. pose proof (filter_dead info script now s Hd) as H.
        destruct (filter_certs info script now s) as [s1 res]. cbn [snd] in H. subst res. reflexivity.
    Qed.

    (** Signing drops nothing that is valid and backed. *)
    Lemma sign_keeps now s key data flags :
      Inv s -> locked s = false ->
      forall c, In c (mem s) -> keeps info now (reported (ua s)) c = true ->
      In c (mem (fst (step now s (Sign key data flags)))).
    Proof.
      intros HI Hlk c Hc Hk. destruct (live_dec s) as [Hl|Hd].
      - pose proof (sign_nf info script nofault now s key data flags Hl HI Hlk) as H. cbn zeta in H.
        destruct (step now s (Sign key data flags)) as [s' r]. destruct H as [_ [_ [_ [Hm _]]]]. cbn [fst].
        rewrite Hm. apply filter_In. auto.
      - cbn [Shim.step]. rewrite Hlk. pose proof (filter_dead info script now s Hd) as H.
        pose proof (filter_certs_any info script now s) as Ha.
        pose proof (acall_dead script u_list s Hd) as Hn.
        destruct (acall script u_list s) as [s0 r0] eqn:Hc0. cbn [snd] in Hn. subst r0.
        apply acall_frame in Hc0. destruct Hc0 as [Hm0 _].
        destruct (filter_certs info script now s) as [s1 res]. cbn [snd] in H. subst res. cbn [fst].
        destruct Ha as [-> _]. rewrite Hm0. exact Hc.
    Qed.

    (** The oracle accepts every step of the model from a state satisfying
        the invariant. *)
    Lemma oracle_step_ok now s o :
      Inv s ->
      let '(s', r) := step now s o in
      oracle_step info (obs_of s) (mkStep now o r (obs_of s')) = true.
    Proof.
      intro HI. unfold oracle_step. cbn [s_op s_obs s_reply s_now].
      change (o_locked (obs_of s)) with (locked s).
      destruct (locked s) eqn:Hlk; [destruct (step now s o); reflexivity|].
      destruct o; try (destruct (step now s _) as [s' r]; reflexivity).
      - (* List *)
        destruct (live_dec s) as [Hl|Hd].
        + pose proof (list_nf info script nofault now s Hl HI Hlk) as H.
          destruct (step now s List_) as [s' r]. destruct H as [-> [_ [Hp [Hm Hi]]]].
          apply listing_ok; assumption.
        + cbn [Shim.step]. rewrite Hlk. pose proof (filter_dead info script now s Hd) as H.
          destruct (filter_certs info script now s) as [s1 res]. cbn [snd] in H. subst res. reflexivity.
      - (* Signers *)
        destruct (live_dec s) as [Hl|Hd].
        + pose proof (signers_nf info script nofault now s Hl HI Hlk) as H.
          destruct (step now s Signers) as [s' r]. destruct H as [-> [_ [Hp [Hm Hi]]]].
          apply listing_ok; assumption.
        + cbn [Shim.step]. rewrite Hlk. pose proof (filter_dead info script now s Hd) as H.
          destruct (filter_certs info script now s) as [s1 res]. cbn [snd] in H. subst res. reflexivity.
      - (* Sign *)
        pose proof (sign_invalid now s key data flags HI Hlk) as H.
        pose proof (sign_keeps now s key data flags HI Hlk) as Hk.
        destruct (step now s (Sign key data flags)) as [s' r]. cbn [snd fst] in *.
        apply andb_true_iff. split.
        + rewrite spec_valid_eq. unfold valid_at. destruct (invalid_at info now key); [|reflexivity].
          cbn [negb orb]. apply H. reflexivity.
        + cbn [o_mem obs_of]. apply forallb_sortN. intros x Hx. rewrite mem_b_sortN, obs_reported_eq.
          destruct (spec_valid info now x && spec_backed info (reported (ua s)) x) eqn:E; [|reflexivity].
          cbn [negb orb]. apply mem_b_In. apply Hk; [exact Hx|]. rewrite keeps_spec, andb_comm. exact E.
    Qed.

    Lemma oracle_model s h :
      Inv s -> oracle info (obs_of s) (model_steps info script s h) = true.
    Proof.
      unfold oracle. revert s. induction h as [|[now o] h IH]; intros s HI; cbn [model_steps all_steps]; [reflexivity|].
      pose proof (oracle_step_ok now s o HI) as H. pose proof (step_inv info script now s o HI) as HI'.
      destruct (step now s o) as [s' r]. cbn [all_steps s_obs fst] in *. rewrite H, IH by exact HI'. reflexivity.
    Qed.

    (** Orphans: a non-empty report lacking the key drops the hardware
        certificate; an empty report drops nothing for that reason. *)
    Lemma orphans now s o c :
      live s -> Inv s -> locked s = false -> o = List_ \/ o = Signers -> In c (mem s) ->
      let s' := fst (step now s o) in
      (reported (ua s) <> [] -> ~ In (pubkey_of info c) (map (pubkey_of info) (reported (ua s))) -> ~ In c (mem s')) /\
      (reported (ua s) = [] -> invalid_at info now c = false -> In c (mem s')).
    Proof.
      intros Hl HI Hlk Ho Hc.
      assert (Hm : mem (fst (step now s o)) = filter (keeps info now (reported (ua s))) (mem s)).
      { destruct Ho as [-> | ->].
        - pose proof (list_nf info script nofault now s Hl HI Hlk) as H.
          destruct (step now s List_) as [s' r]. tauto.
        - pose proof (signers_nf info script nofault now s Hl HI Hlk) as H.
          destruct (step now s Signers) as [s' r]. tauto. }
      cbn zeta. rewrite Hm. split.
      - intros Hne Hk Hin. apply filter_In in Hin. destruct Hin as [_ Hin]. unfold keeps in Hin.
        apply andb_true_iff in Hin. destruct Hin as [Hin _].
        destruct (reported (ua s)) as [|a L] eqn:E; [contradiction|].
        cbn [nonempty andb] in Hin. unfold orphan_of in Hin. rewrite negb_involutive in Hin.
        apply mem_b_In in Hin. contradiction.
      - intros He Hv. apply filter_In. split; [exact Hc|]. unfold keeps. rewrite He, Hv. reflexivity.
    Qed.
  End NoFault.

  (** ** Under any fault script: whatever List returns holds no certificate
      outside its window, and neither does the in-memory table afterwards. *)
  Lemma list_agent_incl view : forall s x, In x (snd (list_agent info s view)) -> In x view.
  Proof.
    induction view as [|b view IH]; intros s x; cbn [list_agent]; [tauto|].
    destruct (negb (is_cert info b)).
    { specialize (IH s x). destruct (list_agent info s view) as [s' l]. cbn [snd In] in *. tauto. }
    destruct (mem_b b (cache s)); [intro H; right; eapply IH; eauto|].
    destruct (noup s && ysshca info b); [intro H; right; eapply IH; eauto|].
    specialize (IH s x). destruct (list_agent info s view) as [s' l]. cbn [snd In] in *. tauto.
  Qed.

  Lemma acall_list_nodup script s :
    Inv s ->
    match snd (acall script u_list s) with Some L => NoDup L | None => True end.
  Proof.
    intro HI. unfold acall. destruct (closed s); [exact I|].
    unfold call. destruct (alive (ua s)); cbn [negb]; [|exact I].
    destruct (script (reqno (ua s))) as [ft|]; [destruct (is_close (f_kind ft)); exact I|].
    cbn [u_list snd]. change (reported (bump (ua s))) with (reported (ua s)).
    unfold reported. destruct (ulocked (ua s)); [constructor|apply (inv_ids_nodup _ _ HI)].
  Qed.

  Lemma list_sound script now s :
    Inv s ->
    let '(s', r) := step info script now s List_ in
    match r with
    | RList l => locked s = true \/
                 ((forall b, In b l -> invalid_at info now b = false) /\
                  (forall b, In b (mem s') -> invalid_at info now b = false))
    | _ => True
    end.
  Proof.
    intro HI. cbn [step]. destruct (locked s) eqn:Hlk; [left; reflexivity|].
    pose proof (filter_certs_any info script now s) as H.
    pose proof (acall_list_nodup script s HI) as Hnd.
    destruct (acall script u_list s) as [s0 r0]. cbn [snd] in Hnd.
    destruct (filter_certs info script now s) as [s1 res].
    destruct r0 as [L|]; [|destruct H as [_ ->]; exact I].
    destruct H as [_ [_ [_ [_ [_ [Hk Hv]]]]]].
    destruct res as [view|]; [|exact I].
    pose proof (list_agent_incl view s1) as Hincl. destruct (list_agent_mem info view s1) as [Hm2 _].
    destruct (list_agent info s1 view) as [s2 l]. cbn [snd fst] in *.
    right. assert (Hmem : forall b, In b (mem s1) -> invalid_at info now b = false).
    { intros b Hb. specialize (Hk ltac:(discriminate) b Hb). unfold keeps in Hk.
      apply andb_true_iff in Hk. destruct Hk as [_ Hk]. apply negb_true_iff in Hk. exact Hk. }
    split.
    - intros b Hb. apply in_app_or in Hb. destruct Hb as [Hb|Hb]; [apply Hmem; exact Hb|].
      apply Hincl in Hb. destruct (Hv view eq_refl Hnd b Hb) as [_ Hb']. exact Hb'.
    - rewrite Hm2. exact Hmem.
  Qed.
End World.
