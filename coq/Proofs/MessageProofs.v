(** Lemmas behind the C15 property theorems (and the message part of C14). *)
From Verif Require Import Lib.Base Lib.Json Lib.Str Generated.MessageGen Model.Message
  Model.C15Check Proofs.StrProofs.
Local Open Scope bool_scope.
Set Default Timeout 120.

(** * The generated tables are the ones the property speaks about. *)
Definition spec_attrs_json_names : list str :=
  map tx ["ifVer"; "username"; "hostname"; "sshClientVersion"; "caPubKeyAlgo"; "signatureAlgo";
          "hardKey"; "touch2SSH"; "touchlessSudo"; "exts"]%string.
Definition spec_attrs_omitempty : list bool :=
  [false; false; false; false; true; true; false; true; true; true].
Definition spec_ts_json_names : list str := map tx ["isFirefighter"; "hosts"; "time"]%string.
Definition spec_ts_omitempty : list bool := [true; true; true].

Lemma attrs_table_is_spec :
  attrs_json_names = spec_attrs_json_names /\ attrs_omitempty = spec_attrs_omitempty /\
  ts_json_names = spec_ts_json_names /\ ts_omitempty = spec_ts_omitempty.
Proof. vm_compute. repeat split; reflexivity. Qed.

Lemma attrs_types_is_spec :
  attrs_go_types = map tx ["int"; "string"; "string"; "string"; "x509.PublicKeyAlgorithm";
                           "x509.SignatureAlgorithm"; "bool"; "bool"; "*TouchlessSudo";
                           "map[string]interface{}"]%string /\
  ts_go_types = map tx ["bool"; "string"; "int64"]%string.
Proof. vm_compute. split; reflexivity. Qed.

Lemma legacy_names_is_spec :
  legacy_interface_version = tx "IFVer=6" /\ ifver_attr = tx "IFVer" /\
  ssh_client_version_attr = tx "SSHClientVersion" /\ requester_attr = tx "req" /\
  hard_key_attr = tx "HardKey" /\ touch2ssh_attr = tx "Touch2SSH" /\
  is_firefighter_attr = tx "IsFirefighter" /\
  touchless_sudo_hosts_attr = tx "TouchlessSudoHosts" /\
  touchless_sudo_time_attr = tx "TouchlessSudoTime".
Proof. vm_compute. repeat split; reflexivity. Qed.

(** MarshalLegacy writes each value under its own attribute name, and
    UnmarshalLegacy reads each destination from the same name. *)
Lemma legacy_writes_is_spec :
  legacy_writes =
  [ (tx "sshClientVersionAttr", (tx "%s=%s", [tx "SSHClientVersion"]));
    (tx "requesterAttr", (tx "%s=%s@%s", [tx "Username"; tx "Hostname"]));
    (tx "hardKeyAttr", (tx "%s=%v", [tx "HardKey"]));
    (tx "touch2SSHAttr", (tx "%s=%v", [tx "Touch2SSH"]));
    (tx "isFirefighterAttr", (tx "%s=%v", [tx "TouchlessSudo.IsFirefighter"]));
    (tx "touchlessSudoHostsAttr", (tx "%s=%s", [tx "TouchlessSudo.Hosts"]));
    (tx "touchlessSudoTimeAttr", (tx "%s=%d", [tx "TouchlessSudo.Time"])) ].
Proof. vm_compute. reflexivity. Qed.

Lemma legacy_reads_is_spec :
  legacy_reads =
  [ (tx "ifVerAttr", (tx "IfVer", tx "strconv.Atoi"));
    (tx "hardKeyAttr", (tx "HardKey", tx "strconv.ParseBool"));
    (tx "touch2SSHAttr", (tx "Touch2SSH", tx "strconv.ParseBool"));
    (tx "isFirefighterAttr", (tx "IsFirefighter", tx "strconv.ParseBool"));
    (tx "touchlessSudoHostsAttr", (tx "Hosts", tx "="));
    (tx "touchlessSudoTimeAttr", (tx "Time", tx "strconv.ParseInt,10,0")) ].
Proof. vm_compute. reflexivity. Qed.

(** The legacy parser cuts the text at single spaces, trims each token, cuts
    it at the FIRST '=' (strings.Index), and cuts the requester at '@'. *)
Lemma legacy_parser_calls_is_spec :
  legacy_parser_calls =
  [ tx "strings.Split(attrsStr,"" "")"; tx "strings.TrimSpace(attribute)";
    tx "strings.Index(attribute,""="")"; tx "strings.Split(requester,""@"")" ].
Proof. vm_compute. reflexivity. Qed.

Lemma marshal_shape_is_spec :
  json_ifver_threshold = 7%Z /\ json_ifver_cmp = tx "<" /\ marshal_calls_sanity = true /\
  sanity_required = [tx "SSHClientVersion"; tx "Username"; tx "Hostname"].
Proof. vm_compute. repeat split; reflexivity. Qed.

Lemma unmarshal_shape_is_spec :
  unmarshal_decodes_into_pointer_value = true /\ unmarshal_falls_back_to_legacy = true /\
  unmarshal_calls_sanity = true /\ unmarshal_calls_populate = true.
Proof. vm_compute. repeat split; reflexivity. Qed.

(** * sanityCheck *)
Lemma sanity_unfold a :
  sanity a = if is_empty (sshClientVersion a) then Some 1%N
             else if is_empty (username a) then Some 2%N
             else if is_empty (hostname a) then Some 3%N else None.
Proof. reflexivity. Qed.

Lemma sanity_none_iff a : sanity a = None <-> sanity_spec a = true.
Proof.
  rewrite sanity_unfold. unfold sanity_spec.
  destruct (is_empty (sshClientVersion a)), (is_empty (username a)), (is_empty (hostname a));
    cbn; split; (reflexivity || discriminate).
Qed.

Lemma sanity_populate a : sanity (populate a) = sanity a.
Proof. rewrite !sanity_unfold. unfold populate. destruct (touchlessSudo a); reflexivity. Qed.

Lemma sanity_spec_populate a : sanity_spec (populate a) = sanity_spec a.
Proof. unfold sanity_spec, populate. destruct (touchlessSudo a); reflexivity. Qed.

(** The encoder refuses exactly the attribute sets missing a required field. *)
Lemma marshal_ok_iff a : is_ok (marshal a) = true <-> sanity_spec a = true.
Proof.
  unfold marshal. rewrite <- sanity_none_iff.
  destruct (sanity a); [split; discriminate|].
  destruct (ifVer a <? json_ifver_threshold)%Z; split; reflexivity.
Qed.

Lemma marshal_refuses a w : marshal a = Ok w -> sanity_spec a = true.
Proof. intros H. apply marshal_ok_iff. rewrite H. reflexivity. Qed.

Lemma marshal_format a w :
  marshal a = Ok w ->
  (ifVer a < 7 /\ w = WLegacy (marshal_legacy a))%Z \/ (7 <= ifVer a /\ w = WJson (marshal_json a))%Z.
Proof.
  unfold marshal. destruct (sanity a); [discriminate|].
  change json_ifver_threshold with 7%Z.
  destruct (Z.ltb_spec (ifVer a) 7) as [Hlt|Hge]; intros H; injection H as <-; [left|right]; split; (assumption || reflexivity).
Qed.

(** * Input that decodes as a JSON attribute object *)
Lemma unmarshal_json_decides text j a0 :
  decode_struct j = Some a0 ->
  unmarshal text (Some j) = match sanity a0 with
                            | Some c => Val (Err c)
                            | None => Val (Ok (populate a0))
                            end.
Proof. intros H. unfold unmarshal. rewrite H. reflexivity. Qed.

Lemma unmarshal_json_ok_sanity text j a0 a :
  decode_struct j = Some a0 -> unmarshal text (Some j) = Val (Ok a) ->
  a = populate a0 /\ sanity_spec a0 = true /\ sanity_spec a = true.
Proof.
  intros Hd. rewrite (unmarshal_json_decides text j a0 Hd).
  destruct (sanity a0) eqn:Hs; [discriminate|]. intros H. injection H as <-.
  apply sanity_none_iff in Hs. rewrite sanity_spec_populate. auto.
Qed.

(** * Totality: the legacy parser never indexes out of range. *)
Lemma parse_token_total t : exists kv, parse_token t = Val kv.
Proof.
  unfold parse_token. destruct (index_of_char 61 t) as [i|] eqn:E; [|eauto].
  apply index_of_char_some in E as (k & v & -> & <- & _).
  rewrite go_slice_prefix. cbn [obind]. rewrite go_from_suffix. cbn [obind]. eauto.
Qed.

Lemma parse_tokens_total ts m : exists m', parse_tokens ts m = Val m'.
Proof.
  revert m. induction ts as [|t r IH]; intros m; cbn [parse_tokens]; [eauto|].
  destruct (is_empty (trim_space t)); [apply IH|].
  destruct (parse_token_total (trim_space t)) as (kv & ->). cbn [obind]. apply IH.
Qed.

Lemma unmarshal_legacy_total text : exists r, unmarshal_legacy text = Val r.
Proof.
  unfold unmarshal_legacy, parse_attrs_legacy.
  destruct (parse_tokens_total (split_on 32 text) []) as (m & ->). cbn [obind].
  destruct (lookup requester_attr m) as [rq|]; [|eauto].
  destruct (split_on 64 rq) as [|u [|h [|x l]]] eqn:E; cbn [length Nat.eqb negb]; cbv iota;
    unfold go_index; cbn [nth_error obind]; eexists; reflexivity.
Qed.

Lemma unmarshal_total text tree : exists r, unmarshal text tree = Val r.
Proof.
  unfold unmarshal.
  destruct (match tree with Some j => decode_struct j | None => None end) as [a|].
  - destruct (sanity a); eauto.
  - apply unmarshal_legacy_total.
Qed.

(** * Induction on JSON trees *)
Section JsonInd.
  Variable P : json -> Prop.
  Hypothesis HNull : P JNull.
  Hypothesis HBool : forall b, P (JBool b).
  Hypothesis HNum : forall n, P (JNum n).
  Hypothesis HStr : forall s, P (JStr s).
  Hypothesis HArr : forall xs, Forall P xs -> P (JArr xs).
  Hypothesis HObj : forall kvs, Forall (fun p => P (snd p)) kvs -> P (JObj kvs).
  Fixpoint json_induction (j : json) : P j :=
    match j with
    | JNull => HNull
    | JBool b => HBool b
    | JNum n => HNum n
    | JStr s => HStr s
    | JArr xs => HArr xs ((fix go (l : list json) : Forall P l :=
                             match l with
                             | [] => Forall_nil P
                             | x :: r => Forall_cons x (json_induction x) (go r)
                             end) xs)
    | JObj kvs => HObj kvs ((fix go (l : list (str * json)) : Forall (fun p => P (snd p)) l :=
                               match l with
                               | [] => Forall_nil _
                               | p :: r => Forall_cons p (json_induction (snd p)) (go r)
                               end) kvs)
    end.
End JsonInd.

Lemma jnum_eqb_refl n : jnum_eqb n n = true.
Proof. destruct n; cbn; [rewrite Bool.eqb_reflx, N.eqb_refl; reflexivity|apply str_eqb_refl]. Qed.

Lemma json_eqb_refl j : json_eqb j j = true.
Proof.
  induction j as [| b | n | s | xs IH | kvs IH] using json_induction; cbn [json_eqb].
  - reflexivity.
  - apply Bool.eqb_reflx.
  - apply jnum_eqb_refl.
  - apply str_eqb_refl.
  - induction IH as [|x r Hx Hr IHr]; [reflexivity|]. rewrite Hx. exact IHr.
  - induction IH as [|[k v] r Hx Hr IHr]; [reflexivity|]. cbn [snd] in Hx.
    rewrite str_eqb_refl, Hx. exact IHr.
Qed.

Lemma kvs_eqb_refl m : kvs_eqb m m = true.
Proof. apply json_eqb_refl. Qed.

(** * The order on keys *)
Lemma str_ltb_irrefl a : str_ltb a a = false.
Proof. induction a as [|x a IH]; cbn [str_ltb]; [reflexivity|]. rewrite N.ltb_irrefl, N.eqb_refl, IH. reflexivity. Qed.

Lemma str_ltb_trans a b c : str_ltb a b = true -> str_ltb b c = true -> str_ltb a c = true.
Proof.
  revert b c. induction a as [|x a IH]; intros [|y b] [|z c]; cbn [str_ltb]; try (intros; (reflexivity || discriminate)).
  rewrite !orb_true_iff, !andb_true_iff, !N.ltb_lt, !N.eqb_eq.
  intros [H1|[H1 H1']] [H2|[H2 H2']].
  - left. lia.
  - left. lia.
  - left. lia.
  - right. split; [lia|]. eapply IH; eassumption.
Qed.

Lemma str_ltb_asym a b : str_ltb a b = true -> str_ltb b a = false.
Proof.
  intros H. destruct (str_ltb b a) eqn:E; [|reflexivity].
  pose proof (str_ltb_trans _ _ _ H E) as Ht. rewrite str_ltb_irrefl in Ht. discriminate.
Qed.

Lemma str_ltb_neq a b : str_ltb a b = true -> str_eqb b a = false.
Proof.
  intros H. destruct (str_eqb_spec b a) as [->|]; [|reflexivity].
  rewrite str_ltb_irrefl in H. discriminate.
Qed.

(** * Canonical extension maps are fixed points of the decoder's rendering. *)
Lemma insert_last k v acc :
  (forall p, In p acc -> str_ltb (fst p) k = true) -> insert k v acc = acc ++ [(k, v)].
Proof.
  induction acc as [|[k' v'] r IH]; intros H; cbn [insert app]; [reflexivity|].
  assert (Hk : str_ltb k' k = true) by (apply (H (k', v')); left; reflexivity).
  rewrite (str_ltb_neq _ _ Hk), (str_ltb_asym _ _ Hk).
  rewrite IH; [reflexivity|]. intros p Hp. apply H. right. assumption.
Qed.

Lemma keys_increasing_all p kvs :
  keys_increasing (Some p) kvs = true -> forall q, In q kvs -> str_ltb p (fst q) = true.
Proof.
  revert p. induction kvs as [|[k v] r IH]; intros p H q Hq; [contradiction|].
  cbn [keys_increasing] in H. apply andb_true_iff in H as [H1 H2].
  destruct Hq as [<-|Hq]; [exact H1|].
  apply (str_ltb_trans _ k); [exact H1|]. exact (IH k H2 q Hq).
Qed.

Lemma keys_increasing_tail prev k v r :
  keys_increasing prev ((k, v) :: r) = true -> keys_increasing (Some k) r = true.
Proof. cbn [keys_increasing]. intros H. apply andb_true_iff in H as [_ H]. exact H. Qed.

Lemma canon_obj kvs : canon (JObj kvs) = JObj (insert_all kvs []).
Proof. reflexivity. Qed.

Lemma insert_all_sorted kvs : forall prev acc,
  keys_increasing prev kvs = true ->
  (forall p q, In p acc -> In q kvs -> str_ltb (fst p) (fst q) = true) ->
  Forall (fun p => canon (snd p) = snd p) kvs ->
  insert_all kvs acc = acc ++ kvs.
Proof.
  induction kvs as [|[k v] r IH]; intros prev acc Hs Hlt Hc; cbn [insert_all].
  - rewrite app_nil_r. reflexivity.
  - inversion Hc as [|? ? Hv Hr]; subst. cbn [snd] in Hv. rewrite Hv.
    rewrite insert_last.
    + rewrite (IH (Some k)).
      * rewrite <- app_assoc. reflexivity.
      * exact (keys_increasing_tail _ _ _ _ Hs).
      * intros p q Hp Hq. apply in_app_or in Hp as [Hp|[<-|[]]].
        -- apply Hlt; [assumption|right; assumption].
        -- cbn [fst]. exact (keys_increasing_all k r (keys_increasing_tail _ _ _ _ Hs) q Hq).
      * assumption.
    + intros p Hp. apply (Hlt p (k, v)); [assumption|left; reflexivity].
Qed.

Lemma is_canon_arr xs : is_canon (JArr xs) = forallb is_canon xs.
Proof. cbn [is_canon]. induction xs as [|x r IH]; [reflexivity|]. cbn [forallb]. rewrite IH. reflexivity. Qed.

Lemma is_canon_obj kvs :
  is_canon (JObj kvs) = keys_increasing None kvs && forallb (fun p => is_canon (snd p)) kvs.
Proof.
  cbn [is_canon]. f_equal. induction kvs as [|[k v] r IH]; [reflexivity|].
  cbn [forallb snd]. rewrite IH. reflexivity.
Qed.

Lemma canon_arr xs : canon (JArr xs) = JArr (map canon xs).
Proof.
  cbn [canon]. f_equal.
  all: try (induction xs as [|x r IH]; [reflexivity|]; cbn [map]; rewrite IH; reflexivity).
Qed.

Lemma canon_fixed j : is_canon j = true -> canon j = j.
Proof.
  induction j as [| b | n | s | xs IH | kvs IH] using json_induction; intros H; try reflexivity.
  - rewrite canon_arr. f_equal. rewrite is_canon_arr in H.
    induction IH as [|x r Hx Hr IHr]; [reflexivity|].
    cbn [forallb] in H. apply andb_true_iff in H as [H1 H2].
    cbn [map]. rewrite (Hx H1), (IHr H2). reflexivity.
  - rewrite canon_obj. f_equal. rewrite is_canon_obj in H. apply andb_true_iff in H as [Hs Hv].
    rewrite (insert_all_sorted kvs None []); [reflexivity|assumption|intros p q []|].
    clear Hs. induction IH as [|p r Hp Hr IHr]; [constructor|].
    cbn [forallb] in Hv. apply andb_true_iff in Hv as [H1 H2].
    constructor; [exact (Hp H1)|exact (IHr H2)].
Qed.

Lemma insert_all_canon m : is_canon (JObj m) = true -> insert_all m [] = m.
Proof. intros H. apply canon_fixed in H. rewrite canon_obj in H. congruence. Qed.

(** * JSON round trip *)
Lemma in_int64_spec z : in_int64 z = true -> (int64_min <= z <= int64_max)%Z.
Proof. unfold in_int64. rewrite andb_true_iff, !Z.leb_le. tauto. Qed.

Lemma parse_int_roundtrip lo hi z :
  (lo <= z <= hi)%Z -> parse_int lo hi (JInt (Z.ltb z 0) (Z.abs_N z)) = Some z.
Proof.
  intros H. unfold parse_int.
  assert (Hv : (if (z <? 0)%Z then (- Z.of_N (Z.abs_N z))%Z else Z.of_N (Z.abs_N z)) = z).
  { rewrite N2Z.inj_abs_N. destruct (Z.ltb_spec z 0); lia. }
  rewrite Hv.
  destruct (Z.leb_spec lo z); [|lia]. destruct (Z.leb_spec z hi); [|lia]. reflexivity.
Qed.

Lemma dec_int_roundtrip old z :
  in_int64 z = true -> dec_int int64_min int64_max old (jint_of_Z z) = (z, false).
Proof.
  intros H. unfold dec_int, jint_of_Z.
  rewrite parse_int_roundtrip by (apply in_int64_spec; assumption). reflexivity.
Qed.

Lemma decode_fields_app l1 l2 a e :
  decode_fields (l1 ++ l2) a e =
  let '(a1, e1) := decode_fields l1 a e in decode_fields l2 a1 e1.
Proof.
  revert a e. induction l1 as [|[k v] r IH]; intros a e; cbn [app decode_fields]; [reflexivity|].
  destruct (find_field attrs_json_names k) as [i|]; [destruct (set_field i v a) as [a' e']|]; apply IH.
Qed.

Lemma decode_fields_step l1 l2 a e a1 e1 :
  decode_fields l1 a e = (a1, e1) -> decode_fields (l1 ++ l2) a e = decode_fields l2 a1 e1.
Proof. intros H. rewrite decode_fields_app, H. reflexivity. Qed.

Ltac eval_find_field :=
  match goal with
  | |- context [find_field ?ns ?n] =>
      let r := eval vm_compute in (find_field ns n) in
      change (find_field ns n) with r
  end.

Ltac open_entry :=
  unfold attr_entry, entry;
  cbn [nth attrs_omitempty attrs_json_names ts_omitempty ts_json_names andb].

Ltac step_attr :=
  cbn [decode_fields]; eval_find_field;
  cbn [set_field dec_str dec_bool ifVer username hostname sshClientVersion caPubKeyAlgo
       signatureAlgo hardKey touch2SSH touchlessSudo exts].

Section Entries.
  Variables (iv : Z) (u h v : str) (pk sg : Z) (hk t2 : bool)
            (ts : option TouchlessSudo) (ex : option (list (str * json))) (e : bool).

  Lemma entry_ifVer z : in_int64 z = true ->
    decode_fields (attr_entry 0 (jint_of_Z z) (Z.eqb z 0)) (mkAttrs iv u h v pk sg hk t2 ts ex) e
    = (mkAttrs z u h v pk sg hk t2 ts ex, e).
  Proof.
    intros Hz. open_entry. step_attr. rewrite dec_int_roundtrip by assumption.
    cbn [decode_fields]. rewrite orb_false_r. reflexivity.
  Qed.

  Lemma entry_username x :
    decode_fields (attr_entry 1 (JStr x) (is_empty x)) (mkAttrs iv u h v pk sg hk t2 ts ex) e
    = (mkAttrs iv x h v pk sg hk t2 ts ex, e).
  Proof. open_entry. step_attr. cbn [decode_fields]. rewrite orb_false_r. reflexivity. Qed.

  Lemma entry_hostname x :
    decode_fields (attr_entry 2 (JStr x) (is_empty x)) (mkAttrs iv u h v pk sg hk t2 ts ex) e
    = (mkAttrs iv u x v pk sg hk t2 ts ex, e).
  Proof. open_entry. step_attr. cbn [decode_fields]. rewrite orb_false_r. reflexivity. Qed.

  Lemma entry_version x :
    decode_fields (attr_entry 3 (JStr x) (is_empty x)) (mkAttrs iv u h v pk sg hk t2 ts ex) e
    = (mkAttrs iv u h x pk sg hk t2 ts ex, e).
  Proof. open_entry. step_attr. cbn [decode_fields]. rewrite orb_false_r. reflexivity. Qed.

  Lemma entry_capk z : in_int64 z = true ->
    decode_fields (attr_entry 4 (jint_of_Z z) (Z.eqb z 0)) (mkAttrs iv u h v 0 sg hk t2 ts ex) e
    = (mkAttrs iv u h v z sg hk t2 ts ex, e).
  Proof.
    intros Hz. open_entry. destruct (Z.eqb_spec z 0) as [->|Hn]; [reflexivity|].
    step_attr. rewrite dec_int_roundtrip by assumption.
    cbn [decode_fields]. rewrite orb_false_r. reflexivity.
  Qed.

  Lemma entry_sig z : in_int64 z = true ->
    decode_fields (attr_entry 5 (jint_of_Z z) (Z.eqb z 0)) (mkAttrs iv u h v pk 0 hk t2 ts ex) e
    = (mkAttrs iv u h v pk z hk t2 ts ex, e).
  Proof.
    intros Hz. open_entry. destruct (Z.eqb_spec z 0) as [->|Hn]; [reflexivity|].
    step_attr. rewrite dec_int_roundtrip by assumption.
    cbn [decode_fields]. rewrite orb_false_r. reflexivity.
  Qed.

  Lemma entry_hardKey b :
    decode_fields (attr_entry 6 (JBool b) (negb b)) (mkAttrs iv u h v pk sg hk t2 ts ex) e
    = (mkAttrs iv u h v pk sg b t2 ts ex, e).
  Proof. open_entry. step_attr. cbn [decode_fields]. rewrite orb_false_r. reflexivity. Qed.

  Lemma entry_touch2SSH b :
    decode_fields (attr_entry 7 (JBool b) (negb b)) (mkAttrs iv u h v pk sg hk false ts ex) e
    = (mkAttrs iv u h v pk sg hk b ts ex, e).
  Proof.
    open_entry. destruct b; cbn [negb]; [|reflexivity].
    step_attr. cbn [decode_fields]. rewrite orb_false_r. reflexivity.
  Qed.
End Entries.

(** The nested struct. *)
Ltac step_ts :=
  cbn [decode_ts_fields]; eval_find_field;
  cbn [set_ts_field dec_str dec_bool tsFF tsHosts tsTime orb].

Lemma dec_ts_encode t :
  in_int64 (tsTime t) = true -> dec_ts None (encode_ts t) = (Some t, false).
Proof.
  destruct t as [ff hosts time]. cbn [tsTime]. intros Ht.
  unfold encode_ts, dec_ts, entry. cbn [nth ts_omitempty ts_json_names andb tsFF tsHosts tsTime].
  destruct ff, hosts as [|c hosts], (Z.eqb_spec time 0) as [->|Hn];
    cbn [negb is_empty app]; unfold zeroTS;
    repeat step_ts; try rewrite dec_int_roundtrip by assumption;
    cbn [decode_ts_fields orb]; reflexivity.
Qed.

Section Entries2.
  Variables (iv : Z) (u h v : str) (pk sg : Z) (hk t2 : bool)
            (ts : option TouchlessSudo) (ex : option (list (str * json))) (e : bool).

  Lemma entry_ts x :
    match x with Some t => in_int64 (tsTime t) = true | None => True end ->
    decode_fields (attr_entry 8 (match x with Some t => encode_ts t | None => JNull end)
                              (match x with Some _ => false | None => true end))
                  (mkAttrs iv u h v pk sg hk t2 None ex) e
    = (mkAttrs iv u h v pk sg hk t2 x ex, e).
  Proof.
    intros Hx. open_entry. destruct x as [t|]; [|reflexivity].
    cbn [decode_fields]. eval_find_field. cbn [set_field touchlessSudo].
    rewrite dec_ts_encode by assumption.
    cbn [decode_fields]. rewrite orb_false_r. reflexivity.
  Qed.

  Lemma entry_exts x :
    match x with Some m => is_canon (JObj m) = true | None => True end ->
    decode_fields (attr_entry 9 (JObj (match x with Some m => m | None => [] end))
                              (match x with Some (_ :: _) => false | _ => true end))
                  (mkAttrs iv u h v pk sg hk t2 ts None) e
    = (mkAttrs iv u h v pk sg hk t2 ts (norm_exts x), e).
  Proof.
    intros Hx. open_entry. destruct x as [[|p m]|]; [reflexivity| |reflexivity].
    cbn [decode_fields]. eval_find_field. cbn [set_field exts dec_exts].
    rewrite (insert_all_canon _ Hx).
    cbn [decode_fields]. rewrite orb_false_r. reflexivity.
  Qed.
End Entries2.

(** What json.Unmarshal rebuilds from the encoder's output: [a] itself, except
    that an empty extension map (dropped by omitempty) reads back as nil. *)
Definition drop_empty_exts (a : Attributes) : Attributes :=
  mkAttrs (ifVer a) (username a) (hostname a) (sshClientVersion a) (caPubKeyAlgo a)
          (signatureAlgo a) (hardKey a) (touch2SSH a) (touchlessSudo a)
          (norm_exts (exts a)).

Lemma in_range_spec a :
  in_range a = true ->
  in_int64 (ifVer a) = true /\ in_int64 (caPubKeyAlgo a) = true /\ in_int64 (signatureAlgo a) = true /\
  match touchlessSudo a with Some t => in_int64 (tsTime t) = true | None => True end.
Proof.
  unfold in_range. rewrite !andb_true_iff. intros [[[H1 H2] H3] H4].
  repeat split; try assumption. destruct (touchlessSudo a); [assumption|exact I].
Qed.

Lemma decode_marshal_json a :
  in_range a = true -> exts_canonical a = true ->
  decode_struct (marshal_json a) = Some (drop_empty_exts a).
Proof.
  intros Hr Hc. apply in_range_spec in Hr as (H1 & H2 & H3 & H4).
  unfold exts_canonical in Hc.
  unfold decode_struct, marshal_json, zeroAttrs.
  rewrite (decode_fields_step _ _ _ _ _ _ (entry_ifVer _ _ _ _ _ _ _ _ _ _ _ _ H1)).
  rewrite (decode_fields_step _ _ _ _ _ _ (entry_username _ _ _ _ _ _ _ _ _ _ _ _)).
  rewrite (decode_fields_step _ _ _ _ _ _ (entry_hostname _ _ _ _ _ _ _ _ _ _ _ _)).
  rewrite (decode_fields_step _ _ _ _ _ _ (entry_version _ _ _ _ _ _ _ _ _ _ _ _)).
  rewrite (decode_fields_step _ _ _ _ _ _ (entry_capk _ _ _ _ _ _ _ _ _ _ _ H2)).
  rewrite (decode_fields_step _ _ _ _ _ _ (entry_sig _ _ _ _ _ _ _ _ _ _ _ H3)).
  rewrite (decode_fields_step _ _ _ _ _ _ (entry_hardKey _ _ _ _ _ _ _ _ _ _ _ _)).
  rewrite (decode_fields_step _ _ _ _ _ _ (entry_touch2SSH _ _ _ _ _ _ _ _ _ _ _)).
  rewrite (decode_fields_step _ _ _ _ _ _ (entry_ts _ _ _ _ _ _ _ _ _ _ _ H4)).
  rewrite (entry_exts _ _ _ _ _ _ _ _ _ _ (exts a)).
  - reflexivity.
  - destruct (exts a); [assumption|exact I].
Qed.

Lemma populate_drop_empty a : populate (drop_empty_exts a) = normalize a.
Proof. destruct a as [iv u h v pk sg hk t2 [t|] ex]; reflexivity. Qed.

Lemma sanity_drop_empty a : sanity (drop_empty_exts a) = sanity a.
Proof. rewrite !sanity_unfold. reflexivity. Qed.

(** Decoding the JSON text of an accepted attribute set gives it back. *)
Lemma json_roundtrip a text :
  in_range a = true -> exts_canonical a = true -> sanity_spec a = true ->
  unmarshal text (Some (marshal_json a)) = Val (Ok (normalize a)).
Proof.
  intros Hr Hc Hs.
  rewrite (unmarshal_json_decides text _ _ (decode_marshal_json a Hr Hc)).
  rewrite sanity_drop_empty. apply sanity_none_iff in Hs. rewrite Hs.
  rewrite populate_drop_empty. reflexivity.
Qed.

Lemma ts_eqb_refl t : ts_eqb t t = true.
Proof. unfold ts_eqb. rewrite Bool.eqb_reflx, str_eqb_refl, Z.eqb_refl. reflexivity. Qed.

(** "all fields including extension maps come back equal" *)
Lemma attrs_equiv_normalize a : attrs_equiv a (normalize a) = true.
Proof.
  unfold attrs_equiv, normalize, populate.
  destruct (touchlessSudo a) as [t|] eqn:Et; cbn [ifVer username hostname sshClientVersion caPubKeyAlgo
    signatureAlgo hardKey touch2SSH touchlessSudo exts];
  rewrite ?Et, !Z.eqb_refl, !str_eqb_refl, !Bool.eqb_reflx; cbn [andb ts_fields];
  rewrite ts_eqb_refl; cbn [andb];
  destruct (exts a) as [[|p m]|]; cbn [exts_entries]; apply kvs_eqb_refl.
Qed.

(** * Legacy round trip (string level) *)
(** The (name, value) pairs MarshalLegacy writes, under the generated names. *)
Definition legacy_pairs (a : Attributes) : list (str * str) :=
  [ (ifver_attr, tx "6"); (ssh_client_version_attr, sshClientVersion a);
    (requester_attr, username a ++ 64%N :: hostname a) ] ++
  (if hardKey a then [(hard_key_attr, true_text)] else []) ++
  (if touch2SSH a then [(touch2ssh_attr, true_text)] else []) ++
  match touchlessSudo a with
  | None => []
  | Some t =>
      (if tsFF t then [(is_firefighter_attr, true_text)] else []) ++
      (if is_empty (tsHosts t) then [] else [(touchless_sudo_hosts_attr, tsHosts t)]) ++
      (if Z.eqb (tsTime t) 0 then [] else [(touchless_sudo_time_attr, print_Z (tsTime t))])
  end.

Definition token_of (p : str * str) : str := kv_token (fst p) (snd p).

Lemma legacy_tokens_pairs a : legacy_tokens a = map token_of (legacy_pairs a).
Proof.
  destruct a as [iv u h v pk sg hk t2 [[ff hosts time]|] ex];
    unfold legacy_tokens, legacy_pairs;
    cbn [hardKey touch2SSH touchlessSudo tsFF tsHosts tsTime sshClientVersion username hostname];
    destruct hk, t2; try destruct ff; try destruct (is_empty hosts); try destruct (Z.eqb time 0);
    reflexivity.
Qed.

(** The names match the property's names, so the extension map the decoder
    builds from the tokens is the one the property describes. *)
Lemma legacy_pairs_spec a : legacy_pairs a = legacy_spec_pairs a.
Proof. destruct a as [iv u h v pk sg hk t2 [t|] ex]; reflexivity. Qed.

Definition pair_ok (p : str * str) : Prop :=
  ~ In 61%N (fst p) /\ has_space (fst p) = false /\ has_space (snd p) = false.

Lemma clean_spec s : clean s = true -> has_space s = false /\ ~ In 64%N s.
Proof.
  unfold clean. rewrite andb_true_iff, !negb_true_iff. intros [H1 H2].
  split; [assumption|apply contains_char_false; assumption].
Qed.

Lemma legacy_clean_min_spec a :
  legacy_clean_min a = true ->
  has_space (sshClientVersion a) = false /\
  (has_space (username a) = false /\ ~ In 64%N (username a)) /\
  (has_space (hostname a) = false /\ ~ In 64%N (hostname a)) /\
  match touchlessSudo a with Some t => has_space (tsHosts t) = false | None => True end.
Proof.
  unfold legacy_clean_min. rewrite !andb_true_iff, negb_true_iff.
  intros [[[H1 H2] H3] H4]. apply clean_spec in H2. apply clean_spec in H3.
  repeat split; try tauto.
  destruct (touchlessSudo a); [apply negb_true_iff; assumption|exact I].
Qed.

(** The property's condition (every value free of whitespace and '@') implies
    the weaker one the proof needs. *)
Lemma legacy_clean_implies_min a : legacy_clean a = true -> legacy_clean_min a = true.
Proof.
  unfold legacy_clean, legacy_clean_min. intros H.
  apply andb_true_iff in H as [H H4]. apply andb_true_iff in H as [H H3].
  apply andb_true_iff in H as [H1 H2].
  unfold clean in H1. apply andb_true_iff in H1 as [H1 _].
  rewrite H1, H2, H3. cbn [andb].
  destruct (touchlessSudo a); [|reflexivity].
  unfold clean in H4. apply andb_true_iff in H4 as [H4 _]. exact H4.
Qed.

Ltac const_key_ok :=
  split; [apply contains_char_false; vm_compute; reflexivity|split; [vm_compute; reflexivity|]].

Lemma Forall_app_intro {A} (P : A -> Prop) l1 l2 :
  Forall P l1 -> Forall P l2 -> Forall P (l1 ++ l2).
Proof. intros H1 H2. apply Forall_app. split; assumption. Qed.

Lemma legacy_pairs_ok a : legacy_clean_min a = true -> Forall pair_ok (legacy_pairs a).
Proof.
  intros Hc. apply legacy_clean_min_spec in Hc as (Hv & (Hu & _) & (Hh & _) & Ht).
  unfold legacy_pairs.
  apply Forall_app_intro; [|apply Forall_app_intro; [|apply Forall_app_intro]].
  - constructor; [|constructor; [|constructor; [|constructor]]]; const_key_ok; cbn [snd].
    + vm_compute. reflexivity.
    + assumption.
    + change (username a ++ 64%N :: hostname a) with (username a ++ [64%N] ++ hostname a).
      rewrite !has_space_app, Hu, Hh. reflexivity.
  - destruct (hardKey a); [|constructor].
    constructor; [|constructor]. const_key_ok. vm_compute. reflexivity.
  - destruct (touch2SSH a); [|constructor].
    constructor; [|constructor]. const_key_ok. vm_compute. reflexivity.
  - destruct (touchlessSudo a) as [t|]; [|constructor].
    apply Forall_app_intro; [|apply Forall_app_intro].
    + destruct (tsFF t); [|constructor].
      constructor; [|constructor]. const_key_ok. vm_compute. reflexivity.
    + destruct (is_empty (tsHosts t)); [constructor|].
      constructor; [|constructor]. const_key_ok. assumption.
    + destruct (Z.eqb (tsTime t) 0); [constructor|].
      constructor; [|constructor]. const_key_ok. apply print_Z_no_space.
Qed.

Lemma parse_token_kv k v : ~ In 61%N k -> parse_token (kv_token k v) = Val (k, v).
Proof.
  intros H. unfold parse_token, kv_token. rewrite index_of_char_app by assumption.
  rewrite go_slice_prefix. cbn [obind]. rewrite go_from_suffix. reflexivity.
Qed.

Lemma kv_token_no_space k v :
  has_space k = false -> has_space v = false -> has_space (kv_token k v) = false.
Proof.
  intros Hk Hv. unfold kv_token. change (k ++ 61%N :: v) with (k ++ [61%N] ++ v).
  rewrite !has_space_app, Hk, Hv. reflexivity.
Qed.

Lemma kv_token_not_empty k v : is_empty (kv_token k v) = false.
Proof. unfold kv_token. destruct k; reflexivity. Qed.

(** Token layer: well-formed tokens joined by single spaces are recovered. *)
Lemma parse_tokens_pairs ps m :
  Forall pair_ok ps -> parse_tokens (map token_of ps) m = Val (rev ps ++ m).
Proof.
  revert m. induction ps as [|[k v] r IH]; intros m H; [reflexivity|].
  inversion H as [|? ? (Hk & Hks & Hvs) Hr]; subst. cbn [fst snd] in *.
  cbn [map parse_tokens]. change (token_of (k, v)) with (kv_token k v). cbv zeta.
  rewrite trim_space_id by (apply kv_token_no_space; assumption).
  rewrite kv_token_not_empty, parse_token_kv by assumption. cbn [obind].
  rewrite IH by assumption. cbn [rev]. rewrite <- app_assoc. reflexivity.
Qed.

Lemma parse_attrs_join ps :
  ps <> [] -> Forall pair_ok ps ->
  parse_attrs_legacy (join 32%N (map token_of ps)) = Val (rev ps).
Proof.
  intros Hne Hok. unfold parse_attrs_legacy.
  rewrite split_on_join.
  - rewrite parse_tokens_pairs by assumption. rewrite app_nil_r. reflexivity.
  - destruct ps; [contradiction|discriminate].
  - rewrite Forall_forall. intros t Hin. apply in_map_iff in Hin as ([k v] & <- & Hin).
    rewrite Forall_forall in Hok. destruct (Hok _ Hin) as (_ & Hk & Hv). cbn [fst snd] in *.
    apply not_space_not_32. unfold token_of. cbn [fst snd]. apply kv_token_no_space; assumption.
Qed.

Lemma parse_attrs_marshal_legacy a :
  legacy_clean_min a = true -> parse_attrs_legacy (marshal_legacy a) = Val (rev (legacy_pairs a)).
Proof.
  intros Hc. unfold marshal_legacy. rewrite legacy_tokens_pairs.
  apply parse_attrs_join; [|apply legacy_pairs_ok; assumption].
  unfold legacy_pairs. discriminate.
Qed.

Ltac eval_str_eqb :=
  repeat match goal with
  | |- context [str_eqb ?a ?b] =>
      let r := eval vm_compute in (str_eqb a b) in change (str_eqb a b) with r
  end.

(** Field layer. *)
Lemma legacy_fields a :
  legacy_clean_min a = true -> in_range a = true ->
  unmarshal_legacy (marshal_legacy a) =
  Val (Ok (mkAttrs 6 (username a) (hostname a) (sshClientVersion a) 0 0 (hardKey a) (touch2SSH a)
                   (Some (ts_fields (touchlessSudo a)))
                   (Some (exts_of_pairs (rev (legacy_pairs a)))))).
Proof.
  intros Hc Hr. unfold unmarshal_legacy. rewrite (parse_attrs_marshal_legacy a Hc). cbn [obind].
  generalize (exts_of_pairs (rev (legacy_pairs a))). intros X.
  apply legacy_clean_min_spec in Hc as (_ & (_ & Hu) & (_ & Hh) & _).
  apply in_range_spec in Hr as (_ & _ & _ & Ht).
  destruct a as [iv u h v pk sg hk t2 ts ex].
  cbn [username hostname sshClientVersion hardKey touch2SSH touchlessSudo] in *.
  unfold legacy_pairs.
  cbn [username hostname sshClientVersion hardKey touch2SSH touchlessSudo].
  destruct hk, t2, ts as [[ff hosts time]|]; cbn [tsFF tsHosts tsTime ts_fields] in *;
    try destruct ff; try destruct hosts as [|c hosts]; try destruct (Z.eqb_spec time 0) as [->|Hn];
    cbn [is_empty rev app];
    repeat (cbn [lookup]; eval_str_eqb; cbv iota);
    cbv beta iota zeta;
    rewrite (split_on_two_app 64%N u h Hu Hh);
    cbn [length Nat.eqb negb]; cbv iota; unfold go_index; cbn [nth_error obind];
    try (rewrite parse_int_print_Z by (apply in_int64_spec in Ht; exact Ht));
    reflexivity.
Qed.

Lemma exts_of_legacy_pairs a : exts_of_pairs (rev (legacy_pairs a)) = spec_exts a.
Proof. unfold exts_of_pairs, spec_exts. rewrite rev_involutive, legacy_pairs_spec. reflexivity. Qed.

(** Decoding the legacy text of [a] gives back version, user, host, hardware
    key, touch-to-SSH and the touchless-sudo fields, interface version 6, and
    the raw tokens as the extension map. *)
Lemma legacy_roundtrip a :
  legacy_clean_min a = true -> in_range a = true ->
  unmarshal_legacy (marshal_legacy a) =
  Val (Ok (mkAttrs 6 (username a) (hostname a) (sshClientVersion a) 0 0 (hardKey a) (touch2SSH a)
                   (Some (ts_fields (touchlessSudo a))) (Some (spec_exts a)))).
Proof. intros Hc Hr. rewrite (legacy_fields a Hc Hr), exts_of_legacy_pairs. reflexivity. Qed.

(** * The oracle used on the implementation holds of the model, for every input. *)
Definition unval (o : outcome (result N Attributes)) : result N Attributes :=
  match o with Val r => r | Panic => Err 0%N end.

(** What the model observes for an attribute set: the encoder's result and the
    decoder's result on the produced message. *)
Definition model_round (a : Attributes) : result N wire * result N Attributes :=
  (marshal a, match marshal a with Ok w => unval (model_decode w) | Err _ => Err 0%N end).

Lemma legacy_equiv_roundtrip a :
  legacy_equiv a (mkAttrs 6 (username a) (hostname a) (sshClientVersion a) 0 0 (hardKey a) (touch2SSH a)
                          (Some (ts_fields (touchlessSudo a))) (Some (spec_exts a))) = true.
Proof.
  unfold legacy_equiv.
  cbn [ifVer username hostname sshClientVersion hardKey touch2SSH touchlessSudo exts ts_fields exts_entries].
  rewrite !str_eqb_refl, !Bool.eqb_reflx, ts_eqb_refl, kvs_eqb_refl. reflexivity.
Qed.

Lemma oracle_round_holds a :
  well_formed a = true -> oracle_round a (fst (model_round a)) (snd (model_round a)) = true.
Proof.
  unfold well_formed. intros Hw. apply andb_true_iff in Hw as [Hr Hc].
  unfold model_round. cbn [fst snd]. unfold oracle_round.
  destruct (marshal a) as [w|c] eqn:Hm.
  - pose proof (marshal_refuses a w Hm) as Hs. rewrite Hs. cbn [andb].
    destruct (marshal_format a w Hm) as [[Hv ->]|[Hv ->]]; cbn [model_decode].
    + replace (ifVer a <? 7)%Z with true by (symmetry; apply Z.ltb_lt; assumption). cbn [andb].
      destruct (legacy_clean a) eqn:Hcl; [|reflexivity].
      unfold unmarshal. rewrite (legacy_roundtrip a (legacy_clean_implies_min a Hcl) Hr).
      cbn [unval]. apply legacy_equiv_roundtrip.
    + replace (7 <=? ifVer a)%Z with true by (symmetry; apply Z.leb_le; assumption). cbn [andb].
      rewrite (json_roundtrip a [] Hr Hc Hs). cbn [unval]. apply attrs_equiv_normalize.
  - destruct (sanity_spec a) eqn:Hs; [|reflexivity].
    apply marshal_ok_iff in Hs. rewrite Hm in Hs. discriminate.
Qed.

Lemma attrs_equiv_populate a : attrs_equiv a (populate a) = true.
Proof.
  destruct a as [iv u h v pk sg hk t2 [t|] [m|]]; unfold attrs_equiv, populate;
    cbn [ifVer username hostname sshClientVersion caPubKeyAlgo signatureAlgo hardKey touch2SSH
         touchlessSudo exts ts_fields exts_entries];
    rewrite !Z.eqb_refl, !str_eqb_refl, !Bool.eqb_reflx, ts_eqb_refl, kvs_eqb_refl; reflexivity.
Qed.

Lemma oracle_decode_holds text tree : oracle_decode tree (unval (unmarshal text tree)) = true.
Proof.
  unfold oracle_decode. destruct (modelable tree); [|reflexivity]. cbn [negb].
  unfold unmarshal.
  destruct (match tree with Some j => decode_struct j | None => None end) as [a0|]; [|reflexivity].
  destruct (sanity a0) as [c|] eqn:Hs; cbn [unval].
  - destruct (sanity_spec a0) eqn:Hp; [|reflexivity].
    apply sanity_none_iff in Hp. congruence.
  - apply sanity_none_iff in Hs. rewrite Hs. cbn [andb]. apply attrs_equiv_populate.
Qed.

(** * Corner cases of the legacy token parser *)
(** A token without '=' is a key with the empty value; so is "key=". *)
Lemma parse_token_bare k : ~ In 61%N k -> parse_token k = Val (k, []).
Proof. intros H. unfold parse_token. rewrite index_of_char_none by assumption. reflexivity. Qed.

Lemma parse_token_empty_value k : ~ In 61%N k -> parse_token (kv_token k []) = Val (k, []).
Proof. apply parse_token_kv. Qed.

(** '=' inside a value: the split is at the FIRST '='. *)
Lemma parse_token_eq_in_value k v1 v2 :
  ~ In 61%N k -> parse_token (kv_token k (v1 ++ 61%N :: v2)) = Val (k, v1 ++ 61%N :: v2).
Proof. apply parse_token_kv. Qed.

(** Repeated keys: the last assignment wins. *)
Lemma lookup_last_wins k v ps1 ps2 :
  (forall p, In p ps2 -> str_eqb k (fst p) = false) ->
  lookup k (rev (ps1 ++ (k, v) :: ps2)) = Some v.
Proof.
  intros H. rewrite rev_app_distr. cbn [rev]. rewrite <- app_assoc. cbn [app].
  assert (Hl : forall l rest, (forall p, In p l -> str_eqb k (fst p) = false) ->
                              lookup k (l ++ rest) = lookup k rest).
  { induction l as [|[k' v'] l IH]; intros rest Hn; [reflexivity|].
    cbn [app lookup]. pose proof (Hn (k', v') (or_introl eq_refl)) as Hk. cbn [fst] in Hk. rewrite Hk.
    apply IH. intros p Hp. apply Hn. right. assumption. }
  rewrite Hl.
  - cbn [lookup]. rewrite str_eqb_refl. reflexivity.
  - intros p Hp. apply H. apply in_rev. assumption.
Qed.

Lemma legacy_repeated_key_last_wins ps1 ps2 k v :
  Forall pair_ok (ps1 ++ (k, v) :: ps2) ->
  (forall p, In p ps2 -> str_eqb k (fst p) = false) ->
  exists m, parse_attrs_legacy (join 32%N (map token_of (ps1 ++ (k, v) :: ps2))) = Val m /\
            lookup k m = Some v.
Proof.
  intros Hok Hn. exists (rev (ps1 ++ (k, v) :: ps2)). split.
  - apply parse_attrs_join; [destruct ps1; discriminate|assumption].
  - apply lookup_last_wins. assumption.
Qed.

(** Stray spaces: blank tokens are skipped. *)
Lemma parse_tokens_app l1 l2 m :
  parse_tokens (l1 ++ l2) m = olet m1 := parse_tokens l1 m in parse_tokens l2 m1.
Proof.
  revert m. induction l1 as [|t r IH]; intros m; cbn [app parse_tokens]; [reflexivity|].
  destruct (is_empty (trim_space t)); [apply IH|].
  destruct (parse_token (trim_space t)) as [kv|]; cbn [obind]; [apply IH|reflexivity].
Qed.

Lemma split_on_snoc sep s : split_on sep (s ++ [sep]) = split_on sep s ++ [[]].
Proof.
  induction s as [|c r IH]; cbn [app split_on].
  - rewrite N.eqb_refl. reflexivity.
  - destruct (c =? sep)%N; [rewrite IH; reflexivity|].
    rewrite IH. destruct (split_on_cons sep r) as (h & t & ->). reflexivity.
Qed.

Lemma legacy_leading_space text : parse_attrs_legacy (32%N :: text) = parse_attrs_legacy text.
Proof. reflexivity. Qed.

Lemma legacy_trailing_space text : parse_attrs_legacy (text ++ [32%N]) = parse_attrs_legacy text.
Proof.
  unfold parse_attrs_legacy. rewrite split_on_snoc, parse_tokens_app.
  destruct (parse_tokens (split_on 32%N text) []) as [m|]; reflexivity.
Qed.

Lemma legacy_double_space a b :
  ~ In 32%N a ->
  parse_attrs_legacy (a ++ 32%N :: 32%N :: b) = parse_attrs_legacy (a ++ 32%N :: b).
Proof.
  intros H. unfold parse_attrs_legacy. rewrite !split_on_app by assumption.
  change (split_on 32%N (32%N :: b)) with ([] :: split_on 32%N b).
  change (a :: [] :: split_on 32%N b) with ([a] ++ [] :: split_on 32%N b).
  change (a :: split_on 32%N b) with ([a] ++ split_on 32%N b).
  rewrite !parse_tokens_app. destruct (parse_tokens [a] []) as [m|]; reflexivity.
Qed.

(** * The extension map mirrors the final value of every key. *)
Lemma kvs_lookup_insert k k' v acc :
  kvs_lookup k (insert k' v acc) = if str_eqb k k' then Some v else kvs_lookup k acc.
Proof.
  induction acc as [|[k2 v2] r IH]; cbn [insert kvs_lookup]; [reflexivity|].
  destruct (str_eqb_spec k' k2) as [->|Hne].
  - cbn [kvs_lookup]. destruct (str_eqb k k2); reflexivity.
  - destruct (str_ltb k' k2); cbn [kvs_lookup]; [reflexivity|].
    rewrite IH. destruct (str_eqb_spec k k2) as [->|Hk]; [|reflexivity].
    destruct (str_eqb_spec k2 k') as [E|Hk']; [congruence|reflexivity].
Qed.

Lemma lookup_app k l1 l2 :
  lookup k (l1 ++ l2) = match lookup k l1 with Some v => Some v | None => lookup k l2 end.
Proof.
  induction l1 as [|[k' v'] r IH]; cbn [app lookup]; [reflexivity|].
  destruct (str_eqb k k'); [reflexivity|apply IH].
Qed.

Definition jstr_pair (p : str * str) : str * json := (fst p, JStr (snd p)).

Lemma kvs_lookup_insert_all k l acc :
  kvs_lookup k (insert_all (map jstr_pair l) acc) =
  match lookup k (rev l) with Some v => Some (JStr v) | None => kvs_lookup k acc end.
Proof.
  revert acc. induction l as [|[k0 v0] r IH]; intros acc; [reflexivity|].
  cbn [map insert_all rev]. unfold jstr_pair at 1. cbn [fst snd canon].
  rewrite IH, lookup_app, kvs_lookup_insert.
  destruct (lookup k (rev r)); [reflexivity|].
  cbn [lookup]. destruct (str_eqb k k0); reflexivity.
Qed.

Lemma kvs_lookup_exts_of_pairs k m :
  kvs_lookup k (exts_of_pairs m) =
  match lookup k m with Some v => Some (JStr v) | None => None end.
Proof.
  unfold exts_of_pairs. change (fun p : str * str => (fst p, JStr (snd p))) with jstr_pair.
  rewrite kvs_lookup_insert_all, rev_involutive. reflexivity.
Qed.

Lemma oracle_legacy_holds text : oracle_legacy (unval (unmarshal_legacy text)) = true.
Proof.
  unfold unmarshal_legacy.
  destruct (parse_attrs_legacy text) as [m|]; [|reflexivity]. cbn [obind].
  destruct (lookup requester_attr m) as [rq|] eqn:Hrq; [|reflexivity].
  destruct (split_on 64%N rq) as [|u [|h [|x l]]] eqn:E; cbn [length Nat.eqb negb]; cbv iota;
    try reflexivity.
  unfold go_index. cbn [nth_error obind unval]. unfold oracle_legacy.
  cbn [exts exts_entries username hostname touchlessSudo].
  change (tx "req") with requester_attr.
  rewrite kvs_lookup_exts_of_pairs, Hrq.
  apply split_on_two in E as (-> & _ & _). rewrite str_eqb_refl. reflexivity.
Qed.

(** The legacy round trip through Marshal / Unmarshal themselves. *)
Lemma legacy_roundtrip_marshal a :
  (ifVer a < 7)%Z -> sanity_spec a = true -> legacy_clean_min a = true -> in_range a = true ->
  marshal a = Ok (WLegacy (marshal_legacy a)) /\
  unmarshal (marshal_legacy a) None =
  Val (Ok (mkAttrs 6 (username a) (hostname a) (sshClientVersion a) 0 0 (hardKey a) (touch2SSH a)
                   (Some (ts_fields (touchlessSudo a))) (Some (spec_exts a)))).
Proof.
  intros Hv Hs Hc Hr. split.
  - unfold marshal. apply sanity_none_iff in Hs. rewrite Hs.
    change json_ifver_threshold with 7%Z.
    replace (ifVer a <? 7)%Z with true by (symmetry; apply Z.ltb_lt; assumption). reflexivity.
  - unfold unmarshal. apply legacy_roundtrip; assumption.
Qed.

Lemma json_roundtrip_marshal a text :
  (7 <= ifVer a)%Z -> sanity_spec a = true -> in_range a = true -> exts_canonical a = true ->
  marshal a = Ok (WJson (marshal_json a)) /\
  unmarshal text (Some (marshal_json a)) = Val (Ok (normalize a)) /\
  attrs_equiv a (normalize a) = true.
Proof.
  intros Hv Hs Hr Hc. split; [|split].
  - unfold marshal. apply sanity_none_iff in Hs. rewrite Hs.
    change json_ifver_threshold with 7%Z.
    replace (ifVer a <? 7)%Z with false by (symmetry; apply Z.ltb_ge; assumption). reflexivity.
  - apply json_roundtrip; assumption.
  - apply attrs_equiv_normalize.
Qed.
