(** Lemmas about Model/Serve.v (the ServeAgent loop): the dispatch table is the
    documented one, one iteration is total and has a closed description
    ([handle_spec]), the loop is total for every stream and environment, it
    composes over a prefix of answered frames (which gives one-reply-per-
    request, the clean / cut / oversized endings), and the model's result always
    satisfies the property oracle of Model/C12Check.v. *)
From Verif Require Import Lib.Base Lib.Bytes Lib.Wire Generated.YubiAgentGen
  Model.Frames Model.Wire Model.Serve Model.C12Check Proofs.FramesProofs Proofs.WireProofs.
From Coq Require Import Lia ZifyN.
Set Default Timeout 60.
Local Open Scope N_scope.
Local Arguments skipn : simpl never.
Local Arguments firstn : simpl never.

(** * regenerated facts *)
Lemma dispatch_table_is_spec :
  serve_cases = [([31], 1); ([32], 2); ([33], 3); ([34], 4); ([35], 5);
                 ([22; 23; 13; 17; 25; 18; 19; 1; 11], 6)] /\ serve_default = 7.
Proof. split; reflexivity. Qed.

Lemma serve_guards_are_spec :
  serve_zero_guard = true /\ serve_wait_min_len = 2 /\ serve_eof_is_nil = true /\
  serve_std_replays = true /\ forwarder_replays_request = true /\
  serve_clause_writes = [(1, [1]); (2, [1]); (3, [1]); (4, [1]); (5, [1]); (7, [1])].
Proof. repeat split; reflexivity. Qed.

Lemma classify_is_spec code : classify_code code = spec_class code.
Proof.
  unfold classify_code, spec_class, serve_cases, serve_default.
  cbn [find existsb fst snd].
  repeat match goal with
  | |- context [N.eqb code ?k] =>
      destruct (N.eqb_spec code k) as [->|?]; [vm_compute; reflexivity|]
  end.
  reflexivity.
Qed.

Lemma spec_class_range code : In (spec_class code) [1; 2; 3; 4; 5; 6; 7].
Proof.
  unfold spec_class.
  repeat match goal with
  | |- context [if ?b then _ else _] => destruct b; [simpl; tauto|]
  end.
  simpl; tauto.
Qed.

Definition reply_or (cls : N) (data : bytes) (alt : step) : step :=
  if fits_frame data then SReply (cls, data) else alt.

Definition handle_spec (e : env) (i : nat) (code : N) (tail : bytes) : step :=
  let req := code :: tail in
  match spec_class code with
  | 1 => match dec_add (e_parse_key e) req with
         | Val (Some (k, cm)) => reply_or 1 (enc_reply (e_add e i k cm)) SSilent
         | _ => SEnd EAddDecode
         end
  | 2 => let '(slots, err) := e_list e i in
         reply_or 2 (put_name_list slots ++ put_string (err_text err)) (SEnd EWrite)
  | 3 => let '(pem, err) := e_read e i tail in
         reply_or 3 (put_string pem ++ put_string (err_text err)) (SEnd EWrite)
  | 4 => let '(pem, err) := e_attest e i tail in
         reply_or 4 (put_string pem ++ put_string (err_text err)) (SEnd EWrite)
  | 5 => match tail with
         | [] => SEnd EWaitShort
         | c :: _ => reply_or 5 (enc_reply (e_wait e i c)) SSilent
         end
  | 6 => match e_std e i req with Some rep => SReply (6, rep) | None => SEnd EStd end
  | _ => match e_fwd e i req with
         | None => SEnd EForward
         | Some resp => reply_or 7 resp (SEnd EWrite)
         end
  end.

Lemma clause_replies_all :
  clause_replies 1 = true /\ clause_replies 2 = true /\ clause_replies 3 = true /\
  clause_replies 4 = true /\ clause_replies 5 = true /\ clause_replies 7 = true.
Proof. repeat split; reflexivity. Qed.

Lemma emit_reply_or cls data alt :
  clause_replies cls = true -> emit cls data alt = reply_or cls data alt.
Proof.
  intros H. unfold emit, reply_or, fits_frame. rewrite H, write_ok_spec. reflexivity.
Qed.

Lemma handle_nil e i : handle e i [] = Val (SEnd EZeroLen).
Proof. reflexivity. Qed.

Lemma handle_is_spec e i code tail :
  handle e i (code :: tail) = Val (handle_spec e i code tail).
Proof.
  destruct clause_replies_all as (C1 & C2 & C3 & C4 & C5 & C7).
  unfold handle, handle_with. change serve_zero_guard with true.
  cbn [length Nat.eqb andb go_index nth_error obind].
  rewrite classify_is_spec. unfold handle_spec.
  destruct (spec_class_range code) as [H|[H|[H|[H|[H|[H|[H|[]]]]]]]]; rewrite <- H.
  - (* add-hard-cert *)
    destruct (dec_add_total (e_parse_key e) (code :: tail)) as [d Hd]; [discriminate|].
    rewrite Hd. cbn [obind]. destruct d as [[k cm]|]; [|reflexivity].
    rewrite emit_reply_or by exact C1. reflexivity.
  - destruct (e_list e i) as [slots err]. rewrite enc_list_resp_eq.
    cbn [some_or_panic obind]. rewrite emit_reply_or by exact C2. reflexivity.
  - unfold dec_slot_req, go_from. cbn [length Nat.leb obind].
    change (skipn 1 (code :: tail)) with tail.
    destruct (e_read e i tail) as [pem err]. rewrite enc_slot_resp_eq.
    cbn [some_or_panic obind]. rewrite emit_reply_or by exact C3. reflexivity.
  - unfold dec_slot_req, go_from. cbn [length Nat.leb obind].
    change (skipn 1 (code :: tail)) with tail.
    destruct (e_attest e i tail) as [pem err]. rewrite enc_slot_resp_eq.
    cbn [some_or_panic obind]. rewrite emit_reply_or by exact C4. reflexivity.
  - unfold dec_wait_req_with. change serve_wait_min_len with 2.
    destruct tail as [|c t].
    + reflexivity.
    + assert (Hl : (blen (code :: c :: t) <? 2) = false).
      { apply N.ltb_ge. unfold blen. cbn [length]. lia. }
      rewrite Hl. cbn [go_index nth_error obind].
      rewrite emit_reply_or by exact C5. reflexivity.
  - destruct (e_std e i (code :: tail)); reflexivity.
  - destruct (e_fwd e i (code :: tail)); [|reflexivity].
    rewrite emit_reply_or by exact C7. reflexivity.
Qed.

Lemma handle_total e i req : exists st, handle e i req = Val st.
Proof.
  destruct req as [|code tail]; eexists; [apply handle_nil|apply handle_is_spec].
Qed.

(** an answerable request is answered *)
Lemma answerable_reply e i req :
  answerable e i req = true -> exists r, handle e i req = Val (SReply r).
Proof.
  destruct req as [|code tail]; [discriminate|].
  rewrite handle_is_spec. unfold answerable, handle_spec, reply_or.
  destruct (spec_class_range code) as [H|[H|[H|[H|[H|[H|[H|[]]]]]]]]; rewrite <- H.
  - destruct (dec_add (e_parse_key e) (code :: tail)) as [[[k cm]|]|]; try discriminate.
    intros Hf. rewrite Hf. eexists. reflexivity.
  - destruct (e_list e i) as [slots err]. rewrite enc_list_resp_eq.
    intros Hf. rewrite Hf. eexists. reflexivity.
  - destruct (e_read e i tail) as [pem err]. rewrite enc_slot_resp_eq.
    intros Hf. rewrite Hf. eexists. reflexivity.
  - destruct (e_attest e i tail) as [pem err]. rewrite enc_slot_resp_eq.
    intros Hf. rewrite Hf. eexists. reflexivity.
  - destruct tail as [|c t]; [discriminate|].
    intros Hf. rewrite Hf. eexists. reflexivity.
  - destruct (e_std e i (code :: tail)); [|discriminate]. intros _. eexists. reflexivity.
  - destruct (e_fwd e i (code :: tail)); [|discriminate].
    intros Hf. rewrite Hf. eexists. reflexivity.
Qed.

(** * the loop *)
Lemma serve_loop_S fuel e i s :
  serve_loop (S fuel) e i s =
  match read_frame s with
  | FEof | FEofBody => Val ([], EndNil)
  | FTruncPrefix | FTruncBody => Val ([], EndErr EUnexpectedEOF)
  | FTooLarge _ => Val ([], EndErr ETooLarge)
  | FFrame req rest =>
      olet st := handle e i req in
      match st with
      | SEnd er => Val ([], EndErr er)
      | SSilent => serve_loop fuel e (S i) rest
      | SReply r => olet p := serve_loop fuel e (S i) rest in Val (r :: fst p, snd p)
      end
  end.
Proof. reflexivity. Qed.

Lemma serve_loop_total : forall fuel e i s,
  (length s < fuel)%nat -> exists r, serve_loop fuel e i s = Val r.
Proof.
  induction fuel as [|fuel IH]; intros e i s Hf; [lia|].
  rewrite serve_loop_S. destruct (read_frame s) as [| | | | |req rest] eqn:E; try (eexists; reflexivity).
  apply read_frame_shorter in E.
  destruct (handle_total e i req) as [st Hst]. rewrite Hst. cbn [obind].
  destruct st as [r| |er]; [| |eexists; reflexivity].
  - destruct (IH e (S i) rest) as [p Hp]; [lia|]. rewrite Hp. eexists. reflexivity.
  - apply IH. lia.
Qed.

Lemma serve_loop_fuel : forall f1 f2 e i s,
  (length s < f1)%nat -> (length s < f2)%nat -> serve_loop f1 e i s = serve_loop f2 e i s.
Proof.
  induction f1 as [|f1 IH]; intros f2 e i s H1 H2; [lia|].
  destruct f2 as [|f2]; [lia|]. rewrite !serve_loop_S.
  destruct (read_frame s) as [| | | | |req rest] eqn:E; try reflexivity.
  apply read_frame_shorter in E.
  destruct (handle e i req) as [st|]; [|reflexivity]. cbn [obind].
  destruct st as [r| |er]; [| |reflexivity].
  - rewrite (IH f2 e (S i) rest) by lia. reflexivity.
  - apply IH; lia.
Qed.

Theorem serve_total e s : exists r, serve e s = Val r.
Proof. apply serve_loop_total. lia. Qed.

(** * a prefix of answered requests *)
Inductive replied (e : env) : nat -> list bytes -> list response -> Prop :=
| replied_nil i : replied e i [] []
| replied_cons i f fs r rs :
    handle e i f = Val (SReply r) -> replied e (S i) fs rs -> replied e i (f :: fs) (r :: rs).

Lemma replied_length e i fs rs : replied e i fs rs -> length rs = length fs.
Proof. induction 1; simpl; congruence. Qed.

Lemma replied_nth e i fs rs : replied e i fs rs ->
  forall k f, nth_error fs k = Some f ->
  exists r, nth_error rs k = Some r /\ handle e (i + k) f = Val (SReply r).
Proof.
  induction 1 as [|i f fs r rs Hh Hr IH]; intros k g Hk.
  - destruct k; discriminate.
  - destruct k as [|k].
    + injection Hk as <-. exists r. rewrite Nat.add_0_r. split; [reflexivity|exact Hh].
    + destruct (IH k g Hk) as [r' [H1 H2]]. exists r'. split; [exact H1|].
      rewrite Nat.add_succ_r. exact H2.
Qed.

Lemma answerable_replied e : forall fs i,
  (forall k f, nth_error fs k = Some f -> answerable e (i + k) f = true) ->
  exists rs, replied e i fs rs.
Proof.
  induction fs as [|f fs IH]; intros i H.
  - exists []. constructor.
  - destruct (answerable_reply e i f) as [r Hr].
    { specialize (H 0%nat f eq_refl). rewrite Nat.add_0_r in H. exact H. }
    destruct (IH (S i)) as [rs Hrs].
    { intros k g Hk. specialize (H (S k) g Hk). rewrite Nat.add_succ_r in H. exact H. }
    exists (r :: rs). constructor; assumption.
Qed.

Lemma stream_of_cons f fs t : stream_of (f :: fs) ++ t = frame f ++ (stream_of fs ++ t).
Proof. unfold stream_of. cbn [map concat]. rewrite app_assoc. reflexivity. Qed.

(** Serving a stream that starts with answered frames = their replies, in
    order, followed by serving what comes after them. *)
Lemma serve_from_app e : forall fs i rs t,
  Forall frame_ok fs -> replied e i fs rs ->
  serve_from e i (stream_of fs ++ t) =
  olet p := serve_from e (i + length fs) t in Val (rs ++ fst p, snd p).
Proof.
  induction fs as [|f fs IH]; intros i rs t Hok Hrep.
  - inversion Hrep; subst. cbn [stream_of map concat app length]. rewrite Nat.add_0_r.
    destruct (serve_from e i t) as [[a b]|]; reflexivity.
  - inversion Hok as [|? ? [Hne Hle] Hrest]; subst.
    inversion Hrep as [|? ? ? r rs' Hh Hr]; subst.
    rewrite stream_of_cons. unfold serve_from at 1.
    rewrite serve_loop_S, read_frame_frame by assumption.
    rewrite Hh. cbn [obind].
    rewrite (serve_loop_fuel _ (S (length (stream_of fs ++ t))) e (S i) (stream_of fs ++ t)).
    + fold (serve_from e (S i) (stream_of fs ++ t)).
      rewrite (IH (S i) rs' t Hrest Hr). cbn [length]. rewrite Nat.add_succ_r.
      change (S i + length fs)%nat with (S (i + length fs)).
      destruct (serve_from e (S (i + length fs)) t) as [[a b]|]; reflexivity.
    + rewrite (app_length (frame f)), frame_length. lia.
    + lia.
Qed.

Lemma serve_from_eq e i t : serve_from e i t = serve_loop (S (length t)) e i t.
Proof. reflexivity. Qed.

Section Tails.
  Variable e : env.
  Variables (fs : list bytes) (rs : list response).
  Hypothesis Hok : Forall frame_ok fs.
  Hypothesis Hrep : replied e 0 fs rs.

  Ltac tail_tac L :=
    unfold serve; rewrite (serve_from_app e fs 0 rs _ Hok Hrep);
    rewrite serve_from_eq, serve_loop_S, L; cbn [obind fst snd]; rewrite ?app_nil_r; reflexivity.

  (** clean end between frames *)
  Lemma tail_clean : serve e (stream_of fs) = Val (rs, EndNil).
  Proof.
    rewrite <- (app_nil_r (stream_of fs)).
    unfold serve. rewrite (serve_from_app e fs 0 rs _ Hok Hrep).
    cbn. rewrite app_nil_r. reflexivity.
  Qed.

  Lemma tail_cut_prefix p : (0 < length p < 4)%nat ->
    serve e (stream_of fs ++ p) = Val (rs, EndErr EUnexpectedEOF).
  Proof. intros H. tail_tac (read_frame_cut_prefix p H). Qed.

  Lemma tail_body_cut a b c d body :
    body <> [] -> of_be32 a b c d <= spec_max -> blen body < of_be32 a b c d ->
    serve e (stream_of fs ++ a :: b :: c :: d :: body) = Val (rs, EndErr EUnexpectedEOF).
  Proof. intros H1 H2 H3. tail_tac (read_frame_body_cut a b c d body H1 H2 H3). Qed.

  Lemma tail_body_missing a b c d :
    0 < of_be32 a b c d <= spec_max ->
    serve e (stream_of fs ++ [a; b; c; d]) = Val (rs, EndNil).
  Proof. intros H. tail_tac (read_frame_body_missing a b c d H). Qed.

  Lemma tail_oversize a b c d rest :
    spec_max < of_be32 a b c d ->
    serve e (stream_of fs ++ a :: b :: c :: d :: rest) = Val (rs, EndErr ETooLarge).
  Proof. intros H. tail_tac (read_frame_oversize a b c d rest H). Qed.

  Lemma tail_zero rest :
    serve e (stream_of fs ++ 0 :: 0 :: 0 :: 0 :: rest) = Val (rs, EndErr EZeroLen).
  Proof.
    unfold serve. rewrite (serve_from_app e fs 0 rs _ Hok Hrep).
    rewrite serve_from_eq, serve_loop_S, read_frame_zero, handle_nil.
    cbn [obind fst snd]. rewrite app_nil_r. reflexivity.
  Qed.
End Tails.

(** * the model satisfies the property oracle, for every stream and environment *)
Definition tail_verdict (t : tail_kind) (en : ending) : Prop :=
  match t with
  | TClean => en = EndNil
  | TBodyMissing => True
  | _ => is_err en = true
  end.

Lemma lockstep e : forall fuel i s, (length s < fuel)%nat ->
  exists rs en, serve_loop fuel e i s = Val (rs, en) /\
    (answered_prefix e i (fst (spec_frames fuel s)) <= length rs)%nat /\
    (length rs <= length (fst (spec_frames fuel s)))%nat /\
    (answered_prefix e i (fst (spec_frames fuel s)) = length (fst (spec_frames fuel s)) ->
       length rs = length (fst (spec_frames fuel s)) /\ tail_verdict (snd (spec_frames fuel s)) en).
Proof.
  induction fuel as [|fuel IH]; intros i s Hf; [lia|].
  rewrite serve_loop_S.
  destruct s as [|a [|b [|c [|d r]]]];
    try (exists [], (EndErr EUnexpectedEOF); cbn; repeat split; try lia; reflexivity).
  - exists [], EndNil. cbn. repeat split; lia.
  - cbn [read_frame spec_frames]. rewrite too_large_spec.
    set (l := of_be32 a b c d).
    destruct (spec_max <? l) eqn:E1.
    { exists [], (EndErr ETooLarge). cbn. repeat split; try lia; reflexivity. }
    destruct (l =? 0) eqn:E2.
    { rewrite handle_nil. exists [], (EndErr EZeroLen). cbn. repeat split; try lia; reflexivity. }
    destruct r as [|x xs].
    { exists [], EndNil. cbn. repeat split; try lia. }
    assert (E3 : (blen (x :: xs) =? 0) = false).
    { apply N.eqb_neq. unfold blen. cbn [length]. lia. }
    rewrite E3.
    destruct (blen (x :: xs) <? l) eqn:E4.
    { exists [], (EndErr EUnexpectedEOF). cbn. repeat split; try lia; reflexivity. }
    set (req := firstn (N.to_nat l) (x :: xs)).
    set (rest := skipn (N.to_nat l) (x :: xs)).
    assert (Hrest : (length rest < fuel)%nat).
    { unfold rest. rewrite skipn_length. cbn [length] in *. lia. }
    destruct (IH (S i) rest Hrest) as (rs' & en' & Hs & Hlo & Hhi & Hall).
    destruct (spec_frames fuel rest) as [fs t] eqn:Esp. cbn [fst snd] in *.
    destruct (answerable e i req) eqn:Ea.
    + destruct (answerable_reply e i req Ea) as [rp Hrp]. rewrite Hrp. cbn [obind].
      rewrite Hs. cbn [obind fst snd]. exists (rp :: rs'), en'.
      cbn [answered_prefix length]. rewrite Ea.
      split; [reflexivity|]. split; [lia|]. split; [lia|].
      intros Heq. destruct Hall as [Hl Hv]; [lia|]. split; [lia|exact Hv].
    + destruct (handle_total e i req) as [st Hst]. rewrite Hst. cbn [obind].
      cbn [answered_prefix length]. rewrite Ea.
      destruct st as [rp| |er].
      * rewrite Hs. cbn [obind fst snd]. exists (rp :: rs'), en'.
        split; [reflexivity|]. cbn [length]. split; [lia|]. split; [lia|]. intros Heq. lia.
      * exists rs', en'. split; [exact Hs|]. split; [lia|]. split; [lia|]. intros Heq. lia.
      * exists [], (EndErr er). split; [reflexivity|]. cbn [length]. split; [lia|]. split; [lia|].
        intros Heq. lia.
Qed.

Theorem serve_meets_oracle e s :
  exists r, serve e s = Val r /\ oracle e s (obs_of r) = true.
Proof.
  destruct (lockstep e (S (length s)) 0 s) as (rs & en & Hs & Hlo & Hhi & Hall); [lia|].
  exists (rs, en). split; [exact Hs|].
  unfold oracle, obs_of, stream_frames. cbn [o_panic o_junk o_frames o_err fst snd negb andb].
  destruct (spec_frames (S (length s)) s) as [fs t]. cbn [fst snd] in *.
  rewrite map_length.
  destruct (Nat.eqb_spec (answered_prefix e 0 fs) (length fs)) as [Heq|Hne].
  - destruct (Hall Heq) as [Hl Hv].
    apply andb_true_iff. split; [apply Nat.eqb_eq; exact Hl|].
    destruct t; cbn [tail_verdict] in Hv; try exact Hv; try reflexivity.
    rewrite Hv. reflexivity.
  - apply andb_true_iff. split; apply Nat.leb_le; assumption.
Qed.

(** * the pre-repair code crashes in the model (the totality theorem is not vacuous) *)
Lemma old_zero_guard_panics e : serve_with false 2 e [0; 0; 0; 0] = Panic.
Proof. reflexivity. Qed.
Lemma old_wait_guard_panics e : serve_with true 0 e [0; 0; 0; 1; 35] = Panic.
Proof. reflexivity. Qed.
Lemma new_guards_on_old_inputs e :
  serve e [0; 0; 0; 0] = Val ([], EndErr EZeroLen) /\
  serve e [0; 0; 0; 1; 35] = Val ([], EndErr EWaitShort).
Proof. split; reflexivity. Qed.

(** * the statements exported to Properties/C12.v *)
Lemma bound_after_prefix e fs rs a b c d :
  Forall frame_ok fs -> replied e 0 fs rs -> 16777216 < of_be32 a b c d ->
  forall rest, serve e (stream_of fs ++ a :: b :: c :: d :: rest) = Val (rs, EndErr ETooLarge).
Proof. intros Hok Hrep Hl rest. exact (tail_oversize e fs rs Hok Hrep a b c d rest Hl). Qed.

Lemma one_reply e fs :
  Forall frame_ok fs ->
  (forall k f, nth_error fs k = Some f -> answerable e k f = true) ->
  exists rs, serve e (stream_of fs) = Val (rs, EndNil) /\ length rs = length fs /\
    forall k f, nth_error fs k = Some f ->
      exists r, nth_error rs k = Some r /\ handle e k f = Val (SReply r).
Proof.
  intros Hok Hans.
  destruct (answerable_replied e fs 0 Hans) as [rs Hrep].
  exists rs. split; [exact (tail_clean e fs rs Hok Hrep)|].
  split; [exact (replied_length e 0 fs rs Hrep)|exact (replied_nth e 0 fs rs Hrep)].
Qed.

Lemma endings e fs rs :
  Forall frame_ok fs -> replied e 0 fs rs ->
  serve e (stream_of fs) = Val (rs, EndNil) /\
  (forall p, (0 < length p < 4)%nat ->
     serve e (stream_of fs ++ p) = Val (rs, EndErr EUnexpectedEOF)) /\
  (forall a b c d body, body <> [] -> of_be32 a b c d <= spec_max -> blen body < of_be32 a b c d ->
     serve e (stream_of fs ++ a :: b :: c :: d :: body) = Val (rs, EndErr EUnexpectedEOF)) /\
  (forall a b c d, 0 < of_be32 a b c d <= spec_max ->
     serve e (stream_of fs ++ [a; b; c; d]) = Val (rs, EndNil)) /\
  (forall rest, serve e (stream_of fs ++ 0 :: 0 :: 0 :: 0 :: rest) = Val (rs, EndErr EZeroLen)).
Proof.
  intros Hok Hrep.
  split; [exact (tail_clean e fs rs Hok Hrep)|].
  split; [exact (tail_cut_prefix e fs rs Hok Hrep)|].
  split; [exact (tail_body_cut e fs rs Hok Hrep)|].
  split; [exact (tail_body_missing e fs rs Hok Hrep)|exact (tail_zero e fs rs Hok Hrep)].
Qed.

Lemma old_code_panics e :
  serve_with false 2 e [0; 0; 0; 0] = Panic /\ serve_with true 0 e [0; 0; 0; 1; 35] = Panic /\
  serve e [0; 0; 0; 0] = Val ([], EndErr EZeroLen) /\
  serve e [0; 0; 0; 1; 35] = Val ([], EndErr EWaitShort).
Proof.
  split; [exact (old_zero_guard_panics e)|]. split; [exact (old_wait_guard_panics e)|].
  exact (new_guards_on_old_inputs e).
Qed.
