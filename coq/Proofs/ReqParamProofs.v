(** Lemmas behind the C14 property theorems (csr.NewReqParam). *)
From Verif Require Import Lib.Base Lib.Json Lib.Str Generated.MessageGen Model.Message
  Model.ReqParam Model.C14Check Proofs.StrProofs Proofs.MessageProofs.
Local Open Scope bool_scope.
Set Default Timeout 120.

(** * The generated facts are the ones the property speaks about. *)
Lemma force_command_shape_is_spec :
  force_min_tokens = 3%nat /\ force_max_tokens = 6%nat /\
  force_policy_offset = 2%nat /\ force_handler_offset = 1%nat /\
  namespace_policies = spec_policies.
Proof. vm_compute. repeat split; reflexivity. Qed.

Lemma req_param_sources_is_spec :
  req_param_sources =
  [ (tx "NamespacePolicy", tx "namespacePolicy"); (tx "HandlerName", tx "handlerName");
    (tx "ClientIP", tx "clientIP"); (tx "LogName", tx "logName");
    (tx "ReqUser", tx "reqAttrs.Username"); (tx "ReqHost", tx "reqAttrs.Hostname");
    (tx "TransID", tx "transid.Generate()"); (tx "SSHClientVersion", tx "sshClientVersion");
    (tx "SignatureAlgo", tx "x509.SignatureAlgorithm(reqAttrs.SignatureAlgo)");
    (tx "Attrs", tx "reqAttrs") ] /\
  req_param_env_names = [tx "SSH_ORIGINAL_COMMAND"; tx "LOGNAME"; tx "SSH_CONNECTION"] /\
  conn_field_index = 0%nat /\ conn_field_is_indexed_split = true /\
  client_ip_checked_with_parse_ip = true.
Proof. vm_compute. repeat split; reflexivity. Qed.

Lemma transid_shape_is_spec :
  transid_len = 5%nat /\ transid_uses_crypto_rand = true /\ transid_format = tx "%x".
Proof. vm_compute. repeat split; reflexivity. Qed.

Lemma version_shape_is_spec :
  version_regexp = [94; 92; 100; 43; 92; 46; 92; 100; 43; 36]%N /\   (* ^\d+\.\d+$ *)
  version_base = 10%N /\ version_bit_size = 16%N.
Proof. vm_compute. repeat split; reflexivity. Qed.

(** * The forced command: the property's tokens are the code's tokens. *)
Lemma cut_spaces_split s cur :
  cut_spaces s cur =
  match split_on 32%N s with h :: t => (rev cur ++ h) :: t | [] => [] end.
Proof.
  revert cur. induction s as [|c r IH]; intros cur; cbn [cut_spaces split_on].
  - rewrite app_nil_r. reflexivity.
  - destruct (c =? 32)%N.
    + rewrite app_nil_r. f_equal. rewrite IH.
      destruct (split_on_cons 32%N r) as (h & t & ->). reflexivity.
    + rewrite IH. destruct (split_on_cons 32%N r) as (h & t & ->).
      cbn [rev]. rewrite <- app_assoc. reflexivity.
Qed.

Lemma spec_tokens_flatten argv : spec_tokens argv = flatten_args argv.
Proof.
  unfold spec_tokens, flatten_args. rewrite flat_map_concat_map. f_equal.
  apply map_ext. intros a. rewrite cut_spaces_split.
  destruct (split_on_cons 32%N a) as (h & t & ->). reflexivity.
Qed.

Lemma first_field_take_until s : first_field s = take_until 32%N s.
Proof. induction s as [|c r IH]; cbn [first_field take_until]; [reflexivity|]. rewrite IH. reflexivity. Qed.

Lemma conn_first_field conn :
  go_index (split_on 32%N conn) conn_field_index = Val (first_field conn).
Proof.
  change conn_field_index with 0%nat. rewrite first_field_take_until.
  destruct (split_on_first 32%N conn) as (t & ->). reflexivity.
Qed.

Lemma valid_policy_spec p : valid_policy p = existsb (str_eqb p) spec_policies.
Proof. reflexivity. Qed.

Lemma existsb_str_in p l : existsb (str_eqb p) l = true -> In p l.
Proof.
  intros H. apply existsb_exists in H as (x & Hin & Hx). apply str_eqb_eq in Hx. subst x. exact Hin.
Qed.

Lemma parse_force_command_total argv : exists r, parse_force_command argv = Val r.
Proof.
  unfold parse_force_command.
  change force_min_tokens with 3%nat. change force_max_tokens with 6%nat.
  change force_policy_offset with 2%nat. change force_handler_offset with 1%nat.
  set (args := flatten_args argv).
  destruct (Nat.ltb_spec (length args) 3) as [Hlt|Hge]; [eauto|].
  destruct (Nat.ltb_spec 6 (length args)) as [Hgt|Hle]; [eauto|].
  unfold go_index.
  destruct (nth_error args (length args - 2)) as [pol|] eqn:E1;
    [|apply nth_error_None in E1; lia].
  cbn [obind]. destruct (valid_policy pol); cbn [negb]; [|eauto].
  destruct (nth_error args (length args - 1)) as [h|] eqn:E2;
    [|apply nth_error_None in E2; lia].
  cbn [obind]. eauto.
Qed.

Lemma parse_force_command_ok argv pol h :
  parse_force_command argv = Val (Ok (pol, h)) ->
  let toks := flatten_args argv in
  (3 <= length toks <= 6)%nat /\
  nth_from_end toks 2 = Some pol /\ nth_from_end toks 1 = Some h /\
  valid_policy pol = true.
Proof.
  unfold parse_force_command, nth_from_end.
  change force_min_tokens with 3%nat. change force_max_tokens with 6%nat.
  change force_policy_offset with 2%nat. change force_handler_offset with 1%nat.
  set (args := flatten_args argv). cbv zeta.
  destruct (Nat.ltb_spec (length args) 3) as [Hlt|Hge]; [discriminate|].
  destruct (Nat.ltb_spec 6 (length args)) as [Hgt|Hle]; [discriminate|].
  unfold go_index.
  destruct (nth_error args (length args - 2)) as [pol'|] eqn:E1; [|discriminate].
  cbn [obind]. destruct (valid_policy pol') eqn:Hv; cbn [negb]; [|discriminate].
  destruct (nth_error args (length args - 1)) as [h'|] eqn:E2; [|discriminate].
  cbn [obind]. intros H. injection H as <- <-.
  replace (length args <? 2)%nat with false by (symmetry; apply Nat.ltb_ge; lia).
  replace (length args <? 1)%nat with false by (symmetry; apply Nat.ltb_ge; lia).
  repeat split; (lia || assumption).
Qed.

(** * version.Unmarshal *)
Lemma all_digits_forallb s : all_digits s = forallb is_digit s.
Proof. induction s as [|c r IH]; cbn [all_digits forallb]; [reflexivity|]. rewrite IH. reflexivity. Qed.

Lemma digits_value_horner s acc : digits_value s acc = horner s acc.
Proof. revert acc. induction s as [|c r IH]; intros acc; cbn [digits_value horner]; [reflexivity|]. apply IH. Qed.

Lemma is_digit_46 : is_digit 46%N = false.
Proof. reflexivity. Qed.

Lemma version_re_tail_shape r :
  version_re_tail r = true ->
  exists a b, r = a ++ 46%N :: b /\ forallb is_digit a = true /\ b <> [] /\ forallb is_digit b = true.
Proof.
  induction r as [|c r IH]; cbn [version_re_tail]; [discriminate|].
  destruct (is_digit c) eqn:Hc.
  - intros H. destruct (IH H) as (a & b & -> & Ha & Hb & Hb').
    exists (c :: a), b. cbn [app forallb]. rewrite Hc, Ha. repeat split; assumption.
  - rewrite !andb_true_iff, N.eqb_eq, negb_true_iff, all_digits_forallb. intros [[-> Hne] Hd].
    exists [], r. repeat split; try assumption. destruct r; [discriminate|discriminate].
Qed.

Lemma version_re_shape s :
  version_re_match s = true ->
  exists a b, s = a ++ 46%N :: b /\ a <> [] /\ forallb is_digit a = true /\
              b <> [] /\ forallb is_digit b = true.
Proof.
  destruct s as [|c r]; cbn [version_re_match]; [discriminate|].
  rewrite andb_true_iff. intros [Hc Ht].
  destruct (version_re_tail_shape r Ht) as (a & b & -> & Ha & Hb & Hb').
  exists (c :: a), b. cbn [app forallb]. rewrite Hc, Ha. repeat split; (assumption || discriminate).
Qed.

Lemma version_re_tail_intro a b :
  forallb is_digit a = true -> b <> [] -> forallb is_digit b = true ->
  version_re_tail (a ++ 46%N :: b) = true.
Proof.
  intros Ha Hb Hb'. induction a as [|c r IH]; cbn [app version_re_tail].
  - rewrite is_digit_46, N.eqb_refl, all_digits_forallb, Hb'. destruct b; [contradiction|reflexivity].
  - cbn [forallb] in Ha. apply andb_true_iff in Ha as [Hc Hr]. rewrite Hc. apply IH. assumption.
Qed.

Lemma version_re_intro a b :
  a <> [] -> forallb is_digit a = true -> b <> [] -> forallb is_digit b = true ->
  version_re_match (a ++ 46%N :: b) = true.
Proof.
  intros Hne Ha Hb Hb'. destruct a as [|c r]; [contradiction|].
  cbn [app version_re_match]. cbn [forallb] in Ha. apply andb_true_iff in Ha as [Hc Hr].
  rewrite Hc. apply version_re_tail_intro; assumption.
Qed.

Lemma spec_split_dot_app a b cur :
  ~ In 46%N a -> spec_split_dot (a ++ 46%N :: b) cur = Some (rev cur ++ a, b).
Proof.
  revert cur. induction a as [|c r IH]; intros cur H; cbn [app spec_split_dot].
  - rewrite N.eqb_refl, app_nil_r. reflexivity.
  - destruct (N.eqb_spec c 46) as [->|Hn]; [exfalso; apply H; left; reflexivity|].
    rewrite IH by (intros Hin; apply H; right; assumption).
    cbn [rev]. rewrite <- app_assoc. reflexivity.
Qed.

Lemma spec_split_dot_some s cur a b :
  spec_split_dot s cur = Some (a, b) ->
  exists a', a = rev cur ++ a' /\ s = a' ++ 46%N :: b /\ ~ In 46%N a'.
Proof.
  revert cur. induction s as [|c r IH]; intros cur; cbn [spec_split_dot]; [discriminate|].
  destruct (N.eqb_spec c 46) as [->|Hn].
  - intros H. injection H as <- <-. exists []. rewrite app_nil_r. repeat split. intros [].
  - intros H. destruct (IH _ H) as (a' & -> & -> & Hd).
    exists (c :: a'). cbn [rev app]. rewrite <- app_assoc. repeat split.
    intros [Hc|Hin]; [congruence|contradiction].
Qed.

Lemma digits_no_dot a : forallb is_digit a = true -> ~ In 46%N a.
Proof. intros H. apply (digits_no_char a 46%N H). reflexivity. Qed.

Lemma parse_uint16_digits a :
  a <> [] -> forallb is_digit a = true ->
  parse_uint_go version_bit_size a =
  if (horner a 0 <=? 65535)%N then PUOk (horner a 0) else PURange.
Proof.
  intros Hne Hd. unfold parse_uint_go. destruct a as [|c r]; [contradiction|].
  change (2 ^ version_bit_size - 1)%N with 65535%N.
  apply scan_digits; [assumption|lia].
Qed.

(** version.Unmarshal accepts exactly "major.minor" with two decimal 16-bit
    numbers, and returns those numbers. *)
Lemma version_unmarshal_spec s :
  version_unmarshal s =
  Val (match spec_version s with
       | Some (ma, mi) => Ok (mkVersion ma mi)
       | None => Err tt
       end).
Proof.
  unfold version_unmarshal. destruct (version_re_match s) eqn:Hm; cbn [negb].
  - destruct (version_re_shape s Hm) as (a & b & -> & Hane & Ha & Hbne & Hb).
    pose proof (digits_no_dot a Ha) as Hdot.
    rewrite index_of_char_app by assumption.
    rewrite go_slice_prefix. cbn [obind].
    rewrite parse_uint16_digits by assumption.
    unfold spec_version. rewrite spec_split_dot_app by assumption. cbn [rev app].
    rewrite Ha, Hb.
    change (digits_value a 0) with (horner a 0). change (digits_value b 0) with (horner b 0).
    replace (is_empty a) with false by (destruct a; [contradiction|reflexivity]).
    replace (is_empty b) with false by (destruct b; [contradiction|reflexivity]).
    cbn [negb andb].
    destruct (horner a 0 <=? 65535)%N; cbn [andb]; [|reflexivity].
    rewrite go_from_suffix. cbn [obind].
    rewrite parse_uint16_digits by assumption.
    destruct (horner b 0 <=? 65535)%N; reflexivity.
  - destruct (spec_version s) as [[ma mi]|] eqn:Hs; [|reflexivity].
    exfalso. unfold spec_version in Hs.
    destruct (spec_split_dot s []) as [[a b]|] eqn:Hsp; [|discriminate].
    apply spec_split_dot_some in Hsp as (a' & -> & -> & Hd). cbn [rev app] in Hs.
    destruct (negb (is_empty a')) eqn:E1; [|discriminate].
    destruct (negb (is_empty b)) eqn:E2; [|discriminate].
    destruct (forallb is_digit a') eqn:E3; [|discriminate].
    destruct (forallb is_digit b) eqn:E4; [|discriminate].
    rewrite version_re_intro in Hm; [discriminate| | | |]; try assumption.
    + destruct a'; [discriminate|discriminate].
    + destruct b; [discriminate|discriminate].
Qed.

Lemma version_unmarshal_total s : exists r, version_unmarshal s = Val r.
Proof. rewrite version_unmarshal_spec. eauto. Qed.

(** * transid *)
Lemma transid_format_ok draw :
  length draw = transid_len -> Forall (fun b => (b < 256)%N) draw ->
  is_transid (transid_generate draw) = true.
Proof.
  intros Hl Hb. unfold is_transid, transid_generate.
  rewrite hex_of_bytes_length, Hl, (hex_of_bytes_lower _ Hb). reflexivity.
Qed.

Lemma transid_inj d1 d2 :
  Forall (fun b => (b < 256)%N) d1 -> Forall (fun b => (b < 256)%N) d2 ->
  transid_generate d1 = transid_generate d2 -> d1 = d2.
Proof. apply hex_of_bytes_inj. Qed.

(** * NewReqParam *)
Section NewReqParam.
  Variable valid_ip : str -> bool.
  Variable draw : list N.

  Lemma new_req_param_total text tree logname conn argv :
    exists r, new_req_param valid_ip draw text tree logname conn argv = Val r.
  Proof.
    unfold new_req_param.
    destruct (unmarshal_total text tree) as (m & ->). cbn [obind].
    destruct m as [attrs|c]; [|eauto].
    destruct (is_empty logname); [eauto|].
    rewrite conn_first_field. cbn [obind].
    destruct (valid_ip (first_field conn)); cbn [negb]; [|eauto].
    destruct (parse_force_command_total argv) as (fc & ->). cbn [obind].
    destruct fc as [[pol handler]|c]; [|eauto].
    destruct (is_empty (sshClientVersion attrs)); cbn [obind]; [eauto|].
    destruct (version_unmarshal_total (sshClientVersion attrs)) as (v & ->). cbn [obind].
    destruct v; eauto.
  Qed.

  Lemma new_req_param_sound text tree logname conn argv p :
    new_req_param valid_ip draw text tree logname conn argv = Val (Ok p) ->
    (rpLogName p = logname /\ logname <> []) /\
    (rpClientIP p = first_field conn /\ valid_ip (rpClientIP p) = true) /\
    (In (rpPolicy p) spec_policies /\
     (3 <= length (spec_tokens argv) <= 6)%nat /\
     nth_from_end (spec_tokens argv) 2 = Some (rpPolicy p) /\
     nth_from_end (spec_tokens argv) 1 = Some (rpHandler p)) /\
    (exists a, unmarshal text tree = Val (Ok a) /\ rpAttrs p = a /\
               rpReqUser p = username a /\ rpReqHost p = hostname a /\
               rpSignatureAlgo p = signatureAlgo a /\
               (if is_empty (sshClientVersion a)
                then rpVersion p = default_version
                else spec_version (sshClientVersion a) = Some (major (rpVersion p), minor (rpVersion p)))) /\
    rpTransID p = transid_generate draw.
  Proof.
    unfold new_req_param.
    destruct (unmarshal text tree) as [m|] eqn:Hm; [|discriminate]. cbn [obind].
    destruct m as [attrs|c]; [|discriminate].
    destruct (is_empty logname) eqn:Hl; [discriminate|].
    rewrite conn_first_field. cbn [obind].
    destruct (valid_ip (first_field conn)) eqn:Hip; cbn [negb]; [|discriminate].
    destruct (parse_force_command argv) as [fc|] eqn:Hfc; [|discriminate]. cbn [obind].
    destruct fc as [[pol handler]|c]; [|discriminate].
    apply parse_force_command_ok in Hfc. cbv zeta in Hfc.
    rewrite <- spec_tokens_flatten in Hfc. destruct Hfc as (Hlen & Hpol & Hh & Hv).
    rewrite valid_policy_spec in Hv. apply existsb_str_in in Hv.
    destruct (is_empty (sshClientVersion attrs)) eqn:Hev; cbn [obind].
    - intros H. injection H as <-.
      cbn [rpLogName rpClientIP rpPolicy rpHandler rpAttrs rpReqUser rpReqHost rpSignatureAlgo rpVersion rpTransID].
      destruct Hlen as [Hlo Hhi].
      split; [split; [reflexivity|intros ->; discriminate]|].
      split; [split; [reflexivity|assumption]|].
      split; [repeat split; assumption|].
      split; [|reflexivity].
      exists attrs. rewrite Hev. repeat split.
    - rewrite version_unmarshal_spec. cbn [obind].
      destruct (spec_version (sshClientVersion attrs)) as [[ma mi]|] eqn:Hsv; [|discriminate].
      intros H. injection H as <-.
      cbn [rpLogName rpClientIP rpPolicy rpHandler rpAttrs rpReqUser rpReqHost rpSignatureAlgo rpVersion rpTransID].
      destruct Hlen as [Hlo Hhi].
      split; [split; [reflexivity|intros ->; discriminate]|].
      split; [split; [reflexivity|assumption]|].
      split; [repeat split; assumption|].
      split; [|reflexivity].
      exists attrs. rewrite Hev. cbn [major minor]. repeat split. assumption.
  Qed.
End NewReqParam.

(** An accepted message with an empty client version was a legacy message:
    a JSON attribute object must declare it. *)
Lemma empty_version_is_legacy text tree a :
  unmarshal text tree = Val (Ok a) -> sshClientVersion a = [] ->
  match tree with Some j => decode_struct j | None => None end = None.
Proof.
  intros Hu He. destruct tree as [j|]; [|reflexivity].
  destruct (decode_struct j) as [a0|] eqn:Hd; [|reflexivity].
  destruct (unmarshal_json_ok_sanity text j a0 a Hd Hu) as (_ & _ & Hs).
  unfold sanity_spec in Hs. rewrite He in Hs. discriminate.
Qed.

(** Client text cannot replace server-side values. *)
Lemma new_req_param_noninterference valid_ip draw logname conn argv text1 tree1 text2 tree2 p1 p2 :
  new_req_param valid_ip draw text1 tree1 logname conn argv = Val (Ok p1) ->
  new_req_param valid_ip draw text2 tree2 logname conn argv = Val (Ok p2) ->
  rpLogName p1 = rpLogName p2 /\ rpClientIP p1 = rpClientIP p2 /\
  rpPolicy p1 = rpPolicy p2 /\ rpHandler p1 = rpHandler p2 /\ rpTransID p1 = rpTransID p2.
Proof.
  intros H1 H2.
  apply new_req_param_sound in H1 as ((L1 & _) & (I1 & _) & (_ & _ & P1 & Hh1) & _ & T1).
  apply new_req_param_sound in H2 as ((L2 & _) & (I2 & _) & (_ & _ & P2 & Hh2) & _ & T2).
  repeat split; congruence.
Qed.

(** * The oracle used on the implementation holds of the model. *)
Definition obs_of (p : ReqParam) : obs :=
  mkObs (rpPolicy p) (rpHandler p) (rpClientIP p) (rpLogName p) (rpReqUser p) (rpReqHost p)
        (rpTransID p) (major (rpVersion p)) (minor (rpVersion p)) (rpSignatureAlgo p).
Definition res_of (o : outcome (result perr ReqParam)) : option (result N obs) :=
  match o with
  | Val (Ok p) => Some (Ok (obs_of p))
  | Val (Err c) => Some (Err c)
  | Panic => None
  end.

Lemma existsb_str_of_in p l : In p l -> existsb (str_eqb p) l = true.
Proof. intros H. apply existsb_exists. exists p. split; [assumption|apply str_eqb_refl]. Qed.

Lemma oracle_param_holds valid_ip draw text tree logname conn argv :
  length draw = transid_len -> Forall (fun b => (b < 256)%N) draw ->
  exists o,
    res_of (new_req_param valid_ip draw text tree logname conn argv) = Some o /\
    oracle_param text tree logname conn (valid_ip (first_field conn)) argv o = true.
Proof.
  intros Hl Hb.
  destruct (new_req_param_total valid_ip draw text tree logname conn argv) as ([p|c] & Hr);
    rewrite Hr; cbn [res_of]; [|eexists; split; reflexivity].
  exists (Ok (obs_of p)). split; [reflexivity|].
  apply new_req_param_sound in Hr
    as ((L & Lne) & (I & Iv) & (Pin & (Hlo & Hhi) & P2 & P1) & (a & Hu & _ & Ru & Rh & _ & Rv) & T).
  unfold oracle_param, obs_of.
  cbn [oLog oIP oPolicy oHandler oUser oHost oTrans oMajor oMinor].
  rewrite L, str_eqb_refl.
  replace (is_empty logname) with false by (destruct logname; [contradiction|reflexivity]).
  rewrite I, str_eqb_refl. rewrite I in Iv. rewrite Iv.
  rewrite (existsb_str_of_in _ _ Pin).
  cbv zeta. rewrite P2, P1. cbn [option_eqb]. rewrite !str_eqb_refl.
  replace (3 <=? length (spec_tokens argv))%nat with true by (symmetry; apply Nat.leb_le; assumption).
  replace (length (spec_tokens argv) <=? 6)%nat with true by (symmetry; apply Nat.leb_le; assumption).
  rewrite Hu, Ru, Rh, !str_eqb_refl, T, (transid_format_ok draw Hl Hb).
  cbn [negb andb].
  destruct (is_empty (sshClientVersion a)).
  - rewrite Rv. reflexivity.
  - rewrite Rv, !N.eqb_refl. reflexivity.
Qed.

(** The client-declared user and host are copied verbatim into their own
    fields; the login name is the server's. *)
Lemma new_req_param_verbatim valid_ip draw text tree logname conn argv p :
  new_req_param valid_ip draw text tree logname conn argv = Val (Ok p) ->
  exists a, unmarshal text tree = Val (Ok a) /\
            rpReqUser p = username a /\ rpReqHost p = hostname a /\ rpLogName p = logname.
Proof.
  intros H. apply new_req_param_sound in H as ((L & _) & _ & _ & (a & Hu & _ & Ru & Rh & _) & _).
  exists a. repeat split; assumption.
Qed.
