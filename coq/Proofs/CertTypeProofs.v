(** Lemmas behind the C19 property theorems. *)
From Verif Require Import Lib.Base Lib.Json Generated.KeyIdGen Generated.CertTypeGen
     Model.KeyId Model.CertType Model.C19Check Generated.CertTypeFnGen.
Local Open Scope bool_scope.
Set Default Timeout 60.

(** ** Regenerated enumerators and tables are the property's. *)
Lemma enumerators_are_spec :
  map ctype_code all_ctypes =
  [t_unknown; t_touch_sudo; t_touchless; t_touchless_sudo; t_firefighter; t_nonce;
   t_touchless_in_agent; t_touchless_sudo_in_agent].
Proof. vm_compute. reflexivity. Qed.

Lemma label_table_is_spec :
  forall c, lookup_label (ctype_code c) type_label = ctype_name c.
Proof. intros []; vm_compute; reflexivity. Qed.

Lemma suffixes_are_spec : touch_suffix = tx ":touch" /\ touchless_suffix = tx ":notouch".
Proof. vm_compute. split; reflexivity. Qed.

Lemma option_name_is_spec : critical_option_sudo_hosts = tx "touchless-sudo-hosts".
Proof. vm_compute. reflexivity. Qed.

Lemma touch_enumerators : never_touch = 1%Z /\ always_touch = 2%Z /\ cached_touch = 3%Z.
Proof. vm_compute. repeat split; reflexivity. Qed.

(** ** The cascade equals the decision table, for every integer policy. *)
Lemma get_type_table k sudo :
  get_type (Some k) sudo =
  ctype_code (type_spec (isNonce k) (isFF k) (isHW k) (touch k) sudo).
Proof.
  unfold get_type, type_spec.
  change cached_touch with 3%Z; change always_touch with 2%Z; change never_touch with 1%Z.
  destruct (isNonce k), (isFF k), (isHW k), sudo; cbn [andb negb orb]; try reflexivity;
    destruct (Z.eqb_spec (touch k) 3), (Z.eqb_spec (touch k) 2), (Z.eqb_spec (touch k) 1);
    cbn [orb]; try reflexivity; lia.
Qed.

Lemma type_spec_unknown_iff nonce ff hw policy sudo :
  type_spec nonce ff hw policy sudo = Unknown <->
  nonce = false /\ ff = false /\ policy <> 1%Z /\ policy <> 2%Z /\ policy <> 3%Z.
Proof.
  unfold type_spec.
  destruct nonce, ff, hw, sudo; cbn;
    destruct (Z.eqb_spec policy 2), (Z.eqb_spec policy 3), (Z.eqb_spec policy 1); cbn;
    split; try discriminate; try (intros (? & ? & ? & ? & ?); congruence);
    try (intros _; repeat split; (reflexivity || lia)).
Qed.

Lemma ctype_code_unknown c : ctype_code c = 0%Z <-> c = Unknown.
Proof. destruct c; cbn; split; (discriminate || reflexivity || congruence). Qed.

Lemma get_type_unknown_iff ko sudo :
  get_type ko sudo = 0%Z <->
  ko = None \/
  exists k, ko = Some k /\ isNonce k = false /\ isFF k = false /\
            touch k <> 1%Z /\ touch k <> 2%Z /\ touch k <> 3%Z.
Proof.
  destruct ko as [k|].
  - rewrite get_type_table, ctype_code_unknown, type_spec_unknown_iff. split.
    + intros H. right. exists k. split; [reflexivity|exact H].
    + intros [H|(k' & Hk & H)]; [discriminate|]. injection Hk as <-. exact H.
  - cbn. split; [left; reflexivity|reflexivity].
Qed.

Lemma get_type_depends_only k1 k2 sudo :
  isNonce k1 = isNonce k2 -> isFF k1 = isFF k2 -> isHW k1 = isHW k2 -> touch k1 = touch k2 ->
  get_type (Some k1) sudo = get_type (Some k2) sudo.
Proof. intros H1 H2 H3 H4. rewrite !get_type_table, H1, H2, H3, H4. reflexivity. Qed.

Lemma precedence_nonce k sudo : isNonce k = true -> get_type (Some k) sudo = 5%Z.
Proof. intros H. rewrite get_type_table, H. reflexivity. Qed.

Lemma precedence_firefighter k sudo :
  isNonce k = false -> isFF k = true ->
  get_type (Some k) sudo = (if isHW k then 4 else if sudo then 8 else 7)%Z.
Proof. intros H1 H2. rewrite get_type_table, H1, H2. cbn. destruct (isHW k), sudo; reflexivity. Qed.

(** ** Label *)
Lemma label_spec t sudo k :
  decoded t = Some k ->
  label (Some (t, sudo)) =
  match ctype_name (type_spec (isNonce k) (isFF k) (isHW k) (touch k) sudo) with
  | Some n => Some (n ++ tx "SSH-" ++ transID k)
  | None => None
  end.
Proof.
  intros Hd. unfold label, cert_type. rewrite Hd, get_type_table.
  set (c := type_spec _ _ _ _ _).
  change t_unknown with 0%Z.
  rewrite label_table_is_spec.
  destruct c; cbn; reflexivity.
Qed.

Lemma label_undecodable t sudo : decoded t = None -> label (Some (t, sudo)) = None.
Proof. intros Hd. unfold label, cert_type. rewrite Hd. cbn. reflexivity. Qed.

Lemma label_nil : label None = None.
Proof. reflexivity. Qed.

(** ** Principals *)
Lemma get_principals_spec ps c : get_principals ps (ctype_code c) = principals_spec ps c.
Proof.
  unfold get_principals. destruct suffixes_are_spec as [-> ->].
  destruct c; vm_compute Z.eqb; cbn; reflexivity.
Qed.

Lemma get_principals_other ps ty :
  ~ In ty (map ctype_code all_ctypes) -> get_principals ps ty = ps.
Proof.
  intros H. unfold get_principals.
  change t_unknown with 0%Z; change t_touch_sudo with 1%Z; change t_touchless_sudo with 3%Z;
    change t_touchless with 2%Z.
  cbn in H.
  destruct (Z.eqb_spec ty 0), (Z.eqb_spec ty 1), (Z.eqb_spec ty 3), (Z.eqb_spec ty 2); cbn;
    try reflexivity; exfalso; apply H; lia.
Qed.

(** ** The oracle used on the implementation accepts the model, always. *)
Lemma str_eqb_refl_opt o : option_eqb str_eqb o o = true.
Proof. destruct o; cbn; [apply str_eqb_refl|reflexivity]. Qed.

Lemma list_str_eqb_refl l : list_eqb str_eqb l l = true.
Proof. induction l as [|x l IH]; cbn; [reflexivity|]. rewrite str_eqb_refl, IH. reflexivity. Qed.

Lemma oracle_type_model cert : oracle_type cert (cert_type cert) (label cert) = true.
Proof.
  destruct cert as [[t sudo]|]; [|reflexivity].
  unfold oracle_type. destruct (decoded t) as [k|] eqn:Hd.
  - rewrite (label_spec t sudo k Hd). unfold cert_type. rewrite Hd, get_type_table.
    rewrite Z.eqb_refl, str_eqb_refl_opt. reflexivity.
  - rewrite (label_undecodable t sudo Hd). unfold cert_type. rewrite Hd. reflexivity.
Qed.

Lemma ctype_of_code_code c : ctype_of_code (ctype_code c) = Some c.
Proof. destruct c; reflexivity. Qed.

Lemma ctype_of_code_none z : ctype_of_code z = None -> ~ In z (map ctype_code all_ctypes).
Proof.
  unfold ctype_of_code, all_ctypes. cbn [find ctype_code map In].
  destruct (Z.eqb_spec 0 z), (Z.eqb_spec 1 z), (Z.eqb_spec 2 z), (Z.eqb_spec 3 z),
           (Z.eqb_spec 4 z), (Z.eqb_spec 5 z), (Z.eqb_spec 7 z), (Z.eqb_spec 8 z);
    try discriminate; intros _; intuition lia.
Qed.

Lemma ctype_of_code_some z c : ctype_of_code z = Some c -> z = ctype_code c.
Proof.
  unfold ctype_of_code. intros H. apply find_some in H as [_ H]. apply Z.eqb_eq in H. auto.
Qed.

Lemma oracle_prins_model ps ty : oracle_prins ps ty (get_principals ps ty) = true.
Proof.
  unfold oracle_prins. destruct (ctype_of_code ty) as [c|] eqn:Hc.
  - apply ctype_of_code_some in Hc as ->. rewrite get_principals_spec. apply list_str_eqb_refl.
  - rewrite get_principals_other by (apply ctype_of_code_none; assumption). apply list_str_eqb_refl.
Qed.

(** ** The Go functions as translated by the translator equal the model. *)
Lemma get_type_go_equiv :
  get_type_go_recognised = true ->
  forall k a b, consistent_spec k = true -> get_type_go k a b = get_type (Some k) (a && b).
Proof.
  intros Hrec. try discriminate Hrec.
  all: intros k a b Hc; unfold consistent_spec in Hc; unfold get_type_go, get_type;
    change never_touch with 1%Z; change always_touch with 2%Z; change cached_touch with 3%Z;
    destruct (isNonce k), (isFF k), (isHW k), (isHeadless k), a, b;
    cbn [andb negb orb implb] in Hc |- *; try discriminate Hc; try reflexivity;
    destruct (Z.eqb_spec (touch k) 3), (Z.eqb_spec (touch k) 2), (Z.eqb_spec (touch k) 1);
    cbn [andb negb orb] in Hc |- *; try discriminate Hc; try reflexivity; lia.
Qed.

Lemma get_principals_go_equiv :
  get_principals_go_recognised = true ->
  forall ps ty, get_principals_go ps ty = get_principals ps ty.
Proof.
  intros Hrec. try discriminate Hrec.
  all: intros ps ty; unfold get_principals_go, get_principals;
    destruct (Z.eqb ty t_unknown), (Z.eqb ty t_touch_sudo), (Z.eqb ty t_touchless_sudo),
             (Z.eqb ty t_touchless); reflexivity.
Qed.
