(** C10: hardware certificates are bound to a held key; everything else
    passes through; failures of the underlying agent are errors and discard
    nothing that is still valid.  Part 1: what every operation does under ANY
    fault script. *)
From Verif Require Import Lib.Base Lib.Json Model.KeyId Model.UAgent Model.Shim Model.ShimSpec Model.ShimCheck
  Model.C07Check Model.C09Check Model.C10Check Generated.ShimGen Proofs.ShimProofs Proofs.ShimFilterProofs
  Proofs.ShimInvProofs Proofs.ShimExactProofs Proofs.ShimC07Proofs Proofs.ShimSpecProofs Proofs.ShimC09Proofs.
From Coq Require Import Permutation.
Set Default Timeout 120.
Local Arguments sortN : simpl never.

Lemma reported_incl u b : In b (reported u) -> In b (ids u).
Proof. unfold reported. destruct (ulocked u); [intros []|auto]. Qed.

Section World.
  Variable info : N -> option cinfo.
  Notation Inv := (ShimInvProofs.Inv info).

  Section AnyScript.
    Variable script : nat -> option fault.
    Notation step := (Shim.step info script).
    Notation acall := (Shim.acall script).

    (** A call that got an answer was not tampered with: the handler ran on
        the agent's state and its answer came back. *)
    Lemma call_some {A} (f : uagent -> uagent * option A) u u' a :
      call script f u = (u', Some a) -> f (bump u) = (u', Some a).
    Proof.
      unfold call. destruct (alive u); cbn [negb]; [|discriminate].
      destruct (script (reqno u)) as [ft|]; [|auto].
      destruct (is_close (f_kind ft)); discriminate.
    Qed.
    Lemma acall_some {A} (f : uagent -> uagent * option A) s s' a :
      acall f s = (s', Some a) -> exists u', f (bump (ua s)) = (u', Some a) /\ s' = set_ua u' s.
    Proof.
      unfold Shim.acall. destruct (closed s); [discriminate|].
      destruct (call script f (ua s)) as [u' r] eqn:Hc. intro H. injection H as <- ->.
      exists u'. split; [apply call_some; exact Hc|reflexivity].
    Qed.
    Lemma acall_list_some s s' L :
      acall u_list s = (s', Some L) -> L = reported (ua s) /\ s' = set_ua (bump (ua s)) s.
    Proof.
      intro H. apply acall_some in H. destruct H as [u' [H ->]]. cbn [u_list] in H. injection H as <- <-.
      split; reflexivity.
    Qed.
    Lemma acall_sign_some t s s' i : acall (u_sign t) s = (s', Some i) -> i = t.
    Proof.
      intro H. apply acall_some in H. destruct H as [u' [H _]]. unfold u_sign in H.
      destruct (ulocked (bump (ua s))); [discriminate|]. destruct (mem_b t (ids (bump (ua s)))); [|discriminate].
      injection H as _ <-. reflexivity.
    Qed.
    (** Listing the agent never changes its identities, whatever the proxy does. *)
    Lemma acall_list_ids s : ids (ua (fst (acall u_list s))) = ids (ua s).
    Proof.
      unfold Shim.acall. destruct (closed s); [reflexivity|]. unfold call.
      destruct (alive (ua s)); cbn [negb]; [|reflexivity].
      destruct (script (reqno (ua s))) as [ft|]; [|reflexivity].
      destruct (f_exec ft), (is_close (f_kind ft)); reflexivity.
    Qed.
    Lemma acall_mem {A} (f : uagent -> uagent * option A) s : mem (fst (acall f s)) = mem s.
    Proof. destruct (acall f s) as [s' r] eqn:H. apply acall_frame in H. cbn [fst]. tauto. Qed.

    (** ** AddHardCert *)
    Lemma addhard_any now s key :
      locked s = false ->
      let '(s', r) := step now s (AddHardCert key) in
      ids (ua s') = ids (ua s) /\
      match r with
      | ROk => (In key (mem s) \/ (is_cert info key = true /\ In (pubkey_of info key) (reported (ua s)))) /\
               mem s' = (if mem_b key (mem s) then mem s else mem s ++ [key])
      | RErr _ => mem s' = mem s
      | _ => False
      end.
    Proof.
      intro Hlk. cbn [Shim.step]. rewrite Hlk.
      destruct (mem_b key (mem s)) eqn:Hk.
      { split; [reflexivity|]. split; [left; apply mem_b_In; exact Hk|reflexivity]. }
      destruct (is_cert info key) eqn:Hc; cbn [negb]; [|auto].
      pose proof (acall_list_ids s) as Hi. pose proof (acall_mem u_list s) as Hm.
      destruct (acall u_list s) as [s1 [l|]] eqn:Hcall; cbn [fst] in Hi, Hm; [|auto].
      apply acall_list_some in Hcall. destruct Hcall as [-> _].
      destruct (mem_b (pubkey_of info key) (reported (ua s))) eqn:Hp.
      - split; [exact Hi|]. split; [right; split; [reflexivity|apply mem_b_In; exact Hp]|]. cbn. rewrite Hm. reflexivity.
      - auto.
    Qed.

    (** ** Sign: a returned signature verifies under the public key of the
        identity asked for (the certificate's key for a certificate). *)
    Lemma sign_any now s key data flags :
      wf_info info ->
      match snd (step now s (Sign key data flags)) with
      | RSig k d f => k = pubkey_of info key /\ d = data /\ f = flags
      | RErr _ => True
      | _ => False
      end.
    Proof.
      intro Hwf. cbn [Shim.step]. destruct (locked s); [exact I|].
      destruct (filter_certs info script now s) as [s1 [v|]]; [|exact I].
      assert (Hgo : forall t, pubkey_of info t = pubkey_of info key ->
        match snd (let '(s2, r) := acall (u_sign t) s1 in
                   match r with Some i => (s2, RSig (pubkey_of info i) data flags) | None => (s2, RErr EOther) end) with
        | RSig k d f => k = pubkey_of info key /\ d = data /\ f = flags
        | RErr _ => True
        | _ => False
        end).
      { intros t Ht. destruct (acall (u_sign t) s1) as [s2 [i|]] eqn:Hc; cbn [snd]; [|exact I].
        apply acall_sign_some in Hc. subst i. auto. }
      destruct (is_cert info key) eqn:Hc.
      - destruct (mem_b key (mem s1)).
        + apply Hgo. apply (pubkey_idem info Hwf key Hc).
        + destruct (ysshca info key && noup s1); [exact I|]. apply Hgo. reflexivity.
      - apply Hgo. reflexivity.
    Qed.

    (** ** Listings: nothing is invented, what stays in memory is listed. *)
    Lemma list_any now s :
      Inv s -> locked s = false ->
      let '(s', r) := step now s List_ in
      match r with
      | RList l => (forall b, In b l -> In b (mem s') \/ In b (ids (ua s))) /\ (forall b, In b (mem s') -> In b l)
      | RErr _ => True
      | _ => False
      end.
    Proof.
      intros HI Hlk. cbn [Shim.step]. rewrite Hlk.
      pose proof (filter_certs_any info script now s) as H.
      pose proof (acall_list_nodup info script s HI) as Hnd.
      destruct (acall u_list s) as [s0 r0] eqn:Hc0. cbn [snd] in Hnd.
      destruct (filter_certs info script now s) as [s1 res].
      destruct r0 as [L|]; [|destruct H as [_ ->]; exact I].
      apply acall_list_some in Hc0. destruct Hc0 as [-> _].
      destruct H as [_ [_ [_ [_ [_ [_ Hv]]]]]].
      destruct res as [view|]; [|exact I].
      pose proof (list_agent_incl info view s1) as Hincl. destruct (list_agent_mem info view s1) as [Hm2 _].
      destruct (list_agent info s1 view) as [s2 l]. cbn [fst snd] in *. rewrite Hm2. split.
      - intros b Hb. apply in_app_or in Hb. destruct Hb as [Hb|Hb]; [left; exact Hb|right].
        apply Hincl in Hb. destruct (Hv view eq_refl Hnd b Hb) as [Hb' _]. apply reported_incl. exact Hb'.
      - intros b Hb. apply in_or_app. left. exact Hb.
    Qed.

    Lemma signers_any now s :
      Inv s ->
      let '(s', r) := step now s Signers in
      match r with
      | RSigners l => (forall b, In b l -> In b (mem s') \/ In b (ids (ua s))) /\ (forall b, In b (mem s') -> In b l)
      | RErr _ => True
      | _ => False
      end.
    Proof.
      intro HI. cbn [Shim.step]. destruct (locked s); [exact I|].
      pose proof (filter_certs_any info script now s) as H.
      destruct (acall u_list s) as [s0 r0] eqn:Hc0.
      destruct (filter_certs info script now s) as [s1 res].
      destruct r0 as [L|]; [|destruct H as [_ ->]; exact I].
      destruct H as [_ [_ [Hsub _]]].
      destruct res as [view|]; [|exact I].
      pose proof (acall_mem u_list s1) as Hm2.
      destruct (acall u_list s1) as [s2 [l2|]] eqn:Hc2; cbn [fst] in Hm2; [|exact I].
      apply acall_list_some in Hc2. destruct Hc2 as [-> Hs2].
      assert (Hl2 : forall b, In b (reported (ua s1)) -> In b (ids (ua s))).
      { intros b Hb. apply reported_incl in Hb. eapply subl_In; eauto. }
      unfold signers_agent. destruct (noup s2).
      - pose proof (list_agent_incl info (reported (ua s1)) s2) as Hincl.
        destruct (list_agent_mem info (reported (ua s1)) s2) as [Hm3 _].
        destruct (list_agent info s2 (reported (ua s1))) as [s3 l']. cbn [fst snd] in *. rewrite Hm3, Hm2. split.
        + intros b Hb. apply in_app_or in Hb. destruct Hb as [Hb|Hb]; [left; exact Hb|right]. apply Hl2. apply Hincl. exact Hb.
        + intros b Hb. apply in_or_app. left. exact Hb.
      - rewrite Hm2. split.
        + intros b Hb. apply in_app_or in Hb. destruct Hb as [Hb|Hb]; [left; exact Hb|right]. apply Hl2. exact Hb.
        + intros b Hb. apply in_or_app. left. exact Hb.
    Qed.

    (** ** Add / Remove / RemoveAll: the agent's own effect, nothing else *)
    Lemma add_any now s b :
      locked s = false ->
      let '(s', r) := step now s (Add b) in
      mem s' = mem s /\
      match r with
      | ROk => ids (ua s') = (if mem_b b (ids (ua s)) then ids (ua s) else ids (ua s) ++ [b])
      | RErr _ => True
      | _ => False
      end.
    Proof.
      intro Hlk. cbn [Shim.step]. rewrite Hlk. pose proof (acall_mem (u_add b) s) as Hm.
      destruct (acall (u_add b) s) as [s1 [[]|]] eqn:Hc; cbn [fst] in Hm; [|auto].
      split; [exact Hm|]. apply acall_some in Hc. destruct Hc as [u' [Hu ->]]. unfold u_add in Hu.
      destruct (ulocked (bump (ua s))); [discriminate|]. injection Hu as <-. reflexivity.
    Qed.

    Lemma remove_any now s key :
      locked s = false ->
      let '(s', r) := step now s (Remove key) in
      mem s' = remove_blob key (mem s) /\
      match r with ROk => True | RErr _ => ~ In key (mem s) | _ => False end.
    Proof.
      intro Hlk. cbn [Shim.step]. rewrite Hlk.
      pose proof (remove_key_mem script key s) as Hm. pose proof (remove_key_fail script key s) as Hf.
      destruct (remove_key script key s) as [s1 ok]. cbn [fst snd] in *. split; [exact Hm|].
      destruct ok; [exact I|apply Hf; reflexivity].
    Qed.

    Lemma remove_all_any now s :
      locked s = false ->
      let '(s', r) := step now s RemoveAll in
      mem s' = [] /\
      match r with ROk => ids (ua s') = [] | RErr _ => True | _ => False end.
    Proof.
      intro Hlk. cbn [Shim.step]. rewrite Hlk.
      pose proof (acall_mem u_remove_all (set_cache [] (set_mem [] s))) as Hm.
      destruct (acall u_remove_all (set_cache [] (set_mem [] s))) as [s1 [[]|]] eqn:Hc; cbn [fst] in Hm; [|auto].
      split; [exact Hm|]. apply acall_some in Hc. destruct Hc as [u' [Hu ->]]. unfold u_remove_all in Hu.
      destruct (ulocked _); [discriminate|]. injection Hu as <-. reflexivity.
    Qed.

    (** ** Forward: the body reaches the agent unchanged and is logged once;
        the canned reply comes back unchanged; bodies and replies above the
        bound are errors; an injected reply needs a fault. *)
    Lemma forward_any now s raw len rlen :
      let '(s', r) := step now s (Forward raw len rlen) in
      mem s' = mem s /\ ids (ua s') = ids (ua s) /\
      if (max_frame <? len)%N then (exists e, r = RErr e) /\ s' = s
      else match r with
           | RRaw x => x = raw /\ rawlog (ua s') = rawlog (ua s) ++ [raw] /\ (max_frame <? rlen)%N = false
           | RRawInjected _ => script (reqno (ua s)) <> None
           | RErr _ => True
           | _ => False
           end.
    Proof.
      cbn [Shim.step]. destruct (max_frame <? len)%N; [split; [reflexivity|]; split; [reflexivity|]; split; [eexists; reflexivity|reflexivity]|].
      destruct (closed s); [auto|].
      unfold call_raw. destruct (alive (ua s)); cbn [negb]; [|auto].
      destruct (script (reqno (ua s))) as [ft|] eqn:Hs.
      - destruct (f_exec ft), (f_kind ft); cbn; repeat split; try reflexivity; try exact I; discriminate.
      - destruct (max_frame <? rlen)%N; cbn; auto.
    Qed.

    (** ** Survival: whatever the agent does, an in-memory certificate that is
        inside its window and backed by what the agent reports stays in memory
        unless the operation removes it explicitly. *)
    Lemma filter_keeps now s c :
      In c (mem s) -> keeps info now (reported (ua s)) c = true ->
      In c (mem (fst (filter_certs info script now s))).
    Proof.
      intros Hc Hk. pose proof (filter_certs_any info script now s) as H.
      destruct (acall u_list s) as [s0 r0] eqn:Hc0.
      destruct (filter_certs info script now s) as [s1 res]. cbn [fst].
      destruct r0 as [L|].
      - apply acall_list_some in Hc0. destruct Hc0 as [-> _].
        destruct H as [_ [_ [_ [_ [H _]]]]]. apply H; assumption.
      - destruct H as [-> _]. apply acall_frame in Hc0. destruct Hc0 as [-> _]. exact Hc.
    Qed.

    Lemma step_survive now s o c :
      In c (mem s) -> keeps info now (reported (ua s)) c = true -> targeted o c = false ->
      In c (mem (fst (step now s o))).
    Proof.
      intros Hc Hk Ht. pose proof (filter_keeps now s c Hc Hk) as Hf.
      destruct o; cbn [Shim.step].
      - destruct (locked s); [exact Hc|].
        destruct (filter_certs info script now s) as [s1 [view|]]; cbn [fst] in *; [|exact Hf].
        destruct (list_agent_mem info view s1) as [Hm _]. destruct (list_agent info s1 view) as [s2 l].
        cbn [fst] in *. rewrite Hm. exact Hf.
      - destruct (locked s); [exact Hc|].
        destruct (filter_certs info script now s) as [s1 [view|]]; cbn [fst] in *; [|exact Hf].
        pose proof (acall_mem u_list s1) as Hm2. destruct (acall u_list s1) as [s2 [l2|]]; cbn [fst] in *; [|rewrite Hm2; exact Hf].
        unfold signers_agent. destruct (noup s2); [|cbn [fst]; rewrite Hm2; exact Hf].
        destruct (list_agent_mem info l2 s2) as [Hm3 _]. destruct (list_agent info s2 l2) as [s3 l'].
        cbn [fst] in *. rewrite Hm3, Hm2. exact Hf.
      - destruct (locked s); [exact Hc|].
        destruct (filter_certs info script now s) as [s1 [view|]]; cbn [fst] in *; [|exact Hf].
        match goal with |- context [match ?t with Some _ => _ | None => _ end] => destruct t as [tg|] end;
          cbn [fst]; [|exact Hf].
        pose proof (acall_mem (u_sign tg) s1) as Hm2. destruct (acall (u_sign tg) s1) as [s2 [i|]]; cbn [fst] in *;
          rewrite Hm2; exact Hf.
      - destruct (locked s); [exact Hc|]. pose proof (acall_mem (u_add b) s) as Hm.
        destruct (acall (u_add b) s) as [s1 r]. cbn [fst] in *. rewrite Hm. exact Hc.
      - destruct (locked s); [exact Hc|]. destruct (mem_b key (mem s)); [exact Hc|].
        destruct (negb (is_cert info key)); [exact Hc|]. pose proof (acall_mem u_list s) as Hm.
        destruct (acall u_list s) as [s1 [l|]]; cbn [fst] in *; [|rewrite Hm; exact Hc].
        destruct (mem_b (pubkey_of info key) l); cbn [fst]; [|rewrite Hm; exact Hc].
        cbn. rewrite Hm. apply in_or_app. left. exact Hc.
      - destruct (locked s); [exact Hc|]. pose proof (remove_key_mem script key s) as Hm.
        destruct (remove_key script key s) as [s1 ok]. cbn [fst] in *. rewrite Hm.
        apply In_remove_blob. split; [exact Hc|]. cbn [targeted] in Ht. intro E. subst c. rewrite N.eqb_refl in Ht. discriminate.
      - discriminate Ht.
      - destruct (locked s); [exact Hc|]. pose proof (acall_mem (u_lock p) s) as Hm.
        destruct (acall (u_lock p) s) as [s1 [r|]]; cbn [fst] in *; cbn; rewrite Hm; exact Hc.
      - destruct (negb (locked s)); [exact Hc|]. pose proof (acall_mem (u_unlock p) s) as Hm.
        destruct (acall (u_unlock p) s) as [s1 [r|]]; cbn [fst] in *; cbn; rewrite Hm; exact Hc.
      - destruct (max_frame <? len)%N; [exact Hc|]. destruct (closed s); [exact Hc|].
        destruct (call_raw script raw (max_frame <? rlen)%N (ua s)) as [u' r]. exact Hc.
      - destruct (locked s); [exact Hc|]. destruct (closed s); exact Hc.
      - exact Hc.
      - exact Hc.
    Qed.

    (** ** Construction never crashes (given that New hands the error back). *)
    Lemma construct_total nu u :
      new_returns_construct_error = true -> exists r, construct info script nu u = Val r.
    Proof.
      intro H. unfold construct. destruct (new_shim_agent info script nu u); [eexists; reflexivity|].
      rewrite H. eexists. reflexivity.
    Qed.
  End AnyScript.
End World.
