(** C01: proof of possession before anything is signed or added; first
    successful handler generates; challenge freshness over histories. *)
From Verif Require Import Lib.Base Lib.Json Generated.KeyIdGen Generated.GensignGen
  Model.KeyId Model.HandlerConf Model.Gensign Model.GensignCheck Proofs.GensignBase Proofs.GensignFootprint.
Local Open Scope N_scope.
Set Default Timeout 120.

(** ** Events of one handler's authentication *)
Definition auth_tag (i : nat) (ev : event) : bool :=
  match ev with EvAgent (PAuth j) (RSign _ _) _ _ => Nat.eqb i j | _ => false end.
Definition ok_true (ev : event) : bool :=
  match ev with EvAgent _ _ StOk true => true | _ => false end.

Lemma auth_tag_auth_only i ev : auth_tag i ev = true -> auth_only ev = true.
Proof. destruct ev as [| |ph r st v| |]; simpl; try discriminate. destruct ph, r; simpl; auto; discriminate. Qed.

Lemma is_pop_ok_true i pk ev : is_pop i pk ev = true -> ok_true ev = true.
Proof.
  destruct ev as [| |ph r st v| |]; simpl; try discriminate.
  destruct ph, r, st, v; simpl; auto; discriminate.
Qed.
Lemma is_pop_tag i pk ev : is_pop i pk ev = true -> auth_tag i ev = true.
Proof.
  destruct ev as [| |ph r st v| |]; simpl; try discriminate.
  destruct ph, r, st, v; simpl; try discriminate. intro H. apply andb_true_iff in H as [H _]. exact H.
Qed.

Lemma no_ok_true_no_pop i pk l : existsb ok_true l = false -> existsb (is_pop i pk) l = false.
Proof.
  intro H. destruct (existsb (is_pop i pk) l) eqn:E; [|reflexivity].
  apply existsb_exists in E as [x [Hx Hp]]. apply is_pop_ok_true in Hp.
  assert (existsb ok_true l = true) by (apply existsb_exists; eauto). congruence.
Qed.

Lemma guards_ok_some p a :
  str_eqb (p_ns p) no_namespace = true -> p_attrs p = Some a -> a_hardkey a = false ->
  guards_ok (Some p) = true.
Proof.
  intros Hn Ha Hh. unfold guards_ok. rewrite no_namespace_is_NONS in Hn. rewrite Hn, Ha, Hh. reflexivity.
Qed.

(** regular.Authenticate: what it emits, and when it returns nil. *)
Lemma reg_authenticate_spec e i po s s' ev r :
  reg_authenticate e i po s = (s', ev, r) ->
  forallb (auth_tag i) ev = true /\
  s_store s' = s_store s /\ s_kdraws s' = s_kdraws s /\ s_scalls s' = s_scalls s /\
  match r with
  | ROk _ =>
      exists p pk, po = Some p /\ guards_ok po = true /\
        registered_key (e_dir e) (p_logname p) = Some pk /\
        ev = [EvAgent (PAuth i) (RSign pk (e_chal e (s_cdraws s))) StOk true] /\
        s_cdraws s' = S (s_cdraws s)
  | _ => existsb ok_true ev = false
  end.
Proof.
  unfold reg_authenticate. intro H.
  destruct po as [p|]; [|injection H as <- <- <-; simpl; auto 10].
  destruct (negb (str_eqb (p_ns p) no_namespace)) eqn:Hns; [injection H as <- <- <-; simpl; auto 10|].
  apply negb_false_iff in Hns.
  destruct (p_attrs p) as [a|] eqn:Ha; [|injection H as <- <- <-; simpl; auto 10].
  destruct (a_hardkey a) eqn:Hh; [injection H as <- <- <-; simpl; auto 10|].
  destruct (lookup_pubkey (e_dir e) (p_logname p)) as [pk|] eqn:Hl; [|injection H as <- <- <-; simpl; auto 10].
  destruct (agent_req e (PAuth i) (RSign pk (e_chal e (s_cdraws s))) (bump_cdraws s)) as [[s2 ev2] rep] eqn:Hr.
  pose proof (agent_req_sign_store _ _ _ _ _ _ _ _ Hr) as Hst.
  pose proof (agent_req_counters _ _ _ _ _ _ _ Hr) as [Hc [Hk Hsc]].
  pose proof (agent_req_sign_reply _ _ _ _ _ _ _ _ Hr) as Hrep.
  assert (Htag : forallb (auth_tag i) ev2 = true).
  { apply agent_req_shape in Hr as [[-> _]|[st [v [-> _]]]]; simpl; [reflexivity|]. rewrite Nat.eqb_refl. reflexivity. }
  assert (Hno : (forall x, In x ev2 -> match x with EvAgent _ _ StOk _ => False | _ => True end) ->
                existsb ok_true ev2 = false).
  { intro Hall. destruct (existsb ok_true ev2) eqn:E; [|reflexivity].
    apply existsb_exists in E as [x [Hx Ho]]. specialize (Hall x Hx).
    destruct x as [| |ph r0 st v| |]; simpl in Ho; try discriminate. destruct st; try discriminate. contradiction. }
  cbn [bump_cdraws s_store s_kdraws s_scalls s_cdraws] in *.
  destruct rep as [|g| |l].
  - injection H as <- <- <-. repeat split; auto.
  - destruct (verify pk (e_chal e (s_cdraws s)) g) eqn:Hv.
    + injection H as <- <- <-.
      split; [exact Htag|]. split; [exact Hst|]. split; [exact Hk|]. split; [exact Hsc|].
      exists p, pk. rewrite registered_key_lookup.
      split; [reflexivity|]. split; [eapply guards_ok_some; eauto|]. split; [exact Hl|].
      split; [rewrite Hrep; try rewrite Hv; reflexivity | exact Hc].
    + injection H as <- <- <-.
      split; [exact Htag|]. split; [exact Hst|]. split; [exact Hk|]. split; [exact Hsc|].
      rewrite Hrep. simpl. try rewrite Hv. reflexivity.
  - contradiction.
  - contradiction.
Qed.

(** Whether handler [i] is "accepted" only depends on events tagged with [i]. *)
Definition tagged_any (i : nat) (ev : event) : bool :=
  match ev with EvAgent (PAuth j) _ _ _ => Nat.eqb i j | _ => false end.

Lemma is_pop_tagged_any i pk ev : is_pop i pk ev = true -> tagged_any i ev = true.
Proof.
  destruct ev as [| |ph r st v| |]; simpl; try discriminate.
  destruct ph, r, st, v; simpl; try discriminate. intro H. apply andb_true_iff in H as [H _]. exact H.
Qed.

Lemma existsb_pop_app i pk l1 l2 :
  existsb (is_pop i pk) (l1 ++ l2) = existsb (is_pop i pk) l1 || existsb (is_pop i pk) l2.
Proof. apply existsb_app. Qed.

Lemma no_tag_no_pop i pk l :
  forallb (fun x => negb (tagged_any i x)) l = true -> existsb (is_pop i pk) l = false.
Proof.
  intro H. destruct (existsb (is_pop i pk) l) eqn:E; [|reflexivity].
  apply existsb_exists in E as [x [Hx Hp]]. apply is_pop_tagged_any in Hp.
  rewrite forallb_forall in H. specialize (H x Hx). rewrite Hp in H. discriminate.
Qed.

Lemma accepted_app_l dir po l1 l2 i h :
  forallb (fun x => negb (tagged_any i x)) l1 = true ->
  accepted dir po (l1 ++ l2) i h = accepted dir po l2 i h.
Proof.
  intro H. unfold accepted. destruct h as [c|np a g]; [|reflexivity].
  destruct po as [p|]; [|reflexivity].
  destruct (registered_key dir (p_logname p)) as [pk|]; [|reflexivity].
  rewrite existsb_pop_app, (no_tag_no_pop _ _ _ H). reflexivity.
Qed.
Lemma accepted_app_r dir po l1 l2 i h :
  forallb (fun x => negb (tagged_any i x)) l2 = true ->
  accepted dir po (l1 ++ l2) i h = accepted dir po l1 i h.
Proof.
  intro H. unfold accepted. destruct h as [c|np a g]; [|reflexivity].
  destruct po as [p|]; [|reflexivity].
  destruct (registered_key dir (p_logname p)) as [pk|]; [|reflexivity].
  rewrite existsb_pop_app, (no_tag_no_pop _ _ _ H), orb_false_r. reflexivity.
Qed.
Lemma accepted_cons_auth dir po l i j h :
  accepted dir po (EvAuth j :: l) i h = accepted dir po l i h.
Proof. apply (accepted_app_l dir po [EvAuth j] l). reflexivity. Qed.

(** Authenticate of any handler. *)
Lemma authenticate_spec e i h po s s' ev r :
  authenticate e i h po s = (s', ev, r) ->
  forallb (auth_tag i) ev = true /\
  s_store s' = s_store s /\ s_kdraws s' = s_kdraws s /\ s_scalls s' = s_scalls s /\
  accepted (e_dir e) po ev i h = match r with ROk _ => true | _ => false end.
Proof.
  unfold authenticate. destruct h as [c|np a g].
  - intro H. apply reg_authenticate_spec in H as [Ht [Hs [Hk [Hc Hr]]]]. repeat split; auto.
    unfold accepted. destruct r as [u|k|].
    + destruct Hr as [p [pk [-> [Hg [Hreg [-> _]]]]]]. rewrite Hg, Hreg. simpl.
      rewrite !Nat.eqb_refl, N.eqb_refl. reflexivity.
    + destruct (guards_ok po); [|reflexivity]. destruct po as [p|]; [|reflexivity].
      destruct (registered_key _ _); [|reflexivity]. simpl. apply no_ok_true_no_pop. exact Hr.
    + destruct (guards_ok po); [|reflexivity]. destruct po as [p|]; [|reflexivity].
      destruct (registered_key _ _); [|reflexivity]. simpl. apply no_ok_true_no_pop. exact Hr.
  - destruct a as [u|k|]; intro H; injection H as <- <- <-; simpl; auto.
Qed.

(** ** The handler loop *)
Definition idx_between (lo hi : nat) (ev : event) : bool :=
  match ev with
  | EvAuth j => (lo <=? j)%nat && (j <? hi)%nat
  | EvAgent (PAuth j) _ _ _ => (lo <=? j)%nat && (j <? hi)%nat
  | _ => true
  end.

Lemma auth_tag_between i lo hi ev :
  (lo <= i < hi)%nat -> auth_tag i ev = true -> idx_between lo hi ev = true.
Proof.
  intros Hi. destruct ev as [| |ph r st v| |]; simpl; try discriminate.
  destruct ph, r; simpl; try discriminate. intro H. apply Nat.eqb_eq in H. subst.
  apply andb_true_iff. split; [apply Nat.leb_le | apply Nat.ltb_lt]; lia.
Qed.

Lemma idx_between_widen lo hi lo' hi' ev :
  (lo' <= lo)%nat -> (hi <= hi')%nat -> idx_between lo hi ev = true -> idx_between lo' hi' ev = true.
Proof.
  intros H1 H2. destruct ev as [j| |ph r st v| |]; simpl; auto.
  - rewrite !andb_true_iff, !Nat.leb_le, !Nat.ltb_lt. lia.
  - destruct ph; auto. rewrite !andb_true_iff, !Nat.leb_le, !Nat.ltb_lt. lia.
Qed.

Lemma between_not_tagged lo hi j l :
  (j < lo \/ hi <= j)%nat -> forallb (idx_between lo hi) l = true ->
  forallb (fun x => negb (tagged_any j x)) l = true.
Proof.
  intros Hj. apply forallb_impl. intros x Hx.
  destruct x as [| |ph r st v| |]; simpl; auto. destruct ph; simpl; auto.
  simpl in Hx. apply andb_true_iff in Hx as [H1 H2]. apply Nat.leb_le in H1. apply Nat.ltb_lt in H2.
  apply negb_true_iff, Nat.eqb_neq. lia.
Qed.

Lemma between_not_asked lo hi j l :
  (j < lo \/ hi <= j)%nat -> forallb (idx_between lo hi) l = true -> asked l j = false.
Proof.
  intros Hj H. unfold asked. destruct (existsb _ l) eqn:E; [|reflexivity].
  apply existsb_exists in E as [x [Hx Hp]]. rewrite forallb_forall in H. specialize (H x Hx).
  destruct x as [k| | | |]; try discriminate. apply Nat.eqb_eq in Hp. subst k. simpl in H.
  apply andb_true_iff in H as [H1 H2]. apply Nat.leb_le in H1. apply Nat.ltb_lt in H2. lia.
Qed.

Lemma between_index_le lo hi i l :
  (hi <= S i)%nat -> forallb (idx_between lo hi) l = true -> forallb (auth_index_le i) l = true.
Proof.
  intro Hi. apply forallb_impl. intros x Hx. destruct x as [j| |ph r st v| |]; simpl in *; auto.
  - apply andb_true_iff in Hx as [_ H2]. apply Nat.ltb_lt in H2. apply Nat.leb_le. lia.
  - destruct ph; auto. apply andb_true_iff in Hx as [_ H2]. apply Nat.ltb_lt in H2. apply Nat.leb_le. lia.
Qed.

Lemma auth_tag_index_le i k ev : (i <= k)%nat -> auth_tag i ev = true -> auth_index_le k ev = true.
Proof.
  intro Hk. destruct ev as [| |ph r st v| |]; simpl; try discriminate.
  destruct ph, r; simpl; try discriminate. intro H. apply Nat.eqb_eq in H. subst. apply Nat.leb_le. exact Hk.
Qed.

Lemma asked_app l1 l2 j : asked (l1 ++ l2) j = asked l1 j || asked l2 j.
Proof. apply existsb_app. Qed.

(** The loop: what it emits, whom it selects. *)
Lemma auth_loop_spec e po : forall hs i0 s s' ev r,
  auth_loop e po i0 hs s = (s', ev, r) ->
  forallb auth_only ev = true /\
  forallb (idx_between i0 (i0 + length hs)) ev = true /\
  s_store s' = s_store s /\ s_kdraws s' = s_kdraws s /\ s_scalls s' = s_scalls s /\
  match r with
  | ROk (Some (i, h)) =>
      (i0 <= i)%nat /\ nth_error hs (i - i0) = Some h /\
      accepted (e_dir e) po ev i h = true /\
      (forall j h', (i0 <= j < i)%nat -> nth_error hs (j - i0) = Some h' ->
                    asked ev j = true /\ accepted (e_dir e) po ev j h' = false) /\
      forallb (auth_index_le i) ev = true
  | ROk None =>
      forall j h', (i0 <= j)%nat -> nth_error hs (j - i0) = Some h' ->
                   asked ev j = true /\ accepted (e_dir e) po ev j h' = false
  | RErr _ => False
  | RPanic => True
  end.
Proof.
  induction hs as [|h rest IH]; intros i0 s s' ev r H.
  - simpl in H. injection H as <- <- <-. simpl.
    do 5 (split; [reflexivity|]).
    intros j h' _ Hn. destruct (j - i0)%nat; discriminate.
  - cbn [auth_loop] in H.
    destruct (authenticate e i0 h po s) as [[s1 ev1] r1] eqn:Ha.
    apply authenticate_spec in Ha as [Ht [Hs1 [Hk1 [Hc1 Hacc]]]].
    assert (Hao1 : forallb auth_only ev1 = true).
    { revert Ht. apply forallb_impl. intros x. apply auth_tag_auth_only. }
    assert (Hb1 : forallb (idx_between i0 (i0 + length (h :: rest))) ev1 = true).
    { revert Ht. apply forallb_impl. intros x. apply auth_tag_between. simpl. lia. }
    assert (Hb1t : forallb (idx_between i0 (S i0)) ev1 = true).
    { revert Ht. apply forallb_impl. intros x. apply auth_tag_between. lia. }
    assert (Hhead : idx_between i0 (i0 + length (h :: rest)) (EvAuth i0) = true).
    { simpl. apply andb_true_iff. split; [apply Nat.leb_le | apply Nat.ltb_lt]; lia. }
    assert (Hasked0 : forall l, asked (EvAuth i0 :: l) i0 = true).
    { intro l. unfold asked. simpl. rewrite Nat.eqb_refl. reflexivity. }
    destruct r1 as [u|k|].
    + (* accepted *)
      injection H as <- <- <-. cbn [forallb auth_only]. rewrite Hao1, Hhead, Hb1.
      split; [reflexivity|]. split; [reflexivity|]. split; [exact Hs1|]. split; [exact Hk1|]. split; [exact Hc1|].
      split; [lia|]. split; [rewrite Nat.sub_diag; reflexivity|].
      split; [rewrite accepted_cons_auth; exact Hacc|].
      split; [intros j h' Hj; lia|].
      simpl. rewrite Nat.leb_refl. simpl.
      revert Ht. apply forallb_impl. intros x. apply auth_tag_index_le. lia.
    + (* refused *)
      destruct (name_panics_of h).
      * injection H as <- <- <-. cbn [forallb auth_only]. rewrite Hao1, Hhead, Hb1.
        split; [reflexivity|]. split; [reflexivity|]. split; [exact Hs1|]. split; [exact Hk1|]. split; [exact Hc1|]. exact I.
      * destruct (auth_loop e po (S i0) rest s1) as [[s2 ev2] r2] eqn:Hl.
        injection H as <- <- <-.
        apply IH in Hl as [Hao2 [Hb2 [Hs2 [Hk2 [Hc2 Hr2]]]]].
        assert (Hb2' : forallb (idx_between i0 (i0 + length (h :: rest))) ev2 = true).
        { revert Hb2. apply forallb_impl. intros x. apply idx_between_widen; simpl; lia. }
        assert (Hnt2 : forallb (fun x => negb (tagged_any i0 x)) ev2 = true).
        { eapply between_not_tagged; [|exact Hb2]. lia. }
        assert (Hnt1 : forall j, (S i0 <= j)%nat -> forallb (fun x => negb (tagged_any j x)) (EvAuth i0 :: ev1) = true).
        { intros j Hj. simpl. eapply between_not_tagged; [|exact Hb1t]. lia. }
        change ((EvAuth i0 :: ev1) ++ ev2) with (EvAuth i0 :: (ev1 ++ ev2)).
        cbn [forallb auth_only]. rewrite !forallb_app, Hao1, Hao2, Hhead, Hb1, Hb2'.
        split; [reflexivity|]. split; [reflexivity|]. split; [congruence|]. split; [congruence|]. split; [congruence|].
        (* the head handler: asked, not accepted *)
        assert (Hhd : asked (EvAuth i0 :: ev1 ++ ev2) i0 = true /\
                      accepted (e_dir e) po (EvAuth i0 :: ev1 ++ ev2) i0 h = false).
        { split; [apply Hasked0|]. rewrite accepted_cons_auth, accepted_app_r by exact Hnt2. exact Hacc. }
        (* handlers of the tail: reduce to the tail's events *)
        assert (Htl : forall j h', (S i0 <= j)%nat ->
                  asked (EvAuth i0 :: ev1 ++ ev2) j = asked ev2 j /\
                  accepted (e_dir e) po (EvAuth i0 :: ev1 ++ ev2) j h' = accepted (e_dir e) po ev2 j h').
        { intros j h' Hj. split.
          - change (EvAuth i0 :: ev1 ++ ev2) with ((EvAuth i0 :: ev1) ++ ev2). rewrite asked_app.
            rewrite (between_not_asked i0 (S i0) j); [reflexivity|lia|].
            simpl. rewrite Nat.leb_refl. replace (i0 <? S i0)%nat with true by (symmetry; apply Nat.ltb_lt; lia).
            simpl. revert Ht. apply forallb_impl. intros x. apply auth_tag_between. lia.
          - change (EvAuth i0 :: ev1 ++ ev2) with ((EvAuth i0 :: ev1) ++ ev2).
            apply accepted_app_l. apply Hnt1. exact Hj. }
        destruct r2 as [[[i h2]|]|k2|].
        -- destruct Hr2 as [Hle [Hnth [Hacc2 [Hprev Hidx]]]].
           split; [lia|].
           split; [replace (i - i0)%nat with (S (i - S i0)) by lia; exact Hnth|].
           split; [rewrite (proj2 (Htl i h2 Hle)); exact Hacc2|].
           split.
           ++ intros j h' Hj Hn. destruct (Nat.eq_dec j i0) as [->|Hne].
              ** rewrite Nat.sub_diag in Hn. injection Hn as <-. exact Hhd.
              ** rewrite (proj1 (Htl j h' ltac:(lia))), (proj2 (Htl j h' ltac:(lia))).
                 apply (Hprev j h'); [lia|]. replace (j - i0)%nat with (S (j - S i0)) in Hn by lia. exact Hn.
           ++ simpl. replace (i0 <=? i)%nat with true by (symmetry; apply Nat.leb_le; lia). simpl.
              rewrite forallb_app. rewrite Hidx, andb_true_r.
              revert Ht. apply forallb_impl. intros x. apply auth_tag_index_le. lia.
        -- intros j h' Hj Hn. destruct (Nat.eq_dec j i0) as [->|Hne].
           ++ rewrite Nat.sub_diag in Hn. injection Hn as <-. exact Hhd.
           ++ rewrite (proj1 (Htl j h' ltac:(lia))), (proj2 (Htl j h' ltac:(lia))).
              apply Hr2; [lia|]. replace (j - i0)%nat with (S (j - S i0)) in Hn by lia. exact Hn.
        -- exact Hr2.
        -- exact I.
    + injection H as <- <- <-. cbn [forallb auth_only]. rewrite Hao1, Hhead, Hb1.
      split; [reflexivity|]. split; [reflexivity|]. split; [exact Hs1|]. split; [exact Hk1|]. split; [exact Hc1|]. exact I.
Qed.

(** ** Events after a handler was selected: Generate-phase and delivery-phase
    agent requests other than sign requests, signer calls, foreign keys'
    AddCertsToAgent; no challenge is drawn. *)
Definition post_ev (ev : event) : bool :=
  match ev with
  | EvAgent (PAuth _) _ _ _ => false
  | EvAgent _ (RSign _ _) _ _ => false
  | EvAgent _ _ _ _ => true
  | EvSigner _ _ => true
  | EvFakeAdd _ _ => true
  | _ => false
  end.

Definition post_fp (s s' : state) (ev : list event) : Prop :=
  forallb post_ev ev = true /\ s_cdraws s' = s_cdraws s /\ s_sigs s' = s_sigs s.

Lemma post_fp_refl s : post_fp s s [].
Proof. repeat split; reflexivity. Qed.
Lemma post_fp_trans s1 s2 s3 ev1 ev2 :
  post_fp s1 s2 ev1 -> post_fp s2 s3 ev2 -> post_fp s1 s3 (ev1 ++ ev2).
Proof.
  intros [H1 [C1 G1]] [H2 [C2 G2]].
  split; [rewrite forallb_app, H1, H2; reflexivity | split; congruence].
Qed.

Lemma post_ev_not_auth ev : post_ev ev = true -> not_auth_nor_gen ev = true.
Proof. destruct ev as [| |ph r st v| |]; simpl; auto; try discriminate; destruct ph; auto. Qed.

Lemma agent_req_post e ph r s s' ev rep :
  (forall i, ph <> PAuth i) -> (forall k d, r <> RSign k d) ->
  agent_req e ph r s = (s', ev, rep) -> post_fp s s' ev.
Proof.
  intros Hph Hr H. split; [|split; [eapply agent_req_counters; exact H | eapply agent_req_sigs; eauto]].
  apply agent_req_shape in H as [[-> _]|[st [v [-> _]]]]; [reflexivity|].
  simpl. destruct ph; [exfalso; eapply Hph; reflexivity| |];
    (destruct r; [exfalso; eapply Hr; reflexivity|reflexivity..]).
Qed.

Lemma generate_post e i h po s s' ev r :
  generate e i h po s = (s', ev, r) -> post_fp s s' ev.
Proof.
  unfold generate. destruct h as [c|np a g].
  - unfold reg_generate. destruct po as [p|]; [|intro H; injection H as <- <- _; apply post_fp_refl].
    destruct (agent_req e (PGen i) _ (bump_kdraws s)) as [[s2 ev2] rep] eqn:Hr.
    apply agent_req_post in Hr; [|discriminate|discriminate].
    assert (Hfp : post_fp s s2 ev2) by (destruct Hr as [H1 [H2 H3]]; split; [exact H1 | split; [exact H2 | exact H3]]).
    intro H. destruct rep; try (injection H as <- <- _; exact Hfp).
    destruct (p_attrs p); [|injection H as <- <- _; exact Hfp].
    destruct (lookup_keyid _ _); [|injection H as <- <- _; exact Hfp].
    destruct (marshal _); injection H as <- <- _; exact Hfp.
  - destruct g; intro H; injection H as <- <- _; apply post_fp_refl.
Qed.

Lemma post_ev_agent ph r st v :
  (forall i, ph <> PAuth i) -> (forall k d, r <> RSign k d) -> post_ev (EvAgent ph r st v) = true.
Proof.
  intros Hph Hr. simpl. destruct ph; [exfalso; eapply Hph; reflexivity| |];
    (destruct r; [exfalso; eapply Hr; reflexivity|reflexivity..]).
Qed.

Lemma deliver_post e keys ki s s' ev r :
  deliver e ki keys s = (s', ev, r) -> post_fp s s' ev /\ s_kdraws s' = s_kdraws s.
Proof.
  intro H.
  apply (deliver_fp post_ev (fun ph => forall i, ph <> PAuth i)) in H;
    [| reflexivity | reflexivity | exact post_ev_agent | discriminate].
  destruct H as [H1 [H2 [H3 H4]]]. repeat split; assumption.
Qed.

Lemma after_select_events e po i h s s' ev r :
  after_select e po i h s = (s', ev, r) ->
  exists rest, ev = EvGen i :: rest /\ post_fp s s' rest.
Proof.
  unfold after_select. destruct (generate e i h po s) as [[s1 ev1] r1] eqn:Hg.
  apply generate_post in Hg.
  destruct r1 as [keys|k|]; try (intro H; injection H as <- <- _; eauto).
  destruct keys as [|key keys]; [intro H; injection H as <- <- _; eauto|].
  destruct (deliver e 0 (key :: keys) s1) as [[s2 ev2] r2] eqn:Hd. apply deliver_post in Hd as [Hd _].
  pose proof (post_fp_trans _ _ _ _ _ Hg Hd) as Hall.
  intro H. destruct r2.
  - destruct (name_panics_of h); [injection H as <- <- _; eauto|].
    destruct po; injection H as <- <- _; eauto.
  - injection H as <- <- _; eauto.
  - injection H as <- <- _; eauto.
Qed.

(** ** Reading the log back *)
Lemma split_gen_auth_only l : forallb auth_only l = true -> split_gen l = (l, None).
Proof.
  induction l as [|x l IH]; simpl; [reflexivity|].
  intro H. apply andb_true_iff in H as [Hx Hl]. rewrite (IH Hl).
  destruct x; try reflexivity. discriminate.
Qed.
Lemma split_gen_app l i rest :
  forallb auth_only l = true -> split_gen (l ++ EvGen i :: rest) = (l, Some (i, rest)).
Proof.
  induction l as [|x l IH]; simpl; [reflexivity|].
  intro H. apply andb_true_iff in H as [Hx Hl]. rewrite (IH Hl).
  destruct x; try reflexivity. discriminate.
Qed.

Lemma forallb_idx_spec {A} (f : nat -> A -> bool) : forall l i0,
  (forall j x, nth_error l j = Some x -> f (i0 + j)%nat x = true) -> forallb_idx f i0 l = true.
Proof.
  induction l as [|x l IH]; intros i0 H; simpl; [reflexivity|].
  apply andb_true_iff. split.
  - specialize (H 0%nat x eq_refl). rewrite Nat.add_0_r in H. exact H.
  - apply IH. intros j y Hj. specialize (H (S j) y Hj). rewrite Nat.add_succ_r in H. exact H.
Qed.

(** ** The C01 oracle holds on every run of the model. *)
Theorem oracle_c01_run_model e po hs s :
  let '(s', ev, r) := run_body e po hs s in
  oracle_c01_run (e_dir e) po hs (mkObs (obs_res r) ev (s_store s')) = true.
Proof.
  unfold run_body. destruct (auth_loop e po 0 hs s) as [[s1 ev1] r1] eqn:Ha.
  apply auth_loop_spec in Ha as [Hao [Hb [_ [_ [_ Hr]]]]].
  unfold oracle_c01_run. cbn [o_log o_res].
  destruct r1 as [[[i h]|]|k|].
  - destruct (after_select e po i h s1) as [[s2 ev2] r2] eqn:Hs.
    apply after_select_events in Hs as [rest [-> [Hpost _]]].
    rewrite (split_gen_app _ _ _ Hao). rewrite Hao. simpl.
    destruct Hr as [_ [Hnth [Hacc [Hprev Hidx]]]]. rewrite Nat.sub_0_r in Hnth.
    rewrite Hnth, Hacc, Hidx.
    rewrite (forallb_impl post_ev not_auth_nor_gen rest post_ev_not_auth Hpost). simpl.
    rewrite andb_true_r. apply forallb_idx_spec. intros j h' Hj. simpl.
    destruct (j <? i)%nat eqn:Hlt; [|reflexivity]. apply Nat.ltb_lt in Hlt.
    destruct (Hprev j h') as [H1 H2]; [lia | rewrite Nat.sub_0_r; exact Hj |].
    rewrite H1, H2. reflexivity.
  - rewrite (split_gen_auth_only _ Hao), Hao. simpl.
    apply forallb_idx_spec. intros j h' Hj. simpl.
    destruct (Hr j h') as [H1 H2]; [lia | rewrite Nat.sub_0_r; exact Hj |].
    rewrite H1, H2. reflexivity.
  - contradiction.
  - rewrite (split_gen_auth_only _ Hao), Hao. reflexivity.
Qed.

(** ** Challenge freshness over histories *)
From Coq Require Import Sorted FinFun.

(** [l] is the image of strictly increasing draw indices within [lo, hi). *)
Definition draws_in (chal : nat -> N) (lo hi : nat) (l : list N) : Prop :=
  exists idxs, l = map chal idxs /\ StronglySorted lt idxs /\
               Forall (fun n => (lo <= n < hi)%nat) idxs.

Lemma draws_in_nil chal lo hi : draws_in chal lo hi [].
Proof. exists []. repeat split; constructor. Qed.

Lemma draws_in_single chal lo hi n : (lo <= n < hi)%nat -> draws_in chal lo hi [chal n].
Proof.
  intro H. exists [n]. split; [reflexivity|]. split.
  - constructor; constructor.
  - constructor; [exact H | constructor].
Qed.

Lemma StronglySorted_app (l1 l2 : list nat) :
  StronglySorted lt l1 -> StronglySorted lt l2 ->
  (forall a b, In a l1 -> In b l2 -> (a < b)%nat) -> StronglySorted lt (l1 ++ l2).
Proof.
  induction l1 as [|x l1 IH]; intros H1 H2 H; simpl; [exact H2|].
  inversion H1 as [|? ? Hs Hf]; subst. constructor.
  - apply IH; auto. intros a b Ha Hb. apply H; [right; exact Ha | exact Hb].
  - apply Forall_app. split; [exact Hf|]. apply Forall_forall. intros b Hb. apply H; [left; reflexivity | exact Hb].
Qed.

Lemma draws_in_app chal lo mid hi l1 l2 :
  (lo <= mid <= hi)%nat -> draws_in chal lo mid l1 -> draws_in chal mid hi l2 ->
  draws_in chal lo hi (l1 ++ l2).
Proof.
  intros Hm [i1 [-> [S1 F1]]] [i2 [-> [S2 F2]]]. exists (i1 ++ i2).
  split; [symmetry; apply map_app|]. split.
  - apply StronglySorted_app; auto. intros a b Ha Hb.
    rewrite Forall_forall in F1, F2. specialize (F1 a Ha). specialize (F2 b Hb). lia.
  - apply Forall_app. split.
    + revert F1. apply Forall_impl. intros a Ha. lia.
    + revert F2. apply Forall_impl. intros a Ha. lia.
Qed.

Lemma StronglySorted_lt_NoDup (l : list nat) : StronglySorted lt l -> NoDup l.
Proof.
  induction 1 as [|x l Hs IH Hf]; constructor; [|exact IH].
  intro Hin. rewrite Forall_forall in Hf. specialize (Hf x Hin). lia.
Qed.

Lemma draws_in_NoDup chal lo hi l :
  Injective chal -> draws_in chal lo hi l -> NoDup l.
Proof.
  intros Hinj [idxs [-> [Hs _]]]. apply Injective_map_NoDup; [exact Hinj|].
  apply StronglySorted_lt_NoDup. exact Hs.
Qed.

Lemma post_ev_no_sign l : forallb post_ev l = true -> sign_data l = [].
Proof.
  induction l as [|x l IH]; simpl; [reflexivity|].
  intro H. apply andb_true_iff in H as [Hx Hl]. rewrite (IH Hl), app_nil_r.
  destruct x as [| |ph r st v| |]; try reflexivity. destruct ph, r; simpl in *; try reflexivity; discriminate.
Qed.

Lemma sign_data_app l1 l2 : sign_data (l1 ++ l2) = sign_data l1 ++ sign_data l2.
Proof. apply flat_map_app. Qed.

Lemma reg_authenticate_draws e i po s s' ev r :
  reg_authenticate e i po s = (s', ev, r) ->
  (s_cdraws s <= s_cdraws s')%nat /\
  draws_in (e_chal e) (s_cdraws s) (s_cdraws s') (sign_data ev).
Proof.
  unfold reg_authenticate. intro H.
  assert (Hnil : forall x, (s, @nil event, x) = (s', ev, r) ->
                 (s_cdraws s <= s_cdraws s')%nat /\ draws_in (e_chal e) (s_cdraws s) (s_cdraws s') (sign_data ev)).
  { intros x Hx. injection Hx as <- <- _. split; [lia | apply draws_in_nil]. }
  destruct po as [p|]; [|eapply Hnil; exact H].
  destruct (negb (str_eqb (p_ns p) no_namespace)); [eapply Hnil; exact H|].
  destruct (p_attrs p) as [a|]; [|eapply Hnil; exact H].
  destruct (a_hardkey a); [eapply Hnil; exact H|].
  destruct (lookup_pubkey (e_dir e) (p_logname p)) as [pk|]; [|eapply Hnil; exact H].
  destruct (agent_req e (PAuth i) (RSign pk (e_chal e (s_cdraws s))) (bump_cdraws s)) as [[s2 ev2] rep] eqn:Hr.
  pose proof (agent_req_counters _ _ _ _ _ _ _ Hr) as [Hc _]. cbn [bump_cdraws s_cdraws] in Hc.
  assert (Hres : s' = s2 /\ ev = ev2).
  { destruct rep as [|g| |l]; try (injection H as <- <- _; auto).
    destruct (verify _ _ g); injection H as <- <- _; auto. }
  destruct Hres as [-> ->]. rewrite Hc. split; [lia|].
  apply agent_req_shape in Hr as [[-> _]|[st [v [-> _]]]].
  - apply draws_in_nil.
  - simpl. apply draws_in_single. lia.
Qed.

Lemma authenticate_draws e i h po s s' ev r :
  authenticate e i h po s = (s', ev, r) ->
  (s_cdraws s <= s_cdraws s')%nat /\
  draws_in (e_chal e) (s_cdraws s) (s_cdraws s') (sign_data ev).
Proof.
  unfold authenticate. destruct h as [c|np a g]; [apply reg_authenticate_draws|].
  destruct a; intro H; injection H as <- <- _; (split; [lia | apply draws_in_nil]).
Qed.

Lemma auth_loop_draws e po : forall hs i0 s s' ev r,
  auth_loop e po i0 hs s = (s', ev, r) ->
  (s_cdraws s <= s_cdraws s')%nat /\
  draws_in (e_chal e) (s_cdraws s) (s_cdraws s') (sign_data ev).
Proof.
  induction hs as [|h rest IH]; intros i0 s s' ev r H; cbn [auth_loop] in H.
  - injection H as <- <- _. split; [lia | apply draws_in_nil].
  - destruct (authenticate e i0 h po s) as [[s1 ev1] r1] eqn:Ha.
    apply authenticate_draws in Ha as [Hle1 Hd1].
    destruct r1 as [u|k|]; [injection H as <- <- _; split; [exact Hle1 | exact Hd1] | |
                            injection H as <- <- _; split; [exact Hle1 | exact Hd1]].
    destruct (name_panics_of h); [injection H as <- <- _; split; [exact Hle1 | exact Hd1]|].
    destruct (auth_loop e po (S i0) rest s1) as [[s2 ev2] r2] eqn:Hl.
    injection H as <- <- _. apply IH in Hl as [Hle2 Hd2]. split; [lia|].
    change (draws_in (e_chal e) (s_cdraws s) (s_cdraws s2) (sign_data (ev1 ++ ev2))).
    rewrite sign_data_app.
    eapply draws_in_app; [|exact Hd1|exact Hd2]. lia.
Qed.

Lemma run_body_draws e po hs s s' ev r :
  run_body e po hs s = (s', ev, r) ->
  (s_cdraws s <= s_cdraws s')%nat /\
  draws_in (e_chal e) (s_cdraws s) (s_cdraws s') (sign_data ev).
Proof.
  unfold run_body. destruct (auth_loop e po 0 hs s) as [[s1 ev1] r1] eqn:Ha.
  apply auth_loop_draws in Ha as [Hle Hd].
  destruct r1 as [[[i h]|]|k|]; try (intro H; injection H as <- <- _; auto).
  destruct (after_select e po i h s1) as [[s2 ev2] r2] eqn:Hs.
  apply after_select_events in Hs as [rest [-> [Hpost [Hc _]]]].
  intro H. injection H as <- <- _. rewrite Hc. split; [exact Hle|].
  rewrite sign_data_app. simpl. rewrite (post_ev_no_sign _ Hpost), app_nil_r. exact Hd.
Qed.

Lemma session_draws chal keypair : forall rs s s' os,
  session chal keypair rs s = (s', os) ->
  (s_cdraws s <= s_cdraws s')%nat /\
  draws_in chal (s_cdraws s) (s_cdraws s') (flat_map (fun o => sign_data (o_log o)) os).
Proof.
  induction rs as [|ri rest IH]; intros s s' os H; simpl in H.
  - injection H as <- <-. split; [lia | apply draws_in_nil].
  - unfold run_once in H.
    destruct (run_body (run_env chal keypair ri) (ri_params ri) (ri_handlers ri) (start_run s))
      as [[s1 ev] r] eqn:Hr.
    destruct (session chal keypair rest s1) as [s2 os2] eqn:Hs.
    injection H as <- <-. apply run_body_draws in Hr as [Hle1 Hd1]. apply IH in Hs as [Hle2 Hd2].
    cbn [start_run s_cdraws run_env e_chal] in *. split; [lia|].
    simpl. eapply draws_in_app; [|exact Hd1|exact Hd2]. lia.
Qed.

(** ** The C01 oracle holds on every session of the model. *)
Lemma session_runs_oracle chal keypair : forall rs s,
  forallb2 (fun ri o => oracle_c01_run (ri_dir ri) (ri_params ri) (ri_handlers ri) o) rs
           (snd (session chal keypair rs s)) = true.
Proof.
  induction rs as [|ri rest IH]; intro s; simpl; [reflexivity|].
  unfold run_once.
  pose proof (oracle_c01_run_model (run_env chal keypair ri) (ri_params ri) (ri_handlers ri) (start_run s)) as Ho.
  destruct (run_body _ _ _ _) as [[s1 ev] r].
  specialize (IH s1). destruct (session chal keypair rest s1) as [s2 os2].
  simpl in *. rewrite Ho, IH. reflexivity.
Qed.

Theorem oracle_c01_session_model chal keypair rs s :
  Injective chal ->
  oracle_c01_session rs (snd (session chal keypair rs s)) = true.
Proof.
  intro Hinj. unfold oracle_c01_session. rewrite session_runs_oracle. simpl.
  apply nodup_n_NoDup.
  destruct (session chal keypair rs s) as [s' os] eqn:Hs.
  apply session_draws in Hs as [_ Hd]. simpl. eapply draws_in_NoDup; eauto.
Qed.

(** ** Prop-level statements *)

(** When regular.Authenticate returns nil: the request passed the guards, a
    key is registered, the connection was alive, no fault hit the request and
    the agent's reply was exactly the signature under the registered key over
    this run's challenge. *)
Lemma reg_authenticate_ok_inv e i po s s' ev :
  reg_authenticate e i po s = (s', ev, ROk tt) ->
  exists p a pk,
    po = Some p /\ p_ns p = tx "NONS" /\ p_attrs p = Some a /\ a_hardkey a = false /\
    registered_key (e_dir e) (p_logname p) = Some pk /\
    s_closed s = false /\ e_afault e (s_reqno s) = None /\
    sign_reply (e_beh e) (s_sigs s) pk (e_chal e (s_cdraws s)) = Some (Sig pk (e_chal e (s_cdraws s))) /\
    e_beh e <> Close.
Proof.
  unfold reg_authenticate. intro H.
  destruct po as [p|]; [|discriminate].
  destruct (negb (str_eqb (p_ns p) no_namespace)) eqn:Hns; [discriminate|].
  apply negb_false_iff, str_eqb_eq in Hns. rewrite no_namespace_is_NONS in Hns.
  destruct (p_attrs p) as [a|] eqn:Ha; [|discriminate].
  destruct (a_hardkey a) eqn:Hh; [discriminate|].
  destruct (lookup_pubkey (e_dir e) (p_logname p)) as [pk|] eqn:Hl; [|discriminate].
  exists p, a, pk. rewrite registered_key_lookup.
  unfold agent_req in H. cbn [bump_cdraws s_closed s_reqno s_sigs] in H.
  destruct (s_closed s); [discriminate|].
  destruct (e_afault e (s_reqno s)) as [[|]|]; try discriminate.
  set (d := e_chal e (s_cdraws s)) in *.
  assert (Hgen : forall g, sign_reply (e_beh e) (s_sigs s) pk d = Some g -> verify pk d g = true ->
                 sign_reply (e_beh e) (s_sigs s) pk d = Some (Sig pk d)).
  { intros g Hg Hv. apply verify_iff in Hv. subst g. exact Hg. }
  destruct (e_beh e) eqn:Hb;
    try (destruct (sign_reply _ (s_sigs s) pk d) as [g|] eqn:Hs; [|discriminate];
         destruct (verify pk d g) eqn:Hv; [|discriminate];
         repeat split; auto; try discriminate; apply (Hgen g); auto).
  all: try discriminate.
Qed.

(** The adversary table.  [defeated b sigs pk d]: the side condition under
    which strategy [b] cannot produce the signature under [pk] over [d]. *)
Definition defeated (b : agent_beh) (sigs : list sigv) (pk d : N) : Prop :=
  match b with
  | Honest held => held <> pk            (* an honest agent that holds another key *)
  | HonestWithoutKey => True
  | SignsWith k => k <> pk
  | SignsOther d' => d' <> d
  | Replay i => nth i sigs SEmpty <> Sig pk d   (* the replayed signature is not over this challenge *)
  | Garbage => True
  | Empty => True
  | Fail => True
  | Close => True
  end.

Lemma defeated_no_signature b sigs pk d :
  defeated b sigs pk d -> sign_reply b sigs pk d <> Some (Sig pk d) \/ b = Close.
Proof.
  destruct b; simpl; intro H; try (left; discriminate); try (right; reflexivity).
  - left. destruct (N.eqb pk held) eqn:E; [apply N.eqb_eq in E; congruence | discriminate].
  - left. intro Hc. injection Hc as Hc. contradiction.
  - left. intro Hc. injection Hc as Hc. contradiction.
  - left. intro Hc. injection Hc as Hc. contradiction.
Qed.

Theorem adversary_table e c p a pk s s' ev r :
  p_attrs p = Some a ->
  registered_key (e_dir e) (p_logname p) = Some pk ->
  defeated (e_beh e) (s_sigs s) pk (e_chal e (s_cdraws s)) ->
  run_body e (Some p) [Regular c] s = (s', ev, r) ->
  r = RErr KAllAuthFailed /\ forallb auth_only ev = true /\ s_store s' = s_store s.
Proof.
  intros Ha Hreg Hdef. unfold run_body. cbn [auth_loop authenticate name_panics_of].
  destruct (reg_authenticate e 0 (Some p) s) as [[s1 ev1] r1] eqn:Hr.
  pose proof (reg_authenticate_spec _ _ _ _ _ _ _ Hr) as [Ht [Hst _]].
  assert (Hao : forallb auth_only ev1 = true).
  { revert Ht. apply forallb_impl. intro x. apply auth_tag_auth_only. }
  destruct r1 as [[]|k|].
  - exfalso. apply reg_authenticate_ok_inv in Hr as [p' [a' [pk' [Hp [_ [_ [_ [Hreg' [_ [_ [Hs Hnc]]]]]]]]]]].
    injection Hp as <-. rewrite Hreg in Hreg'. injection Hreg' as <-.
    apply defeated_no_signature in Hdef as [Hd|Hd]; contradiction.
  - intro H. injection H as <- <- <-. rewrite app_nil_r. simpl. auto.
  - exfalso. unfold reg_authenticate in Hr.
    destruct (negb (str_eqb (p_ns p) no_namespace)); [discriminate|]. rewrite Ha in Hr.
    destruct (a_hardkey a); [discriminate|].
    destruct (lookup_pubkey (e_dir e) (p_logname p)); [|discriminate].
    destruct (agent_req e (PAuth 0) _ (bump_cdraws s)) as [[s2 ev2] rep].
    destruct rep; try discriminate. destruct (verify _ _ g); discriminate.
Qed.

(** A replayed signature is never over this run's challenge when everything
    the agent remembers is over challenges drawn earlier (or over data outside
    the stream) and the stream is injective. *)
Definition sigs_past (chal : nat -> N) (n : nat) (sigs : list sigv) : Prop :=
  forall k d, In (Sig k d) sigs -> forall m, d = chal m -> (m < n)%nat.

Lemma replay_defeated chal n sigs i pk :
  Injective chal -> sigs_past chal n sigs -> nth i sigs SEmpty <> Sig pk (chal n).
Proof.
  intros Hinj Hp Heq.
  destruct (nth_in_or_default i sigs SEmpty) as [Hin|Hd]; [|rewrite Hd in Heq; discriminate].
  rewrite Heq in Hin. specialize (Hp _ _ Hin n eq_refl). lia.
Qed.

(** The honest case is not vacuous: an honest agent holding the registered
    key, on a live connection without faults, is authenticated. *)
Lemma honest_authenticates e i p a pk s :
  p_ns p = tx "NONS" -> p_attrs p = Some a -> a_hardkey a = false ->
  registered_key (e_dir e) (p_logname p) = Some pk ->
  e_beh e = Honest pk -> s_closed s = false -> e_afault e (s_reqno s) = None ->
  exists s' ev, reg_authenticate e i (Some p) s = (s', ev, ROk tt).
Proof.
  intros Hns Ha Hh Hreg Hb Hc Hf. rewrite registered_key_lookup in Hreg.
  unfold reg_authenticate. rewrite no_namespace_is_NONS, Hns, Ha, Hh, Hreg.
  unfold agent_req. cbn [bump_cdraws s_closed s_reqno s_sigs]. rewrite Hc, Hf, Hb.
  simpl. rewrite N.eqb_refl. unfold verify. simpl. rewrite !N.eqb_refl. simpl. eauto.
Qed.

(** Proof of possession before anything is signed or added. *)
Definition effect (ev : event) : bool := negb (auth_only ev).

Theorem pop_before_sign e po hs s s' ev r :
  run_body e po hs s = (s', ev, r) ->
  (exists x, In x ev /\ effect x = true) ->
  exists pre i h rest,
    ev = pre ++ EvGen i :: rest /\ forallb auth_only pre = true /\ nth_error hs i = Some h /\
    forall c, h = Regular c ->
      exists p a pk n,
        po = Some p /\ p_ns p = tx "NONS" /\ p_attrs p = Some a /\ a_hardkey a = false /\
        registered_key (e_dir e) (p_logname p) = Some pk /\
        (s_cdraws s <= n < s_cdraws s')%nat /\
        In (EvAgent (PAuth i) (RSign pk (e_chal e n)) StOk true) pre.
Proof.
  intros Hrun [x [Hx Heff]].
  pose proof (run_body_draws _ _ _ _ _ _ _ Hrun) as [_ [idxs [Hsd [_ Hrange]]]].
  unfold run_body in Hrun.
  destruct (auth_loop e po 0 hs s) as [[s1 ev1] r1] eqn:Ha.
  apply auth_loop_spec in Ha as [Hao [_ [_ [_ [_ Hr]]]]].
  assert (Hnoeff : ev = ev1 -> False).
  { intros ->. rewrite forallb_forall in Hao. specialize (Hao x Hx). unfold effect in Heff.
    rewrite Hao in Heff. discriminate. }
  destruct r1 as [[[i h]|]|k|]; try (exfalso; injection Hrun as _ <- _; apply Hnoeff; reflexivity).
  destruct (after_select e po i h s1) as [[s2 ev2] r2] eqn:Hs.
  apply after_select_events in Hs as [rest [-> _]]. injection Hrun as <- <- _.
  destruct Hr as [_ [Hnth [Hacc _]]]. rewrite Nat.sub_0_r in Hnth.
  exists ev1, i, h, rest. repeat split; auto.
  intros c ->. unfold accepted in Hacc.
  apply andb_true_iff in Hacc as [Hg Hacc].
  destruct po as [p|]; [|discriminate].
  destruct (registered_key (e_dir e) (p_logname p)) as [pk|] eqn:Hreg; [|discriminate].
  apply existsb_exists in Hacc as [y [Hy Hpop]].
  unfold guards_ok in Hg. apply andb_true_iff in Hg as [Hns Hat]. apply str_eqb_eq in Hns.
  destruct (p_attrs p) as [a|] eqn:Hattr; [|discriminate]. apply negb_true_iff in Hat.
  destruct y as [| |ph rq st v| |]; try discriminate.
  destruct ph as [j| |], rq as [k0 d| | |], st, v; try discriminate.
  simpl in Hpop. apply andb_true_iff in Hpop as [Hj Hk]. apply Nat.eqb_eq in Hj. apply N.eqb_eq in Hk. subst j k0.
  (* the data of this sign request is one of this run's draws *)
  assert (Hd : In d (sign_data (ev1 ++ EvGen i :: rest))).
  { unfold sign_data. apply in_flat_map. exists (EvAgent (PAuth i) (RSign pk d) StOk true).
    split; [apply in_or_app; left; exact Hy | left; reflexivity]. }
  rewrite Hsd in Hd. apply in_map_iff in Hd as [n [Hn Hin]].
  rewrite Forall_forall in Hrange. specialize (Hrange n Hin).
  exists p, a, pk, n. subst d. repeat split; auto; lia.
Qed.

(** First success wins; nothing happens when none succeeds. *)
Theorem first_success e po hs s s' ev r :
  run_body e po hs s = (s', ev, r) ->
  (forall i, In (EvGen i) ev ->
     exists h, nth_error hs i = Some h /\ accepted (e_dir e) po ev i h = true /\
       (forall j h', (j < i)%nat -> nth_error hs j = Some h' ->
                     In (EvAuth j) ev /\ accepted (e_dir e) po ev j h' = false) /\
       (forall j, (i < j)%nat -> ~ In (EvAuth j) ev)) /\
  ((forall i, ~ In (EvGen i) ev) ->
     forallb auth_only ev = true /\ s_store s' = s_store s /\ (r = RErr KAllAuthFailed \/ r = RPanic)) /\
  (r = RErr KAllAuthFailed -> (forall i, ~ In (EvGen i) ev) ->
     forall j h', nth_error hs j = Some h' -> In (EvAuth j) ev /\ accepted (e_dir e) po ev j h' = false).
Proof.
  intro Hrun. unfold run_body in Hrun.
  destruct (auth_loop e po 0 hs s) as [[s1 ev1] r1] eqn:Ha.
  apply auth_loop_spec in Ha as [Hao [Hb [Hst [_ [_ Hr]]]]].
  assert (Hnogen : forall i, ~ In (EvGen i) ev1).
  { intros i Hi. rewrite forallb_forall in Hao. specialize (Hao _ Hi). discriminate. }
  assert (Hasked : forall l j, asked l j = true -> In (EvAuth j) l).
  { intros l j H. unfold asked in H. apply existsb_exists in H as [y [Hy Hj]].
    destruct y; try discriminate. apply Nat.eqb_eq in Hj. subst. exact Hy. }
  destruct r1 as [[[i h]|]|k|].
  - destruct (after_select e po i h s1) as [[s2 ev2] r2] eqn:Hs.
    apply after_select_events in Hs as [rest [-> [Hpost _]]]. injection Hrun as <- <- <-.
    destruct Hr as [_ [Hnth [Hacc [Hprev Hidx]]]]. rewrite Nat.sub_0_r in Hnth.
    assert (Hrest_nt : forall j, forallb (fun x => negb (tagged_any j x)) (EvGen i :: rest) = true).
    { intro j. simpl. revert Hpost. apply forallb_impl. intros y Hy.
      destruct y as [| |ph rq st v| |]; simpl in *; auto. destruct ph; simpl in *; auto; discriminate. }
    assert (Hrest_noauth : forall j, ~ In (EvAuth j) (EvGen i :: rest)).
    { intros j [Hc|Hc]; [discriminate|]. rewrite forallb_forall in Hpost. specialize (Hpost _ Hc). discriminate. }
    split; [|split].
    + intros i' Hi'. apply in_app_or in Hi' as [Hi'|Hi']; [exfalso; eapply Hnogen; eauto|].
      destruct Hi' as [Hi'|Hi'].
      * injection Hi' as <-. exists h. split; [exact Hnth|].
        split; [rewrite accepted_app_r by apply Hrest_nt; exact Hacc|]. split.
        -- intros j h' Hj Hn. destruct (Hprev j h') as [H1 H2]; [lia | rewrite Nat.sub_0_r; exact Hn|].
           split; [apply in_or_app; left; apply Hasked; exact H1|].
           rewrite accepted_app_r by apply Hrest_nt. exact H2.
        -- intros j Hj Hin. apply in_app_or in Hin as [Hin|Hin]; [|eapply Hrest_noauth; eauto].
           rewrite forallb_forall in Hidx. specialize (Hidx _ Hin). simpl in Hidx. apply Nat.leb_le in Hidx. lia.
      * exfalso. rewrite forallb_forall in Hpost. specialize (Hpost _ Hi'). discriminate.
    + intro Hno. exfalso. apply (Hno i). apply in_or_app. right. left. reflexivity.
    + intros _ Hno. exfalso. apply (Hno i). apply in_or_app. right. left. reflexivity.
  - injection Hrun as <- <- <-. split; [|split].
    + intros i Hi. exfalso. eapply Hnogen; eauto.
    + intros _. auto.
    + intros _ _ j h' Hn. destruct (Hr j h') as [H1 H2]; [lia | rewrite Nat.sub_0_r; exact Hn|].
      split; [apply Hasked; exact H1 | exact H2].
  - contradiction.
  - injection Hrun as <- <- <-. split; [|split].
    + intros i Hi. exfalso. eapply Hnogen; eauto.
    + intros _. auto.
    + intro Hc. discriminate.
Qed.

(** ** Replays over histories: what the agent remembers is always over past
    challenges, so a replay never authenticates. *)
(** The adversary cannot name a challenge of the stream in advance. *)
Definition beh_blind (chal : nat -> N) (b : agent_beh) : Prop :=
  match b with SignsOther d => forall m, d <> chal m | _ => True end.

Lemma sigs_past_mono chal n n' sigs : (n <= n')%nat -> sigs_past chal n sigs -> sigs_past chal n' sigs.
Proof. intros Hle H k d Hin m Hm. specialize (H k d Hin m Hm). lia. Qed.

Lemma reg_authenticate_sigs_past e i po s s' ev r :
  Injective (e_chal e) -> beh_blind (e_chal e) (e_beh e) ->
  reg_authenticate e i po s = (s', ev, r) ->
  sigs_past (e_chal e) (s_cdraws s) (s_sigs s) -> sigs_past (e_chal e) (s_cdraws s') (s_sigs s').
Proof.
  intros Hinj Hblind H Hp. unfold reg_authenticate in H.
  assert (Hnil : forall x, (s, @nil event, x) = (s', ev, r) -> sigs_past (e_chal e) (s_cdraws s') (s_sigs s')).
  { intros x Hx. injection Hx as <- _ _. exact Hp. }
  destruct po as [p|]; [|eapply Hnil; exact H].
  destruct (negb (str_eqb (p_ns p) no_namespace)); [eapply Hnil; exact H|].
  destruct (p_attrs p) as [a|]; [|eapply Hnil; exact H].
  destruct (a_hardkey a); [eapply Hnil; exact H|].
  destruct (lookup_pubkey (e_dir e) (p_logname p)) as [pk|]; [|eapply Hnil; exact H].
  set (n := s_cdraws s) in *.
  destruct (agent_req e (PAuth i) (RSign pk (e_chal e n)) (bump_cdraws s)) as [[s2 ev2] rep] eqn:Hr.
  assert (Hs' : s' = s2).
  { destruct rep as [|g| |l]; try (injection H as <- _ _; reflexivity).
    destruct (verify _ _ g); injection H as <- _ _; reflexivity. }
  subst s'. clear H.
  assert (Hpast : sigs_past (e_chal e) (S n) (s_sigs s)) by (eapply sigs_past_mono; [|exact Hp]; lia).
  assert (Hpush : forall g, (forall k d, g = Sig k d -> forall m, d = e_chal e m -> (m < S n)%nat) ->
                  sigs_past (e_chal e) (S n) (s_sigs s ++ [g])).
  { intros g Hg k d Hin m Hm. apply in_app_or in Hin as [Hin|[Hin|[]]].
    - eapply Hpast; eauto.
    - eapply Hg; eauto. }
  unfold agent_req in Hr. cbn [bump_cdraws s_closed s_reqno s_sigs s_store] in Hr.
  destruct (s_closed s); [injection Hr as <- _ _; exact Hpast|].
  destruct (e_afault e (s_reqno s)) as [[|]|]; try (injection Hr as <- _ _; exact Hpast).
  assert (Hcur : forall k d, Sig k (e_chal e n) = Sig k d -> forall m, d = e_chal e m -> (m < S n)%nat).
  { intros k d Hkd m Hm. injection Hkd as <-. apply Hinj in Hm. lia. }
  destruct (e_beh e) eqn:Hb; simpl in Hr.
  - destruct (N.eqb pk held); injection Hr as <- _ _; cbn; [|exact Hpast].
    apply Hpush. intros k d Hkd. injection Hkd as <- <-. intros m Hm. apply Hinj in Hm. lia.
  - injection Hr as <- _ _. exact Hpast.
  - injection Hr as <- _ _. cbn. apply Hpush. intros k' d Hkd. injection Hkd as _ <-.
    intros m Hm. apply Hinj in Hm. lia.
  - injection Hr as <- _ _. cbn. apply Hpush. intros k' d' Hkd. injection Hkd as _ <-.
    intros m Hm. exfalso. eapply Hblind. exact Hm.
  - injection Hr as <- _ _. cbn. apply Hpush. intros k' d' Hkd m Hm.
    destruct (nth_in_or_default i0 (s_sigs s) SEmpty) as [Hin|Hd]; [|rewrite Hd in Hkd; discriminate].
    rewrite Hkd in Hin. eapply Hpast; eauto.
  - injection Hr as <- _ _. cbn. apply Hpush. intros k' d' Hkd. discriminate.
  - injection Hr as <- _ _. cbn. apply Hpush. intros k' d' Hkd. discriminate.
  - injection Hr as <- _ _. exact Hpast.
  - injection Hr as <- _ _. exact Hpast.
Qed.

Lemma auth_loop_sigs_past e po : Injective (e_chal e) -> beh_blind (e_chal e) (e_beh e) ->
  forall hs i0 s s' ev r,
  auth_loop e po i0 hs s = (s', ev, r) ->
  sigs_past (e_chal e) (s_cdraws s) (s_sigs s) -> sigs_past (e_chal e) (s_cdraws s') (s_sigs s').
Proof.
  intros Hinj Hblind. induction hs as [|h rest IH]; intros i0 s s' ev r H Hp; cbn [auth_loop] in H.
  - injection H as <- _ _. exact Hp.
  - destruct (authenticate e i0 h po s) as [[s1 ev1] r1] eqn:Ha.
    assert (Hp1 : sigs_past (e_chal e) (s_cdraws s1) (s_sigs s1)).
    { unfold authenticate in Ha. destruct h as [c|np a g].
      - eapply reg_authenticate_sigs_past; eauto.
      - destruct a; injection Ha as <- _ _; exact Hp. }
    destruct r1 as [u|k|]; try (injection H as <- _ _; exact Hp1).
    destruct (name_panics_of h); [injection H as <- _ _; exact Hp1|].
    destruct (auth_loop e po (S i0) rest s1) as [[s2 ev2] r2] eqn:Hl.
    injection H as <- _ _. eapply IH; eauto.
Qed.

Lemma run_body_sigs_past e po hs s s' ev r :
  Injective (e_chal e) -> beh_blind (e_chal e) (e_beh e) ->
  run_body e po hs s = (s', ev, r) ->
  sigs_past (e_chal e) (s_cdraws s) (s_sigs s) -> sigs_past (e_chal e) (s_cdraws s') (s_sigs s').
Proof.
  intros Hinj Hblind H Hp. unfold run_body in H.
  destruct (auth_loop e po 0 hs s) as [[s1 ev1] r1] eqn:Ha.
  pose proof (auth_loop_sigs_past e po Hinj Hblind _ _ _ _ _ _ Ha Hp) as Hp1.
  destruct r1 as [[[i h]|]|k|]; try (injection H as <- _ _; exact Hp1).
  destruct (after_select e po i h s1) as [[s2 ev2] r2] eqn:Hs.
  apply after_select_events in Hs as [rest [_ [_ [Hc Hg]]]].
  injection H as <- _ _. rewrite Hc, Hg. exact Hp1.
Qed.

Lemma session_sigs_past chal keypair : Injective chal -> forall rs s s' os,
  Forall (fun ri => beh_blind chal (ri_beh ri)) rs ->
  session chal keypair rs s = (s', os) ->
  sigs_past chal (s_cdraws s) (s_sigs s) -> sigs_past chal (s_cdraws s') (s_sigs s').
Proof.
  intros Hinj. induction rs as [|ri rest IH]; intros s s' os Hb H Hp; simpl in H.
  - injection H as <- _. exact Hp.
  - inversion Hb as [|? ? Hb1 Hb2]; subst. unfold run_once in H.
    destruct (run_body (run_env chal keypair ri) (ri_params ri) (ri_handlers ri) (start_run s))
      as [[s1 ev] r] eqn:Hr.
    destruct (session chal keypair rest s1) as [s2 os2] eqn:Hs.
    injection H as <- _. eapply IH; eauto.
    eapply (run_body_sigs_past (run_env chal keypair ri)); eauto.
Qed.

(** After any history, a run in which the agent replays an earlier signature
    ends with "all authentications failed" and changes nothing. *)
Theorem replay_rejected_in_histories chal keypair rs s0 s1 os ri i c p a pk :
  Injective chal ->
  sigs_past chal (s_cdraws s0) (s_sigs s0) ->
  Forall (fun ri => beh_blind chal (ri_beh ri)) rs ->
  session chal keypair rs s0 = (s1, os) ->
  ri_beh ri = Replay i -> ri_handlers ri = [Regular c] -> ri_params ri = Some p ->
  p_attrs p = Some a -> registered_key (ri_dir ri) (p_logname p) = Some pk ->
  let '(s2, o) := run_once chal keypair ri s1 in
  o_res o = Some KAllAuthFailed /\ forallb auth_only (o_log o) = true /\ o_store o = s_store s1.
Proof.
  intros Hinj Hp Hb Hs Hbeh Hhs Hpo Ha Hreg.
  pose proof (session_sigs_past chal keypair Hinj _ _ _ _ Hb Hs Hp) as Hp1.
  unfold run_once. rewrite Hhs, Hpo.
  destruct (run_body (run_env chal keypair ri) (Some p) [Regular c] (start_run s1)) as [[s2 ev] r] eqn:Hr.
  eapply adversary_table in Hr; eauto.
  - destruct Hr as [-> [Hao Hst]]. simpl. auto.
  - cbn [run_env e_beh e_chal start_run s_sigs s_cdraws]. rewrite Hbeh. simpl.
    apply replay_defeated; auto.
Qed.

(** ** The directory of the run decides.  After any history - whatever earlier
    runs saw registered, including the very key the agent still holds - a run
    whose own directory registers another key for the login name, or none,
    refuses a requester that signs with the old key. *)
Theorem stale_key_refused_in_histories chal keypair rs s0 s1 os ri held c p a pk :
  session chal keypair rs s0 = (s1, os) ->
  ri_beh ri = Honest held \/ ri_beh ri = SignsWith held -> held <> pk ->
  ri_handlers ri = [Regular c] -> ri_params ri = Some p -> p_attrs p = Some a ->
  registered_key (ri_dir ri) (p_logname p) = Some pk ->
  let '(s2, o) := run_once chal keypair ri s1 in
  o_res o = Some KAllAuthFailed /\ forallb auth_only (o_log o) = true /\ o_store o = s_store s1.
Proof.
  intros _ Hbeh Hne Hhs Hpo Ha Hreg.
  unfold run_once. rewrite Hhs, Hpo.
  destruct (run_body (run_env chal keypair ri) (Some p) [Regular c] (start_run s1)) as [[s2 ev] r] eqn:Hr.
  eapply adversary_table in Hr; eauto.
  - destruct Hr as [-> [Hao Hst]]. simpl. auto.
  - cbn [run_env e_beh]. destruct Hbeh as [-> | ->]; simpl; exact Hne.
Qed.

Theorem unregistered_refused_in_histories chal keypair rs s0 s1 os ri c p a :
  session chal keypair rs s0 = (s1, os) ->
  ri_handlers ri = [Regular c] -> ri_params ri = Some p -> p_attrs p = Some a ->
  registered_key (ri_dir ri) (p_logname p) = None ->
  let '(s2, o) := run_once chal keypair ri s1 in
  o_res o = Some KAllAuthFailed /\ o_log o = [EvAuth 0] /\ o_store o = s_store s1.
Proof.
  intros _ Hhs Hpo Ha Hreg. rewrite registered_key_lookup in Hreg.
  unfold run_once. rewrite Hhs, Hpo.
  unfold run_body. cbn [auth_loop authenticate name_panics_of].
  unfold reg_authenticate. cbn [run_env e_dir]. rewrite Ha, Hreg.
  destruct (negb (str_eqb (p_ns p) no_namespace)); destruct (a_hardkey a); simpl; auto.
Qed.
