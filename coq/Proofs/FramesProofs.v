(** Lemmas about Model/Frames.v: what the framed read does on complete frames,
    cut prefixes, cut bodies, oversized declarations; the property's own
    reading of a stream agrees with it on back-to-back complete frames. *)
From Verif Require Import Lib.Base Lib.Bytes Lib.Wire Generated.YubiAgentGen Model.Frames.
From Coq Require Import Lia ZifyN.
Set Default Timeout 60.
Local Open Scope N_scope.
Local Arguments skipn : simpl never.
Local Arguments firstn : simpl never.

Lemma frame_constants :
  max_agent_response_bytes = 16777216 /\ read_bound = max_agent_response_bytes /\
  read_bound_strict = true /\ read_bound_before_alloc = true /\ read_len_big_endian = true /\
  write_bound_checked = true /\ write_bound = max_agent_response_bytes.
Proof. repeat split; reflexivity. Qed.

Lemma too_large_spec l : too_large l = (spec_max <? l).
Proof. reflexivity. Qed.

Lemma write_ok_spec b : write_ok b = (blen b <=? spec_max).
Proof.
  unfold write_ok. change write_bound_checked with true. change write_bound with spec_max.
  cbn [andb]. destruct (N.ltb_spec spec_max (blen b)); destruct (N.leb_spec (blen b) spec_max);
    try reflexivity; lia.
Qed.

Lemma to_nat_blen s : N.to_nat (blen s) = length s.
Proof. unfold blen. apply Nat2N.id. Qed.

(** A complete frame at the head of the input is read as such. *)
Lemma read_frame_frame f rest :
  f <> [] -> blen f <= spec_max -> read_frame (frame f ++ rest) = FFrame f rest.
Proof.
  intros Hne Hle. unfold frame. rewrite <- app_assoc. unfold be32. cbn [app read_frame].
  assert (Hlt : blen f < 4294967296) by (unfold spec_max in Hle; lia).
  rewrite of_be32_be32 by exact Hlt. rewrite too_large_spec.
  assert (H1 : (spec_max <? blen f) = false) by (apply N.ltb_ge; exact Hle).
  assert (H2 : (blen f =? 0) = false).
  { apply N.eqb_neq. unfold blen. destruct f; [congruence|]. simpl. lia. }
  rewrite H1, H2.
  destruct (f ++ rest) as [|x xs] eqn:E.
  - destruct f; [congruence|discriminate].
  - rewrite <- E.
    assert (H3 : (blen (f ++ rest) <? blen f) = false) by (apply N.ltb_ge; rewrite blen_app; lia).
    rewrite H3, to_nat_blen, firstn_app_exact, skipn_app_exact. reflexivity.
Qed.

(** A frame handed to the dispatcher leaves strictly less input. *)
Lemma read_frame_shorter s req rest :
  read_frame s = FFrame req rest -> (length rest + 4 <= length s)%nat.
Proof.
  destruct s as [|a [|b [|c [|d r]]]]; try discriminate.
  cbn [read_frame]. destruct (too_large (of_be32 a b c d)); [discriminate|].
  destruct (of_be32 a b c d =? 0).
  - intros H. injection H as _ <-. simpl. lia.
  - destruct r as [|x xs]; [discriminate|].
    destruct (blen (x :: xs) <? of_be32 a b c d); [discriminate|].
    intros H. injection H as _ <-. rewrite skipn_length. cbn [length]. lia.
Qed.

(** The bound: a declared length above 16 MiB is refused whatever follows -
    no body byte is looked at, nothing is allocated from the declaration. *)
Lemma read_frame_oversize a b c d rest :
  spec_max < of_be32 a b c d -> read_frame (a :: b :: c :: d :: rest) = FTooLarge (of_be32 a b c d).
Proof.
  intros H. cbn [read_frame]. rewrite too_large_spec.
  apply N.ltb_lt in H. rewrite H. reflexivity.
Qed.

Lemma read_frame_cut_prefix p : (0 < length p < 4)%nat -> read_frame p = FTruncPrefix.
Proof.
  destruct p as [|a [|b [|c [|d r]]]]; simpl; intros H; try reflexivity; lia.
Qed.

Lemma read_frame_body_missing a b c d :
  0 < of_be32 a b c d <= spec_max -> read_frame [a; b; c; d] = FEofBody.
Proof.
  intros [H0 H1]. cbn [read_frame]. rewrite too_large_spec.
  assert (E1 : (spec_max <? of_be32 a b c d) = false) by (apply N.ltb_ge; exact H1).
  assert (E2 : (of_be32 a b c d =? 0) = false) by (apply N.eqb_neq; lia).
  rewrite E1, E2. reflexivity.
Qed.

Lemma read_frame_body_cut a b c d body :
  body <> [] -> of_be32 a b c d <= spec_max -> blen body < of_be32 a b c d ->
  read_frame (a :: b :: c :: d :: body) = FTruncBody.
Proof.
  intros Hne H1 H2. cbn [read_frame]. rewrite too_large_spec.
  assert (E1 : (spec_max <? of_be32 a b c d) = false) by (apply N.ltb_ge; exact H1).
  assert (E2 : (of_be32 a b c d =? 0) = false) by (apply N.eqb_neq; lia).
  rewrite E1, E2. destruct body as [|x xs]; [congruence|].
  apply N.ltb_lt in H2. rewrite H2. reflexivity.
Qed.

Lemma read_frame_zero rest : read_frame (0 :: 0 :: 0 :: 0 :: rest) = FFrame [] rest.
Proof. reflexivity. Qed.

(** The property's reading of back-to-back complete frames. *)
Definition frame_ok (f : bytes) : Prop := f <> [] /\ blen f <= spec_max.

Lemma frame_length f : length (frame f) = (4 + length f)%nat.
Proof. unfold frame. rewrite app_length. reflexivity. Qed.

Lemma spec_frames_stream fs : forall fuel,
  Forall frame_ok fs -> (length (stream_of fs) < fuel)%nat ->
  spec_frames fuel (stream_of fs) = (fs, TClean).
Proof.
  induction fs as [|f fs IH]; intros fuel Hok Hfuel.
  - destruct fuel; reflexivity.
  - inversion Hok as [|? ? [Hne Hle] Hrest]; subst.
    destruct fuel as [|fuel]; [lia|].
    unfold stream_of in *. cbn [map concat] in *.
    rewrite app_length, frame_length in Hfuel.
    unfold frame at 1. rewrite <- app_assoc. unfold be32. cbn [app spec_frames].
    assert (Hlt : blen f < 4294967296) by (unfold spec_max in Hle; lia).
    rewrite of_be32_be32 by exact Hlt.
    assert (H1 : (spec_max <? blen f) = false) by (apply N.ltb_ge; exact Hle).
    assert (H2 : (blen f =? 0) = false).
    { apply N.eqb_neq. unfold blen. destruct f; [congruence|]. simpl. lia. }
    assert (H3 : (blen (f ++ concat (map frame fs)) =? 0) = false).
    { apply N.eqb_neq in H2. apply N.eqb_neq. rewrite blen_app. lia. }
    assert (H4 : (blen (f ++ concat (map frame fs)) <? blen f) = false)
      by (apply N.ltb_ge; rewrite blen_app; lia).
    rewrite H1, H2, H3, H4, to_nat_blen, firstn_app_exact, skipn_app_exact.
    rewrite IH; [reflexivity|exact Hrest|lia].
Qed.

Lemma stream_frames_stream fs :
  Forall frame_ok fs -> stream_frames (stream_of fs) = (fs, TClean).
Proof. intros H. apply spec_frames_stream; [exact H|lia]. Qed.
