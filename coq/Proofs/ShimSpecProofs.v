(** The model of the code refines the loop-free specification
    [Model.ShimSpec.spec_step] on every state satisfying the invariant, when
    the proxy injects no fault: same reply, same stores. *)
From Verif Require Import Lib.Base Lib.Json Model.KeyId Model.UAgent Model.Shim Model.ShimSpec Model.ShimCheck
  Generated.ShimGen Proofs.ShimProofs Proofs.ShimFilterProofs Proofs.ShimInvProofs Proofs.ShimExactProofs.
Set Default Timeout 60.

Section World.
  Variable info : N -> option cinfo.
  Variable script : nat -> option fault.
  Hypothesis nofault : forall n, script n = None.
  Notation step := (Shim.step info script).
  Notation acall := (Shim.acall script).
  Notation Inv := (ShimInvProofs.Inv info).
  Notation spec_step := (ShimSpec.spec_step info).

  Lemma v_live_iff s : v_live (vs_of s) = true <-> live s.
  Proof.
    unfold v_live, live. cbn. destruct (closed s), (alive (ua s)); cbn; split; try tauto; try discriminate;
      intros [? ?]; discriminate.
  Qed.
  Lemma v_live_false s : v_live (vs_of s) = false -> ~ live s.
  Proof. intros H Hl. apply v_live_iff in Hl. congruence. Qed.

  (** A call on a connection that does not work: no answer, stores untouched. *)
  Lemma acall_dead_vs {A} (f : uagent -> uagent * option A) s :
    ~ live s -> snd (acall f s) = None /\ vs_of (fst (acall f s)) = vs_of s /\ cache (fst (acall f s)) = cache s.
  Proof.
    intro H. unfold Shim.acall. destruct (closed s) eqn:Hc; [auto|].
    unfold call. destruct (alive (ua s)) eqn:Ha; [exfalso; apply H; split; assumption|]. cbn. auto.
  Qed.

  Lemma purge_eq now s s' :
    live s -> live s' -> locked s' = locked s -> noup s' = noup s ->
    upass (ua s') = upass (ua s) ->
    mem s' = filter (keeps info now (reported (ua s))) (mem s) ->
    ids (ua s') = (if ulocked (ua s) then ids (ua s) else filter (valid_at info now) (ids (ua s))) ->
    vs_of s' = purge info now (vs_of s).
  Proof.
    intros [Hc Ha] [Hc' Ha'] Hl Hn Hp Hm Hi. unfold vs_of, purge, set_v_ids, set_v_mem. cbn.
    rewrite Hl, Hn, Hp, Hm, Hi, Hc, Hc', Ha, Ha'. reflexivity.
  Qed.

  Lemma step_noup now s o : noup (fst (step now s o)) = noup s.
  Proof.
    destruct o; cbn [Shim.step].
    - destruct (locked s); [reflexivity|].
      pose proof (filter_certs_frame info script now s) as [_ [H _]].
      destruct (filter_certs info script now s) as [s1 [view|]]; cbn [fst] in *; [|exact H].
      pose proof (list_agent_frame info view s1) as [_ [H' _]].
      destruct (list_agent info s1 view) as [s2 l]. cbn [fst] in *. congruence.
    - destruct (locked s); [reflexivity|].
      pose proof (filter_certs_frame info script now s) as [_ [H _]].
      destruct (filter_certs info script now s) as [s1 [view|]]; cbn [fst] in *; [|exact H].
      pose proof (acall_frame' script u_list s1) as [_ [H1 _]].
      destruct (acall u_list s1) as [s2 [l|]]; cbn [fst] in *; [|congruence].
      unfold signers_agent. destruct (noup s2) eqn:E; cbn [fst]; [|congruence].
      pose proof (list_agent_frame info l s2) as [_ [H' _]].
      destruct (list_agent info s2 l) as [s3 l']. cbn [fst] in *. congruence.
    - destruct (locked s); [reflexivity|].
      pose proof (filter_certs_frame info script now s) as [_ [H _]].
      destruct (filter_certs info script now s) as [s1 [view|]]; cbn [fst] in *; [|exact H].
      match goal with |- context [match ?t with Some _ => _ | None => _ end] => destruct t as [tg|] end;
        cbn [fst]; [|exact H].
      pose proof (acall_frame' script (u_sign tg) s1) as [_ [H1 _]].
      destruct (acall (u_sign tg) s1) as [s2 [i|]]; cbn [fst] in *; congruence.
    - destruct (locked s); [reflexivity|].
      pose proof (acall_frame' script (u_add b) s) as [_ [H1 _]].
      destruct (acall (u_add b) s) as [s1 r]; exact H1.
    - destruct (locked s); [reflexivity|].
      destruct (mem_b key (mem s)); [reflexivity|]. destruct (negb (is_cert info key)); [reflexivity|].
      pose proof (acall_frame' script u_list s) as [_ [H1 _]].
      destruct (acall u_list s) as [s1 [l|]]; cbn [fst] in *; [|exact H1].
      destruct (mem_b (pubkey_of info key) l); exact H1.
    - destruct (locked s); [reflexivity|].
      pose proof (remove_key_frame script key s) as [_ [H1 _]].
      destruct (remove_key script key s) as [s1 ok]; exact H1.
    - destruct (locked s); [reflexivity|].
      pose proof (acall_frame' script u_remove_all (set_cache [] (set_mem [] s))) as [_ [H1 _]].
      destruct (acall u_remove_all (set_cache [] (set_mem [] s))) as [s1 r]; exact H1.
    - destruct (locked s); [reflexivity|].
      pose proof (acall_frame' script (u_lock p) s) as [_ [H1 _]].
      destruct (acall (u_lock p) s) as [s1 [r|]]; exact H1.
    - destruct (negb (locked s)); [reflexivity|].
      pose proof (acall_frame' script (u_unlock p) s) as [_ [H1 _]].
      destruct (acall (u_unlock p) s) as [s1 [r|]]; exact H1.
    - destruct (max_frame <? len)%N; [reflexivity|]. destruct (closed s); [reflexivity|].
      destruct (call_raw script raw (max_frame <? rlen)%N (ua s)) as [u' r]. reflexivity.
    - destruct (locked s); [reflexivity|]. destruct (closed s); reflexivity.
    - reflexivity.
    - reflexivity.
  Qed.

  Ltac live_cases s :=
    let Hv := fresh "Hv" in let Hl := fresh "Hl" in
    destruct (v_live (vs_of s)) eqn:Hv;
    [pose proof (proj1 (v_live_iff s) Hv) as Hl | pose proof (v_live_false s Hv) as Hl].

  Theorem step_spec now s o :
    Inv s ->
    vs_of (fst (step now s o)) = fst (spec_step now (vs_of s) o) /\
    snd (step now s o) = snd (spec_step now (vs_of s) o).
  Proof.
    intro HI. pose proof (step_noup now s o) as Hnoup.
    pose proof (step_locked_frame info script now s o) as Hlk.
    destruct o; cbn [ShimSpec.spec_step].
    - (* List *)
      change (v_locked (vs_of s)) with (locked s). destruct (locked s) eqn:Hl0.
      { cbn [Shim.step]. rewrite Hl0. auto. }
      live_cases s.
      + pose proof (list_nf info script nofault now s Hl HI Hl0) as H.
        destruct (step now s List_) as [s' r]. cbn [fst snd] in *.
        destruct H as [-> [Hl' [Hp [Hm Hi]]]]. split; [|reflexivity].
        apply purge_eq; auto; congruence.
      + cbn [Shim.step]. rewrite Hl0. pose proof (filter_dead info script now s Hl) as Hd.
        pose proof (filter_certs_any info script now s) as Ha.
        destruct (acall_dead_vs u_list s Hl) as [Hn [Hvs _]].
        destruct (acall u_list s) as [s0 r0]. cbn [fst snd] in *. subst r0.
        destruct (filter_certs info script now s) as [s1 res]. cbn [snd] in Hd. subst res.
        destruct Ha as [-> _]. auto.
    - (* Signers *)
      change (v_locked (vs_of s)) with (locked s). destruct (locked s) eqn:Hl0.
      { cbn [Shim.step]. rewrite Hl0. auto. }
      live_cases s.
      + pose proof (signers_nf info script nofault now s Hl HI Hl0) as H.
        destruct (step now s Signers) as [s' r]. cbn [fst snd] in *.
        destruct H as [-> [Hl' [Hp [Hm Hi]]]]. split; [|reflexivity].
        apply purge_eq; auto; congruence.
      + cbn [Shim.step]. rewrite Hl0. pose proof (filter_dead info script now s Hl) as Hd.
        pose proof (filter_certs_any info script now s) as Ha.
        destruct (acall_dead_vs u_list s Hl) as [Hn [Hvs _]].
        destruct (acall u_list s) as [s0 r0]. cbn [fst snd] in *. subst r0.
        destruct (filter_certs info script now s) as [s1 res]. cbn [snd] in Hd. subst res.
        destruct Ha as [-> _]. auto.
    - (* Sign *)
      change (v_locked (vs_of s)) with (locked s). destruct (locked s) eqn:Hl0.
      { cbn [Shim.step]. rewrite Hl0. auto. }
      live_cases s.
      + pose proof (sign_nf info script nofault now s key data flags Hl HI Hl0) as H. cbn zeta in H.
        destruct (step now s (Sign key data flags)) as [s' r]. cbn [fst snd] in *.
        destruct H as [-> [Hl' [Hp [Hm Hi]]]]. split; [|reflexivity].
        apply purge_eq; auto; congruence.
      + cbn [Shim.step]. rewrite Hl0. pose proof (filter_dead info script now s Hl) as Hd.
        pose proof (filter_certs_any info script now s) as Ha.
        destruct (acall_dead_vs u_list s Hl) as [Hn [Hvs _]].
        destruct (acall u_list s) as [s0 r0]. cbn [fst snd] in *. subst r0.
        destruct (filter_certs info script now s) as [s1 res]. cbn [snd] in Hd. subst res.
        destruct Ha as [-> _]. auto.
    - (* Add *)
      change (v_locked (vs_of s)) with (locked s). cbn [Shim.step]. destruct (locked s) eqn:Hl0; [auto|].
      live_cases s; cbn [andb].
      + rewrite (acall_nf script nofault (u_add b) s Hl). unfold u_add. rewrite ulocked_bump.
        change (v_ulocked (vs_of s)) with (ulocked (ua s)).
        destruct Hl as [Hc Ha]. destruct (ulocked (ua s)) eqn:Hu; cbn [negb fst snd].
        * split; reflexivity.
        * split; [|reflexivity]. unfold vs_of, set_v_ids. cbn. reflexivity.
      + destruct (acall_dead_vs (u_add b) s Hl) as [Hn [Hvs _]].
        destruct (acall (u_add b) s) as [s1 r]. cbn [fst snd] in *. subst r. auto.
    - (* AddHardCert *)
      change (v_locked (vs_of s)) with (locked s). cbn [Shim.step]. destruct (locked s) eqn:Hl0; [auto|].
      change (v_mem (vs_of s)) with (mem s). destruct (mem_b key (mem s)) eqn:Hk; [auto|].
      destruct (negb (is_cert info key)) eqn:Hc; [auto|].
      live_cases s; cbn [negb].
      + rewrite (acall_nf script nofault u_list s Hl). cbn [u_list fst snd].
        change (reported (bump (ua s))) with (v_reported (vs_of s)).
        destruct (mem_b (pubkey_of info key) (v_reported (vs_of s))); cbn [fst snd]; split; reflexivity.
      + destruct (acall_dead_vs u_list s Hl) as [Hn [Hvs _]].
        destruct (acall u_list s) as [s1 r]. cbn [fst snd] in *. subst r. auto.
    - (* Remove *)
      clear Hnoup Hlk.
      change (v_locked (vs_of s)) with (locked s). cbn [Shim.step]. destruct (locked s) eqn:Hl0; [auto|].
      unfold Shim.remove_key. change (v_mem (vs_of s)) with (mem s).
      change (v_ulocked (vs_of s)) with (ulocked (ua s)). change (v_ids (vs_of s)) with (ids (ua s)).
      set (s1 := if mem_b key (mem s) then set_mem (remove_blob key (mem s)) s else s).
      assert (Hs1 : mem s1 = remove_blob key (mem s) /\ locked s1 = locked s /\ closed s1 = closed s /\
                    noup s1 = noup s /\ ua s1 = ua s).
      { subst s1. destruct (mem_b key (mem s)) eqn:E; cbn; repeat split; auto.
        symmetry. apply remove_blob_notin. apply mem_b_false. exact E. }
      destruct Hs1 as [Hm1 [Hk1 [Hc1 [Hn1 Hu1]]]]. clearbody s1.
      assert (Hlive1 : v_live (vs_of s1) = v_live (vs_of s)).
      { unfold v_live, vs_of. cbn. rewrite Hc1, Hu1. reflexivity. }
      assert (Hfin : forall c i,
        vs_of (set_cache c (set_ua (set_ids i (bump (ua s))) s1)) =
        set_v_ids i (set_v_mem (remove_blob key (mem s)) (vs_of s)) /\
        vs_of (set_ua (set_ids i (bump (ua s))) s1) =
        set_v_ids i (set_v_mem (remove_blob key (mem s)) (vs_of s))).
      { intros c i. unfold vs_of, set_v_ids, set_v_mem. cbn. rewrite Hm1, Hk1, Hc1, Hn1. split; reflexivity. }
      assert (Hfin0 : forall c,
        vs_of (set_cache c (set_ua (bump (ua s)) s1)) = set_v_ids (ids (ua s)) (set_v_mem (remove_blob key (mem s)) (vs_of s)) /\
        vs_of (set_ua (bump (ua s)) s1) = set_v_ids (ids (ua s)) (set_v_mem (remove_blob key (mem s)) (vs_of s))).
      { intros c. unfold vs_of, set_v_ids, set_v_mem. cbn. rewrite Hm1, Hk1, Hc1, Hn1. split; reflexivity. }
      live_cases s; cbn [andb].
      + assert (Hl1 : live s1) by (apply v_live_iff; congruence).
        rewrite (acall_nf script nofault (u_remove key) s1 Hl1). rewrite Hu1.
        unfold u_remove. rewrite ulocked_bump.
        destruct (ulocked (ua s)) eqn:Hu; cbn [negb andb fst snd].
        * destruct (mem_b key (mem s)) eqn:Hk; cbn [orb fst snd]; [destruct (noup _)|]; cbn [fst snd];
            (split; [|reflexivity]); first [apply (proj2 (Hfin0 [])) | apply (proj1 (Hfin0 _))].
        * cbn [ids bump]. destruct (mem_b key (ids (ua s))) eqn:Hi; cbn [fst snd].
          -- rewrite orb_true_r. destruct (mem_b key (mem s)); destruct (noup _); cbn [fst snd];
               (split; [|reflexivity]); first [apply (proj2 (Hfin [] _)) | apply (proj1 (Hfin _ _))].
          -- rewrite orb_false_r. destruct (mem_b key (mem s)) eqn:Hk; cbn [fst snd]; [destruct (noup _)|]; cbn [fst snd];
               (split; [|reflexivity]); first [apply (proj2 (Hfin0 [])) | apply (proj1 (Hfin0 _))].
      + assert (Hl1 : ~ live s1) by (intro H; apply v_live_iff in H; congruence).
        destruct (acall_dead_vs (u_remove key) s1 Hl1) as [Hn [Hvs Hca]].
        destruct (acall (u_remove key) s1) as [s2 r]. cbn [fst snd] in *. subst r.
        rewrite orb_false_r.
        assert (Hvs2 : forall c, vs_of (set_cache c s2) = set_v_ids (ids (ua s)) (set_v_mem (remove_blob key (mem s)) (vs_of s)) /\
                                 vs_of s2 = set_v_ids (ids (ua s)) (set_v_mem (remove_blob key (mem s)) (vs_of s))).
        { intro c. change (vs_of (set_cache c s2)) with (vs_of s2). rewrite Hvs.
          unfold vs_of, set_v_ids, set_v_mem. cbn. rewrite Hm1, Hk1, Hc1, Hn1, Hu1. split; reflexivity. }
        destruct (mem_b key (mem s)) eqn:Hk; cbn [fst snd]; [destruct (noup s2)|]; cbn [fst snd];
          (split; [|reflexivity]); apply (Hvs2 []).
    - (* RemoveAll *)
      change (v_locked (vs_of s)) with (locked s). cbn [Shim.step]. destruct (locked s) eqn:Hl0; [auto|].
      set (s1 := set_cache [] (set_mem [] s)).
      assert (Hlive1 : v_live (vs_of s1) = v_live (vs_of s)) by reflexivity.
      live_cases s; cbn [andb].
      + assert (Hl1 : live s1) by (apply v_live_iff; congruence).
        rewrite (acall_nf script nofault u_remove_all s1 Hl1). unfold u_remove_all. rewrite ulocked_bump.
        change (ulocked (ua s1)) with (ulocked (ua s)). change (v_ulocked (vs_of s)) with (ulocked (ua s)).
        destruct (ulocked (ua s)) eqn:Hu; cbn [negb fst snd]; split; reflexivity.
      + assert (Hl1 : ~ live s1) by (intro H; apply v_live_iff in H; congruence).
        destruct (acall_dead_vs u_remove_all s1 Hl1) as [Hn [Hvs _]].
        destruct (acall u_remove_all s1) as [s2 r]. cbn [fst snd] in *. subst r. split; [|reflexivity].
        rewrite Hvs. reflexivity.
    - (* Lock *)
      change (v_locked (vs_of s)) with (locked s). cbn [Shim.step]. destruct (locked s) eqn:Hl0; [auto|].
      live_cases s; cbn [andb].
      + rewrite (acall_nf script nofault (u_lock p) s Hl). unfold u_lock. rewrite ulocked_bump.
        change (v_ulocked (vs_of s)) with (ulocked (ua s)).
        destruct (ulocked (ua s)) eqn:Hu; cbn [negb fst snd]; split; try reflexivity;
          unfold vs_of; cbn; rewrite ?Hl0; reflexivity.
      + destruct (acall_dead_vs (u_lock p) s Hl) as [Hn [Hvs _]].
        destruct (acall (u_lock p) s) as [s1 r]. cbn [fst snd] in *. subst r. auto.
    - (* Unlock *)
      change (v_locked (vs_of s)) with (locked s). cbn [Shim.step]. destruct (locked s) eqn:Hl0; cbn [negb]; [|auto].
      live_cases s; cbn [andb].
      + rewrite (acall_nf script nofault (u_unlock p) s Hl). unfold u_unlock. rewrite upass_bump.
        change (v_pass (vs_of s)) with (upass (ua s)).
        destruct (upass (ua s)) as [q|] eqn:Hu; cbn [option_eqb].
        * destruct (list_eqb N.eqb p q); cbn [fst snd]; split; try reflexivity;
            unfold vs_of; cbn; rewrite ?Hl0, ?Hu; reflexivity.
        * cbn [fst snd]. split; [|reflexivity]. try reflexivity; unfold vs_of; cbn; rewrite ?Hl0, ?Hu; reflexivity.
      + destruct (acall_dead_vs (u_unlock p) s Hl) as [Hn [Hvs _]].
        destruct (acall (u_unlock p) s) as [s1 r]. cbn [fst snd] in *. subst r. auto.
    - (* Forward *)
      cbn [Shim.step]. destruct (max_frame <? len)%N; cbn [orb]; [auto|].
      unfold v_live. change (v_closed (vs_of s)) with (closed s). change (v_alive (vs_of s)) with (alive (ua s)).
      destruct (closed s) eqn:Hc; cbn [negb andb]; [auto|].
      unfold call_raw. destruct (alive (ua s)) eqn:Ha; cbn [negb]; [|split; [|reflexivity]; unfold vs_of; cbn; rewrite Hc, Ha; reflexivity].
      rewrite nofault. destruct (max_frame <? rlen)%N; cbn [fst snd]; split; try reflexivity; unfold vs_of; cbn; rewrite ?Hc, ?Ha; reflexivity.
    - (* Close *)
      change (v_locked (vs_of s)) with (locked s). change (v_closed (vs_of s)) with (closed s).
      cbn [Shim.step]. destruct (locked s) eqn:Hl0; [auto|]. destruct (closed s) eqn:Hc; [auto|].
      split; [|reflexivity]. unfold vs_of. cbn. rewrite Hl0. reflexivity.
    - (* DirectAdd *)
      cbn [Shim.step fst snd]. split; [|reflexivity]. unfold direct_add, u_add.
      change (v_ulocked (vs_of s)) with (ulocked (ua s)). destruct (ulocked (ua s)) eqn:Hu; [destruct s; reflexivity|].
      reflexivity.
    - (* DirectRemove *)
      cbn [Shim.step fst snd]. split; [|reflexivity]. unfold direct_remove, u_remove.
      change (v_ulocked (vs_of s)) with (ulocked (ua s)). destruct (ulocked (ua s)) eqn:Hu; [destruct s; reflexivity|].
      destruct (mem_b b (ids (ua s))) eqn:Hi; cbn [fst]; [reflexivity|].
      change (v_ids (vs_of s)) with (ids (ua s)).
      rewrite (remove_blob_notin b (ids (ua s))) by (apply mem_b_false; exact Hi).
      destruct s; reflexivity.
  Qed.
End World.
