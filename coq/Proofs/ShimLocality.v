(** Locality of the fault script: an operation consults the script only at
    request numbers from the current one on, and request numbers never go
    down.  Two scripts that agree from the current request number on therefore
    drive an operation identically; in particular, once no fault is pending
    any more, the shim behaves as over a healthy agent. *)
From Verif Require Import Lib.Base Lib.Json Model.KeyId Model.UAgent Model.Shim Model.ShimCheck Generated.ShimGen
  Proofs.ShimProofs.
From Coq Require Import Lia.
Set Default Timeout 120.

Definition agree (sc1 sc2 : nat -> option fault) (k : nat) : Prop := forall n, (k <= n)%nat -> sc1 n = sc2 n.
Lemma agree_mono sc1 sc2 k k' : (k <= k')%nat -> agree sc1 sc2 k -> agree sc1 sc2 k'.
Proof. intros H A n Hn. apply A. lia. Qed.

(** Handlers never touch the request counter. *)
Definition keeps_reqno {A} (f : uagent -> uagent * option A) : Prop := forall u, reqno (fst (f u)) = reqno u.
Lemma kr_list : keeps_reqno u_list. Proof. intro u. reflexivity. Qed.
Lemma kr_add b : keeps_reqno (u_add b). Proof. intro u. unfold u_add. destruct (ulocked u); reflexivity. Qed.
Lemma kr_remove b : keeps_reqno (u_remove b).
Proof. intro u. unfold u_remove. destruct (ulocked u); [reflexivity|]. destruct (mem_b b (ids u)); reflexivity. Qed.
Lemma kr_remove_all : keeps_reqno u_remove_all. Proof. intro u. unfold u_remove_all. destruct (ulocked u); reflexivity. Qed.
Lemma kr_lock p : keeps_reqno (u_lock p). Proof. intro u. unfold u_lock. destruct (ulocked u); reflexivity. Qed.
Lemma kr_unlock p : keeps_reqno (u_unlock p).
Proof. intro u. unfold u_unlock. destruct (upass u) as [q|]; [destruct (list_eqb N.eqb p q)|]; reflexivity. Qed.
Lemma kr_sign b : keeps_reqno (u_sign b).
Proof. intro u. unfold u_sign. destruct (ulocked u); [reflexivity|]. destruct (mem_b b (ids u)); reflexivity. Qed.

Section Ext.
  Variable info : N -> option cinfo.
  Variables sc1 sc2 : nat -> option fault.

  Lemma call_ext {A} (f : uagent -> uagent * option A) u :
    agree sc1 sc2 (reqno u) -> call sc1 f u = call sc2 f u.
  Proof. intro H. unfold call. rewrite (H (reqno u)) by lia. reflexivity. Qed.

  Lemma call_reqno sc {A} (f : uagent -> uagent * option A) u :
    keeps_reqno f -> (reqno u <= reqno (fst (call sc f u)))%nat.
  Proof.
    intro K. unfold call. destruct (alive u); cbn [negb fst]; [|lia].
    destruct (sc (reqno u)) as [ft|].
    - destruct (f_exec ft); destruct (is_close (f_kind ft)); cbn [fst set_alive reqno]; rewrite ?K; cbn [bump reqno]; lia.
    - rewrite K. cbn [bump reqno]. lia.
  Qed.

  Lemma acall_ext {A} (f : uagent -> uagent * option A) s :
    agree sc1 sc2 (reqno (ua s)) -> acall sc1 f s = acall sc2 f s.
  Proof. intro H. unfold acall. destruct (closed s); [reflexivity|]. rewrite (call_ext f (ua s) H). reflexivity. Qed.

  Lemma acall_reqno sc {A} (f : uagent -> uagent * option A) s :
    keeps_reqno f -> (reqno (ua s) <= reqno (ua (fst (acall sc f s))))%nat.
  Proof.
    intro K. unfold acall. destruct (closed s); [cbn; lia|].
    pose proof (call_reqno sc f (ua s) K) as H. destruct (call sc f (ua s)) as [u' r]. exact H.
  Qed.

  Lemma remove_key_ext b s :
    agree sc1 sc2 (reqno (ua s)) -> remove_key sc1 b s = remove_key sc2 b s.
  Proof.
    intro H. unfold remove_key.
    set (s1 := if mem_b b (mem s) then set_mem (remove_blob b (mem s)) s else s).
    assert (Hu : ua s1 = ua s) by (subst s1; destruct (mem_b b (mem s)); reflexivity).
    rewrite (acall_ext (u_remove b) s1) by (rewrite Hu; exact H). reflexivity.
  Qed.

  Lemma remove_key_reqno sc b s : (reqno (ua s) <= reqno (ua (fst (remove_key sc b s))))%nat.
  Proof.
    unfold remove_key.
    set (s1 := if mem_b b (mem s) then set_mem (remove_blob b (mem s)) s else s).
    assert (Hu : ua s1 = ua s) by (subst s1; destruct (mem_b b (mem s)); reflexivity).
    pose proof (acall_reqno sc (u_remove b) s1 (kr_remove b)) as H. rewrite Hu in H.
    destruct (acall sc (u_remove b) s1) as [s2 r]. cbn [fst] in H.
    destruct r, (mem_b b (mem s)); cbn [fst]; try destruct (noup s2); cbn; exact H.
  Qed.

  Lemma closure_ext b x :
    agree sc1 sc2 (reqno (ua (fst (fst x)))) -> closure sc1 b x = closure sc2 b x.
  Proof. destruct x as [[s v] e]. cbn [fst]. intro H. unfold closure. rewrite (remove_key_ext b s H). reflexivity. Qed.

  Lemma closure_reqno sc b x : (reqno (ua (fst (fst x))) <= reqno (ua (fst (fst (closure sc b x)))))%nat.
  Proof.
    destruct x as [[s v] e]. cbn [fst]. unfold closure. pose proof (remove_key_reqno sc b s) as H.
    destruct (remove_key sc b s) as [s' ok]. cbn [fst] in H. destruct ok; exact H.
  Qed.

  Lemma sweep_reqno sc p l : forall x, (reqno (ua (fst (fst x))) <= reqno (ua (fst (fst (sweep sc p l x)))))%nat.
  Proof.
    unfold sweep. induction l as [|b l IH]; intro x; cbn [fold_left]; [lia|].
    eapply Nat.le_trans; [|apply IH]. destruct (p b); [apply closure_reqno|lia].
  Qed.

  Lemma sweep_ext p l : forall x,
    agree sc1 sc2 (reqno (ua (fst (fst x)))) -> sweep sc1 p l x = sweep sc2 p l x.
  Proof.
    unfold sweep. induction l as [|b l IH]; intros x H; cbn [fold_left]; [reflexivity|].
    destruct (p b).
    - rewrite (closure_ext b x H). apply IH. eapply agree_mono; [apply (closure_reqno sc2 b x)|exact H].
    - apply IH. exact H.
  Qed.

  Lemma phase2_ext now s1 v1 :
    agree sc1 sc2 (reqno (ua s1)) ->
    sweep sc1 (invalid_at info now) (mem (fst (fst (sweep sc1 (invalid_at info now) v1 (s1, v1, false)))))
          (sweep sc1 (invalid_at info now) v1 (s1, v1, false)) =
    sweep sc2 (invalid_at info now) (mem (fst (fst (sweep sc2 (invalid_at info now) v1 (s1, v1, false)))))
          (sweep sc2 (invalid_at info now) v1 (s1, v1, false)).
  Proof.
    intro A1. rewrite (sweep_ext (invalid_at info now) v1 (s1, v1, false) A1).
    pose proof (sweep_reqno sc2 (invalid_at info now) v1 (s1, v1, false)) as R2. cbn [fst] in R2.
    set (x2 := sweep sc2 (invalid_at info now) v1 (s1, v1, false)) in *.
    apply sweep_ext. eapply agree_mono; eauto.
  Qed.

  Lemma filter_certs_ext now s :
    agree sc1 sc2 (reqno (ua s)) -> filter_certs info sc1 now s = filter_certs info sc2 now s.
  Proof.
    intro H. unfold filter_certs. rewrite (acall_ext u_list s H).
    pose proof (acall_reqno sc2 u_list s kr_list) as H0.
    destruct (acall sc2 u_list s) as [s0 r]. cbn [fst] in H0. destruct r as [L|]; [|reflexivity].
    assert (A0 : agree sc1 sc2 (reqno (ua s0))) by (eapply agree_mono; eauto).
    destruct L as [|a L']; cbv zeta.
    - rewrite (phase2_ext now s0 [] A0). reflexivity.
    - rewrite (sweep_ext (orphan_of info (map (pubkey_of info) (a :: L'))) (mem s0) (s0, a :: L', false) A0).
      pose proof (sweep_reqno sc2 (orphan_of info (map (pubkey_of info) (a :: L'))) (mem s0) (s0, a :: L', false)) as R1.
      cbn [fst] in R1.
      destruct (sweep sc2 (orphan_of info (map (pubkey_of info) (a :: L'))) (mem s0) (s0, a :: L', false)) as [[s1 v1] e1].
      cbn [fst] in R1. destruct e1; [reflexivity|].
      rewrite (phase2_ext now s1 v1) by (eapply agree_mono; eauto). reflexivity.
  Qed.

  Lemma filter_certs_reqno sc now s : (reqno (ua s) <= reqno (ua (fst (filter_certs info sc now s))))%nat.
  Proof.
    unfold filter_certs. pose proof (acall_reqno sc u_list s kr_list) as H0.
    destruct (acall sc u_list s) as [s0 r]. cbn [fst] in H0. destruct r as [L|]; [|exact H0].
    assert (R1 : (reqno (ua s0) <= reqno (ua (fst (fst (match L with
                 | [] => (s0, L, false)
                 | _ :: _ => sweep sc (orphan_of info (map (pubkey_of info) L)) (mem s0) (s0, L, false)
                 end)))))%nat).
    { destruct L; [cbn; lia|]. apply (sweep_reqno sc _ _ (s0, _, false)). }
    destruct (match L with [] => (s0, L, false) | _ :: _ => _ end) as [[s1 v1] e1]. cbn [fst] in R1.
    destruct e1; [cbn [fst]; lia|].
    pose proof (sweep_reqno sc (invalid_at info now) v1 (s1, v1, false)) as R2. cbn [fst] in R2.
    set (x2 := sweep sc (invalid_at info now) v1 (s1, v1, false)) in *.
    pose proof (sweep_reqno sc (invalid_at info now) (mem (fst (fst x2))) x2) as R3.
    destruct (sweep sc (invalid_at info now) (mem (fst (fst x2))) x2) as [[s3 v3] e3]. cbn [fst] in R3.
    destruct e3; cbn [fst]; lia.
  Qed.

  (** The step function reads the script only from the current request number on. *)
  Theorem step_ext now s o :
    agree sc1 sc2 (reqno (ua s)) -> step info sc1 now s o = step info sc2 now s o.
  Proof.
    intro H. destruct o; cbn [step]; try reflexivity.
    - rewrite (filter_certs_ext now s H). reflexivity.
    - rewrite (filter_certs_ext now s H). pose proof (filter_certs_reqno sc2 now s) as R.
      destruct (filter_certs info sc2 now s) as [s1 [v|]]; cbn [fst] in R; [|reflexivity].
      rewrite (acall_ext u_list s1) by (eapply agree_mono; eauto). reflexivity.
    - rewrite (filter_certs_ext now s H). pose proof (filter_certs_reqno sc2 now s) as R.
      destruct (filter_certs info sc2 now s) as [s1 [v|]]; cbn [fst] in R; [|reflexivity].
      assert (A1 : agree sc1 sc2 (reqno (ua s1))) by (eapply agree_mono; eauto).
      destruct (locked s); [reflexivity|].
      match goal with |- context [match ?t with Some _ => _ | None => _ end] => destruct t as [tg|] end; [|reflexivity].
      rewrite (acall_ext (u_sign tg) s1 A1). reflexivity.
    - rewrite (acall_ext (u_add b) s H). reflexivity.
    - rewrite (acall_ext u_list s H). reflexivity.
    - rewrite (remove_key_ext key s H). reflexivity.
    - rewrite (acall_ext u_remove_all (set_cache [] (set_mem [] s))) by exact H. reflexivity.
    - rewrite (acall_ext (u_lock p) s H). reflexivity.
    - rewrite (acall_ext (u_unlock p) s H). reflexivity.
    - unfold call_raw. rewrite (H (reqno (ua s))) by lia. reflexivity.
  Qed.

  Theorem step_reqno sc now s o : (reqno (ua s) <= reqno (ua (fst (step info sc now s o))))%nat.
  Proof.
    destruct o; cbn [step].
    - destruct (locked s); [cbn; lia|]. pose proof (filter_certs_reqno sc now s) as R.
      destruct (filter_certs info sc now s) as [s1 [v|]]; cbn [fst] in *; [|exact R].
      destruct (list_agent_mem info v s1) as [_ Hu]. destruct (list_agent info s1 v) as [s2 l]. cbn [fst] in *.
      rewrite Hu. exact R.
    - destruct (locked s); [cbn; lia|]. pose proof (filter_certs_reqno sc now s) as R.
      destruct (filter_certs info sc now s) as [s1 [v|]]; cbn [fst] in *; [|exact R].
      pose proof (acall_reqno sc u_list s1 kr_list) as R2.
      destruct (acall sc u_list s1) as [s2 [l|]]; cbn [fst] in *; [|lia].
      unfold signers_agent. destruct (noup s2); [|cbn [fst]; lia].
      destruct (list_agent_mem info l s2) as [_ Hu]. destruct (list_agent info s2 l) as [s3 l']. cbn [fst] in *.
      rewrite Hu. lia.
    - destruct (locked s); [cbn; lia|]. pose proof (filter_certs_reqno sc now s) as R.
      destruct (filter_certs info sc now s) as [s1 [v|]]; cbn [fst] in *; [|exact R].
      match goal with |- context [match ?t with Some _ => _ | None => _ end] => destruct t as [tg|] end; cbn [fst]; [|exact R].
      pose proof (acall_reqno sc (u_sign tg) s1 (kr_sign tg)) as R2.
      destruct (acall sc (u_sign tg) s1) as [s2 [i|]]; cbn [fst] in *; lia.
    - destruct (locked s); [cbn; lia|]. pose proof (acall_reqno sc (u_add b) s (kr_add b)) as R.
      destruct (acall sc (u_add b) s) as [s1 r]. exact R.
    - destruct (locked s); [cbn; lia|]. destruct (mem_b key (mem s)); [cbn; lia|].
      destruct (negb (is_cert info key)); [cbn; lia|]. pose proof (acall_reqno sc u_list s kr_list) as R.
      destruct (acall sc u_list s) as [s1 [l|]]; cbn [fst] in *; [|exact R].
      destruct (mem_b (pubkey_of info key) l); exact R.
    - destruct (locked s); [cbn; lia|]. pose proof (remove_key_reqno sc key s) as R.
      destruct (remove_key sc key s) as [s1 ok]. exact R.
    - destruct (locked s); [cbn; lia|].
      pose proof (acall_reqno sc u_remove_all (set_cache [] (set_mem [] s)) kr_remove_all) as R.
      destruct (acall sc u_remove_all (set_cache [] (set_mem [] s))) as [s1 r]. exact R.
    - destruct (locked s); [cbn; lia|]. pose proof (acall_reqno sc (u_lock p) s (kr_lock p)) as R.
      destruct (acall sc (u_lock p) s) as [s1 [r|]]; exact R.
    - destruct (negb (locked s)); [cbn; lia|]. pose proof (acall_reqno sc (u_unlock p) s (kr_unlock p)) as R.
      destruct (acall sc (u_unlock p) s) as [s1 [r|]]; exact R.
    - destruct (max_frame <? len)%N; [cbn; lia|]. destruct (closed s); [cbn; lia|].
      unfold call_raw. destruct (alive (ua s)); cbn [negb]; [|cbn; lia].
      destruct (sc (reqno (ua s))) as [ft|].
      + destruct (f_exec ft), (f_kind ft); cbn; lia.
      + destruct (max_frame <? rlen)%N; cbn; lia.
    - destruct (locked s); [cbn; lia|]. destruct (closed s); cbn; lia.
    - cbn. unfold direct_add, u_add. destruct (ulocked (ua s)); cbn; [lia|]. lia.
    - cbn. unfold direct_remove, u_remove. destruct (ulocked (ua s)); cbn; [lia|]. destruct (mem_b b (ids (ua s))); cbn; lia.
  Qed.
End Ext.
