(** Lemmas about Model/Wire.v: the ssh wire primitives and the repository's
    message codecs round-trip, under exactly the side conditions the proofs
    force; each forced condition is also shown necessary by a witness. *)
From Verif Require Import Lib.Base Lib.Bytes Lib.Wire Generated.YubiAgentGen Model.Wire Model.Slots Model.C13Check.
From Coq Require Import Lia ZifyN.
Set Default Timeout 60.
Local Open Scope N_scope.
Local Arguments skipn : simpl never.
Local Arguments firstn : simpl never.

(** * primitives *)
Lemma to_nat_blen s : N.to_nat (blen s) = length s.
Proof. unfold blen. apply Nat2N.id. Qed.

Lemma parse_string_put s r :
  fits32 s -> parse_string (put_string s ++ r) = Some (s, r).
Proof.
  intros Hs. unfold fits32 in Hs. unfold put_string, parse_string.
  rewrite <- app_assoc. unfold be32. cbn [app parse_u32].
  rewrite of_be32_be32 by exact Hs.
  assert (Hlt : (blen (s ++ r) <? blen s) = false).
  { apply N.ltb_ge. rewrite blen_app. lia. }
  rewrite Hlt, to_nat_blen, firstn_app_exact, skipn_app_exact. reflexivity.
Qed.

Lemma join_nonempty l : l <> [] -> l <> [[]] -> join_on comma l <> [].
Proof.
  destruct l as [|x [|y r]]; intros H1 H2; try congruence.
  - simpl. intros E. subst. congruence.
  - change (join_on comma (x :: y :: r)) with (x ++ comma :: join_on comma (y :: r)).
    destruct x; discriminate.
Qed.

Lemma names_ok_inv l :
  names_ok l = true -> forallb (fun p => negb (has_byte comma p)) l = true /\ l <> [[]].
Proof.
  unfold names_ok, name_ok. intros H. apply andb_true_iff in H. destruct H as [H1 H2].
  split; [exact H1|]. intros E. subst. discriminate.
Qed.

Lemma parse_name_list_put l r :
  names_ok l = true -> fits32 (join_on comma l) ->
  parse_name_list (put_name_list l ++ r) = Some (l, r).
Proof.
  intros Hok Hfit. apply names_ok_inv in Hok. destruct Hok as [Hall Hne].
  unfold parse_name_list, put_name_list. rewrite parse_string_put by exact Hfit.
  destruct l as [|x l'].
  - reflexivity.
  - pose proof (join_nonempty (x :: l')) as Hj.
    destruct (join_on comma (x :: l')) as [|c cs] eqn:E.
    + exfalso. apply Hj; [discriminate|exact Hne|reflexivity].
    + rewrite <- E. rewrite split_join; [reflexivity|discriminate|exact Hall].
Qed.

(** * struct layouts *)
Definition value_ok (v : value) : Prop :=
  match v with
  | VStr b => fits32 b
  | VNames l => names_ok l = true /\ fits32 (join_on comma l)
  end.

Lemma fields_roundtrip ks : forall vs w,
  marshal_fields ks vs = Some w -> Forall value_ok vs -> unmarshal_fields ks w = Some vs.
Proof.
  induction ks as [|k ks IH]; intros vs w Hm Hok.
  - destruct vs; cbn [marshal_fields] in Hm; [|discriminate].
    assert (w = []) by congruence. subst w. reflexivity.
  - destruct k; destruct vs as [|v vs]; cbn [marshal_fields] in Hm; try discriminate;
      destruct v as [b|l]; try discriminate;
      destruct (marshal_fields ks vs) as [r|] eqn:E; try discriminate;
      inversion Hok as [|? ? Hv Hrest]; subst; cbn [value_ok] in Hv.
    + assert (w = put_string b ++ r) by congruence. subst w.
      cbn [unmarshal_fields]. rewrite parse_string_put by exact Hv.
      rewrite (IH vs r E Hrest). reflexivity.
    + assert (w = put_name_list l ++ r) by congruence. subst w.
      destruct Hv as [Hn Hf]. cbn [unmarshal_fields]. rewrite parse_name_list_put by assumption.
      rewrite (IH vs r E Hrest). reflexivity.
Qed.

Lemma put_string_nonempty b r : put_string b ++ r <> [].
Proof. unfold put_string, be32. discriminate. Qed.

(** ssh.Unmarshal (ssh.Marshal x) = x for a tagged layout (tag > 0) or an
    untagged one with at least one field. *)
Lemma struct_roundtrip lay vs w :
  marshal lay vs = Some w -> Forall value_ok vs ->
  match fst lay with Some t => 0 < t | None => snd lay <> [] end ->
  unmarshal lay w = Some vs.
Proof.
  unfold marshal, unmarshal. intros Hm Hok Htag.
  destruct (marshal_fields (snd lay) vs) as [body|] eqn:E; [|discriminate].
  destruct (fst lay) as [t|].
  - injection Hm as <-. apply N.ltb_lt in Htag. rewrite Htag, N.eqb_refl. simpl.
    apply fields_roundtrip; assumption.
  - injection Hm as <-.
    pose proof (fields_roundtrip _ _ _ E Hok) as Hu.
    destruct body as [|c r]; [|exact Hu].
    exfalso. destruct (snd lay) as [|k ks]; [congruence|].
    destruct k; destruct vs as [|[b|l] vs]; simpl in E; try discriminate;
      destruct (marshal_fields ks vs); try discriminate; injection E as E;
      unfold put_name_list in E; apply put_string_nonempty in E; exact E.
Qed.

(** * the regenerated layouts are the ones the messages are documented with *)
Lemma layouts_are_spec :
  lay_add = (Some 31, [KStr; KStr]) /\ lay_list = (None, [KNames; KStr]) /\
  lay_read = (None, [KStr; KStr]) /\ lay_attest = (None, [KStr; KStr]).
Proof. repeat split; reflexivity. Qed.

Lemma codes_are_spec :
  msg_add_hard_cert = 31 /\ msg_list_slots = 32 /\ msg_read_slot = 33 /\
  msg_attest_slot = 34 /\ msg_wait = 35.
Proof. repeat split; reflexivity. Qed.

Lemma success_texts_are_spec :
  server_success_texts = [tx "SUCCESS"] /\ client_success_texts = [tx "SUCCESS"].
Proof. split; reflexivity. Qed.

Lemma enc_add_new_eq blob comment :
  enc_add_new blob comment = Some (31 :: put_string blob ++ put_string comment).
Proof.
  unfold enc_add_new, marshal. change lay_add with (Some 31, [KStr; KStr]).
  cbn [fst snd marshal_fields]. rewrite app_nil_r. reflexivity.
Qed.

Lemma enc_list_resp_eq slots err :
  enc_list_resp slots err = Some (put_name_list slots ++ put_string (err_text err)).
Proof.
  unfold enc_list_resp, marshal. change lay_list with (@None N, [KNames; KStr]).
  cbn [fst snd marshal_fields]. rewrite app_nil_r. reflexivity.
Qed.

Lemma enc_slot_resp_eq attest pem err :
  enc_slot_resp attest pem err = Some (put_string pem ++ put_string (err_text err)).
Proof.
  unfold enc_slot_resp, marshal.
  replace (if attest then lay_attest else lay_read) with (@None N, [KStr; KStr])
    by (destruct attest; reflexivity).
  cbn [fst snd marshal_fields]. rewrite app_nil_r. reflexivity.
Qed.

(** * add-hard-cert *)
Lemma add_new_unmarshal blob comment :
  fits32 blob -> fits32 comment ->
  unmarshal lay_add (31 :: put_string blob ++ put_string comment) = Some [VStr blob; VStr comment].
Proof.
  intros Hb Hc. apply struct_roundtrip.
  - rewrite <- enc_add_new_eq. reflexivity.
  - repeat constructor; assumption.
  - change lay_add with (Some 31, [KStr; KStr]). cbn [fst]. lia.
Qed.

Section AddHardCert.
  (** ssh.ParsePublicKey, as an arbitrary function *)
  Variable parse_key : bytes -> option bytes.

  (** New format: the server recovers (key, comment) - given that the key
      parser does not accept the new encoding's body read as a bare key blob
      (true of every real key: the body starts with the blob's own length, not
      with an algorithm name; validated on every key type by the harness). *)
  Lemma dec_add_new blob comment k w :
    fits32 blob -> fits32 comment ->
    parse_key blob = Some k ->
    parse_key (put_string blob ++ put_string comment) = None ->
    enc_add_new blob comment = Some w ->
    dec_add parse_key w = Val (Some (k, comment)).
  Proof.
    intros Hb Hc Hk Hrej Hw. rewrite enc_add_new_eq in Hw.
    assert (w = 31 :: put_string blob ++ put_string comment) by congruence. subst w.
    unfold dec_add, go_from.
    cbn [length Nat.leb obind].
    change (skipn 1 (31 :: put_string blob ++ put_string comment))
      with (put_string blob ++ put_string comment).
    rewrite Hrej, (add_new_unmarshal blob comment Hb Hc), Hk. reflexivity.
  Qed.

  (** Legacy format: the server recovers (key, "") *)
  Lemma dec_add_legacy blob k :
    parse_key blob = Some k ->
    dec_add parse_key (enc_add_legacy blob) = Val (Some (k, [])).
  Proof.
    intros Hk. unfold dec_add, enc_add_legacy, go_from. cbn [length Nat.leb obind].
    change (skipn 1 (msg_add_hard_cert :: blob)) with blob. rewrite Hk. reflexivity.
  Qed.

  (** Whatever the bytes, decoding never crashes on a non-empty request. *)
  Lemma dec_add_total req : req <> [] -> exists r, dec_add parse_key req = Val r.
  Proof.
    intros Hne. destruct req as [|c tail]; [congruence|].
    unfold dec_add, go_from. cbn [length Nat.leb obind].
    destruct (parse_key (skipn 1 (c :: tail))); [eexists; reflexivity|].
    destruct (unmarshal lay_add (c :: tail)) as [[|[b|l] [|[b'|l'] [|v vs]]]|];
      try (eexists; reflexivity).
    destruct (parse_key b); eexists; reflexivity.
  Qed.
End AddHardCert.

(** * the SUCCESS / error-text reply *)
Lemma reply_roundtrip r : r <> Some (tx "SUCCESS") -> dec_reply (enc_reply r) = r.
Proof.
  intros Hne. unfold dec_reply, enc_reply.
  change success_expected with (tx "SUCCESS"). change success_written with (tx "SUCCESS").
  destruct r as [t|].
  - destruct (bytes_eqb t (tx "SUCCESS")) eqn:E; [|reflexivity].
    apply bytes_eqb_eq in E. subst. congruence.
  - reflexivity.
Qed.

Lemma reply_k1 : exists r, dec_reply (enc_reply r) <> r.
Proof. exists (Some (tx "SUCCESS")). vm_compute. discriminate. Qed.

(** * list-slots *)
Lemma text_err_text err : err <> Some [] -> text_err (err_text err) = err.
Proof. destruct err as [[|c t]|]; intros H; try reflexivity. congruence. Qed.

Lemma list_resp_roundtrip slots err :
  names_ok slots = true -> fits32 (join_on comma slots) ->
  fits32 (err_text err) -> err <> Some [] ->
  exists w, enc_list_resp slots err = Some w /\ dec_list_resp w = Some (slots, err).
Proof.
  intros Hn Hf He Hne. eexists. split; [apply enc_list_resp_eq|].
  unfold dec_list_resp.
  rewrite (struct_roundtrip lay_list [VNames slots; VStr (err_text err)]).
  - rewrite text_err_text by exact Hne. reflexivity.
  - apply enc_list_resp_eq.
  - repeat constructor; assumption.
  - change lay_list with (@None N, [KNames; KStr]). cbn [fst snd]. discriminate.
Qed.

Lemma list_resp_k2 :
  exists slots err w, names_ok slots = true /\
    enc_list_resp slots err = Some w /\ dec_list_resp w <> Some (slots, err).
Proof.
  exists [], (Some []), (put_name_list [] ++ put_string []).
  split; [reflexivity|]. split; [apply enc_list_resp_eq|]. vm_compute. discriminate.
Qed.

Lemma list_resp_k3 :
  (exists slots w, enc_list_resp slots None = Some w /\
     dec_list_resp w = Some ([[]; tx "a"; tx "9c"], None) /\ slots = [tx ",a"; tx "9c"]) /\
  (exists w, enc_list_resp [[]] None = Some w /\ dec_list_resp w = Some ([], None)).
Proof.
  split.
  - exists [tx ",a"; tx "9c"], (put_name_list [tx ",a"; tx "9c"] ++ put_string []).
    split; [apply enc_list_resp_eq|]. split; vm_compute; reflexivity.
  - exists (put_name_list [[]] ++ put_string []).
    split; [apply enc_list_resp_eq|]. vm_compute. reflexivity.
Qed.

(** * read-slot / attest-slot *)
Definition slot_view (pem : bytes) (err : option bytes) : slot_result :=
  match err with
  | Some (c :: t) => SlotErr (c :: t)
  | _ => SlotPem pem
  end.

Lemma slot_resp_roundtrip attest pem err :
  fits32 pem -> fits32 (err_text err) ->
  exists w, enc_slot_resp attest pem err = Some w /\ dec_slot_resp w = Some (slot_view pem err).
Proof.
  intros Hp He. eexists. split; [apply enc_slot_resp_eq|].
  unfold dec_slot_resp.
  rewrite (struct_roundtrip lay_read [VStr pem; VStr (err_text err)]).
  - destruct err as [[|c t]|]; reflexivity.
  - rewrite <- (enc_slot_resp_eq false). reflexivity.
  - repeat constructor; assumption.
  - change lay_read with (@None N, [KStr; KStr]). cbn [fst snd]. discriminate.
Qed.

Lemma slot_req_roundtrip attest slot : dec_slot_req (enc_slot_req attest slot) = Val slot.
Proof. reflexivity. Qed.

(** * wait *)
Lemma wait_req_roundtrip code : dec_wait_req (enc_wait_req code) = Val (WaitCode code).
Proof. reflexivity. Qed.

Lemma dec_wait_total req : exists r, dec_wait_req req = Val r.
Proof.
  unfold dec_wait_req, dec_wait_req_with. change serve_wait_min_len with 2.
  destruct (blen req <? 2) eqn:E; [eexists; reflexivity|].
  apply N.ltb_ge in E. unfold blen in E.
  destruct req as [|a [|b r]]; simpl in E; try lia.
  eexists. reflexivity.
Qed.

(** * The model's own runs satisfy the property oracle of Model/C13Check.v
    (so the oracle evaluated on the implementation is the proven one). *)
Lemma obytes_eqb_refl o : obytes_eqb o o = true.
Proof. unfold obytes_eqb. destruct o; cbn [option_eqb]; [apply bytes_eqb_refl|reflexivity]. Qed.
Lemma lbytes_eqb_refl l : lbytes_eqb l l = true.
Proof.
  unfold lbytes_eqb. induction l as [|x l IH]; cbn [list_eqb]; [reflexivity|].
  rewrite bytes_eqb_refl, IH. reflexivity.
Qed.
Lemma pair_eqb_refl p : pair_eqb p p = true.
Proof. unfold pair_eqb. rewrite !bytes_eqb_refl. reflexivity. Qed.

Lemma oracle_add_new_model pk blob comment scripted w :
  fits32 blob -> fits32 comment ->
  pk blob = Some blob -> pk (put_string blob ++ put_string comment) = None ->
  scripted <> Some (tx "SUCCESS") ->
  enc_add_new blob comment = Some w ->
  exists seen, dec_add pk w = Val seen /\
    oracle_add false blob comment seen scripted (dec_reply (enc_reply scripted)) = true.
Proof.
  intros Hb Hc Hk Hrej Hs Hw. exists (Some (blob, comment)).
  split; [exact (dec_add_new pk blob comment blob w Hb Hc Hk Hrej Hw)|].
  unfold oracle_add. rewrite reply_roundtrip by exact Hs.
  cbn [option_eqb]. rewrite pair_eqb_refl. destruct scripted; reflexivity.
Qed.

Lemma oracle_add_legacy_model pk blob comment scripted :
  pk blob = Some blob -> scripted <> Some (tx "SUCCESS") ->
  exists seen, dec_add pk (enc_add_legacy blob) = Val seen /\
    oracle_add true blob comment seen scripted (dec_reply (enc_reply scripted)) = true.
Proof.
  intros Hk Hs. exists (Some (blob, [])). split; [exact (dec_add_legacy pk blob blob Hk)|].
  unfold oracle_add. rewrite reply_roundtrip by exact Hs.
  cbn [option_eqb]. rewrite pair_eqb_refl. destruct scripted; reflexivity.
Qed.

Lemma oracle_wait_model code scripted :
  scripted <> Some (tx "SUCCESS") ->
  dec_wait_req (enc_wait_req code) = Val (WaitCode code) /\
  oracle_wait code (Some code) scripted (dec_reply (enc_reply scripted)) = true.
Proof.
  intros Hs. split; [apply wait_req_roundtrip|].
  unfold oracle_wait. rewrite reply_roundtrip by exact Hs.
  cbn [option_eqb]. rewrite N.eqb_refl. destruct scripted; reflexivity.
Qed.

Lemma oracle_list_model slots err :
  names_ok slots = true -> fits32 (join_on comma slots) -> fits32 (err_text err) -> err <> Some [] ->
  exists w cs ce, enc_list_resp slots err = Some w /\ dec_list_resp w = Some (cs, ce) /\
    oracle_list slots err cs ce = true.
Proof.
  intros Hn Hf He Hne. destruct (list_resp_roundtrip slots err Hn Hf He Hne) as [w [H1 H2]].
  exists w, slots, err. split; [exact H1|]. split; [exact H2|].
  unfold oracle_list. destruct err; [reflexivity|]. rewrite lbytes_eqb_refl. reflexivity.
Qed.

(** a slot operation's failure (non-empty text) reaches the client as that error *)
Lemma oracle_slot_err_model attest slot pem c t :
  fits32 pem -> fits32 (c :: t) ->
  exists w, enc_slot_resp attest pem (Some (c :: t)) = Some w /\
    dec_slot_resp w = Some (SlotErr (c :: t)) /\
    dec_slot_req (enc_slot_req attest slot) = Val slot /\
    oracle_slot slot (Some slot) (Some (c :: t)) false (Some (c :: t)) = true.
Proof.
  intros Hp Ht. destruct (slot_resp_roundtrip attest pem (Some (c :: t)) Hp Ht) as [w [H1 H2]].
  exists w. split; [exact H1|]. split; [exact H2|]. split; [apply slot_req_roundtrip|].
  unfold oracle_slot. rewrite obytes_eqb_refl. reflexivity.
Qed.

(** * statements exported to Properties/C13.v *)
Lemma add_new_roundtrip blob comment :
  fits32 blob -> fits32 comment ->
  enc_add_new blob comment = Some (31 :: put_string blob ++ put_string comment) /\
  unmarshal lay_add (31 :: put_string blob ++ put_string comment) = Some [VStr blob; VStr comment].
Proof. intros Hb Hc. exact (conj (enc_add_new_eq blob comment) (add_new_unmarshal blob comment Hb Hc)). Qed.

Lemma new_vs_legacy (parse_key : bytes -> option bytes) blob comment k :
  parse_key blob = Some k ->
  dec_add parse_key (enc_add_legacy blob) = Val (Some (k, [])) /\
  (fits32 blob -> fits32 comment ->
   parse_key (put_string blob ++ put_string comment) = None ->
   forall w, enc_add_new blob comment = Some w -> dec_add parse_key w = Val (Some (k, comment))).
Proof.
  intros Hk.
  exact (conj (dec_add_legacy parse_key blob k Hk)
              (fun Hb Hc Hrej w Hw => dec_add_new parse_key blob comment k w Hb Hc Hk Hrej Hw)).
Qed.

Lemma slot_roundtrip attest slot pem err :
  fits32 pem -> fits32 (err_text err) ->
  dec_slot_req (enc_slot_req attest slot) = Val slot /\
  exists w, enc_slot_resp attest pem err = Some w /\ dec_slot_resp w = Some (slot_view pem err).
Proof.
  intros Hp He.
  exact (conj (slot_req_roundtrip attest slot) (slot_resp_roundtrip attest pem err Hp He)).
Qed.

Lemma ex_roundtrips :
  (exists w, enc_list_resp [tx "9a"; tx "9c"] (Some (tx "boom")) = Some w /\
             dec_list_resp w = Some ([tx "9a"; tx "9c"], Some (tx "boom"))) /\
  dec_reply (enc_reply (Some (tx "SUCCESS!"))) = Some (tx "SUCCESS!") /\
  dec_reply (enc_reply None) = None /\
  dec_add (fun b => if bytes_eqb b (tx "KEY") then Some b else None)
          (31 :: put_string (tx "KEY") ++ put_string (tx "c")) = Val (Some (tx "KEY", tx "c")).
Proof.
  split.
  - exists (put_name_list [tx "9a"; tx "9c"] ++ put_string (tx "boom")).
    split; vm_compute; reflexivity.
  - repeat split; vm_compute; reflexivity.
Qed.
