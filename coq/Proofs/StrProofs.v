(** Lemmas about the Go string functions of Lib/Str.v. *)
From Verif Require Import Lib.Base Lib.Str.
From Coq Require Import DecimalN DecimalPos.
Local Open Scope N_scope.
Set Default Timeout 60.

(** * Membership as a boolean *)
Lemma contains_char_false c s : contains_char c s = false <-> ~ In c s.
Proof.
  unfold contains_char. split.
  - intros H Hin. assert (Ht : existsb (N.eqb c) s = true).
    { apply existsb_exists. exists c. split; [assumption|apply N.eqb_refl]. }
    congruence.
  - intros H. destruct (existsb (N.eqb c) s) eqn:E; [|reflexivity].
    apply existsb_exists in E as (x & Hin & Hx). apply N.eqb_eq in Hx. subst x. contradiction.
Qed.

Lemma has_space_false s : has_space s = false <-> Forall (fun c => is_space c = false) s.
Proof.
  unfold has_space. induction s as [|c r IH]; cbn [existsb].
  - split; [constructor|reflexivity].
  - rewrite orb_false_iff, IH. split.
    + intros [H1 H2]. constructor; assumption.
    + intros H. inversion H; subst. split; assumption.
Qed.

Lemma has_space_app a b : has_space (a ++ b) = has_space a || has_space b.
Proof. unfold has_space. apply existsb_app. Qed.

Lemma not_space_not_32 s : has_space s = false -> ~ In 32 s.
Proof.
  intros H Hin. apply has_space_false in H. rewrite Forall_forall in H.
  specialize (H 32 Hin). vm_compute in H. discriminate.
Qed.

(** * strings.Split *)
Lemma split_on_cons sep s : exists h t, split_on sep s = h :: t.
Proof.
  induction s as [|c r (h & t & IH)]; cbn [split_on].
  - eauto.
  - destruct (c =? sep); [eauto|]. rewrite IH. eauto.
Qed.

Lemma split_on_not_nil sep s : split_on sep s <> [].
Proof. destruct (split_on_cons sep s) as (h & t & ->). discriminate. Qed.

Lemma split_on_length sep s : (1 <= length (split_on sep s))%nat.
Proof. destruct (split_on_cons sep s) as (h & t & ->). cbn. lia. Qed.

Lemma split_on_index0 sep s : exists h, go_index (split_on sep s) 0 = Val h.
Proof. destruct (split_on_cons sep s) as (h & t & ->). exists h. reflexivity. Qed.

Lemma split_on_no_sep sep s : ~ In sep s -> split_on sep s = [s].
Proof.
  induction s as [|c r IH]; intros H; cbn [split_on]; [reflexivity|].
  destruct (N.eqb_spec c sep) as [->|Hn]; [exfalso; apply H; left; reflexivity|].
  rewrite IH; [reflexivity|]. intros Hin. apply H. right. assumption.
Qed.

Lemma split_on_app sep a b :
  ~ In sep a -> split_on sep (a ++ sep :: b) = a :: split_on sep b.
Proof.
  induction a as [|c r IH]; intros H; cbn [app split_on].
  - rewrite N.eqb_refl. reflexivity.
  - destruct (N.eqb_spec c sep) as [->|Hn]; [exfalso; apply H; left; reflexivity|].
    rewrite IH; [reflexivity|]. intros Hin. apply H. right. assumption.
Qed.

Lemma split_on_join sep l :
  l <> [] -> Forall (fun t => ~ In sep t) l -> split_on sep (join sep l) = l.
Proof.
  induction l as [|x r IH]; intros Hne Hall; [contradiction|].
  inversion Hall as [|? ? Hx Hr]; subst.
  destruct r as [|y r'].
  - cbn [join]. apply split_on_no_sep. assumption.
  - change (join sep (x :: y :: r')) with (x ++ sep :: join sep (y :: r')).
    rewrite split_on_app by assumption. rewrite IH; [reflexivity|discriminate|assumption].
Qed.

(** The first field, as the property words it. *)
Fixpoint take_until (sep : N) (s : str) : str :=
  match s with
  | [] => []
  | c :: r => if c =? sep then [] else c :: take_until sep r
  end.

Lemma split_on_first sep s : exists t, split_on sep s = take_until sep s :: t.
Proof.
  induction s as [|c r (t & IH)]; cbn [split_on take_until].
  - eauto.
  - destruct (c =? sep); [eauto|]. rewrite IH. eauto.
Qed.

Lemma take_until_no_sep sep s : ~ In sep (take_until sep s).
Proof.
  induction s as [|c r IH]; cbn [take_until]; [intros []|].
  destruct (N.eqb_spec c sep) as [->|Hn]; [intros []|].
  intros [H|H]; [congruence|contradiction].
Qed.

(** Exactly one field: no separator. *)
Lemma split_on_one sep s b : split_on sep s = [b] -> s = b /\ ~ In sep b.
Proof.
  revert b. induction s as [|c r IH]; intros b; cbn [split_on].
  - intros H. injection H as <-. split; [reflexivity|intros []].
  - destruct (N.eqb_spec c sep) as [->|Hn].
    + intros H. destruct (split_on_cons sep r) as (h & t & E). rewrite E in H. discriminate.
    + destruct (split_on sep r) as [|h t] eqn:E; [exfalso; exact (split_on_not_nil _ _ E)|].
      intros H. injection H as Hb Ht. subst t. destruct (IH h eq_refl) as (Hr & Hh).
      subst b. split; [congruence|].
      intros [H|H]; [congruence|contradiction].
Qed.

(** Exactly two fields: the separator occurs exactly once. *)
Lemma split_on_two sep s a b :
  split_on sep s = [a; b] -> s = a ++ sep :: b /\ ~ In sep a /\ ~ In sep b.
Proof.
  revert a. induction s as [|c r IH]; intros a; cbn [split_on]; [discriminate|].
  destruct (N.eqb_spec c sep) as [->|Hn].
  - intros H. injection H as Ha Hb. subst a. apply split_on_one in Hb as (-> & Hb).
    split; [reflexivity|]. split; [intros []|assumption].
  - destruct (split_on sep r) as [|h t] eqn:E; [exfalso; exact (split_on_not_nil _ _ E)|].
    intros H. injection H as Ha Ht. subst a t. destruct (IH h eq_refl) as (-> & Ha & Hb).
    split; [reflexivity|]. split; [|assumption].
    intros [H|H]; [congruence|contradiction].
Qed.

Lemma split_on_two_app sep a b :
  ~ In sep a -> ~ In sep b -> split_on sep (a ++ sep :: b) = [a; b].
Proof. intros Ha Hb. rewrite split_on_app by assumption. rewrite split_on_no_sep by assumption. reflexivity. Qed.

(** * strings.TrimSpace *)
Lemma drop_while_head f s :
  match s with [] => True | c :: _ => f c = false end -> drop_while f s = s.
Proof. destruct s as [|c r]; cbn [drop_while]; [reflexivity|]. intros ->. reflexivity. Qed.

Lemma trim_space_id s : has_space s = false -> trim_space s = s.
Proof.
  intros H. unfold trim_space.
  assert (H1 : drop_while is_space s = s).
  { apply drop_while_head. destruct s as [|c r]; [exact I|].
    apply has_space_false in H. inversion H; assumption. }
  rewrite H1.
  assert (H2 : drop_while is_space (rev s) = rev s).
  { apply drop_while_head. destruct (rev s) as [|c r] eqn:E; [exact I|].
    apply has_space_false in H. rewrite Forall_forall in H. apply H.
    apply in_rev. rewrite E. left. reflexivity. }
  rewrite H2. apply rev_involutive.
Qed.

Lemma drop_while_suffix f s : exists p, s = p ++ drop_while f s.
Proof.
  induction s as [|c r (p & IH)]; cbn [drop_while]; [exists []; reflexivity|].
  destruct (f c); [exists (c :: p); cbn; f_equal; exact IH|exists []; reflexivity].
Qed.

(** TrimSpace returns a contiguous piece of its argument. *)
Lemma trim_space_infix s : exists p q, s = p ++ trim_space s ++ q.
Proof.
  unfold trim_space.
  destruct (drop_while_suffix is_space s) as (p & Hp).
  destruct (drop_while_suffix is_space (rev (drop_while is_space s))) as (q & Hq).
  exists p, (rev q).
  rewrite <- rev_app_distr, <- Hq, rev_involutive. exact Hp.
Qed.

(** * strings.Index with a one-character needle *)
Lemma index_of_char_app c k v :
  ~ In c k -> index_of_char c (k ++ c :: v) = Some (length k).
Proof.
  induction k as [|x r IH]; intros H; cbn [app index_of_char length].
  - rewrite N.eqb_refl. reflexivity.
  - destruct (N.eqb_spec x c) as [->|Hn]; [exfalso; apply H; left; reflexivity|].
    rewrite IH; [reflexivity|]. intros Hin. apply H. right. assumption.
Qed.

Lemma index_of_char_none c s : ~ In c s -> index_of_char c s = None.
Proof.
  induction s as [|x r IH]; intros H; cbn [index_of_char]; [reflexivity|].
  destruct (N.eqb_spec x c) as [->|Hn]; [exfalso; apply H; left; reflexivity|].
  rewrite IH; [reflexivity|]. intros Hin. apply H. right. assumption.
Qed.

(** A found index splits the string at the first occurrence. *)
Lemma index_of_char_some c s i :
  index_of_char c s = Some i ->
  exists k v, s = k ++ c :: v /\ length k = i /\ ~ In c k.
Proof.
  revert i. induction s as [|x r IH]; intros i H; cbn [index_of_char] in H; [discriminate|].
  destruct (N.eqb_spec x c) as [->|Hn].
  - injection H as <-. exists [], r. repeat split. intros [].
  - destruct (index_of_char c r) as [j|] eqn:E; [|discriminate]. injection H as <-.
    destruct (IH j eq_refl) as (k & v & -> & Hl & Hk).
    exists (x :: k), v. cbn [app length]. repeat split; [congruence|].
    intros [H|H]; [congruence|contradiction].
Qed.

Lemma go_slice_prefix {A} (k r : list A) : go_slice (k ++ r) 0 (length k) = Val k.
Proof.
  unfold go_slice. rewrite app_length.
  replace (0 <=? length k)%nat with true by (symmetry; apply Nat.leb_le; lia).
  replace (length k <=? length k + length r)%nat with true by (symmetry; apply Nat.leb_le; lia).
  cbn [andb]. rewrite Nat.sub_0_r. change (skipn 0 (k ++ r)) with (k ++ r).
  rewrite firstn_app, Nat.sub_diag, firstn_all. cbn [firstn]. rewrite app_nil_r. reflexivity.
Qed.

Lemma go_from_suffix {A} (k : list A) (c : A) (v : list A) :
  go_from (k ++ c :: v) (S (length k)) = Val v.
Proof.
  unfold go_from. rewrite app_length. cbn [length].
  replace (S (length k) <=? length k + S (length v))%nat with true by (symmetry; apply Nat.leb_le; lia).
  f_equal. change (S (length k)) with (1 + length k)%nat.
  replace (1 + length k)%nat with (length k + 1)%nat by lia.
  rewrite skipn_app. rewrite skipn_all2 by lia.
  replace (length k + 1 - length k)%nat with 1%nat by lia. reflexivity.
Qed.

(** * Decimal parsing *)
(** Horner value of a digit string. *)

Lemma digit_val_spec c : digit_val c = if is_digit c then Some (c - 48) else None.
Proof. reflexivity. Qed.

Lemma horner_ge s acc : acc <= horner s acc.
Proof.
  revert acc. induction s as [|c r IH]; intros acc; cbn [horner]; [lia|].
  specialize (IH (10 * acc + (c - 48))). lia.
Qed.

Lemma scan_digits maxv s acc :
  forallb is_digit s = true -> acc <= maxv ->
  parse_uint_scan maxv s acc =
    if horner s acc <=? maxv then PUOk (horner s acc) else PURange.
Proof.
  revert acc. induction s as [|c r IH]; intros acc Hd Ha; cbn [parse_uint_scan horner].
  - destruct (N.leb_spec acc maxv); [reflexivity|lia].
  - cbn [forallb] in Hd. apply andb_true_iff in Hd as [Hc Hr].
    rewrite digit_val_spec, Hc.
    destruct (N.ltb_spec maxv (10 * acc + (c - 48))) as [Hlt|Hle].
    + pose proof (horner_ge r (10 * acc + (c - 48))).
      destruct (N.leb_spec (horner r (10 * acc + (c - 48))) maxv); [lia|reflexivity].
    + apply IH; assumption.
Qed.

Lemma scan_nondigit maxv s acc n :
  parse_uint_scan maxv s acc = PUOk n -> forallb is_digit s = true.
Proof.
  revert acc. induction s as [|c r IH]; intros acc H; cbn [parse_uint_scan forallb] in *; [reflexivity|].
  rewrite digit_val_spec in H. destruct (is_digit c); [|discriminate]. cbn [andb].
  destruct (maxv <? 10 * acc + (c - 48)); [discriminate|]. exact (IH _ H).
Qed.

(** strconv.ParseUint(s, 10, bits) succeeds exactly on non-empty digit strings
    whose value fits. *)
Lemma parse_uint_go_ok bits s n :
  parse_uint_go bits s = PUOk n <->
  s <> [] /\ forallb is_digit s = true /\ horner s 0 = n /\ n <= 2 ^ bits - 1.
Proof.
  unfold parse_uint_go. destruct s as [|c r]; [split; [discriminate|intros (H & _); contradiction]|].
  split.
  - intros H. pose proof (scan_nondigit _ _ _ _ H) as Hd.
    rewrite scan_digits in H by (assumption || lia).
    destruct (N.leb_spec (horner (c :: r) 0) (2 ^ bits - 1)); [|discriminate].
    injection H as <-. repeat split; [discriminate|assumption|assumption].
  - intros (_ & Hd & Hv & Hn). rewrite scan_digits by (assumption || lia).
    rewrite Hv. destruct (N.leb_spec n (2 ^ bits - 1)); [reflexivity|lia].
Qed.

(** * Decimal printing and the print/parse round trip *)
Definition uint_digits_ok (u : Decimal.uint) : Prop := forallb is_digit (str_of_uint u) = true.

Lemma str_of_uint_digits u : forallb is_digit (str_of_uint u) = true.
Proof. induction u; cbn [str_of_uint forallb]; try reflexivity; rewrite IHu; reflexivity. Qed.

Lemma horner_of_uint_acc u (acc : positive) :
  N.pos (Pos.of_uint_acc u acc) = horner (str_of_uint u) (N.pos acc).
Proof.
  revert acc. induction u; intros acc; cbn [Pos.of_uint_acc str_of_uint horner];
    try reflexivity; rewrite IHu; f_equal; lia.
Qed.

Lemma horner_of_uint u : Pos.of_uint u = horner (str_of_uint u) 0.
Proof.
  induction u; cbn [Pos.of_uint str_of_uint horner]; try reflexivity;
    try (rewrite horner_of_uint_acc; f_equal; lia).
  rewrite IHu. reflexivity.
Qed.

Lemma print_N_value n : horner (print_N n) 0 = n.
Proof.
  unfold print_N. rewrite <- horner_of_uint.
  change (Pos.of_uint (N.to_uint n)) with (N.of_uint (N.to_uint n)).
  apply DecimalN.Unsigned.of_to.
Qed.

Lemma print_N_digits n : forallb is_digit (print_N n) = true.
Proof. apply str_of_uint_digits. Qed.

Lemma str_of_uint_nil u : str_of_uint u = [] -> u = Decimal.Nil.
Proof. destruct u; cbn [str_of_uint]; intros H; (reflexivity || discriminate). Qed.

Lemma print_N_not_nil n : print_N n <> [].
Proof.
  unfold print_N. intros H. apply str_of_uint_nil in H.
  destruct n as [|p]; cbn [N.to_uint] in H; [discriminate|].
  exact (DecimalPos.Unsigned.to_uint_nonnil p H).
Qed.

Lemma parse_print_N bits n :
  n <= 2 ^ bits - 1 -> parse_uint_go bits (print_N n) = PUOk n.
Proof.
  intros H. apply parse_uint_go_ok.
  repeat split; [apply print_N_not_nil|apply print_N_digits|apply print_N_value|assumption].
Qed.

Lemma print_N_head n : exists c r, print_N n = c :: r /\ is_digit c = true.
Proof.
  destruct (print_N n) as [|c r] eqn:E; [exfalso; exact (print_N_not_nil n E)|].
  exists c, r. split; [reflexivity|].
  pose proof (print_N_digits n) as H. rewrite E in H. cbn [forallb] in H.
  apply andb_true_iff in H as [H _]. exact H.
Qed.

Lemma is_digit_range c : is_digit c = true -> 48 <= c <= 57.
Proof. unfold is_digit. rewrite andb_true_iff, !N.leb_le. tauto. Qed.

(** fmt %d then strconv.ParseInt / Atoi: the value comes back for every int64. *)
Lemma parse_int_print_Z z :
  (- 2 ^ 63 <= z <= 2 ^ 63 - 1)%Z -> parse_int_value (print_Z z) = z.
Proof.
  intros Hz. unfold print_Z. destruct (Z.ltb_spec z 0) as [Hneg|Hpos].
  - (* negative *)
    unfold parse_int_value. cbv beta iota zeta.
    change (45 =? 45) with true. change (45 =? 43) with false. cbv beta iota zeta. cbn [orb].
    rewrite (parse_print_N 64 (Z.abs_N z)).
    + destruct (N.ltb_spec (2 ^ 63) (Z.abs_N z)) as [H|H].
      * exfalso. apply N2Z.inj_lt in H. rewrite N2Z.inj_abs_N in H.
        change (Z.of_N (2 ^ 63)) with (2 ^ 63)%Z in H. lia.
      * rewrite N2Z.inj_abs_N. lia.
    + apply N2Z.inj_le. rewrite N2Z.inj_abs_N.
      change (Z.of_N (2 ^ 64 - 1)) with (2 ^ 64 - 1)%Z. lia.
  - destruct (print_N_head (Z.to_N z)) as (c & r & E & Hc).
    unfold parse_int_value. rewrite E. cbv beta iota zeta. apply is_digit_range in Hc.
    replace (c =? 45) with false by (symmetry; apply N.eqb_neq; lia).
    replace (c =? 43) with false by (symmetry; apply N.eqb_neq; lia).
    cbv beta iota zeta. cbn [orb]. cbv beta iota zeta. rewrite <- E. rewrite (parse_print_N 64 (Z.to_N z)).
    + destruct (N.leb_spec (2 ^ 63) (Z.to_N z)) as [H|H].
      * exfalso. apply N2Z.inj_le in H. rewrite Z2N.id in H by lia.
        change (Z.of_N (2 ^ 63)) with (2 ^ 63)%Z in H. lia.
      * apply Z2N.id. lia.
    + apply N2Z.inj_le. rewrite Z2N.id by lia.
      change (Z.of_N (2 ^ 64 - 1)) with (2 ^ 64 - 1)%Z. lia.
Qed.

(** The printed number contains only digits and possibly a leading minus. *)
Lemma digits_no_char s c :
  forallb is_digit s = true -> is_digit c = false -> ~ In c s.
Proof.
  intros H Hc Hin. rewrite forallb_forall in H. rewrite (H c Hin) in Hc. discriminate.
Qed.

Lemma is_space_printable c : 33 <= c <= 126 -> is_space c = false.
Proof.
  intros H. unfold is_space.
  replace (c <=? 13) with false by (symmetry; apply N.leb_gt; lia).
  replace (8192 <=? c) with false by (symmetry; apply N.leb_gt; lia).
  replace (c =? 32) with false by (symmetry; apply N.eqb_neq; lia).
  replace (c =? 133) with false by (symmetry; apply N.eqb_neq; lia).
  replace (c =? 160) with false by (symmetry; apply N.eqb_neq; lia).
  replace (c =? 5760) with false by (symmetry; apply N.eqb_neq; lia).
  replace (c =? 8232) with false by (symmetry; apply N.eqb_neq; lia).
  replace (c =? 8233) with false by (symmetry; apply N.eqb_neq; lia).
  replace (c =? 8239) with false by (symmetry; apply N.eqb_neq; lia).
  replace (c =? 8287) with false by (symmetry; apply N.eqb_neq; lia).
  replace (c =? 12288) with false by (symmetry; apply N.eqb_neq; lia).
  rewrite andb_false_r. reflexivity.
Qed.

Lemma digits_no_space s : forallb is_digit s = true -> has_space s = false.
Proof.
  intros H. apply has_space_false. rewrite Forall_forall. intros c Hin.
  rewrite forallb_forall in H. specialize (H c Hin). apply is_digit_range in H.
  apply is_space_printable. lia.
Qed.

Lemma print_Z_no_space z : has_space (print_Z z) = false.
Proof.
  unfold print_Z. destruct (z <? 0)%Z.
  - change (45 :: print_N (Z.abs_N z)) with ([45] ++ print_N (Z.abs_N z)).
    rewrite has_space_app, (digits_no_space _ (print_N_digits _)). reflexivity.
  - apply digits_no_space, print_N_digits.
Qed.

Lemma print_Z_not_nil z : print_Z z <> [].
Proof. unfold print_Z. destruct (z <? 0)%Z; [discriminate|apply print_N_not_nil]. Qed.

(** * Hexadecimal *)
Lemma hex_of_bytes_length l : length (hex_of_bytes l) = (2 * length l)%nat.
Proof. induction l as [|b r IH]; cbn [hex_of_bytes flat_map length app]; [reflexivity|]. fold (hex_of_bytes r). rewrite IH. lia. Qed.

Lemma hex_digit_lower_ok d : d < 16 -> is_lower_hex (hex_digit_lower d) = true.
Proof.
  intros H. unfold hex_digit_lower, is_lower_hex.
  destruct (N.ltb_spec d 10).
  - replace (48 <=? 48 + d) with true by (symmetry; apply N.leb_le; lia).
    replace (48 + d <=? 57) with true by (symmetry; apply N.leb_le; lia). reflexivity.
  - replace (97 <=? 87 + d) with true by (symmetry; apply N.leb_le; lia).
    replace (87 + d <=? 102) with true by (symmetry; apply N.leb_le; lia).
    cbn. apply orb_true_r.
Qed.

Lemma hex_of_bytes_lower l :
  Forall (fun b => b < 256) l -> forallb is_lower_hex (hex_of_bytes l) = true.
Proof.
  induction 1 as [|b r Hb Hr IH]; cbn [hex_of_bytes flat_map app forallb]; [reflexivity|].
  fold (hex_of_bytes r). rewrite IH.
  rewrite !hex_digit_lower_ok; [reflexivity| |].
  - apply N.mod_lt. lia.
  - apply N.div_lt_upper_bound; lia.
Qed.

Lemma unhex_digit_lower d : d < 16 -> unhex_digit (hex_digit_lower d) = Some d.
Proof.
  intros H. unfold hex_digit_lower, unhex_digit.
  destruct (N.ltb_spec d 10).
  - replace (48 <=? 48 + d) with true by (symmetry; apply N.leb_le; lia).
    replace (48 + d <=? 57) with true by (symmetry; apply N.leb_le; lia).
    cbn [andb]. f_equal. lia.
  - replace (87 + d <=? 57) with false by (symmetry; apply N.leb_gt; lia).
    rewrite andb_false_r.
    replace (97 <=? 87 + d) with true by (symmetry; apply N.leb_le; lia).
    replace (87 + d <=? 102) with true by (symmetry; apply N.leb_le; lia).
    cbn [andb]. f_equal. lia.
Qed.

Lemma unhex_hex l : Forall (fun b => b < 256) l -> unhex (hex_of_bytes l) = Some l.
Proof.
  induction 1 as [|b r Hb Hr IH]; cbn [hex_of_bytes flat_map app unhex]; [reflexivity|].
  fold (hex_of_bytes r). rewrite IH.
  rewrite !unhex_digit_lower.
  - f_equal. f_equal. symmetry. apply N.div_mod. lia.
  - apply N.mod_lt. lia.
  - apply N.div_lt_upper_bound; lia.
Qed.

(** Distinct draws give distinct transaction ids. *)
Lemma hex_of_bytes_inj a b :
  Forall (fun x => x < 256) a -> Forall (fun x => x < 256) b ->
  hex_of_bytes a = hex_of_bytes b -> a = b.
Proof.
  intros Ha Hb H. apply unhex_hex in Ha. apply unhex_hex in Hb. congruence.
Qed.
