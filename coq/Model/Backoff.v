(** Model of internal/backoff Config.Backoff (exponential, capped, jittered).

    binary64 is abstracted to EXACT rationals plus the IEEE special values
    +Inf, -Inf, NaN with their algebra for [*], [+], [-], [math.Min],
    [math.Max], comparison and the float -> int64 conversion.  Rounding error
    (relative error at most 2^-53 per operation) and signed zeros are NOT
    modelled; special values ARE, because that is where the code can leave the
    interval the property demands (0 * +Inf = NaN, int64(NaN) = MinInt64).
    Executable; no proofs here. *)
From Coq Require Import QArith.
From Verif Require Import Lib.Base.
Local Open Scope Z_scope.

Inductive fl := Fin (q : Q) | PInf | NInf | NaN.

(** Finite results at or beyond 2^1024 overflow to an infinity. *)
Definition two1024 : Q := inject_Z (2 ^ 1024).
Definition fnorm (q : Q) : fl :=
  if Qle_bool two1024 q then PInf
  else if Qle_bool q (- two1024)%Q then NInf
  else Fin q.

Definition qsgn (q : Q) : Z := Z.sgn (Qnum q).

(** infinity (of sign [s] = 1 or -1) times a finite [q]. *)
Definition inf_times (s : Z) (q : Q) : fl :=
  match (s * qsgn q) with
  | Z0 => NaN            (* Inf * 0 *)
  | Zpos _ => PInf
  | Zneg _ => NInf
  end.

Definition fmul (a b : fl) : fl :=
  match a, b with
  | NaN, _ | _, NaN => NaN
  | Fin x, Fin y => fnorm (x * y)%Q
  | Fin x, PInf | PInf, Fin x => inf_times 1 x
  | Fin x, NInf | NInf, Fin x => inf_times (-1) x
  | PInf, PInf | NInf, NInf => PInf
  | PInf, NInf | NInf, PInf => NInf
  end.

Definition fadd (a b : fl) : fl :=
  match a, b with
  | NaN, _ | _, NaN => NaN
  | Fin x, Fin y => fnorm (x + y)%Q
  | PInf, NInf | NInf, PInf => NaN
  | PInf, _ | _, PInf => PInf
  | NInf, _ | _, NInf => NInf
  end.

Definition fneg (a : fl) : fl :=
  match a with Fin x => Fin (- x)%Q | PInf => NInf | NInf => PInf | NaN => NaN end.
Definition fsub (a b : fl) : fl := fadd a (fneg b).

(** IEEE [a <= b] (false as soon as a NaN is involved). *)
Definition fle (a b : fl) : bool :=
  match a, b with
  | NaN, _ | _, NaN => false
  | NInf, _ | _, PInf => true
  | Fin x, Fin y => Qle_bool x y
  | _, _ => false
  end.

(** IEEE [a < b]. *)
Definition flt (a b : fl) : bool :=
  match a, b with
  | NaN, _ | _, NaN => false
  | _, _ => negb (fle b a)
  end.

(** math.Min / math.Max with Go's documented special cases (in Go's order:
    the infinity case is tested before the NaN case). *)
Definition fmin (a b : fl) : fl :=
  match a, b with
  | NInf, _ | _, NInf => NInf
  | NaN, _ | _, NaN => NaN
  | PInf, x | x, PInf => x
  | Fin x, Fin y => if Qle_bool x y then Fin x else Fin y
  end.
Definition fmax (a b : fl) : fl :=
  match a, b with
  | PInf, _ | _, PInf => PInf
  | NaN, _ | _, NaN => NaN
  | NInf, x | x, NInf => x
  | Fin x, Fin y => if Qle_bool x y then Fin y else Fin x
  end.

(** float64(int64) *)
Definition of_i64 (z : Z) : fl := Fin (inject_Z z).

(** int64(float64) as compiled for amd64 (CVTTSD2SQ): truncation toward zero;
    NaN, the infinities and every out-of-range value give the "integer
    indefinite" 0x8000000000000000 = MinInt64. *)
Definition min_i64 : Z := - 2 ^ 63.
Definition qtrunc (q : Q) : Z := Z.quot (Qnum q) (Zpos (Qden q)).
Definition to_i64 (x : fl) : Z :=
  match x with
  | Fin q => let t := qtrunc q in
             if (min_i64 <=? t) && (t <? 2 ^ 63) then t else min_i64
  | _ => min_i64
  end.

(** math.Pow(m, float64(n)) for m >= 1 and an integer n >= 0: the exact power
    while it is below 2^1024, +Inf from there on (saturating binary
    exponentiation: [None] = "at least 2^1024"; sound because every factor is
    at least 1).  Pow(x, 0) = 1 and Pow(1, y) = 1 come out as special cases. *)
Definition sat (q : Q) : option Q := if Qle_bool two1024 q then None else Some q.
Definition smul (a b : option Q) : option Q :=
  match a, b with
  | Some x, Some y => sat (x * y)%Q
  | _, _ => None
  end.
Fixpoint spow_pos (m : option Q) (p : positive) : option Q :=
  match p with
  | xH => m
  | xO p' => let h := spow_pos m p' in smul h h
  | xI p' => let h := spow_pos m p' in smul m (smul h h)
  end.
Definition go_pow (m : Q) (n : N) : fl :=
  match n with
  | N0 => Fin 1%Q
  | Npos p => match spow_pos (sat m) p with Some q => Fin q | None => PInf end
  end.

(** backoff.Config: durations in nanoseconds (int64), factors as rationals. *)
Record config := mkConfig { base : Z; mult : Q; maxd : Z; jitter : Q }.

(** (bc *Config).Backoff(attempt), with the value [pw] of
    math.Pow(bc.Multiplier, float64(attempt)) and the draw [r] of r.Float64()
    (in [0,1)) as inputs. *)
Definition backoff_with (c : config) (attempt : N) (pw : fl) (r : Q) : Z :=
  if (attempt =? 0)%N then base c                       (* if attempt == 0 { return bc.BaseDelay } *)
  else
    let backoff := of_i64 (base c) in
    let max := of_i64 (maxd c) in
    if fle backoff (Fin 0%Q) then 0                     (* if backoff <= 0 { return 0 } *)
    else
      let backoff := fmul backoff pw in                 (* backoff *= math.Pow(...) *)
      let backoff := fmin backoff max in                (* backoff = math.Min(backoff, max) *)
      let backoff := fmul backoff                       (* backoff *= 1 + bc.Jitter*(r.Float64()*2-1) *)
                       (fadd (Fin 1%Q) (fmul (Fin (jitter c)) (fsub (fmul (Fin r) (Fin 2%Q)) (Fin 1%Q)))) in
      to_i64 backoff.                                   (* return time.Duration(backoff) *)

Definition backoff (c : config) (attempt : N) (r : Q) : Z :=
  backoff_with c attempt (go_pow (mult c) attempt) r.

(** The configurations and draws the property quantifies over. *)
Definition premises (c : config) : bool :=
  (0 <=? base c) && (base c <=? maxd c) &&
  Qle_bool 1%Q (mult c) && Qle_bool 0%Q (jitter c) && Qle_bool (jitter c) 1%Q &&
  negb (Qle_bool (inject_Z (2 ^ 63)) (inject_Z (maxd c) * (1 + jitter c))%Q).
Definition draw_ok (r : Q) : bool := Qle_bool 0%Q r && negb (Qle_bool 1%Q r).

(** The property's interval: [0, max * (1 + jitter)]. *)
Definition upper (c : config) : Q := (inject_Z (maxd c) * (1 + jitter c))%Q.

(** The range of the model over all draws (the draw is not observable):
    [backoff c attempt r] lies in (lo - 1, hi] for every r in [0,1). *)
Definition capped (c : config) (attempt : N) : Q :=
  match fmin (fmul (of_i64 (base c)) (go_pow (mult c) attempt)) (of_i64 (maxd c)) with
  | Fin q => q
  | _ => 0%Q
  end.
Definition backoff_range (c : config) (attempt : N) : Q * Q :=
  if (attempt =? 0)%N then (inject_Z (base c), inject_Z (base c))
  else if base c <=? 0 then (0%Q, 0%Q)
  else let k := capped c attempt in ((k * (1 - jitter c))%Q, (k * (1 + jitter c))%Q).
