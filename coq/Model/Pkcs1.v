(** Model of attestation/yubiattest/signature.go and Attestor.Attest.

    [verify] is [verifyPKCS1v15] after [em := leftPad(m.Bytes(), k)],
    transcribed index for index: every [em[...]] is a [zindex] / [zslice] on a
    Go [int] (a [Z]: a negative index panics like one past the end), so
    crash-freedom is a theorem.  The RSA public operation
    [sig |-> leftPad(sig^E mod N, k)] is an input ([em]); the digests of the
    to-be-signed bytes under each hash are inputs ([digests]); chain
    verification by crypto/x509 is an input boolean.  Tables, guards and the
    loop start come from [Generated.AttestGen].  No proofs here. *)
From Verif Require Import Lib.Base Lib.Bytes Generated.AttestGen.

(** ** Go indexing with an [int] index *)
Definition zindex {A} (l : list A) (i : Z) : outcome A :=
  if (i <? 0)%Z then Panic else go_index l (Z.to_nat i).
Definition zslice {A} (l : list A) (lo hi : Z) : outcome (list A) :=
  if (lo <? 0)%Z || (hi <? 0)%Z then Panic else go_slice l (Z.to_nat lo) (Z.to_nat hi).

(** subtle.ConstantTimeByteEq / ConstantTimeCompare (0 when the lengths differ);
    the 0/1 ints combined with [&] and [|] are booleans. *)
Definition ct_byte_eq (a b : N) : bool := N.eqb a b.
Definition ct_compare (a b : bytes) : bool := bytes_eqb a b.

(** for i := start; i < bound; i++ { ok &= ConstantTimeByteEq(em[i], 0xff) } *)
Fixpoint pad_loop (em : bytes) (i : Z) (n : nat) (ok : bool) : outcome bool :=
  match n with
  | O => Val ok
  | S n' => olet b := zindex em i in pad_loop em (i + 1) n' (ok && ct_byte_eq b 255)
  end.

(** [guard]: the `k < tLen<i>+slack` test as the translator found it (None =
    absent); [start]: initial [i] of the padding loop.  [Val false] is
    rsa.ErrVerification, [Val true] is nil. *)
Definition verify_with (guard : option (N * Z)) (start : Z)
           (k : nat) (prefix1 prefix2 : bytes) (hashLen : nat) (hashed em : bytes) : outcome bool :=
  let kz := Z.of_nat k in
  let hl := Z.of_nat hashLen in
  let tLen1 := (Z.of_nat (length prefix1) + hl)%Z in
  let tLen2 := (Z.of_nat (length prefix2) + hl)%Z in
  let too_small :=
    match guard with
    | Some (which, slack) => (kz <? (if N.eqb which 1 then tLen1 else tLen2) + slack)%Z
    | None => false
    end in
  if too_small then Val false else
  olet e0 := zindex em 0 in
  olet e1 := zindex em 1 in
  olet dg := zslice em (kz - hl) kz in
  let ok := ct_byte_eq e0 0 && ct_byte_eq e1 1 && ct_compare dg hashed in
  olet s1 := zslice em (kz - tLen1) (kz - hl) in
  olet s2 := zslice em (kz - tLen2) (kz - hl) in
  olet z1 := zindex em (kz - tLen1 - 1) in
  olet z2 := zindex em (kz - tLen2 - 1) in
  let prefix1ok := ct_compare s1 prefix1 && ct_byte_eq z1 0 in
  let prefix2ok := ct_compare s2 prefix2 && ct_byte_eq z2 0 in
  let ok := ok && (prefix1ok || prefix2ok) in
  let correctTLen := if prefix1ok then tLen1 else if prefix2ok then tLen2 else 0%Z in
  pad_loop em start (Z.to_nat (kz - correctTLen - 1 - start)) ok.

Definition verify : nat -> bytes -> bytes -> nat -> bytes -> bytes -> outcome bool :=
  verify_with k_guard pad_loop_start.

(** The statements of verifyPKCS1v15 that [verify_with] transcribes, in the
    normalised form the translator prints ([Generated.AttestGen.verify_body]);
    Properties/C06.v checks that the source still reads like this.  Lines 1-2
    are [pkcs1_hash_info] below, lines 5 and 7-9 are the harness-computed
    inputs [k] and [em], lines 21-22 map [ok] to the error / nil. *)
Definition verify_body_transcribed : list str :=
  [ tx "hashLen,prefix1,prefix2,err := pkcs1v15HashInfo(hash,len(hashed))";
    tx "if err!=nil { return err }";
    tx "tLen1 := len(prefix1)+hashLen";
    tx "tLen2 := len(prefix2)+hashLen";
    tx "k := (pub.N.BitLen()+7)/8";
    tx "if k<tLen1+11 { return rsa.ErrVerification }";
    tx "c := new(big.Int).SetBytes(sig)";
    tx "m := encrypt(new(big.Int),pub,c)";
    tx "em := leftPad(m.Bytes(),k)";
    tx "ok := subtle.ConstantTimeByteEq(em[0],0)";
    tx "ok &= subtle.ConstantTimeByteEq(em[1],1)";
    tx "ok &= subtle.ConstantTimeCompare(em[k-hashLen:k],hashed)";
    tx "prefix1ok := subtle.ConstantTimeCompare(em[k-tLen1:k-hashLen],prefix1)";
    tx "prefix2ok := subtle.ConstantTimeCompare(em[k-tLen2:k-hashLen],prefix2)";
    tx "prefix1ok &= subtle.ConstantTimeByteEq(em[k-tLen1-1],0)";
    tx "prefix2ok &= subtle.ConstantTimeByteEq(em[k-tLen2-1],0)";
    tx "ok &= (prefix1ok|prefix2ok)";
    tx "var correctTLen int";
    tx "switch { case prefix1ok==1: correctTLen = tLen1; case prefix2ok==1: correctTLen = tLen2 }";
    tx "for i := 2; i<k-correctTLen-1; i++ { ok &= subtle.ConstantTimeByteEq(em[i],0xff) }";
    tx "if ok!=1 { return rsa.ErrVerification }";
    tx "return nil" ].

(** ** checkSignature *)
Inductive verr := EVerification | EInsecure | EUnsupported | EChain | EHashInfo.

Fixpoint lookup {A} (name : str) (t : list (str * A)) : option A :=
  match t with
  | [] => None
  | (n, v) :: r => if str_eqb name n then Some v else lookup name r
  end.

(** crypto.Hash.Size() (crypto.digestSizes; standard library constants). *)
Definition hash_size (h : str) : option nat :=
  lookup h [(tx "MD5", 16); (tx "SHA1", 20); (tx "SHA224", 28); (tx "SHA256", 32);
            (tx "SHA384", 48); (tx "SHA512", 64); (tx "MD5SHA1", 36); (tx "RIPEMD160", 20)]%nat.

Definition sigalg_name (v : N) : option str :=
  match find (fun p => N.eqb (snd p) v) sigalg_values with
  | Some p => Some (fst p)
  | None => None
  end.

(** The clause of `switch algo` that a label value selects. *)
Definition algo_action (algo : N) : N * str :=
  match sigalg_name algo with
  | None => algo_default
  | Some nm =>
      match find (fun c => existsb (str_eqb nm) (fst c)) algo_cases with
      | Some c => snd c
      | None => algo_default
      end
  end.

(** pkcs1v15HashInfo for a non-zero hash. *)
Definition pkcs1_hash_info (h : str) (inLen : nat) : result verr (nat * bytes * bytes) :=
  match hash_size h with
  | None => Err EHashInfo
  | Some hl =>
      if negb (Nat.eqb inLen hl) then Err EHashInfo
      else match lookup h hash_prefixes1, lookup h hash_prefixes2 with
           | Some p1, Some p2 => Ok (hl, p1, p2)
           | _, _ => Err EHashInfo
           end
  end.

Definition verify_pkcs1 (h : str) (hashed : bytes) (k : nat) (em : bytes) : outcome (result verr unit) :=
  match pkcs1_hash_info h (length hashed) with
  | Err e => Val (Err e)
  | Ok (hl, p1, p2) =>
      olet b := verify k p1 p2 hl hashed em in
      Val (if b then Ok tt else Err EVerification)
  end.

(** The device key: an RSA key is its size in bytes [k = (N.BitLen()+7)/8] and
    the result of the public operation on the slot certificate's signature. *)
Inductive key := KRsa (k : nat) (em : bytes) | KOther.

Definition after_key_switch : result verr unit :=
  if N.eqb key_switch_otherwise 2 then Err EUnsupported else Err EHashInfo.

(** [digests h]: the digest of the to-be-signed bytes under hash [h]
    (None = hash not linked in: !hashType.Available()). *)
Definition check_signature (algo : N) (digests : list (str * bytes)) (key : key) : outcome (result verr unit) :=
  match algo_action algo with
  | (0%N, h) =>
      match lookup h digests with
      | None => Val (Err EUnsupported)
      | Some digest =>
          match key with
          | KRsa k em =>
              if existsb (str_eqb (tx "*rsa.PublicKey")) key_switch_verify_types
              then verify_pkcs1 h digest k em
              else Val after_key_switch
          | KOther => Val after_key_switch
          end
      end
  | (1%N, _) => Val (Err EInsecure)
  | (_, _) => Val (Err EUnsupported)
  end.

(** Attestor.Attest: chain verification of the device certificate first
    (when the translator still finds it there), then the signature check. *)
Definition attest (chain_ok : bool) (algo : N) (digests : list (str * bytes)) (key : key)
  : outcome (result verr unit) :=
  if attest_verifies_chain_first && negb chain_ok then Val (Err EChain)
  else check_signature algo digests key.

(** ** Specification side *)

(** EM = 00 01 FF..FF 00 || T, of length k when k >= |p| + |hashed| + 3. *)
Definition EM (k : nat) (p hashed : bytes) : bytes :=
  [0; 1]%N ++ repeat 255%N (k - (length p + length hashed) - 3) ++ [0%N] ++ p ++ hashed.

(** leftPad(m.Bytes(), k) for m < 256^k: fixed-width big-endian. *)
Fixpoint to_be (k : nat) (m : N) : bytes :=
  match k with
  | O => []
  | S k' => to_be k' (m / 256)%N ++ [(m mod 256)%N]
  end.
