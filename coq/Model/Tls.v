(** Decision model of the TLS client the RA uses towards the CA servers
    (tlsutils/config.go + the dial options of crypki.NewSigner).

    This is a DECISION model of crypto/tls + crypto/x509 + gRPC transport
    credentials: which servers the client completes a connection with, given
    the facts of the client configuration.  The handshake itself and X.509
    chain building are Go's; they are validated behaviourally (C18 harness),
    not verified.  Executable; no proofs here.

    Certificates authorities, names and certificates are ids ([N]); chains are
    leaf <- CA (the harness issues leaves directly from its CAs). *)
From Verif Require Import Lib.Base.

(** * What the translator extracts from the source (Generated/TlsGen.v). *)
Inductive roots_source :=
| RootsArgOnly          (* x509.NewCertPool() filled only by AppendCertsFromPEM over the caCertPaths argument *)
| RootsSystemPlusArg    (* x509.SystemCertPool() with the configured files appended *)
| RootsSystemOnly       (* RootCAs key absent / nil: the host's roots *)
| RootsUnknown.         (* anything else *)

Inductive client_cert_source :=
| CertFromArgs          (* GetClientCertificate / Certificates fed from the certPath, keyPath arguments *)
| CertNone              (* neither key present *)
| CertUnknown.

Inductive creds_kind :=
| CredsTLSConfig        (* credentials.NewTLS(<the *tls.Config returned by TLSClientConfiguration>) *)
| CredsInsecure         (* insecure.NewCredentials() / grpc.WithInsecure() *)
| CredsOther.

Record tls_facts := mkFacts {
  f_min_version : N;            (* value of the MinVersion key of the tls.Config literal; 0 = absent *)
  f_max_version : N;            (* MaxVersion; 0 = absent *)
  f_skip_verify : bool;         (* InsecureSkipVerify present with anything but the literal false *)
  f_roots : roots_source;
  f_server_name_set : bool;     (* ServerName key present (the endpoint name would no longer be what is verified) *)
  f_client_cert : client_cert_source;
  f_custom_verify : bool;       (* VerifyPeerCertificate / VerifyConnection present *)
  f_suites_tls12_only : bool;   (* CipherSuites present and none of the listed suites exists before TLS 1.2
                                   (no HMAC-SHA1 suite): a TLS 1.0 / 1.1 handshake finds no common suite *)
  f_dial_creds : list creds_kind; (* every transport-credentials dial option of NewSigner, in order *)
  f_args_wired : bool;          (* NewSigner passes conf.TLSClientCertFile, conf.TLSClientKeyFile, conf.TLSCACertFiles, in that order *)
  f_opts_used : bool            (* Signer.dialOptions is that option list, postUserSSHCertificate dials with it,
                                   EstablishClientConn hands it unchanged to grpc.NewClient *)
}.

Definition tls10 : N := 769.  (* 0x0301 *)
Definition tls11 : N := 770.
Definition tls12 : N := 771.  (* 0x0303 *)
Definition tls13 : N := 772.

(** * Run-time environment of one signer: the CA ids found in the configured
    bundle files, the host's system roots, the issuer of the configured client
    certificate, the clock. *)
Record env := mkEnv { bundle : list N; sysroots : list N; client_issuer : N; now : Z }.

Inductive transport := TrTLS | TrPlain | TrNone.

Record client_cfg := mkCfg {
  c_transport : transport;
  c_vmin : N; c_vmax : N;
  c_skip : bool;
  c_roots : list N;
  c_name_any : bool;            (* the endpoint name is not what gets verified *)
  c_has_cert : bool;
  c_cert_issuer : N
}.

(** gRPC: the last transport-credentials option wins; with none, NewClient fails. *)
Definition transport_of (f : tls_facts) : transport :=
  if negb (f_opts_used f) then TrNone else
  match rev (f_dial_creds f) with
  | CredsTLSConfig :: _ => TrTLS
  | CredsInsecure :: _ => TrPlain
  | CredsOther :: _ => TrNone
  | [] => TrNone
  end.

(** crypto/tls client defaults (Go >= 1.18): MinVersion 0 means TLS 1.2,
    MaxVersion 0 means TLS 1.3. *)
Definition cfg_of (f : tls_facts) (e : env) : client_cfg :=
  mkCfg (transport_of f)
        (let m := if (f_min_version f =? 0)%N then tls12 else f_min_version f in
         if f_suites_tls12_only f then N.max m tls12 else m)
        (if (f_max_version f =? 0)%N then tls13 else f_max_version f)
        (f_skip_verify f)
        (match f_roots f with
         | RootsArgOnly => if f_args_wired f then bundle e else []
         | RootsSystemPlusArg => sysroots e ++ (if f_args_wired f then bundle e else [])
         | RootsSystemOnly => sysroots e
         | RootsUnknown => sysroots e ++ bundle e
         end)
        (f_server_name_set f)
        (match f_client_cert f with CertFromArgs => f_args_wired f | CertNone => false | CertUnknown => false end)
        (client_issuer e).

(** * Servers. *)
Inductive auth_mode :=
| NoClientCert | RequestClientCert | RequireAnyClientCert | VerifyClientCertIfGiven | RequireAndVerifyClientCert.

Record server := mkServer {
  s_plain : bool;               (* speaks gRPC without TLS *)
  s_issuer : N;                 (* who signed the leaf (a self-signed leaf: its own id) *)
  s_nb : Z; s_na : Z;           (* validity of the chain (Unix seconds) *)
  s_names : list N;             (* subject alternative names *)
  s_vmin : N; s_vmax : N;       (* protocol versions offered *)
  s_auth : auth_mode;
  s_client_cas : list N         (* CAs the server verifies client certificates against *)
}.

Definition memN (x : N) (l : list N) : bool := existsb (N.eqb x) l.

(** Highest version both sides support. *)
Definition negotiate (cmin cmax smin smax : N) : option N :=
  let v := N.min cmax smax in
  if (N.max cmin smin <=? v)%N then Some v else None.

Definition server_auth_ok (c : client_cfg) (now : Z) (ep : N) (s : server) : bool :=
  c_skip c ||
  (memN (s_issuer s) (c_roots c) && (s_nb s <=? now)%Z && (now <=? s_na s)%Z &&
   (c_name_any c || memN ep (s_names s))).

Definition requests_cert (s : server) : bool :=
  match s_auth s with NoClientCert => false | _ => true end.

Definition client_auth_ok (c : client_cfg) (s : server) : bool :=
  match s_auth s with
  | NoClientCert | RequestClientCert => true
  | RequireAnyClientCert => c_has_cert c
  | VerifyClientCertIfGiven => negb (c_has_cert c) || memN (c_cert_issuer c) (s_client_cas s)
  | RequireAndVerifyClientCert => c_has_cert c && memN (c_cert_issuer c) (s_client_cas s)
  end.

(** [connect c now ep s]: [Some v] = a connection over which the RPC is sent
    is established, [v] = negotiated TLS version ([Some 0] = no TLS at all). *)
Definition connect (c : client_cfg) (now : Z) (ep : N) (s : server) : option N :=
  match c_transport c, s_plain s with
  | TrNone, _ => None
  | TrPlain, true => Some 0%N
  | TrPlain, false => None
  | TrTLS, true => None
  | TrTLS, false =>
      match negotiate (c_vmin c) (c_vmax c) (s_vmin s) (s_vmax s) with
      | None => None
      | Some v => if server_auth_ok c now ep s && client_auth_ok c s then Some v else None
      end
  end.

Definition handshake (c : client_cfg) (now : Z) (ep : N) (s : server) : bool :=
  match connect c now ep s with Some _ => true | None => false end.

(** The client certificate reaches the server exactly when the server asks
    for one and the client has one (the reloader hands it out unconditionally). *)
Definition presents_cert (c : client_cfg) (s : server) : bool :=
  requests_cert s && c_has_cert c.

(** * The property's own notion of a genuine server, from the CONFIGURED
    bundle (not from the client configuration). *)
Definition authentic (e : env) (ep : N) (s : server) : bool :=
  negb (s_plain s) && memN (s_issuer s) (bundle e) && (s_nb s <=? now e)%Z && (now e <=? s_na s)%Z &&
  memN ep (s_names s).

(** What makes the facts "the secure configuration". *)
Definition secure_facts (f : tls_facts) : bool :=
  (f_min_version f =? tls12)%N && (f_max_version f =? 0)%N && negb (f_skip_verify f) &&
  match f_roots f with RootsArgOnly => true | _ => false end &&
  negb (f_server_name_set f) &&
  match f_client_cert f with CertFromArgs => true | _ => false end &&
  match f_dial_creds f with [CredsTLSConfig] => true | _ => false end &&
  f_args_wired f && f_opts_used f.
