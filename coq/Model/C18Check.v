(** Correspondence check and property oracle for C18 (executable; no proofs).

    A case is one signer configuration (CA bundle, client certificate) and an
    ordered list of endpoints, each served by a harness TLS server described
    by a [server] record, together with what the servers and the caller of
    Sign observed.  The model is [Tls.connect] under the client configuration
    regenerated from the source ([TlsGen.tls_facts_gen]) composed with
    [Failover.sign]. *)
From Verif Require Import Lib.Base Model.Failover Model.Tls Generated.TlsGen.
Local Open Scope N_scope.

(** What was seen for one endpoint of the list. *)
Record ep_obs := mkObs {
  o_ep : N;
  o_conn : bool;     (* a TCP connection arrived at the server *)
  o_hs : bool;       (* the server completed a TLS handshake (for a plaintext server: a connection was served) *)
  o_ver : N;         (* negotiated version (0 = no TLS) *)
  o_cc : bool;       (* the peer certificate the server saw is the configured client certificate *)
  o_rpc : bool       (* the signing request reached the server *)
}.

Inductive case :=
| CTls (e : env)
       (eps : list (N * server * N))   (* endpoint name id, its server, the key id that server answers with *)
       (obs : list ep_obs)             (* one per endpoint, in list order *)
       (err : bool) (certs : list N).  (* result of Sign *)

Definition ep_name (x : N * server * N) : N := fst (fst x).
Definition ep_srv (x : N * server * N) : server := snd (fst x).
Definition ep_key (x : N * server * N) : N := snd x.

Definition lookup (eps : list (N * server * N)) (ep : N) : option (server * N) :=
  match find (fun x => N.eqb (ep_name x) ep) eps with
  | Some x => Some (ep_srv x, ep_key x)
  | None => None
  end.

(** * The property's sentence. *)

(** The RA presents its configured certificate; a server that verifies client
    certificates against CAs that do not contain its issuer refuses the RA,
    which makes it a failed (not an impostor) endpoint. *)
Definition accepts_ra (e : env) (s : server) : bool :=
  match s_auth s with
  | RequireAndVerifyClientCert | VerifyClientCertIfGiven => memN (client_issuer e) (s_client_cas s)
  | _ => true
  end.

(** genuine and able to talk TLS 1.2 or later with the RA *)
Definition usable (e : env) (x : N * server * N) : bool :=
  authentic e (ep_name x) (ep_srv x) &&
  (tls12 <=? s_vmax (ep_srv x)) && (s_vmin (ep_srv x) <=? tls13) && (s_vmin (ep_srv x) <=? s_vmax (ep_srv x)) &&
  accepts_ra e (ep_srv x).

Definition oracle_tls (e : env) (eps : list (N * server * N)) (obs : list ep_obs) (err : bool) (certs : list N) : bool :=
  (length obs =? length eps)%nat &&
  (* a request is only ever handed to a server authenticated by the configured bundle, matching
     the endpoint name, over TLS 1.2 or later, and the RA presented its certificate if asked *)
  forallb (fun p : (N * server * N) * ep_obs =>
             let (x, o) := p in
             N.eqb (o_ep o) (ep_name x) &&
             (negb (o_rpc o) ||
              (authentic e (ep_name x) (ep_srv x) && (tls12 <=? o_ver o) &&
               (negb (requests_cert (ep_srv x)) || o_cc o))))
          (combine eps obs) &&
  (* impostors count as failed endpoints: the first genuine endpoint is the one that signs *)
  match find (usable e) eps with
  | Some x =>
      negb err && list_eqb N.eqb certs [ep_key x] &&
      forallb (fun p : (N * server * N) * ep_obs =>
                 let (y, o) := p in Bool.eqb (o_rpc o) (N.eqb (ep_name y) (ep_name x)))
              (combine eps obs)
  | None => err && forallb (fun o => negb (o_rpc o)) obs
  end.

(** * Model side. *)
Definition gen_cfg (e : env) : client_cfg := cfg_of tls_facts_gen e.

Definition post_tls (e : env) (eps : list (N * server * N)) (ep : N) (_ : N) : gores N str :=
  match lookup eps ep with
  | Some (s, kid) =>
      match connect (gen_cfg e) (now e) ep s with
      | Some _ => post_lines (RData [LKey kid []])
      | None => post_lines RDialFail
      end
  | None => post_lines RDialFail
  end.

Definition model_tls (e : env) (eps : list (N * server * N)) : gores N str * list (N * N) :=
  sign (post_tls e eps) (map ep_name eps) 0.

Definition model_obs (e : env) (eps : list (N * server * N)) (mlog : list (N * N)) (x : N * server * N) : ep_obs :=
  let c := gen_cfg e in
  let tried := existsb (fun p => N.eqb (fst p) (ep_name x)) mlog in
  let conn := tried && match c_transport c with TrNone => false | _ => true end in
  match (if tried then connect c (now e) (ep_name x) (ep_srv x) else None) with
  | Some v => mkObs (ep_name x) conn true v (presents_cert c (ep_srv x)) true
  | None => mkObs (ep_name x) conn false 0 false false
  end.

Definition obs_eqb (m o : ep_obs) : bool :=
  N.eqb (o_ep m) (o_ep o) && Bool.eqb (o_conn m) (o_conn o) && Bool.eqb (o_hs m) (o_hs o) &&
  Bool.eqb (o_rpc m) (o_rpc o) &&
  (negb (o_hs m) || (N.eqb (o_ver m) (o_ver o) && Bool.eqb (o_cc m) (o_cc o))).

Fixpoint nodupb (l : list N) : bool :=
  match l with [] => true | x :: r => negb (memN x r) && nodupb r end.
Definition distinct_names (eps : list (N * server * N)) : bool := nodupb (map ep_name eps).

Definition check (c : case) : N :=
  match c with
  | CTls e eps obs err certs =>
      if negb (distinct_names eps) then 3
      else if negb (oracle_tls e eps obs err certs) then 2
      else
        let (r, mlog) := model_tls e eps in
        let mobs := map (model_obs e eps mlog) eps in
        if list_eqb obs_eqb mobs obs && Bool.eqb (negb (is_nil_err r)) err && list_eqb N.eqb (g_certs r) certs
        then 0 else 1
  end.

(** Which branch of the model a case reached: 30 the first endpoint signs,
    31 / 32 one / several endpoints were skipped first, 35 every endpoint fails. *)
Definition classify (c : case) : N :=
  match c with
  | CTls e eps _ _ _ =>
      let (r, mlog) := model_tls e eps in
      if is_nil_err r then
        match length mlog with 1%nat => 30 | 2%nat => 31 | _ => 32 end
      else 35
  end.
