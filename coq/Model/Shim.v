(** Sequential model of agent/shimagent/shimserver.go + filter.go (the code as
    it is now, after the construction / Signers / Extension fixes).

    Blobs are abstract ids; [info] gives the certificate content behind a blob
    id ([None] = a plain public key), so "the same blob" is "the same bytes" and
    a certificate's content is a function of its blob, as in the implementation
    (the harness keeps the id <-> bytes table; sha256 of a blob is its id).
    Comments / labels are projected away (C19's business).  [script] is the
    fault script of the proxy in front of the underlying agent; theorems
    quantify over every [info] and every [script].

    Go maps ([certs], the cache) are lists here; Go's map iteration order is
    random and the default comparator of List/Signers is not an order, so
    listings and tables are compared with the implementation as multisets
    (ShimCheck sorts both sides).  [filter_certs] is the list-level reading of
    [Server.filter]; Model/SwapRemove.v has the literal slice-aliasing version
    and Proofs/SwapRemoveProofs.v relates the two. *)
From Verif Require Import Lib.Base Lib.Json Model.KeyId Model.UAgent Generated.ShimGen.

Record cinfo := mkCI { ckey : N; va : N; vb : N; kid : option json }.

Inductive err := ELocked | ENotLocked | EKeyNotFound | EOther.

Inductive reply :=
| RList (l : list N)
| RSigners (l : list N)
| RSig (key data flags : N)      (* a signature over [data] that verifies under the plain key [key] *)
| ROk
| RErr (e : err)
| RRaw (r : N)                   (* the canned reply of raw request [r], unchanged *)
| RRawInjected (k : fkind).      (* the body the proxy injected, unchanged *)

Inductive op :=
| List_ | Signers
| Sign (key data flags : N)
| Add (b : N)
| AddHardCert (key : N)
| Remove (key : N)
| RemoveAll
| Lock (p : list N) | Unlock (p : list N)
| Forward (raw len rlen : N)     (* body id, its length, and the length of the agent's canned reply *)
| Close
| DirectAdd (b : N) | DirectRemove (b : N).   (* environment: done on the underlying agent directly *)

Record shim := mkShim {
  mem : list N;        (* s.certs: in-memory hardware certificates (blob ids) *)
  cache : list N;      (* s.upstreamSSHCACertCache *)
  locked : bool;
  noup : bool;         (* s.noUpstreamSSHCACert *)
  closed : bool;       (* the shim closed its connection *)
  ua : uagent
}.

Definition set_mem (m : list N) (s : shim) : shim :=
  mkShim m (cache s) (locked s) (noup s) (closed s) (ua s).
Definition set_cache (c : list N) (s : shim) : shim :=
  mkShim (mem s) c (locked s) (noup s) (closed s) (ua s).
Definition set_locked (b : bool) (s : shim) : shim :=
  mkShim (mem s) (cache s) b (noup s) (closed s) (ua s).
Definition set_closed (b : bool) (s : shim) : shim :=
  mkShim (mem s) (cache s) (locked s) (noup s) b (ua s).
Definition set_ua (u : uagent) (s : shim) : shim :=
  mkShim (mem s) (cache s) (locked s) (noup s) (closed s) u.

(** sshutils/cert.ValidateSSHCertTime on the two validity fields: the
    translated function. *)
Definition valid_window (va vb : N) (now : Z) : bool := validate_ssh_cert_time va vb now.

Section World.
  Variable info : N -> option cinfo.
  Variable script : nat -> option fault.

  Definition is_cert (b : N) : bool :=
    match info b with Some _ => true | None => false end.
  (** "the KeyID decodes as a YSSHCA KeyID" - the C05 model *)
  Definition ysshca (b : N) : bool :=
    match info b with Some ci => is_ok (unmarshal (kid ci)) | None => false end.
  (** the entry an identity contributes to filterOrphanCerts' publicKeys set *)
  Definition pubkey_of (b : N) : N :=
    match info b with Some ci => ckey ci | None => b end.
  Definition invalid_at (now : Z) (b : N) : bool :=
    match info b with
    | Some ci => negb (valid_window (va ci) (vb ci) now)
    | None => false
    end.

  (** One call of the x/crypto client on the shim's connection. *)
  Definition acall {A} (f : uagent -> uagent * option A) (s : shim) : shim * option A :=
    if closed s then (s, None)
    else let '(u', r) := call script f (ua s) in (set_ua u' s, r).

  (** [s.remove(key)]; the boolean is "returned nil". *)
  Definition remove_key (b : N) (s : shim) : shim * bool :=
    let removed := mem_b b (mem s) in
    let s1 := if removed then set_mem (remove_blob b (mem s)) s else s in
    let '(s2, r) := acall (u_remove b) s1 in
    match r, removed with
    | None, false => (s2, false)
    | _, _ => (if noup s2 then set_cache (remove_blob b (cache s2)) s2 else s2, true)
    end.

  (** The [remove] closure of [filter]: server, the closure's view of
      inAgentKeys, and whether an error has been appended to errs. *)
  Definition fstate := (shim * list N * bool)%type.
  Definition closure (b : N) (x : fstate) : fstate :=
    let '(s, view, e) := x in
    let '(s', ok) := remove_key b s in
    if ok then (s', remove_first b view, e) else (s', view, true).
  (** A range loop that calls the closure on the elements satisfying [p]
      (errors are accumulated with multierr, the loop goes on). *)
  Definition sweep (p : N -> bool) (l : list N) (x : fstate) : fstate :=
    fold_left (fun x b => if p b then closure b x else x) l x.

  Definition orphan_of (pk : list N) (c : N) : bool := negb (mem_b (pubkey_of c) pk).

  (** [Server.filter]: [None] = an error was returned. *)
  Definition filter_certs (now : Z) (s : shim) : shim * option (list N) :=
    let '(s0, r) := acall u_list s in
    match r with
    | None => (s0, None)
    | Some L =>
        (* filterOrphanCerts(remove, s.certs, inAgentKeys) *)
        let x1 :=
          match L with
          | [] => (s0, L, false)
          | _ => sweep (orphan_of (map pubkey_of L)) (mem s0) (s0, L, false)
          end in
        let '(s1, v1, e1) := x1 in
        if e1 then (s1, None)
        else
          (* filterExpiredCerts(remove, s.certs, inAgentKeys): in-agent first *)
          let x2 := sweep (invalid_at now) v1 (s1, v1, false) in
          let x3 := sweep (invalid_at now) (mem (fst (fst x2))) x2 in
          let '(s3, v3, e3) := x3 in
          if e3 then (s3, None) else (s3, Some v3)
    end.

  (** The loop of List (and, in no-upstream mode, of Signers) over the
      underlying agent's identities. *)
  Fixpoint list_agent (s : shim) (view : list N) : shim * list N :=
    match view with
    | [] => (s, [])
    | b :: r =>
        if negb (is_cert b) then let '(s', l) := list_agent s r in (s', b :: l)
        else if mem_b b (cache s) then list_agent s r
        else if noup s && ysshca b then list_agent (set_cache (b :: cache s) s) r
        else let '(s', l) := list_agent s r in (s', b :: l)
    end.
  Definition signers_agent (s : shim) (l : list N) : shim * list N :=
    if noup s then list_agent s l else (s, l).

  Definition max_frame : N := max_agent_response_bytes.

  Definition step (now : Z) (s : shim) (o : op) : shim * reply :=
    match o with
    | List_ =>
        if locked s then (s, RList [])
        else match filter_certs now s with
             | (s1, None) => (s1, RErr EOther)
             | (s1, Some view) =>
                 let '(s2, l) := list_agent s1 view in (s2, RList (mem s1 ++ l))
             end
    | Signers =>
        if locked s then (s, RErr ELocked)
        else match filter_certs now s with
             | (s1, None) => (s1, RErr EOther)
             | (s1, Some _) =>
                 let '(s2, r) := acall u_list s1 in
                 match r with
                 | None => (s2, RErr EOther)
                 | Some l =>
                     let '(s3, l') := signers_agent s2 l in (s3, RSigners (mem s1 ++ l'))
                 end
             end
    | Sign key data flags =>
        if locked s then (s, RErr ELocked)
        else match filter_certs now s with
             | (s1, None) => (s1, RErr EOther)
             | (s1, Some _) =>
                 let target :=
                   if is_cert key then
                     if mem_b key (mem s1) then Some (pubkey_of key)
                     else if ysshca key && noup s1 then None
                     else Some key
                   else Some key in
                 match target with
                 | None => (s1, RErr EKeyNotFound)
                 | Some t =>
                     let '(s2, r) := acall (u_sign t) s1 in
                     match r with
                     | Some i => (s2, RSig (pubkey_of i) data flags)
                     | None => (s2, RErr EOther)
                     end
                 end
             end
    | Add b =>
        if locked s then (s, RErr ELocked)
        else let '(s1, r) := acall (u_add b) s in
             (s1, match r with Some _ => ROk | None => RErr EOther end)
    | AddHardCert key =>
        if locked s then (s, RErr ELocked)
        else if mem_b key (mem s) then (s, ROk)
        else if negb (is_cert key) then (s, RErr EOther)
        else let '(s1, r) := acall u_list s in
             match r with
             | None => (s1, RErr EOther)
             | Some l =>
                 if mem_b (pubkey_of key) l then (set_mem (mem s1 ++ [key]) s1, ROk)
                 else (s1, RErr EKeyNotFound)
             end
    | Remove key =>
        if locked s then (s, RErr ELocked)
        else let '(s1, ok) := remove_key key s in
             (s1, if ok then ROk else RErr EOther)
    | RemoveAll =>
        if locked s then (s, RErr ELocked)
        else let '(s1, r) := acall u_remove_all (set_cache [] (set_mem [] s)) in
             (s1, match r with Some _ => ROk | None => RErr EOther end)
    | Lock p =>
        if locked s then (s, RErr ELocked)
        else let '(s1, r) := acall (u_lock p) s in
             match r with
             | Some _ => (set_locked true s1, ROk)
             | None => (s1, RErr EOther)
             end
    | Unlock p =>
        if negb (locked s) then (s, RErr ENotLocked)
        else let '(s1, r) := acall (u_unlock p) s in
             match r with
             | Some _ => (set_locked false s1, ROk)
             | None => (s1, RErr EOther)
             end
    | Forward raw len rlen =>
        (* not guarded by [locked] *)
        if (max_frame <? len)%N then (s, RErr EOther)
        else if closed s then (s, RErr EOther)
        else let '(u', r) := call_raw script raw (max_frame <? rlen)%N (ua s) in
             (set_ua u' s,
              match r with
              | Some (RawCanned x) => RRaw x
              | Some (RawInjected k) => RRawInjected k
              | None => RErr EOther
              end)
    | Close =>
        if locked s then (s, RErr ELocked)
        else if closed s then (s, RErr EOther)
        else (set_closed true s, ROk)
    | DirectAdd b => (set_ua (direct_add b (ua s)) s, ROk)
    | DirectRemove b => (set_ua (direct_remove b (ua s)) s, ROk)
    end.

  (** A history is a list of (time, operation); [run] threads the state and
      collects the replies. *)
  Definition run (s : shim) (h : list (Z * op)) : shim * list reply :=
    fold_left (fun '(s, rs) '(now, o) => let '(s', r) := step now s o in (s', rs ++ [r]))
              h (s, []).
  Definition run_state (s : shim) (h : list (Z * op)) : shim :=
    fold_left (fun s '(now, o) => fst (step now s o)) h s.

  (** ** Construction: newShimAgent and New. *)
  Definition init_shim (nu : bool) (u : uagent) : shim := mkShim [] [] false nu false u.

  (** newShimAgent: [None] = (nil, err). *)
  Definition new_shim_agent (nu : bool) (u : uagent) : option shim :=
    let s := init_shim nu u in
    if nu then
      match acall u_list s with
      | (_, None) => None
      | (s1, Some l) => Some (set_cache (filter (fun b => is_cert b && ysshca b) l) s1)
      end
    else Some s.

  (** New: after [ag, err := newShimAgent(...)] the code either returns on
      [err != nil] (generated fact [new_returns_construct_error]) or goes on
      to assign [ag.pubKeyComp] on a nil [*Server] - a run-time panic. *)
  Definition construct (nu : bool) (u : uagent) : outcome (option shim) :=
    match new_shim_agent nu u with
    | Some s => Val (Some s)
    | None => if new_returns_construct_error then Val None else Panic
    end.
End World.
