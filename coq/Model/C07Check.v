(** C07 - the shim agent never lists or signs with expired, premature or
    keyless certificates.  The property's own sentence evaluated on what was
    observed around one operation of a fault-free history (executable; no
    proofs), and the check of a harness case. *)
From Verif Require Import Lib.Base Lib.Json Model.KeyId Model.UAgent Model.Shim Model.ShimCheck Generated.ShimGen.

(** "Within its validity window" in the property's words: the two 64-bit
    fields, read as seconds since the epoch and capped at the largest signed
    value (so that the 'forever' value 2^64-1 never expires), bracket [now]. *)
Definition spec_window (va vb : N) (now : Z) : bool :=
  (Z.min (Z.of_N va) int64_max <=? now)%Z && (now <=? Z.min (Z.of_N vb) int64_max)%Z.

Section Oracle.
  Variable info : N -> option cinfo.

  Definition spec_valid (now : Z) (b : N) : bool :=
    match info b with Some ci => spec_window (va ci) (vb ci) now | None => true end.
  (** the public key an identity stands for *)
  Definition spec_pubkey (b : N) : N := match info b with Some ci => ckey ci | None => b end.
  (** what the underlying agent reports when asked for its identities *)
  Definition obs_reported (o : obs) : list N :=
    match o_upass o with Some _ => [] | None => o_ids o end.
  (** backed: the agent's report is empty (possibly a locked agent) or holds the
      certificate's public key, as a plain key or under another certificate *)
  Definition spec_backed (rep : list N) (b : N) : bool :=
    match rep with [] => true | _ => mem_b (spec_pubkey b) (map spec_pubkey rep) end.

  Definition oracle_listing (pre post : obs) (now : Z) (l : list N) : bool :=
    let rep := obs_reported pre in
    (* no certificate outside its validity window is listed ... *)
    forallb (spec_valid now) l &&
    (* ... such certificates are purged from memory ... *)
    forallb (spec_valid now) (o_mem post) &&
    (* ... and from the underlying agent *)
    forallb (spec_valid now) (obs_reported post) &&
    (* an in-memory certificate is dropped once the agent reports a non-empty
       list that lacks its public key *)
    forallb (spec_backed rep) (o_mem post) &&
    (* nothing else is dropped: an empty report drops nothing for that reason,
       unlimited validity never expires *)
    forallb (fun b => negb (spec_valid now b && spec_backed rep b) || mem_b b (o_mem post)) (o_mem pre) &&
    (* what stays in memory is listed *)
    forallb (fun b => mem_b b l) (o_mem post).

  Definition oracle_step (pre : obs) (st : sstep) : bool :=
    let post := s_obs st in
    if o_locked pre then true
    else
      match s_op st, s_reply st with
      | List_, RList l => oracle_listing pre post (s_now st) l
      | Signers, RSigners l => oracle_listing pre post (s_now st) l
      | Sign key _ _, r =>
          (* a signing request naming a certificate outside its window fails *)
          (spec_valid (s_now st) key || is_err_reply r) &&
          (* and signing drops nothing that is valid and backed *)
          forallb (fun b => negb (spec_valid (s_now st) b && spec_backed (obs_reported pre) b) || mem_b b (o_mem post))
                  (o_mem pre)
      | _, _ => true
      end.
End Oracle.

Definition oracle (info : N -> option cinfo) (obs0 : obs) (steps : list sstep) : bool :=
  all_steps (oracle_step info) obs0 steps.

(** When the underlying agent misbehaves (a failure reply, a malformed or
    oversized answer, a closed connection at any request), an operation may
    fail; but whatever listing IS returned holds no certificate outside its
    window, and a signature is made only with a certificate inside its window
    - with one exception the code makes on purpose: a certificate that was an
    in-memory hardware certificate when the operation started (removing such a
    certificate ignores the agent's answer, which is normally "not found"). *)
Definition oracle_step_any (info : N -> option cinfo) (pre : obs) (st : sstep) : bool :=
  if o_locked pre then true
  else
    match s_op st, s_reply st with
    | List_, RList l => forallb (spec_valid info (s_now st)) l
    | Signers, RSigners l => forallb (fun b => spec_valid info (s_now st) b || mem_b b (o_mem pre)) l
    | Sign key _ _, RSig _ _ _ => spec_valid info (s_now st) key || mem_b key (o_mem pre)
    | _, _ => true
    end.

Definition oracle_any (info : N -> option cinfo) (obs0 : obs) (steps : list sstep) : bool :=
  all_steps (oracle_step_any info) obs0 steps.

Definition check (c : case) : N :=
  match c with
  | CHist tbl nu ids0 scr built obs0 steps =>
      match scr with
      | [] =>
          if negb (oracle (info_of tbl) obs0 steps) then 2
          else if agree_hist tbl nu ids0 scr built obs0 steps then 0 else 1
      | _ =>
          (* a misbehaving agent: only what must hold under every fault *)
          if negb (oracle_any (info_of tbl) obs0 steps) then 2
          else if agree_hist tbl nu ids0 scr built obs0 steps then 0 else 1
      end
  | CValid va vb now res =>
      if negb (Bool.eqb res (spec_window va vb now)) then 2
      else if Bool.eqb res (validate_ssh_cert_time va vb now) then 0 else 1
  | _ => 3
  end.

(** Coverage (bit mask over a history): 1 non-empty listing, 2 signature,
    4 locked, 8 in-memory certificate, 16 cache entry, 32 error reply;
    +64 a listing purged an invalid certificate from the agent, +128 a listing
    dropped an in-memory certificate, +256 a sign request named an invalid
    certificate; 1000/1001 = direct validity call answering false/true. *)
Definition classify (c : case) : N :=
  match c with
  | CHist tbl _ _ _ _ obs0 steps =>
      let info := info_of tbl in
      let purge_agent pre st :=
        match s_op st with
        | List_ | Signers | Sign _ _ _ => negb (Nat.eqb (length (o_ids pre)) (length (o_ids (s_obs st))))
        | _ => false end in
      let purge_mem pre st :=
        match s_op st with
        | List_ | Signers | Sign _ _ _ => negb (Nat.eqb (length (o_mem pre)) (length (o_mem (s_obs st))))
        | _ => false end in
      hist_flags steps +
      (if all_steps (fun pre st => negb (purge_agent pre st)) obs0 steps then 0 else 64) +
      (if all_steps (fun pre st => negb (purge_mem pre st)) obs0 steps then 0 else 128) +
      (if existsb (fun st => match s_op st with Sign k _ _ => negb (spec_valid info (s_now st) k) | _ => false end) steps
       then 256 else 0)
  | CValid _ _ _ res => if res then 1001 else 1000
  | _ => 0
  end.
