(** Model of yubiagent.ServeAgent (agent/yubiagent/server.go): the request
    loop, the `switch req[0]` dispatch (table from [Generated.YubiAgentGen]),
    every index / slice expression written with Lib/Base's [go_index] /
    [go_from] exactly where the code indexes, and the served agent, the ssh
    key parser and x/crypto's standard server as an arbitrary environment
    [env] (so theorems hold for every behaviour of the served agent).
    Writes to the connection succeed (the peer keeps reading); a response body
    above the write bound is refused by [write] as in the code.
    No proofs here. *)
From Verif Require Import Lib.Base Lib.Bytes Lib.Wire Generated.YubiAgentGen Model.Frames Model.Wire.
Local Open Scope N_scope.

(** The environment. The [nat] argument is the number of requests handled so
    far on this connection: answers may depend on the whole history. *)
Record env := mkEnv {
  (* ssh.ParsePublicKey: Some id = accepted (id: the key's canonical blob) *)
  e_parse_key : bytes -> option bytes;
  (* agent.AddHardCert(key, comment): None = nil, Some t = error with text t *)
  e_add : nat -> bytes -> bytes -> option bytes;
  (* agent.ListSlots() *)
  e_list : nat -> list bytes * option bytes;
  (* agent.ReadSlot(slot) / AttestSlot(slot): PEM of the returned certificate
     (empty when nil) and the error *)
  e_read : nat -> bytes -> bytes * option bytes;
  e_attest : nat -> bytes -> bytes * option bytes;
  (* agent.Wait(code) *)
  e_wait : nat -> N -> option bytes;
  (* x/crypto's agent.ServeAgent fed exactly this one request frame through
     the forwarder. TRUSTED CONTRACT of that server (its code: read one frame,
     processRequestBytes, write one frame, next read hits io.EOF): it either
     writes exactly one reply frame and returns io.EOF ([Some reply]) or
     returns another error having written nothing ([None], e.g. reply above
     its own 16 MiB cap). *)
  e_std : nat -> bytes -> option bytes;
  (* agent.Forward(req): Some resp, or None = error *)
  e_fwd : nat -> bytes -> option bytes }.

Inductive serr :=
| EUnexpectedEOF | ETooLarge | EZeroLen | EWaitShort | EAddDecode | EStd | EForward | EWrite | EEof.
Inductive ending := EndNil | EndErr (e : serr).

(** A response frame: the class of the request it answers and its body. *)
Definition response := (N * bytes)%type.

(** switch req[0]: the first clause listing the code, else default *)
Definition classify_code (code : N) : N :=
  match find (fun p => existsb (N.eqb code) (fst p)) serve_cases with
  | Some (_, cls) => cls
  | None => serve_default
  end.

(** every path of the clause that keeps serving writes exactly one frame *)
Definition clause_replies (cls : N) : bool :=
  match find (fun p => fst p =? cls) serve_clause_writes with
  | Some (_, [1]) => true
  | _ => false
  end.

Inductive step := SReply (r : response) | SSilent | SEnd (e : serr).

(** write(c, data) in clause [cls]; [on_refused]: what the clause does when
    write refuses the data (logged and ignored, or returned). *)
Definition emit (cls : N) (data : bytes) (on_refused : step) : step :=
  if clause_replies cls then (if write_ok data then SReply (cls, data) else on_refused)
  else SSilent.

Definition some_or_panic {A} (o : option A) : outcome A :=
  match o with Some a => Val a | None => Panic end.

(** One iteration of the loop after a successful read.  The two length guards
    are explicit arguments ([zero_guard]: `if len(req) == 0 { return error }`
    precedes req[0]; [wait_min]: the K of `if len(req) < K { return error }`
    before req[1]) so that the pre-repair code is an instance too. *)
Definition handle_with (zero_guard : bool) (wait_min : N) (e : env) (i : nat) (req : bytes)
  : outcome step :=
  if zero_guard && (length req =? 0)%nat then Val (SEnd EZeroLen) else
  (* shimServer.Broadcast(req[0]) / switch req[0] *)
  olet code := go_index req 0 in
  match classify_code code with
  | 1 =>
      olet d := dec_add (e_parse_key e) req in
      match d with
      | None => Val (SEnd EAddDecode)
      | Some (k, cm) => Val (emit 1 (enc_reply (e_add e i k cm)) SSilent)
      end
  | 2 =>
      let '(slots, err) := e_list e i in
      olet w := some_or_panic (enc_list_resp slots err) in
      Val (emit 2 w (SEnd EWrite))
  | 3 =>
      olet slot := dec_slot_req req in
      let '(pem, err) := e_read e i slot in
      olet w := some_or_panic (enc_slot_resp false pem err) in
      Val (emit 3 w (SEnd EWrite))
  | 4 =>
      olet slot := dec_slot_req req in
      let '(pem, err) := e_attest e i slot in
      olet w := some_or_panic (enc_slot_resp true pem err) in
      Val (emit 4 w (SEnd EWrite))
  | 5 =>
      olet wr := dec_wait_req_with wait_min req in
      match wr with
      | WaitShort => Val (SEnd EWaitShort)
      | WaitCode c => Val (emit 5 (enc_reply (e_wait e i c)) SSilent)
      end
  | 6 =>
      match e_std e i req with
      | Some rep => Val (SReply (6, rep))
      | None => Val (SEnd EStd)
      end
  | 7 =>
      match e_fwd e i req with
      | None => Val (SEnd EForward)
      | Some resp => Val (emit 7 resp (SEnd EWrite))
      end
  | _ => Panic
  end.

(** The loop. Every iteration consumes at least the 4 prefix bytes, so
    [S (length s)] iterations always suffice; running out of fuel is mapped to
    [Panic], which the totality theorem excludes. *)
Fixpoint serve_loop_with (zg : bool) (wm : N) (fuel : nat) (e : env) (i : nat) (s : bytes)
  : outcome (list response * ending) :=
  match fuel with
  | O => Panic
  | S f =>
      match read_frame s with
      | FEof | FEofBody => Val ([], if serve_eof_is_nil then EndNil else EndErr EEof)
      | FTruncPrefix | FTruncBody => Val ([], EndErr EUnexpectedEOF)
      | FTooLarge _ => Val ([], EndErr ETooLarge)
      | FFrame req rest =>
          olet st := handle_with zg wm e i req in
          match st with
          | SEnd er => Val ([], EndErr er)
          | SSilent => serve_loop_with zg wm f e (S i) rest
          | SReply r =>
              olet p := serve_loop_with zg wm f e (S i) rest in
              Val (r :: fst p, snd p)
          end
      end
  end.

Definition serve_with (zg : bool) (wm : N) (e : env) (s : bytes) :=
  serve_loop_with zg wm (S (length s)) e 0 s.

(** The code as it is now: guards as regenerated from server.go. *)
Definition handle : env -> nat -> bytes -> outcome step :=
  handle_with serve_zero_guard serve_wait_min_len.
Definition serve_loop : nat -> env -> nat -> bytes -> outcome (list response * ending) :=
  serve_loop_with serve_zero_guard serve_wait_min_len.
Definition serve_from (e : env) (i : nat) (s : bytes) : outcome (list response * ending) :=
  serve_loop (S (length s)) e i s.
Definition serve (e : env) (s : bytes) : outcome (list response * ending) := serve_from e 0 s.

(** * The property's words about one request (used by the oracle and by
    c12_one_reply): a complete request frame is "well-formed" when its class
    can be decoded - an add-hard-cert frame carries a key in one of the two
    encodings, a wait frame carries a code; slot, standard and unknown-code
    frames always are - and it is "answerable" when, in addition, the served
    side produces an answer that fits a frame (the standard server / Forward do
    not fail, the answer is at most 16 MiB). *)
Definition spec_class (code : N) : N :=
  if code =? 31 then 1 else if code =? 32 then 2 else if code =? 33 then 3
  else if code =? 34 then 4 else if code =? 35 then 5
  else if existsb (N.eqb code) [1; 11; 13; 17; 18; 19; 22; 23; 25] then 6 else 7.

Definition fits_frame (b : bytes) : bool := blen b <=? spec_max.

Definition answerable (e : env) (i : nat) (req : bytes) : bool :=
  match req with
  | [] => false
  | code :: tail =>
      match spec_class code with
      | 1 =>
          match dec_add (e_parse_key e) req with
          | Val (Some (k, cm)) => fits_frame (enc_reply (e_add e i k cm))
          | _ => false
          end
      | 2 => let '(slots, err) := e_list e i in
             match enc_list_resp slots err with Some w => fits_frame w | None => false end
      | 3 => let '(pem, err) := e_read e i tail in
             match enc_slot_resp false pem err with Some w => fits_frame w | None => false end
      | 4 => let '(pem, err) := e_attest e i tail in
             match enc_slot_resp true pem err with Some w => fits_frame w | None => false end
      | 5 => match tail with
             | c :: _ => fits_frame (enc_reply (e_wait e i c))
             | [] => false
             end
      | 6 => match e_std e i req with Some _ => true | None => false end
      | _ => match e_fwd e i req with Some resp => fits_frame resp | None => false end
      end
  end.
