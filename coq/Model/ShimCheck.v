(** Shared part of the C07-C10 correspondence checks (executable; no proofs):
    the case type written by harness/shimsim, the observation of a model state,
    and the model-vs-implementation comparison of a whole history.  The
    property oracles are in Model/C07Check.v .. C10Check.v. *)
From Verif Require Import Lib.Base Lib.Json Model.KeyId Model.UAgent Model.Shim Generated.ShimGen.

(** What the harness observes after every operation: the shim's tables (read
    through reflection, as sorted blob-id lists), its lock flag, and the
    scripted agent / proxy (ours). *)
Record obs := mkObs {
  o_mem : list N; o_cache : list N; o_locked : bool;
  o_closed : bool;   (* a Close call has returned nil (tracked by the harness) *)
  o_ids : list N; o_upass : option (list N); o_alive : bool;
  o_reqno : nat; o_rawlog : list N }.

Record sstep := mkStep { s_now : Z; s_op : op; s_reply : reply; s_obs : obs }.

Inductive case :=
| CHist (tbl : list (N * cinfo)) (nu : bool) (ids0 : list N) (script : list (nat * fault))
        (built : bool) (obs0 : obs) (steps : list sstep)
    (* one history on one shim; [built] = shimagent.New returned a server *)
| CTwo (tbl : list (N * cinfo)) (ids0 : list N)
       (obs0_up : obs) (steps_up : list sstep) (obs0_no : obs) (steps_no : list sstep)
    (* the same fault-free history on two shims: mode off / mode on *)
| CValid (va vb : N) (now : Z) (res : bool).
    (* certutil.ValidateSSHCertTime called directly *)

Definition info_of (tbl : list (N * cinfo)) (b : N) : option cinfo :=
  match find (fun p => N.eqb (fst p) b) tbl with Some p => Some (snd p) | None => None end.
Definition script_of (l : list (nat * fault)) (n : nat) : option fault :=
  match find (fun p => Nat.eqb (fst p) n) l with Some p => Some (snd p) | None => None end.

(** Insertion sort: listings and tables are compared as multisets. *)
Fixpoint insert_sorted (x : N) (l : list N) : list N :=
  match l with
  | [] => [x]
  | y :: r => if (x <=? y)%N then x :: l else y :: insert_sorted x r
  end.
Definition sortN (l : list N) : list N := fold_right insert_sorted [] l.

Definition listN_eqb (a b : list N) : bool := list_eqb N.eqb a b.
Definition same_multiset (a b : list N) : bool := listN_eqb (sortN a) (sortN b).

Definition obs_of (s : shim) : obs :=
  mkObs (sortN (mem s)) (sortN (cache s)) (locked s) (closed s)
        (ids (ua s)) (upass (ua s)) (alive (ua s)) (reqno (ua s)) (rawlog (ua s)).

Definition obs_eqb (a b : obs) : bool :=
  listN_eqb (sortN (o_mem a)) (sortN (o_mem b)) &&
  listN_eqb (sortN (o_cache a)) (sortN (o_cache b)) &&
  Bool.eqb (o_locked a) (o_locked b) &&
  Bool.eqb (o_closed a) (o_closed b) &&
  listN_eqb (o_ids a) (o_ids b) &&
  option_eqb listN_eqb (o_upass a) (o_upass b) &&
  Bool.eqb (o_alive a) (o_alive b) &&
  Nat.eqb (o_reqno a) (o_reqno b) &&
  listN_eqb (o_rawlog a) (o_rawlog b).

Definition err_eqb (a b : err) : bool :=
  match a, b with
  | ELocked, ELocked | ENotLocked, ENotLocked | EKeyNotFound, EKeyNotFound | EOther, EOther => true
  | _, _ => false
  end.
Definition fkind_eqb (a b : fkind) : bool :=
  match a, b with
  | FFail, FFail | FMalformed, FMalformed | FOversize, FOversize | FClose, FClose | FWrongType, FWrongType => true
  | _, _ => false
  end.
Definition reply_eqb (a b : reply) : bool :=
  match a, b with
  | RList x, RList y => same_multiset x y
  | RSigners x, RSigners y => same_multiset x y
  | RSig k d f, RSig k' d' f' => N.eqb k k' && N.eqb d d' && N.eqb f f'
  | ROk, ROk => true
  | RErr x, RErr y => err_eqb x y
  | RRaw x, RRaw y => N.eqb x y
  | RRawInjected x, RRawInjected y => fkind_eqb x y
  | _, _ => false
  end.

Definition start_agent (ids0 : list N) : uagent := mkU ids0 None true 0 [].

(** Model and implementation agree on a history: same reply and same
    observable state after every step. *)
Fixpoint agree_steps (info : N -> option cinfo) (script : nat -> option fault)
         (s : shim) (steps : list sstep) : bool :=
  match steps with
  | [] => true
  | st :: r =>
      let '(s', rep) := step info script (s_now st) s (s_op st) in
      reply_eqb rep (s_reply st) && obs_eqb (obs_of s') (s_obs st) &&
      agree_steps info script s' r
  end.

Definition agree_hist (tbl : list (N * cinfo)) (nu : bool) (ids0 : list N)
           (scr : list (nat * fault)) (built : bool) (obs0 : obs) (steps : list sstep) : bool :=
  let info := info_of tbl in
  let script := script_of scr in
  match construct info script nu (start_agent ids0) with
  | Panic => false
  | Val None => negb built
  | Val (Some s) => built && obs_eqb (obs_of s) obs0 && agree_steps info script s steps
  end.

(** How far a history got in the model (coverage classes): bit mask of what
    happened. *)
Definition is_err_reply (r : reply) : bool := match r with RErr _ => true | _ => false end.
Definition hist_flags (steps : list sstep) : N :=
  let has (p : sstep -> bool) := existsb p steps in
  (if has (fun st => match s_reply st with RList (_ :: _) | RSigners (_ :: _) => true | _ => false end) then 1 else 0) +
  (if has (fun st => match s_reply st with RSig _ _ _ => true | _ => false end) then 2 else 0) +
  (if has (fun st => o_locked (s_obs st)) then 4 else 0) +
  (if has (fun st => match o_mem (s_obs st) with _ :: _ => true | [] => false end) then 8 else 0) +
  (if has (fun st => match o_cache (s_obs st) with _ :: _ => true | [] => false end) then 16 else 0) +
  (if has (fun st => is_err_reply (s_reply st)) then 32 else 0).

(** ** Running a per-step oracle over a history. *)

(** Did the proxy inject a fault into one of the [n] requests starting at
    index [lo]? *)
Fixpoint fault_in (script : nat -> option fault) (lo n : nat) : bool :=
  match n with
  | O => false
  | S k => (match script lo with Some _ => true | None => false end) || fault_in script (S lo) k
  end.
Definition step_faulted (script : nat -> option fault) (pre post : obs) : bool :=
  fault_in script (o_reqno pre) (o_reqno post - o_reqno pre).

Fixpoint all_steps (f : obs -> sstep -> bool) (pre : obs) (steps : list sstep) : bool :=
  match steps with
  | [] => true
  | st :: r => f pre st && all_steps f (s_obs st) r
  end.

(** The history the model itself produces. *)
Fixpoint model_steps (info : N -> option cinfo) (script : nat -> option fault)
         (s : shim) (h : list (Z * op)) : list sstep :=
  match h with
  | [] => []
  | (now, o) :: r =>
      let '(s', rep) := step info script now s o in
      mkStep now o rep (obs_of s') :: model_steps info script s' r
  end.

Definition same_stores (a b : obs) : bool :=
  listN_eqb (o_mem a) (o_mem b) && listN_eqb (o_ids a) (o_ids b).
Definition pass_eqb (a b : option (list N)) : bool := option_eqb listN_eqb a b.
