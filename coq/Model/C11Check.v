(** Correspondence check and property oracle for C11 (executable; no proofs).

    The harness records small concurrent histories against the real shim:
    per thread the operations it issued with the replies it received, then a
    sequential epilogue (unlock attempts, a listing) and the identity set of
    the underlying agent.  The oracle is the property's own sentence: SOME
    sequential ordering of the operations that respects every thread's program
    order explains every reply and the final state.  The sequential reference
    below is a deliberately small model of the shim over a key-ring agent that
    only holds plain keys (identities are numbers: key k is k, the hardware
    certificate c is 1000 + c); it is validated on single-thread histories. *)
From Verif Require Import Lib.Base Model.Locks Generated.ShimLocksGen.

Inductive sop :=
| OAdd (k : N)                 (* Add plain key k to the agent *)
| ORemoveKey (k : N)           (* Remove plain key k *)
| ORemoveCert (c : N)          (* Remove hardware certificate c *)
| ORemoveAll
| OAddHard (c k : N)           (* AddHardCert: certificate c over key k *)
| OList
| OSigners
| OSignKey (k : N)
| OSignCert (c k : N)          (* Sign with hardware certificate c (over key k) *)
| OLock (p : N)
| OUnlock (p : N)
| OForward                     (* raw forward of an unknown request: echo of the own tag *)
| OExtension.                  (* extension round trip: echo of the own tag *)

Inductive srep := ROk | RErr | RIds (l : list N).

Record sst := mkSst { ak : list N; mem : list (N * N); lk : option N }.

Fixpoint ins (x : N) (l : list N) : list N :=
  match l with
  | [] => [x]
  | y :: r => if (x <? y)%N then x :: l else if (x =? y)%N then l else y :: ins x r
  end.
Definition sort_ids (l : list N) : list N := fold_right ins [] l.
Definition memb (x : N) (l : list N) : bool := existsb (N.eqb x) l.
Definition has_cert (c : N) (m : list (N * N)) : bool := existsb (fun p => N.eqb (fst p) c) m.

(** filter(): orphan hardware certificates are dropped unless the agent lists nothing. *)
Definition prune (s : sst) : sst :=
  match ak s with
  | [] => s
  | _ => mkSst (ak s) (filter (fun p => memb (snd p) (ak s)) (mem s)) (lk s)
  end.
Definition listing (s : sst) : list N :=
  sort_ids (ak s ++ map (fun p => (1000 + fst p)%N) (mem s)).
Definition is_locked (s : sst) : bool := match lk s with Some _ => true | None => false end.

Definition exec_s (o : sop) (s : sst) : sst * srep :=
  match o with
  | OForward | OExtension => (s, ROk)
  | OLock p => if is_locked s then (s, RErr) else (mkSst (ak s) (mem s) (Some p), ROk)
  | OUnlock p =>
      match lk s with
      | Some q => if (p =? q)%N then (mkSst (ak s) (mem s) None, ROk) else (s, RErr)
      | None => (s, RErr)
      end
  | OList => if is_locked s then (s, RIds []) else let s' := prune s in (s', RIds (listing s'))
  | OSigners => if is_locked s then (s, RErr) else let s' := prune s in (s', RIds (listing s'))
  | _ =>
    if is_locked s then (s, RErr) else
    match o with
    | OAdd k => (mkSst (if memb k (ak s) then ak s else ak s ++ [k]) (mem s) (lk s), ROk)
    | ORemoveKey k =>
        if memb k (ak s)
        then (mkSst (filter (fun x => negb (N.eqb x k)) (ak s)) (mem s) (lk s), ROk)
        else (s, RErr)
    | ORemoveCert c =>
        if has_cert c (mem s)
        then (mkSst (ak s) (filter (fun p => negb (N.eqb (fst p) c)) (mem s)) (lk s), ROk)
        else (s, RErr)
    | ORemoveAll => (mkSst [] [] (lk s), ROk)
    | OAddHard c k =>
        if has_cert c (mem s) then (s, ROk)
        else if memb k (ak s) then (mkSst (ak s) (mem s ++ [(c, k)]) (lk s), ROk)
        else (s, RErr)
    | OSignKey k => let s' := prune s in (s', if memb k (ak s') then ROk else RErr)
    | OSignCert c k =>
        let s' := prune s in
        (s', if has_cert c (mem s') && memb k (ak s') then ROk else RErr)
    | _ => (s, RErr)
    end
  end.

Definition srep_eqb (a b : srep) : bool :=
  match a, b with
  | ROk, ROk | RErr, RErr => true
  | RIds x, RIds y => list_eqb N.eqb x y
  | _, _ => false
  end.

(** Sequential run of (op, observed reply) pairs: all replies as observed? *)
Fixpoint seq_ok (s : sst) (l : list (sop * srep)) : option sst :=
  match l with
  | [] => Some s
  | (o, r) :: l' =>
      let (s', r') := exec_s o s in
      if srep_eqb r r' then seq_ok s' l' else None
  end.

Definition final_ok (s : sst) (epilogue : list (sop * srep)) (agent_ids : list N) : bool :=
  match seq_ok s epilogue with
  | Some s' => list_eqb N.eqb (sort_ids (ak s')) agent_ids
  | None => false
  end.

(** All ways of taking the head operation of one non-empty thread. *)
Fixpoint picks {A} (pre : list (list A)) (ths : list (list A)) : list (A * list (list A)) :=
  match ths with
  | [] => []
  | [] :: r => picks (pre ++ [[]]) r
  | (x :: t) :: r => (x, pre ++ t :: r) :: picks (pre ++ [x :: t]) r
  end.

(** Is there an interleaving (respecting each thread's order) whose sequential
    run gives every observed reply, the epilogue's replies and the final agent
    identity set? Exhaustive search, pruned at the first differing reply. *)
Fixpoint lin_search (fuel : nat) (s : sst) (ths : list (list (sop * srep)))
    (epilogue : list (sop * srep)) (agent_ids : list N) : bool :=
  match fuel with
  | O => false
  | Datatypes.S fuel' =>
      if forallb (fun t => match t with [] => true | _ => false end) ths
      then final_ok s epilogue agent_ids
      else existsb (fun p =>
             let '((o, r), rest) := p in
             let (s', r') := exec_s o s in
             srep_eqb r r' && lin_search fuel' s' rest epilogue agent_ids)
           (picks [] ths)
  end.

Definition total_ops {A} (ths : list (list A)) : nat := fold_right (fun t n => (length t + n)%nat) O ths.

Definition linearisable (init_keys : list N) (ths : list (list (sop * srep)))
    (epilogue : list (sop * srep)) (agent_ids : list N) : bool :=
  lin_search (Datatypes.S (total_ops ths)) (mkSst init_keys [] None) ths epilogue agent_ids.

Inductive case :=
| CHist (noupstream : bool) (init_keys : list N) (ths : list (list (sop * srep)))
        (epilogue : list (sop * srep)) (agent_ids : list N)
    (* a concurrent history; oracle = linearisable *)
| CSeq (noupstream : bool) (init_keys : list N) (ops : list (sop * srep))
       (epilogue : list (sop * srep)) (agent_ids : list N)
    (* a single-thread history: validates the sequential reference itself *)
| CMode (name : str) (blocks_while_mutex_held : bool).
    (* does a call of the method wait while another goroutine holds the server
       mutex?  compared with the regenerated facts table *)

Definition facts_blocks (name : str) : option bool :=
  match lookup_facts shim_lock_facts name with
  | Some f => Some (negb (mode_eqb (mf_mode f) NoLock))
  | None => None
  end.
(** A delegating method blocks iff its target does. *)
Fixpoint deleg_target (l : list (str * str)) (name : str) : option str :=
  match l with
  | [] => None
  | (a, b) :: r => if str_eqb a name then Some b else deleg_target r name
  end.
Definition model_blocks (name : str) : option bool :=
  match deleg_target shim_delegations name with
  | Some tgt => facts_blocks tgt
  | None => facts_blocks name
  end.

Definition check (c : case) : N :=
  match c with
  | CHist _ ik ths ep ids => if linearisable ik ths ep ids then 0 else 2
  | CSeq _ ik ops ep ids => if linearisable ik [ops] ep ids then 0 else 1
  | CMode name b =>
      match model_blocks name with
      | Some b' => if Bool.eqb b b' then 0 else 1
      | None => 3
      end
  end.

Definition classify (c : case) : N :=
  match c with
  | CHist nu _ ths _ _ => 100 + (if nu then 50 else 0) + N.of_nat (length ths) * 10 + N.min 9 (N.of_nat (total_ops ths))
  | CSeq nu _ ops _ _ => 10 + (if nu then 5 else 0)
  | CMode _ b => if b then 2 else 1
  end.

(** The method each reference operation calls, and its regenerated facts. *)
Definition sop_method (o : sop) : str :=
  match o with
  | OAdd _ => tx "Add"
  | ORemoveKey _ | ORemoveCert _ => tx "Remove"
  | ORemoveAll => tx "RemoveAll"
  | OAddHard _ _ => tx "AddHardCert"
  | OList => tx "List"
  | OSigners => tx "Signers"
  | OSignKey _ | OSignCert _ _ => tx "SignWithFlags"
  | OLock _ => tx "Lock"
  | OUnlock _ => tx "Unlock"
  | OForward => tx "Forward"
  | OExtension => tx "Extension"
  end.
Definition sop_facts (o : sop) : method_facts := table_facts shim_lock_facts (sop_method o, tt).
