(** Model of the repository's own wire codecs (agent/yubiagent/{message.go,
    client.go, server.go}) on top of x/crypto's ssh.Marshal / ssh.Unmarshal
    primitives: u32 big-endian length-prefixed string / []byte, name-list for
    []string (comma-joined, then length-prefixed), the optional leading sshtype
    byte.  Struct layouts, message codes and the success literal come from
    [Generated.YubiAgentGen] (regenerated from /repo on every run).
    Bytes are [N] values below 256. No proofs here. *)
From Verif Require Import Lib.Base Lib.Bytes Lib.Wire Generated.YubiAgentGen.
Local Open Scope N_scope.

(** * ssh wire primitives *)
Definition comma : N := 44.

(** appendInt(out, len(s)); append(out, s...) — uint32(len) is what [be32] keeps *)
Definition put_string (s : bytes) : bytes := be32 (blen s) ++ s.

(** parseUint32 *)
Definition parse_u32 (l : bytes) : option (N * bytes) :=
  match l with
  | a :: b :: c :: d :: r => Some (of_be32 a b c d, r)
  | _ => None
  end.

(** parseString: needs 4 bytes, then [length] more *)
Definition parse_string (l : bytes) : option (bytes * bytes) :=
  match parse_u32 l with
  | None => None
  | Some (n, r) =>
      if blen r <? n then None
      else Some (firstn (N.to_nat n) r, skipn (N.to_nat n) r)
  end.

(** []string: the names joined with ',' as one string (an empty slice gives an
    empty string) *)
Definition put_name_list (l : list bytes) : bytes := put_string (join_on comma l).

(** parseNameList: empty contents is the empty list, otherwise bytes.Split on ',' *)
Definition parse_name_list (l : bytes) : option (list bytes * bytes) :=
  match parse_string l with
  | None => None
  | Some (contents, r) =>
      match contents with
      | [] => Some ([], r)
      | _ => Some (split_on comma contents, r)
      end
  end.

(** * ssh.Marshal / ssh.Unmarshal on a struct layout *)
Inductive kind := KStr | KNames | KOther.
Inductive value := VStr (b : bytes) | VNames (l : list bytes).

Definition kind_of (n : N) : kind :=
  match n with 0 => KStr | 1 => KNames | _ => KOther end.

Definition layout := (option N * list kind)%type.
Definition layout_of (g : option N * list (str * N)) : layout :=
  (fst g, map (fun p => kind_of (snd p)) (snd g)).

Fixpoint marshal_fields (ks : list kind) (vs : list value) : option bytes :=
  match ks, vs with
  | [], [] => Some []
  | KStr :: ks', VStr b :: vs' =>
      match marshal_fields ks' vs' with Some r => Some (put_string b ++ r) | None => None end
  | KNames :: ks', VNames l :: vs' =>
      match marshal_fields ks' vs' with Some r => Some (put_name_list l ++ r) | None => None end
  | _, _ => None
  end.

(** [None]: the values do not fit the layout (ssh.Marshal would panic on an
    unsupported field type). *)
Definition marshal (lay : layout) (vs : list value) : option bytes :=
  match marshal_fields (snd lay) vs with
  | None => None
  | Some body => match fst lay with Some t => Some (t :: body) | None => Some body end
  end.

Fixpoint unmarshal_fields (ks : list kind) (data : bytes) : option (list value) :=
  match ks with
  | [] => match data with [] => Some [] | _ => None end
  | KStr :: ks' =>
      match parse_string data with
      | Some (s, r) => match unmarshal_fields ks' r with Some vs => Some (VStr s :: vs) | None => None end
      | None => None
      end
  | KNames :: ks' =>
      match parse_name_list data with
      | Some (l, r) => match unmarshal_fields ks' r with Some vs => Some (VNames l :: vs) | None => None end
      | None => None
      end
  | KOther :: _ => None
  end.

(** ssh.Unmarshal: empty input is an error; an expected type byte must be
    non-zero and match; every field in order; nothing may be left over. *)
Definition unmarshal (lay : layout) (data : bytes) : option (list value) :=
  match data with
  | [] => None
  | c :: r =>
      match fst lay with
      | Some t => if (0 <? t) && (c =? t) then unmarshal_fields (snd lay) r else None
      | None => unmarshal_fields (snd lay) data
      end
  end.

(** * The repository's messages *)
Definition lay_add := layout_of layout_add_hard_cert_req.
Definition lay_list := layout_of layout_list_slots_resp.
Definition lay_read := layout_of layout_read_slot_resp.
Definition lay_attest := layout_of layout_attest_slot_resp.

(** ** add-hard-cert request *)
(** client.AddHardCert: ssh.Marshal(agentAddHardCertReq{KeyBlob: key.Marshal(), Comment: comment}) *)
Definition enc_add_new (blob comment : bytes) : option bytes :=
  marshal lay_add [VStr blob; VStr comment].
(** the legacy client: the code byte followed by the bare key blob *)
Definition enc_add_legacy (blob : bytes) : bytes := msg_add_hard_cert :: blob.

(** ServeAgent, case AgentMessageAddHardCert.  [parse_key] stands for
    ssh.ParsePublicKey: [Some id] when the bytes are accepted, [id] being the
    identity of the key (its canonical blob, key.Marshal()).  Result:
    [Some (key, comment)] handed to agent.AddHardCert, [None] = ServeAgent
    returns the decoding error. *)
Definition dec_add (parse_key : bytes -> option bytes) (req : bytes)
  : outcome (option (bytes * bytes)) :=
  olet tail := go_from req 1 in
  match parse_key tail with
  | Some k => Val (Some (k, []))
  | None =>
      match unmarshal lay_add req with
      | Some [VStr blob; VStr comment] =>
          match parse_key blob with
          | Some k => Val (Some (k, comment))
          | None => Val None
          end
      | _ => Val None
      end
  end.

(** ** "SUCCESS" / error-text reply (add-hard-cert, wait) *)
Definition success_written : bytes := hd [] server_success_texts.
Definition success_expected : bytes := hd [] client_success_texts.
(** server: write(c, []byte(err.Error())) or write(c, []byte("SUCCESS")) *)
Definition enc_reply (err : option bytes) : bytes :=
  match err with Some t => t | None => success_written end.
(** client: string(resp) != "SUCCESS" -> errors.New(string(resp)) *)
Definition dec_reply (resp : bytes) : option bytes :=
  if bytes_eqb resp success_expected then None else Some resp.

(** ** list-slots *)
Definition enc_list_req : bytes := [msg_list_slots].
Definition err_text (err : option bytes) : bytes := match err with Some t => t | None => [] end.
(** server: msg.Slots = slots; if err != nil { msg.Err = err.Error() }; ssh.Marshal(&msg) *)
Definition enc_list_resp (slots : list bytes) (err : option bytes) : option bytes :=
  marshal lay_list [VNames slots; VStr (err_text err)].
Definition text_err (t : bytes) : option bytes := match t with [] => None | _ => Some t end.
(** client: ssh.Unmarshal; if msg.Err != "" { err = errors.New(msg.Err) }; return msg.Slots, err.
    Outer [None] = the client reports an unmarshal error. *)
Definition dec_list_resp (resp : bytes) : option (list bytes * option bytes) :=
  match unmarshal lay_list resp with
  | Some [VNames s; VStr e] => Some (s, text_err e)
  | _ => None
  end.

(** ** read-slot / attest-slot *)
Definition enc_slot_req (attest : bool) (slot : bytes) : bytes :=
  (if attest then msg_attest_slot else msg_read_slot) :: slot.
(** server: string(req)[1:] *)
Definition dec_slot_req (req : bytes) : outcome bytes := go_from req 1.
(** server: msg.Cert = PEM of the certificate (empty when nil), msg.Err as above *)
Definition enc_slot_resp (attest : bool) (pem : bytes) (err : option bytes) : option bytes :=
  marshal (if attest then lay_attest else lay_read) [VStr pem; VStr (err_text err)].
(** client (both operations unmarshal into agentReadSlotResp): an error text
    wins; otherwise the PEM goes to the certificate parser. *)
Inductive slot_result := SlotErr (t : bytes) | SlotPem (pem : bytes).
Definition dec_slot_resp (resp : bytes) : option slot_result :=
  match unmarshal lay_read resp with
  | Some [VStr c; VStr e] =>
      match e with [] => Some (SlotPem c) | _ => Some (SlotErr e) end
  | _ => None
  end.

(** ** wait *)
Definition enc_wait_req (code : N) : bytes := [msg_wait; code].
Inductive wait_req := WaitShort | WaitCode (c : N).
(** server: if len(req) < K return error; agent.Wait(req[1]) *)
Definition dec_wait_req_with (min_len : N) (req : bytes) : outcome wait_req :=
  if blen req <? min_len then Val WaitShort
  else olet c := go_index req 1 in Val (WaitCode c).
Definition dec_wait_req : bytes -> outcome wait_req := dec_wait_req_with serve_wait_min_len.

(** * Side conditions the round trips need (each is a limitation of the wire
    format, see Properties/C13.v) *)
Definition fits32 (b : bytes) : Prop := blen b < 4294967296.
Definition name_ok (n : bytes) : bool := negb (has_byte comma n).
(** a name list the name-list encoding can carry: no name contains ',' and the
    list is not the single empty name *)
Definition names_ok (l : list bytes) : bool :=
  forallb name_ok l && negb (match l with [[]] => true | _ => false end).
