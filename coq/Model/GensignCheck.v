(** Correspondence cases and property oracles shared by C01-C04 (executable;
    no proofs).  A case is a *session*: a registered-key directory, the
    agent's initial identities, the entropy the implementation was observed to
    draw, and a sequence of runs, each with its inputs (parameters, handler
    list, agent behaviour, fault script, signer script) and the
    implementation's observation (error kind, ordered events, identities
    afterwards).  [agree] compares the observations with the model's; the
    [oracle_c0x] functions are the properties' own sentences evaluated on an
    observation, written independently of the code's shape. *)
From Verif Require Import Lib.Base Lib.Json Generated.KeyIdGen Generated.GensignGen
  Model.KeyId Model.HandlerConf Model.Gensign.
Local Open Scope N_scope.

(** * Cases *)
Record crun := mkCRun {
  cr_dir : option (list (str * file));   (* Some d: the directory's content was replaced by d before this run *)
  cr_params : option params;
  cr_handlers : list handler;
  cr_beh : agent_beh;
  cr_afault : list (nat * afault);
  cr_signer : list sout;
  cr_obs : run_obs }.

Inductive case :=
| CSession (dir : list (str * file)) (store0 : list ident) (chal keys : list N) (runs : list crun)
| CNewHandler (raw : rawconf) (ok : bool).      (* regular.NewHandler succeeded? *)

(** The handler as the harness writes it: the raw configuration, decoded by
    the model of the decode hook. *)
Definition RegularRaw (v : option N) (l : list (str * str)) : handler :=
  Regular (conf_of (mkRaw v l)).

Definition dir_of (l : list (str * file)) (name : str) : option file := assoc_str name l.
Definition stream_of (l : list N) (n : nat) : N := nth n l 0.
Fixpoint afault_of (l : list (nat * afault)) (n : nat) : option afault :=
  match l with
  | [] => None
  | (m, f) :: r => if Nat.eqb n m then Some f else afault_of r n
  end.
Definition signer_of (l : list sout) (n : nat) : sout := nth n l SErr.

Definition run_in_of (dir : list (str * file)) (c : crun) : run_in :=
  mkRunIn (dir_of dir) (cr_params c) (cr_handlers c) (cr_beh c) (afault_of (cr_afault c)) (signer_of (cr_signer c)).

(** the runs' inputs: each run sees the directory as last written *)
Fixpoint run_ins (cur : list (str * file)) (runs : list crun) : list run_in :=
  match runs with
  | [] => []
  | c :: r => let d := match cr_dir c with Some d => d | None => cur end in run_in_of d c :: run_ins d r
  end.

(** every directory content of the session *)
Definition all_dirs (dir : list (str * file)) (runs : list crun) : list (str * file) :=
  dir ++ flat_map (fun c => match cr_dir c with Some d => d | None => [] end) runs.

(** * Agreement of observations *)
Definition kind_opt_eqb (a b : option gkind) : bool := option_eqb gkind_eqb a b.
Definition obs_eqb (a b : run_obs) : bool :=
  kind_opt_eqb (o_res a) (o_res b) && list_eqb event_eqb (o_log a) (o_log b) &&
  list_eqb ident_eqb (o_store a) (o_store b).

Definition model_obs (dir : list (str * file)) (store0 : list ident) (chal keys : list N)
  (runs : list crun) : list run_obs :=
  snd (session (stream_of chal) (stream_of keys) (run_ins dir runs) (init_state store0)).

Definition agree (c : case) : bool :=
  match c with
  | CSession dir store0 chal keys runs =>
      list_eqb obs_eqb (model_obs dir store0 chal keys runs) (map cr_obs runs)
  | CNewHandler raw ok =>
      Bool.eqb (match decode_conf raw with Some _ => true | None => false end) ok
  end.

(** * Reading a log *)
Fixpoint split_gen (l : list event) : list event * option (nat * list event) :=
  match l with
  | [] => ([], None)
  | EvGen i :: r => ([], Some (i, r))
  | x :: r => let '(pre, post) := split_gen r in (x :: pre, post)
  end.

Fixpoint forallb_idx {A} (f : nat -> A -> bool) (i : nat) (l : list A) : bool :=
  match l with
  | [] => true
  | x :: r => f i x && forallb_idx f (S i) r
  end.

Fixpoint forallb2 {A B} (f : A -> B -> bool) (l1 : list A) (l2 : list B) : bool :=
  match l1, l2 with
  | [], [] => true
  | x :: r1, y :: r2 => f x y && forallb2 f r1 r2
  | _, _ => false
  end.

Definition mem_n (x : N) (l : list N) : bool := existsb (N.eqb x) l.
Fixpoint nodup_n (l : list N) : bool :=
  match l with
  | [] => true
  | x :: r => negb (mem_n x r) && nodup_n r
  end.

Definition sign_data (log : list event) : list N :=
  flat_map (fun ev => match ev with EvAgent _ (RSign _ d) _ _ => [d] | _ => [] end) log.

(** Public keys the RA put into the agent as new private keys while handler
    [i] generated. *)
Definition gen_keys (i : nat) (log : list event) : list N :=
  flat_map (fun ev => match ev with
                      | EvAgent (PGen j) (RAdd id) _ _ =>
                          if Nat.eqb i j then match i_blob id with BKey k => [k] | BCert _ _ => [] end
                          else []
                      | _ => []
                      end) log.

(** Everything the signer handed back during the run (in order). *)
Definition returned_certs (signer : nat -> sout) (log : list event) : list scert :=
  flat_map (fun ev => match ev with
                      | EvSigner n _ => match signer n with SOk certs _ => certs | _ => [] end
                      | _ => []
                      end) log.

Definition signer_events (log : list event) : nat :=
  length (filter (fun ev => match ev with EvSigner _ _ => true | _ => false end) log).

(** * C01 — proof of possession before anything is signed or added *)

(** The key registered for a login name: "<name>.pub" if present, else "<name>". *)
Definition key_of_file (f : file) : option N := match f with Key pk => Some pk | _ => None end.
Definition registered_key (dir : str -> option file) (name : str) : option N :=
  match dir (name ++ tx ".pub") with
  | Some f => key_of_file f
  | None => match dir name with Some f => key_of_file f | None => None end
  end.

(** Neither a foreign namespace nor a hardware key. *)
Definition guards_ok (po : option params) : bool :=
  match po with
  | Some p => str_eqb (p_ns p) (tx "NONS") &&
              match p_attrs p with Some a => negb (a_hardkey a) | None => false end
  | None => false
  end.

(** A proof of possession seen on the wire during handler [i]'s
    authentication: a sign request for the registered key, answered with a
    signature that verifies under that key over the requested data. *)
Definition is_pop (i : nat) (pk : N) (ev : event) : bool :=
  match ev with
  | EvAgent (PAuth j) (RSign k _) StOk true => Nat.eqb i j && N.eqb k pk
  | _ => false
  end.

Definition accepted (dir : str -> option file) (po : option params) (pre : list event)
  (i : nat) (h : handler) : bool :=
  match h with
  | Scripted _ (HOk _) _ => true
  | Scripted _ _ _ => false
  | Regular _ =>
      guards_ok po &&
      match po with
      | Some p => match registered_key dir (p_logname p) with
                  | Some pk => existsb (is_pop i pk) pre
                  | None => false
                  end
      | None => false
      end
  end.

Definition asked (pre : list event) (i : nat) : bool :=
  existsb (fun ev => match ev with EvAuth j => Nat.eqb i j | _ => false end) pre.

(** Before any Generate only authentication happens: no signer call, nothing
    added or removed.  (Asking the agent for its identities changes nothing
    and is not something C01 forbids: a handler may look before it challenges.) *)
Definition auth_only (ev : event) : bool :=
  match ev with
  | EvAuth _ => true
  | EvAgent (PAuth _) (RSign _ _) _ _ => true
  | EvAgent (PAuth _) RList _ _ => true
  | _ => false
  end.
Definition not_auth_nor_gen (ev : event) : bool :=
  match ev with
  | EvAuth _ => false
  | EvGen _ => false
  | EvAgent (PAuth _) _ _ _ => false
  | _ => true
  end.
Definition auth_index_le (i : nat) (ev : event) : bool :=
  match ev with
  | EvAuth j => (j <=? i)%nat
  | EvAgent (PAuth j) _ _ _ => (j <=? i)%nat
  | _ => true
  end.

Definition oracle_c01_run (dir : str -> option file) (po : option params) (hs : list handler)
  (o : run_obs) : bool :=
  let '(pre, post) := split_gen (o_log o) in
  forallb auth_only pre &&
  match post with
  | None =>
      (* nothing generated: the run reports that all authentications failed
         (or the panic of a handler), and then indeed none succeeded *)
      match o_res o with
      | Some KAllAuthFailed =>
          forallb_idx (fun j h => asked pre j && negb (accepted dir po pre j h)) 0 hs
      | Some KPanic => true
      | _ => false
      end
  | Some (i, rest) =>
      (* generated by handler i: it is the first, in order, that succeeded;
         later ones were never asked; it generated once *)
      forallb not_auth_nor_gen rest &&
      match nth_error hs i with
      | Some h => accepted dir po pre i h
      | None => false
      end &&
      forallb_idx (fun j h => if (j <? i)%nat then asked pre j && negb (accepted dir po pre j h) else true) 0 hs &&
      forallb (auth_index_le i) pre
  end.

(** A session: every run satisfies the above, and challenges are fresh — no
    two sign requests of the session carry the same data. *)
Definition oracle_c01_session (ins : list run_in) (os : list run_obs) : bool :=
  forallb2 (fun ri o => oracle_c01_run (ri_dir ri) (ri_params ri) (ri_handlers ri) o) ins os &&
  nodup_n (flat_map (fun o => sign_data (o_log o)) os).

Definition oracle_c01 (c : case) : bool :=
  match c with
  | CSession dir _ _ _ runs => oracle_c01_session (run_ins dir runs) (map cr_obs runs)
  | CNewHandler _ _ => true
  end.

(** * C02 — what a signing request of the regular handler carries *)
Definition spec_extensions : list (str * str) :=
  [(tx "permit-X11-forwarding", []); (tx "permit-agent-forwarding", []);
   (tx "permit-port-forwarding", []); (tx "permit-pty", []); (tx "permit-user-rc", [])].

(** The KeyID the property describes: one principal (the login name), this
    request's transaction id, source IP, client-declared user and host,
    version 1, no flags, all usages (0), never-touch (1). *)
Definition expected_kid (p : params) : KeyID :=
  mkKeyID (Some [p_logname p]) (p_transid p) (p_requser p) (p_clientip p) (p_reqhost p)
          false false false false 0%Z 1%Z 1.

Definition configured_for (c : hconf) (a : Z) (identifier : str) : bool :=
  existsb (fun kv => Z.eqb (fst kv) a && str_eqb (snd kv) identifier) (hc_keyids c).
Definition configured (c : hconf) (a : Z) : bool :=
  existsb (fun kv => Z.eqb (fst kv) a) (hc_keyids c).

Definition csr_ok (p : params) (c : hconf) (keys : list N) (r : csr) : bool :=
  list_eqb str_eqb (c_prins r) [p_logname p] &&
  N.eqb (c_validity r) (hc_validity c) &&
  list_eqb ext_eqb (c_exts r) spec_extensions &&
  match p_attrs p with Some a => configured_for c (a_caalgo a) (c_ident r) | None => false end &&
  mem_n (c_pubkey r) keys &&
  match unmarshal (Some (c_keyid r)) with
  | Ok k => keyid_eqb k (expected_kid p)
  | Err _ => false
  end.

Definition is_signer_ev (ev : event) : bool := match ev with EvSigner _ _ => true | _ => false end.

(** [old_keys]: every key that existed before this run (registered keys, keys
    in the agent at the start of the session, keys generated by earlier runs). *)
Definition oracle_c02_run (old_keys : list N) (po : option params) (hs : list handler)
  (o : run_obs) : bool :=
  match split_gen (o_log o) with
  | (_, Some (i, rest)) =>
      match nth_error hs i with
      | Some (Regular c) =>
          let keys := gen_keys i rest in
          (length keys <=? 1)%nat &&
          forallb (fun k => negb (mem_n k old_keys)) keys &&
          match po with
          | Some p =>
              forallb (fun ev => match ev with EvSigner _ r => csr_ok p c keys r | _ => true end) rest &&
              match p_attrs p with
              | Some a =>
                  (* refused when no key slot is configured for the algorithm *)
                  if configured c (a_caalgo a) then true
                  else negb (existsb is_signer_ev rest) &&
                       match o_res o with Some _ => true | None => false end
              | None => negb (existsb is_signer_ev rest)
              end
          | None => negb (existsb is_signer_ev rest)
          end
      | _ => true
      end
  | _ => true
  end.

Definition file_keys (dir : list (str * file)) : list N :=
  flat_map (fun nf => match snd nf with Key pk => [pk] | _ => [] end) dir.
Definition store_keys (st : list ident) : list N :=
  flat_map (fun x => [blob_key (i_blob x); i_priv x]) st.
Definition all_gen_keys (log : list event) : list N :=
  flat_map (fun ev => match ev with
                      | EvAgent (PGen _) (RAdd id) _ _ =>
                          match i_blob id with BKey k => [k] | BCert _ _ => [] end
                      | _ => []
                      end) log.

Fixpoint oracle_c02_session (old_keys : list N) (ins : list run_in) (os : list run_obs) : bool :=
  match ins, os with
  | [], [] => true
  | ri :: ins', o :: os' =>
      oracle_c02_run old_keys (ri_params ri) (ri_handlers ri) o &&
      oracle_c02_session (all_gen_keys (o_log o) ++ old_keys) ins' os'
  | _, _ => false
  end.

Definition oracle_c02 (c : case) : bool :=
  match c with
  | CSession dir store0 _ _ runs =>
      oracle_c02_session (file_keys (all_dirs dir runs) ++ store_keys store0) (run_ins dir runs) (map cr_obs runs)
  | CNewHandler _ _ => true
  end.

(** * C03 — what the agent holds afterwards *)
Definition in_store (x : ident) (st : list ident) : bool := existsb (ident_eqb x) st.
Definition is_padd_ev (ev : event) : bool :=
  match ev with
  | EvAgent (PAdd _) _ _ _ => true
  | EvFakeAdd _ _ => true
  | _ => false
  end.
(** the validity range the property speaks about is 1 s .. 10 y; the lifetime
    arithmetic is exact as long as validity + 1 h fits 32 bits *)
Definition validity_in_range (v : N) : bool := (1 <=? v) && (v + 3600 <? 2 ^ 32).

Definition oracle_c03_run (before : list ident) (hs : list handler) (signer : nat -> sout)
  (o : run_obs) : bool :=
  let after := o_store o in
  let log := o_log o in
  (* identities that do not carry the handler's label are never removed or altered *)
  forallb (fun x => contains (i_comment x) (tx "paranoids.regular") || in_store x after) before &&
  (* a run that fails before delivery started leaves everything in place *)
  (match o_res o with
   | Some _ => existsb is_padd_ev log || forallb (fun x => in_store x after) before
   | None => true
   end) &&
  match split_gen log with
  | (_, Some (i, rest)) =>
      match nth_error hs i with
      | Some (Regular c) =>
          let v := hc_validity c in
          (* every identity the RA added: finite lifetime, not shorter than the validity *)
          (if validity_in_range v then
             forallb (fun ev => match ev with
                                | EvAgent _ (RAdd id) _ _ => (0 <? i_life id) && (v <=? i_life id)
                                | _ => true
                                end) log &&
             (* ... and not shorter than the validity any signing request of this run asks the CA for *)
             forallb (fun ev => match ev with
                                | EvSigner _ rq =>
                                    forallb (fun ev' => match ev' with
                                                        | EvAgent _ (RAdd id) _ _ => c_validity rq <=? i_life id
                                                        | _ => true
                                                        end) log
                                | _ => true
                                end) log
           else true) &&
          match o_res o with
          | None =>
              match gen_keys i rest with
              | [k] =>
                  (* the new private key ... *)
                  existsb (fun x => blob_eqb (i_blob x) (BKey k) && N.eqb (i_priv x) k) after &&
                  (* ... and every certificate the CA returned, stored with that private key *)
                  forallb (fun sc => match sc with
                                     | SCert k' s =>
                                         existsb (fun x => blob_eqb (i_blob x) (BCert k' s) &&
                                                           usable x && N.eqb (i_priv x) k) after
                                     | _ => true
                                     end) (returned_certs signer rest) &&
                  (* at most one generation: whatever carries the label belongs to this run's key *)
                  forallb (fun x => negb (contains (i_comment x) (tx "paranoids.regular")) ||
                                    N.eqb (i_priv x) k) after
              | _ => false
              end
          | Some _ => true
          end
      | _ => true
      end
  | _ => true
  end.

(** "certificates left by earlier runs are gone, at most one generation
    exists", said without reference to any label: after a successful run
    through the regular handler the agent holds no certificate over a key pair
    that an EARLIER run of the session generated ([old]). *)
Definition in_keys (k : N) (l : list N) : bool := existsb (N.eqb k) l.
Definition oracle_c03_gen (old : list N) (hs : list handler) (o : run_obs) : bool :=
  match o_res o with
  | Some _ => true
  | None =>
      match split_gen (o_log o) with
      | (_, Some (i, _)) =>
          match nth_error hs i with
          | Some (Regular _) =>
              forallb (fun x => match i_blob x with
                                | BCert k' _ => negb (in_keys k' old)
                                | BKey _ => true
                                end) (o_store o)
          | _ => true
          end
      | _ => true
      end
  end.

Fixpoint oracle_c03_session (old : list N) (before : list ident) (ins : list run_in) (os : list run_obs) : bool :=
  match ins, os with
  | [], [] => true
  | ri :: ins', o :: os' =>
      oracle_c03_run before (ri_handlers ri) (ri_signer ri) o &&
      oracle_c03_gen old (ri_handlers ri) o &&
      oracle_c03_session (all_gen_keys (o_log o) ++ old) (o_store o) ins' os'
  | _, _ => false
  end.

Definition oracle_c03 (c : case) : bool :=
  match c with
  | CSession dir store0 _ _ runs => oracle_c03_session [] store0 (run_ins dir runs) (map cr_obs runs)
  | CNewHandler _ _ => true
  end.

(** * C04 — every failed step shows in the result, with the matching kind *)
Definition auth_panics (po : option params) : bool :=
  match po with
  | Some p => str_eqb (p_ns p) (tx "NONS") && match p_attrs p with None => true | Some _ => false end
  | None => false
  end.

(** The kind a failing step must produce ([None]: the step did not fail, or
    its failure is not a failure of the run — a refused authentication). *)
Definition failure_kind (po : option params) (hs : list handler) (signer : nat -> sout)
  (fks : list fkey) (ev : event) : option gkind :=
  match ev with
  | EvAgent (PAuth _) _ _ _ => None
  (* a request for the agent's identities changes nothing and hands nothing over: when it is refused, what the run
     owes depends on what it does next (a dropped connection fails the requests that follow) *)
  | EvAgent _ RList _ _ => None
  | EvAgent (PGen _) _ StOk _ => None
  | EvAgent (PGen _) _ _ _ => Some KHandlerGenCSRErr
  | EvAgent (PAdd _) _ StOk _ => None
  | EvAgent (PAdd _) _ _ _ => Some KAgentOpCertErr
  | EvSigner n _ =>
      match signer n with
      | SOk _ _ => None
      | SErr => Some KSignerSignErr
      | SPanic => Some KPanic
      end
  | EvAuth i =>
      match nth_error hs i with
      | Some (Scripted _ HPanic _) => Some KPanic
      | Some (Scripted true (HErr _) _) => Some KPanic      (* Name() panics in the log line *)
      | Some (Regular _) => if auth_panics po then Some KPanic else None
      | _ => None
      end
  | EvGen i =>
      match nth_error hs i with
      | Some (Scripted _ _ HPanic) => Some KPanic
      | Some (Scripted _ _ (HErr k)) => Some k              (* returned as is *)
      | Some (Scripted _ _ (HOk [])) => Some KHandlerGenCSRErr
      | _ => None
      end
  | EvFakeAdd k _ =>
      match nth_error fks k with
      | Some f => match fk_add f with FOk => None | FErr => Some KAgentOpCertErr | FPanic => Some KPanic end
      | None => None
      end
  end.

Definition sel_fkeys (hs : list handler) (i : nat) : list fkey :=
  match nth_error hs i with
  | Some (Scripted _ _ (HOk fks)) => fks
  | _ => []
  end.
Definition expected_csrs (hs : list handler) (i : nat) : nat :=
  match nth_error hs i with
  | Some (Regular _) => 1%nat
  | Some (Scripted _ _ (HOk fks)) => fold_right (fun f n => (length (fk_csrs f) + n)%nat) 0%nat fks
  | _ => 0%nat
  end.

Definition is_cert_sc (sc : scert) : bool := match sc with SCert _ _ => true | _ => false end.
Definition scert_blob_eqb (sc : scert) (b : blob) : bool :=
  match sc, b with SCert k s, BCert k' s' => N.eqb k k' && N.eqb s s' | _, _ => false end.

(** certificate adds acknowledged by the agent *)
Definition acked_cert_adds (log : list event) : list blob :=
  flat_map (fun ev => match ev with
                      | EvAgent (PAdd _) (RAdd id) StOk _ => if is_cert (i_blob id) then [i_blob id] else []
                      | _ => []
                      end) log.
(** every certificate add that was sent *)
Definition sent_cert_adds (log : list event) : list blob :=
  flat_map (fun ev => match ev with
                      | EvAgent _ (RAdd id) _ _ => if is_cert (i_blob id) then [i_blob id] else []
                      | _ => []
                      end) log.
Definition fake_handed (log : list event) : list scert :=
  flat_map (fun ev => match ev with EvFakeAdd _ cs => cs | _ => [] end) log.

Definition oracle_c04_run (po : option params) (hs : list handler) (signer : nat -> sout)
  (o : run_obs) : bool :=
  let log := o_log o in
  let '(pre, post) := split_gen log in
  let fks := match post with Some (i, _) => sel_fkeys hs i | None => [] end in
  let returned := returned_certs signer log in
  (* a failed step => an error of the matching kind *)
  forallb (fun ev => match failure_kind po hs signer fks ev with
                     | None => true
                     | Some k => kind_opt_eqb (o_res o) (Some k)
                     end) log &&
  (* no handler authenticated => all-authentications-failed (unless a handler panicked) *)
  (match post with
   | None => match o_res o with Some KAllAuthFailed => true | Some KPanic => true | _ => false end
   | Some _ => true
   end) &&
  (* an untyped error only when a foreign handler's Generate returned one *)
  (match o_res o with
   | Some KUntyped =>
       match post with
       | Some (i, _) => match nth_error hs i with Some (Scripted _ _ (HErr KUntyped)) => true | _ => false end
       | None => false
       end
   | _ => true
   end) &&
  (* success only when every signing request was signed and every returned
     certificate was handed to the agent and acknowledged *)
  (match o_res o with
   | None =>
       match post with
       | None => false
       | Some (i, rest) =>
           Nat.eqb (signer_events rest) (expected_csrs hs i) &&
           match nth_error hs i with
           | Some (Regular _) =>
               forallb (fun sc => negb (is_cert_sc sc) ||
                                  existsb (scert_blob_eqb sc) (acked_cert_adds rest)) returned
           | _ => list_eqb scert_eqb (fake_handed rest) returned
           end
       end
   | Some _ => true
   end) &&
  (* no certificate reaches the agent for a request the CA did not sign *)
  forallb (fun b => existsb (fun sc => scert_blob_eqb sc b) returned) (sent_cert_adds log) &&
  forallb (fun sc => existsb (scert_eqb sc) returned) (fake_handed log).

Definition oracle_c04_session (ins : list run_in) (os : list run_obs) : bool :=
  forallb2 (fun ri o => oracle_c04_run (ri_params ri) (ri_handlers ri) (ri_signer ri) o) ins os.

Definition oracle_c04 (c : case) : bool :=
  match c with
  | CSession dir _ _ _ runs => oracle_c04_session (run_ins dir runs) (map cr_obs runs)
  | CNewHandler _ _ => true
  end.

(** * Which branch of the model a case reached (coverage histogram):
    the error code of the model's last run (0 = success), +100 for sessions
    of several runs; 200/201 for handler-construction cases. *)
Definition classify (c : case) : N :=
  match c with
  | CSession dir store0 chal keys runs =>
      let os := model_obs dir store0 chal keys runs in
      (match last os (mkObs None [] []) with
       | {| o_res := None |} => 0
       | {| o_res := Some k |} => gkind_code k
       end) + (if (1 <? length runs)%nat then 100 else 0)
  | CNewHandler raw _ => match decode_conf raw with Some _ => 200 | None => 201 end
  end.

Definition check_with (oracle : case -> bool) (c : case) : N :=
  if negb (oracle c) then 2 else if agree c then 0 else 1.
