(** Model of keyid/keyid.go: KeyID, Marshal, Unmarshal, sanity checkers.
    Tables (JSON field names, required keys per version, versions that have a
    sanity checker, enumerators) come from [Generated.KeyIdGen], which the
    translator regenerates from /repo on every run. *)
From Verif Require Import Lib.Base Lib.Json Generated.KeyIdGen.

Record KeyID := mkKeyID {
  prins : option (list str);      (* nil vs empty slice is observable in JSON *)
  transID : str; reqUser : str; reqIP : str; reqHost : str;
  isFF : bool; isHW : bool; isHeadless : bool; isNonce : bool;
  usage : Z; touch : Z; ver : N }.

Definition zeroKeyID : KeyID :=
  mkKeyID None [] [] [] [] false false false false 0%Z 0%Z 0%N.

Inductive kerr := ESyntax | EType | EUnsupportedVersion | EMissingKey (k : str) | ESanity.

(** ** Sanity checkers, shaped like the code (first failing test wins). *)
Definition sanity_headless (k : KeyID) : bool :=
  if negb (isHeadless k) then true
  else if isHW k then false
  else if isFF k then false
  else if negb (Z.eqb (touch k) never_touch) then false
  else true.
Definition sanity_nonce (k : KeyID) : bool :=
  if negb (isNonce k) then true
  else if isFF k then false
  else if isHeadless k then false
  else if negb (Z.eqb (touch k) never_touch) then false
  else true.
Definition sanity_v1 (k : KeyID) : bool := sanity_headless k && sanity_nonce k.

(** sanityCheckerByVersion[v]: only version 1 has a body in the model; the
    generated [sanity_versions] says which versions the code's table has. *)
Definition sanity_checker (v : N) : option (KeyID -> bool) :=
  if existsb (N.eqb v) sanity_versions
  then (if N.eqb v 1 then Some sanity_v1 else Some (fun _ => true))
  else None.

Definition required_keys (v : N) : option (list str) :=
  match find (fun p => N.eqb (fst p) v) required_keys_by_version with
  | Some p => Some (snd p)
  | None => None
  end.

(** ** Marshal *)
Definition json_of_prins (p : option (list str)) : json :=
  match p with None => JNull | Some l => JArr (map JStr l) end.

(** json.Marshal(kid): every field, in declaration order, under its tag. *)
Definition encode (k : KeyID) : json :=
  JObj (combine keyid_json_names
    [ json_of_prins (prins k); JStr (transID k); JStr (reqUser k); JStr (reqIP k);
      JStr (reqHost k); JBool (isFF k); JBool (isHW k); JBool (isHeadless k);
      JBool (isNonce k); jint_of_Z (usage k); jint_of_Z (touch k);
      jint_of_Z (Z.of_N (ver k)) ]).

Definition marshal (k : KeyID) : result kerr json :=
  match sanity_checker (ver k) with
  | None => Err EUnsupportedVersion
  | Some chk => if chk k then Ok (encode k) else Err ESanity
  end.

(** ** Unmarshal *)
(** One key/value pair of the object decoded into the struct. Field positions
    follow [keyid_json_names] (= struct declaration order). *)
Definition set_field (i : nat) (v : json) (k : KeyID) : KeyID * bool :=
  match i with
  | 0%nat => let '(x, e) := dec_strs (prins k) v in
       (mkKeyID x (transID k) (reqUser k) (reqIP k) (reqHost k) (isFF k) (isHW k) (isHeadless k) (isNonce k) (usage k) (touch k) (ver k), e)
  | 1%nat => let '(x, e) := dec_str (transID k) v in
       (mkKeyID (prins k) x (reqUser k) (reqIP k) (reqHost k) (isFF k) (isHW k) (isHeadless k) (isNonce k) (usage k) (touch k) (ver k), e)
  | 2%nat => let '(x, e) := dec_str (reqUser k) v in
       (mkKeyID (prins k) (transID k) x (reqIP k) (reqHost k) (isFF k) (isHW k) (isHeadless k) (isNonce k) (usage k) (touch k) (ver k), e)
  | 3%nat => let '(x, e) := dec_str (reqIP k) v in
       (mkKeyID (prins k) (transID k) (reqUser k) x (reqHost k) (isFF k) (isHW k) (isHeadless k) (isNonce k) (usage k) (touch k) (ver k), e)
  | 4%nat => let '(x, e) := dec_str (reqHost k) v in
       (mkKeyID (prins k) (transID k) (reqUser k) (reqIP k) x (isFF k) (isHW k) (isHeadless k) (isNonce k) (usage k) (touch k) (ver k), e)
  | 5%nat => let '(x, e) := dec_bool (isFF k) v in
       (mkKeyID (prins k) (transID k) (reqUser k) (reqIP k) (reqHost k) x (isHW k) (isHeadless k) (isNonce k) (usage k) (touch k) (ver k), e)
  | 6%nat => let '(x, e) := dec_bool (isHW k) v in
       (mkKeyID (prins k) (transID k) (reqUser k) (reqIP k) (reqHost k) (isFF k) x (isHeadless k) (isNonce k) (usage k) (touch k) (ver k), e)
  | 7%nat => let '(x, e) := dec_bool (isHeadless k) v in
       (mkKeyID (prins k) (transID k) (reqUser k) (reqIP k) (reqHost k) (isFF k) (isHW k) x (isNonce k) (usage k) (touch k) (ver k), e)
  | 8%nat => let '(x, e) := dec_bool (isNonce k) v in
       (mkKeyID (prins k) (transID k) (reqUser k) (reqIP k) (reqHost k) (isFF k) (isHW k) (isHeadless k) x (usage k) (touch k) (ver k), e)
  | 9%nat => let '(x, e) := dec_int int64_min int64_max (usage k) v in
       (mkKeyID (prins k) (transID k) (reqUser k) (reqIP k) (reqHost k) (isFF k) (isHW k) (isHeadless k) (isNonce k) x (touch k) (ver k), e)
  | 10%nat => let '(x, e) := dec_int int64_min int64_max (touch k) v in
       (mkKeyID (prins k) (transID k) (reqUser k) (reqIP k) (reqHost k) (isFF k) (isHW k) (isHeadless k) (isNonce k) (usage k) x (ver k), e)
  | 11%nat => let '(x, e) := dec_uint uint16_max (ver k) v in
       (mkKeyID (prins k) (transID k) (reqUser k) (reqIP k) (reqHost k) (isFF k) (isHW k) (isHeadless k) (isNonce k) (usage k) (touch k) x, e)
  | _ => (k, false)
  end.

Fixpoint decode_fields (kvs : list (str * json)) (k : KeyID) (e : bool) : KeyID * bool :=
  match kvs with
  | [] => (k, e)
  | (key, v) :: r =>
      match find_field keyid_json_names key with
      | Some i => let '(k', e') := set_field i v k in decode_fields r k' (e || e')
      | None => decode_fields r k e
      end
  end.

(** json.Unmarshal(text, &KeyID{}) on a syntactically valid text with tree [j]. *)
Definition decode_struct (j : json) : result kerr KeyID :=
  match j with
  | JObj kvs => let '(k, e) := decode_fields kvs zeroKeyID false in
                if e then Err EType else Ok k
  | JNull => Ok zeroKeyID
  | _ => Err EType
  end.

Fixpoint first_missing (kvs : list (str * json)) (req : list str) : option str :=
  match req with
  | [] => None
  | r :: rest => if obj_has_key kvs r then first_missing kvs rest else Some r
  end.

Definition top_kvs (j : json) : list (str * json) :=
  match j with JObj kvs => kvs | _ => [] end.

(** keyid.Unmarshal; [None] = the text is not syntactically valid JSON. *)
Definition unmarshal (t : option json) : result kerr KeyID :=
  match t with
  | None => Err ESyntax
  | Some j =>
      rlet k := decode_struct j in
      match required_keys (ver k) with
      | None => Err EUnsupportedVersion
      | Some req =>
          match first_missing (top_kvs j) req with
          | Some m => Err (EMissingKey m)
          | None =>
              match sanity_checker (ver k) with
              | None => Err EUnsupportedVersion
              | Some chk => if chk k then Ok k else Err ESanity
              end
          end
      end
  end.

(** ** The property's own words (written independently of the code's shape). *)
Definition supported_version (v : N) : bool := N.eqb v 1.
Definition consistent_spec (k : KeyID) : bool :=
  (implb (isHeadless k) (negb (isHW k) && negb (isFF k) && Z.eqb (touch k) 1)) &&
  (implb (isNonce k) (negb (isFF k) && negb (isHeadless k) && Z.eqb (touch k) 1)).
Definition required_spec : list str :=
  map tx ["prins"; "transID"; "reqUser"; "reqIP"; "reqHost"; "isFirefighter";
          "isHWKey"; "isHeadless"; "isNonce"; "touchPolicy"; "ver"]%string.

Definition keyid_eqb (a b : KeyID) : bool :=
  option_eqb (list_eqb str_eqb) (prins a) (prins b) &&
  str_eqb (transID a) (transID b) && str_eqb (reqUser a) (reqUser b) &&
  str_eqb (reqIP a) (reqIP b) && str_eqb (reqHost a) (reqHost b) &&
  Bool.eqb (isFF a) (isFF b) && Bool.eqb (isHW a) (isHW b) &&
  Bool.eqb (isHeadless a) (isHeadless b) && Bool.eqb (isNonce a) (isNonce b) &&
  Z.eqb (usage a) (usage b) && Z.eqb (touch a) (touch b) && N.eqb (ver a) (ver b).

(** Go-representable: what every Go value of the struct satisfies. *)
Definition in_range (k : KeyID) : bool :=
  (int64_min <=? usage k)%Z && (usage k <=? int64_max)%Z &&
  (int64_min <=? touch k)%Z && (touch k <=? int64_max)%Z &&
  (ver k <=? uint16_max)%N.
