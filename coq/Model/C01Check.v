(** C01: case type, property oracle and check (shared definitions live in
    Model/GensignCheck.v; the case is a session of runs against one agent). *)
From Verif Require Import Lib.Base Model.Gensign Model.GensignCheck.

Definition case := GensignCheck.case.
Definition oracle : case -> bool := oracle_c01.
(** 0 model and implementation agree and the oracle accepts; 1 they disagree
    but the oracle still accepts the implementation's observation; 2 the
    oracle rejects the implementation's observation. *)
Definition check (c : case) : N := check_with oracle_c01 c.
Definition classify (c : case) : N := GensignCheck.classify c.
