(** Correspondence check and property oracle for C12 (executable; no proofs).

    A case = the byte stream fed to the real yubiagent.ServeAgent, what the
    harness knows about the environment (which byte strings the real ssh key
    parser accepts; the PEM the scripted agent returns), and the observation:
    panic?, return value class, the response frames parsed from the output. *)
From Verif Require Import Lib.Base Lib.Bytes Lib.Wire Generated.YubiAgentGen
  Model.Frames Model.Wire Model.Serve Model.AgentStd.
Local Open Scope N_scope.

Record obs := mkObs {
  o_panic : bool;            (* ServeAgent panicked *)
  o_err : bool;              (* it returned a non-nil error *)
  o_frames : list bytes;     (* bodies of the response frames, in order *)
  o_junk : bool }.           (* the output did not parse as whole frames *)

Inductive case :=
| CServe (exact : bool) (keytab : list (bytes * bool)) (pem : bytes) (stream : bytes) (o : obs)
(* one standard-class request body handed to x/crypto's agent server alone:
   did it panic while slicing the key constraints (the panic ServeAgent
   recovers from)?  Compared with [AgentStd.dec_req]. *)
| CStdDec (req : bytes) (constraint_panic : bool).

(** * The environment of a run.
    [exact = true]: the harness's scripted agent, whose answers are these
    functions of the arguments (the Go side implements the same functions);
    [exact = false]: the concrete remote-mode server over a real upstream
    agent - only the number of response frames and the ending are compared. *)
Definition lookup_key (keytab : list (bytes * bool)) (b : bytes) : option bytes :=
  match find (fun p => bytes_eqb (fst p) b) keytab with
  | Some (_, true) => Some b
  | _ => None
  end.

Definition bx (s : String.string) : bytes := tx s.

Definition fake_add (k cm : bytes) : option bytes :=
  if N.of_nat (length cm) mod 3 =? 1 then Some (bx "add:" ++ cm) else None.
Definition fake_list : list bytes * option bytes := ([bx "9a"; bx "9c"; bx "82"], None).
Definition fake_read (pem slot : bytes) : bytes * option bytes :=
  if bytes_eqb slot (bx "9a") then (pem, None)
  else ([], Some (bx "no certificate in slot " ++ slot)).
Definition fake_attest (pem slot : bytes) : bytes * option bytes :=
  if bytes_eqb slot (bx "9a") then (pem, None)
  else ([], Some (bx "cannot attest slot " ++ slot)).
Definition fake_wait (c : N) : option bytes :=
  if c mod 2 =? 1 then Some (bx "wait:" ++ [c]) else None.
Definition fake_fwd (req : bytes) : option bytes :=
  if N.of_nat (length req) mod 5 =? 4 then None else Some (170 :: req).

Definition fake_env (keytab : list (bytes * bool)) (pem : bytes) : env :=
  mkEnv (lookup_key keytab)
        (fun _ => fake_add) (fun _ => fake_list)
        (fun _ => fake_read pem) (fun _ => fake_attest pem)
        (fun _ => fake_wait)
        (fun _ _ => Some []) (fun _ => fake_fwd).

Definition real_env (keytab : list (bytes * bool)) : env :=
  mkEnv (lookup_key keytab)
        (fun _ _ _ => None) (fun _ => ([], Some (bx "refused")))
        (fun _ _ => ([], Some (bx "refused"))) (fun _ _ => ([], Some (bx "refused")))
        (fun _ _ => None)
        (fun _ _ => Some []) (fun _ _ => Some []).

Definition env_of (exact : bool) keytab pem : env :=
  if exact then fake_env keytab pem else real_env keytab.

(** * The property, evaluated on an observation.
    [fs]: the complete request frames at the head of the stream, [t]: what
    follows them.  [answered_prefix]: how many leading frames are answerable
    (well-formed and the served side has an answer that fits a frame).
    - never a crash, and the output is whole frames;
    - all complete frames answerable: exactly one response per request, and a
      clean end gives nil, a cut prefix / cut body / oversized or zero length
      gives an error (a stream that ends right after a complete prefix only
      has to end the connection: either value is accepted);
    - otherwise: at least the answerable head was answered, and never more
      responses than requests. *)
Fixpoint answered_prefix (e : env) (i : nat) (fs : list bytes) : nat :=
  match fs with
  | [] => O
  | f :: r => if answerable e i f then S (answered_prefix e (S i) r) else O
  end.

Definition oracle (e : env) (s : bytes) (o : obs) : bool :=
  negb (o_panic o) && negb (o_junk o) &&
  let '(fs, t) := stream_frames s in
  let n := length (o_frames o) in
  if (answered_prefix e 0 fs =? length fs)%nat then
    (n =? length fs)%nat &&
    match t with
    | TClean => negb (o_err o)
    | TBodyMissing => true
    | _ => o_err o
    end
  else (answered_prefix e 0 fs <=? n)%nat && (n <=? length fs)%nat.

(** The model's result as an observation. *)
Definition is_err (en : ending) : bool := match en with EndNil => false | EndErr _ => true end.
Definition obs_of (r : list response * ending) : obs :=
  mkObs false (is_err (snd r)) (map snd (fst r)) false.

Fixpoint frames_agree (exact : bool) (rs : list response) (fs : list bytes) : bool :=
  match rs, fs with
  | [], [] => true
  | (cls, b) :: rs', f :: fs' =>
      (negb exact || (cls =? 6) || bytes_eqb b f) && frames_agree exact rs' fs'
  | _, _ => false
  end.

Definition check (c : case) : N :=
  match c with
  | CServe exact keytab pem stream o =>
      let e := env_of exact keytab pem in
      if negb (oracle e stream o) then 2
      else match serve e stream with
           | Panic => 1
           | Val (rs, en) =>
               if negb (o_panic o) && negb (o_junk o) && Bool.eqb (is_err en) (o_err o)
                  && frames_agree exact rs (o_frames o)
               then 0 else 1
           end
  | CStdDec req p =>
      match AgentStd.dec_req req with
      | Panic => if p then 0 else 1
      | Val _ => if p then 1 else 0
      end
  end.

(** Which way the model's service ended (coverage histogram):
    10 nil after >= 1 reply, 11 nil with no reply, 20.. error kinds, 99 panic. *)
Definition classify (c : case) : N :=
  match c with
  | CServe exact keytab pem stream _ =>
      match serve (env_of exact keytab pem) stream with
      | Panic => 99
      | Val (rs, EndNil) => match rs with [] => 11 | _ => 10 end
      | Val (_, EndErr EUnexpectedEOF) => 20
      | Val (_, EndErr ETooLarge) => 21
      | Val (_, EndErr EZeroLen) => 22
      | Val (_, EndErr EWaitShort) => 23
      | Val (_, EndErr EAddDecode) => 24
      | Val (_, EndErr EStd) => 25
      | Val (_, EndErr EForward) => 26
      | Val (_, EndErr EWrite) => 27
      | Val (_, EndErr EEof) => 28
      end
  | CStdDec req _ =>
      match AgentStd.dec_req req with
      | Panic => 30
      | Val None => 31
      | Val (Some _) => 32
      end
  end.
