(** Model of message/{attrs,marshal,sanity}.go: Attributes, sanityCheck,
    populate, Marshal (JSON for ifVer >= threshold, legacy text below),
    Unmarshal (JSON first, legacy fall-back), MarshalLegacy, UnmarshalLegacy,
    parseAttrsLegacy.

    JSON is modelled at the tree level ([Lib.Json]); the legacy format at the
    text level ([Lib.Str], code points).  Field tables, attribute names, the
    interface-version threshold and the required-field list come from
    [Generated.MessageGen] (regenerated from /repo on every run).

    Every Go index / slice expression is a [go_index] / [go_slice] / [go_from],
    so "never panics" is a theorem, not an artefact.  No proofs here. *)
From Verif Require Import Lib.Base Lib.Json Lib.Str Generated.MessageGen.

Record TouchlessSudo := mkTS { tsFF : bool; tsHosts : str; tsTime : Z }.

(** [touchlessSudo = None] is the nil pointer; [exts = None] is the nil map,
    [Some kvs] a map rendered canonically: keys strictly increasing (code-point
    order = byte order of UTF-8, which is how encoding/json sorts map keys),
    values as JSON trees of what json.Marshal prints for them. *)
Record Attributes := mkAttrs {
  ifVer : Z; username : str; hostname : str; sshClientVersion : str;
  caPubKeyAlgo : Z; signatureAlgo : Z; hardKey : bool; touch2SSH : bool;
  touchlessSudo : option TouchlessSudo;
  exts : option (list (str * json)) }.

Definition zeroTS : TouchlessSudo := mkTS false [] 0%Z.
Definition zeroAttrs : Attributes := mkAttrs 0%Z [] [] [] 0%Z 0%Z false false None None.

(** Error codes (the harness maps error texts onto the same numbers):
    1 empty ssh client version, 2 empty user name, 3 empty host name,
    4 requester field missing, 5 requester not of the form user@host. *)
Definition merr := N.

(** ** sanityCheck / populate *)
Definition required_field (name : str) (a : Attributes) : option (N * str) :=
  if str_eqb name (tx "SSHClientVersion") then Some (1%N, sshClientVersion a)
  else if str_eqb name (tx "Username") then Some (2%N, username a)
  else if str_eqb name (tx "Hostname") then Some (3%N, hostname a)
  else None.

Fixpoint sanity_fields (req : list str) (a : Attributes) : option merr :=
  match req with
  | [] => None
  | f :: r =>
      match required_field f a with
      | Some (code, v) => if is_empty v then Some code else sanity_fields r a
      | None => sanity_fields r a
      end
  end.
(** [None] = the check passes. *)
Definition sanity (a : Attributes) : option merr := sanity_fields sanity_required a.

Definition populate (a : Attributes) : Attributes :=
  match touchlessSudo a with
  | Some _ => a
  | None => mkAttrs (ifVer a) (username a) (hostname a) (sshClientVersion a) (caPubKeyAlgo a)
                    (signatureAlgo a) (hardKey a) (touch2SSH a) (Some zeroTS) (exts a)
  end.

(** ** Canonical rendering of decoded [interface{}] values and maps.
    json.Unmarshal into [interface{}] builds map[string]interface{} (a later
    duplicate key replaces the earlier value) and []interface{}; json.Marshal
    prints a map with its keys sorted.  [insert] keeps an association list
    sorted by key, replacing on an equal key.  Numbers become float64: the
    literal is kept, which is exact for integers of magnitude <= 2^53
    ([num_exact]); other literals are outside the compared fragment. *)
Fixpoint str_ltb (a b : str) : bool :=
  match a, b with
  | [], [] => false
  | [], _ :: _ => true
  | _ :: _, [] => false
  | x :: a', y :: b' => (x <? y)%N || ((x =? y)%N && str_ltb a' b')
  end.

Fixpoint insert (k : str) (v : json) (m : list (str * json)) : list (str * json) :=
  match m with
  | [] => [(k, v)]
  | (k', v') :: r =>
      if str_eqb k k' then (k, v) :: r
      else if str_ltb k k' then (k, v) :: m
      else (k', v') :: insert k v r
  end.

Fixpoint canon (j : json) : json :=
  match j with
  | JArr xs => JArr ((fix go (l : list json) : list json :=
                        match l with [] => [] | x :: r => canon x :: go r end) xs)
  | JObj kvs => JObj ((fix go (l : list (str * json)) (acc : list (str * json)) : list (str * json) :=
                         match l with
                         | [] => acc
                         | (k, v) :: r => go r (insert k (canon v) acc)
                         end) kvs [])
  | _ => j
  end.

Fixpoint insert_all (kvs : list (str * json)) (acc : list (str * json)) : list (str * json) :=
  match kvs with
  | [] => acc
  | (k, v) :: r => insert_all r (insert k (canon v) acc)
  end.

Definition num_exact (n : jnum) : bool :=
  match n with JInt _ m => (m <=? 2 ^ 53)%N | JOther _ => false end.
Fixpoint nums_exact (j : json) : bool :=
  match j with
  | JNum n => num_exact n
  | JArr xs => (fix go (l : list json) : bool :=
                  match l with [] => true | x :: r => nums_exact x && go r end) xs
  | JObj kvs => (fix go (l : list (str * json)) : bool :=
                   match l with [] => true | (_, v) :: r => nums_exact v && go r end) kvs
  | _ => true
  end.

(** Canonical form, structurally: object keys strictly increasing at every
    level, numbers in the exact fragment. *)
Fixpoint keys_increasing (prev : option str) (kvs : list (str * json)) : bool :=
  match kvs with
  | [] => true
  | (k, _) :: r =>
      match prev with None => true | Some p => str_ltb p k end && keys_increasing (Some k) r
  end.
Fixpoint is_canon (j : json) : bool :=
  match j with
  | JNum n => num_exact n
  | JArr xs => (fix go (l : list json) : bool :=
                  match l with [] => true | x :: r => is_canon x && go r end) xs
  | JObj kvs => keys_increasing None kvs &&
                (fix go (l : list (str * json)) : bool :=
                   match l with [] => true | (_, v) :: r => is_canon v && go r end) kvs
  | _ => true
  end.

(** ** Marshal *)
Definition entry (names : list str) (omit : list bool) (i : nat) (v : json) (empty : bool)
  : list (str * json) :=
  if nth i omit false && empty then [] else [(nth i names [], v)].

Definition encode_ts (t : TouchlessSudo) : json :=
  JObj (entry ts_json_names ts_omitempty 0 (JBool (tsFF t)) (negb (tsFF t)) ++
        entry ts_json_names ts_omitempty 1 (JStr (tsHosts t)) (is_empty (tsHosts t)) ++
        entry ts_json_names ts_omitempty 2 (jint_of_Z (tsTime t)) (Z.eqb (tsTime t) 0)).

Definition attr_entry := entry attrs_json_names attrs_omitempty.

(** json.Marshal(a): fields in declaration order, omitempty as tagged. *)
Definition marshal_json (a : Attributes) : json :=
  JObj (attr_entry 0 (jint_of_Z (ifVer a)) (Z.eqb (ifVer a) 0) ++
        attr_entry 1 (JStr (username a)) (is_empty (username a)) ++
        attr_entry 2 (JStr (hostname a)) (is_empty (hostname a)) ++
        attr_entry 3 (JStr (sshClientVersion a)) (is_empty (sshClientVersion a)) ++
        attr_entry 4 (jint_of_Z (caPubKeyAlgo a)) (Z.eqb (caPubKeyAlgo a) 0) ++
        attr_entry 5 (jint_of_Z (signatureAlgo a)) (Z.eqb (signatureAlgo a) 0) ++
        attr_entry 6 (JBool (hardKey a)) (negb (hardKey a)) ++
        attr_entry 7 (JBool (touch2SSH a)) (negb (touch2SSH a)) ++
        attr_entry 8 (match touchlessSudo a with Some t => encode_ts t | None => JNull end)
                     (match touchlessSudo a with Some _ => false | None => true end) ++
        attr_entry 9 (JObj (match exts a with Some m => m | None => [] end))
                     (match exts a with Some (_ :: _) => false | _ => true end)).

Definition kv_token (k v : str) : str := k ++ 61%N :: v.
Definition true_text : str := tx "true".

(** The tokens MarshalLegacy joins with single spaces. *)
Definition legacy_tokens (a : Attributes) : list str :=
  [ legacy_interface_version;
    kv_token ssh_client_version_attr (sshClientVersion a);
    kv_token requester_attr (username a ++ 64%N :: hostname a) ] ++
  (if hardKey a then [kv_token hard_key_attr true_text] else []) ++
  (if touch2SSH a then [kv_token touch2ssh_attr true_text] else []) ++
  match touchlessSudo a with
  | None => []
  | Some t =>
      (if tsFF t then [kv_token is_firefighter_attr true_text] else []) ++
      (if is_empty (tsHosts t) then [] else [kv_token touchless_sudo_hosts_attr (tsHosts t)]) ++
      (if Z.eqb (tsTime t) 0 then [] else [kv_token touchless_sudo_time_attr (print_Z (tsTime t))])
  end.
Definition marshal_legacy (a : Attributes) : str := join 32%N (legacy_tokens a).

Inductive wire := WJson (j : json) | WLegacy (t : str).

Definition marshal (a : Attributes) : result merr wire :=
  match sanity a with
  | Some c => Err c
  | None =>
      if (ifVer a <? json_ifver_threshold)%Z then Ok (WLegacy (marshal_legacy a))
      else Ok (WJson (marshal_json a))
  end.

(** ** UnmarshalLegacy *)
(** One trimmed, non-empty token: split at the FIRST '='. *)
Definition parse_token (t : str) : outcome (str * str) :=
  match index_of_char 61%N t with
  | None => Val (t, [])
  | Some i =>
      olet k := go_slice t 0 i in
      olet v := go_from t (S i) in
      Val (k, v)
  end.

(** The attribute map, most recent assignment FIRST (so [lookup] finds the
    value a Go map would hold after all assignments). *)
Fixpoint parse_tokens (ts : list str) (m : list (str * str)) : outcome (list (str * str)) :=
  match ts with
  | [] => Val m
  | t :: r =>
      let t' := trim_space t in
      if is_empty t' then parse_tokens r m
      else olet kv := parse_token t' in parse_tokens r (kv :: m)
  end.
Definition parse_attrs_legacy (text : str) : outcome (list (str * str)) :=
  parse_tokens (split_on 32%N text) [].

Fixpoint lookup (k : str) (m : list (str * str)) : option str :=
  match m with
  | [] => None
  | (k', v) :: r => if str_eqb k k' then Some v else lookup k r
  end.

(** The Exts map UnmarshalLegacy builds: every key of the attribute map with
    its final value, as a string. *)
Definition exts_of_pairs (m : list (str * str)) : list (str * json) :=
  insert_all (map (fun p => (fst p, JStr (snd p))) (rev m)) [].

Definition unmarshal_legacy (text : str) : outcome (result merr Attributes) :=
  olet m := parse_attrs_legacy text in
  let ifv := match lookup ifver_attr m with Some v => parse_int_value v | None => 0%Z end in
  let ver := match lookup ssh_client_version_attr m with Some v => v | None => [] end in
  match lookup requester_attr m with
  | None => Val (Err 4%N)
  | Some rq =>
      let fields := split_on 64%N rq in
      if negb (Nat.eqb (length fields) 2) then Val (Err 5%N)
      else
        olet u := go_index fields 0 in
        olet h := go_index fields 1 in
        let hk := match lookup hard_key_attr m with Some v => parse_bool_value v | None => false end in
        let t2 := match lookup touch2ssh_attr m with Some v => parse_bool_value v | None => false end in
        let ff := match lookup is_firefighter_attr m with Some v => parse_bool_value v | None => false end in
        let hosts := match lookup touchless_sudo_hosts_attr m with Some v => v | None => [] end in
        let time := match lookup touchless_sudo_time_attr m with Some v => parse_int_value v | None => 0%Z end in
        Val (Ok (mkAttrs ifv u h ver 0%Z 0%Z hk t2 (Some (mkTS ff hosts time))
                         (Some (exts_of_pairs m))))
  end.

(** ** JSON struct decoding (json.Unmarshal(text, attrs) with attrs = &Attributes{}) *)
Definition set_ts_field (i : nat) (v : json) (t : TouchlessSudo) : TouchlessSudo * bool :=
  match i with
  | 0%nat => let '(x, e) := dec_bool (tsFF t) v in (mkTS x (tsHosts t) (tsTime t), e)
  | 1%nat => let '(x, e) := dec_str (tsHosts t) v in (mkTS (tsFF t) x (tsTime t), e)
  | 2%nat => let '(x, e) := dec_int int64_min int64_max (tsTime t) v in (mkTS (tsFF t) (tsHosts t) x, e)
  | _ => (t, false)
  end.

Fixpoint decode_ts_fields (kvs : list (str * json)) (t : TouchlessSudo) (e : bool) : TouchlessSudo * bool :=
  match kvs with
  | [] => (t, e)
  | (key, v) :: r =>
      match find_field ts_json_names key with
      | Some i => let '(t', e') := set_ts_field i v t in decode_ts_fields r t' (e || e')
      | None => decode_ts_fields r t e
      end
  end.

(** *TouchlessSudo: null sets nil; an object allocates when nil and otherwise
    decodes INTO the existing struct; anything else is a type error. *)
Definition dec_ts (old : option TouchlessSudo) (v : json) : option TouchlessSudo * bool :=
  match v with
  | JNull => (None, false)
  | JObj kvs =>
      let '(t, e) := decode_ts_fields kvs (match old with Some t => t | None => zeroTS end) false in
      (Some t, e)
  | _ => (old, true)
  end.

(** map[string]interface{}: null sets nil; an object allocates when nil and
    otherwise ADDS to the existing map (a repeated key replaces the value). *)
Definition dec_exts (old : option (list (str * json))) (v : json) : option (list (str * json)) * bool :=
  match v with
  | JNull => (None, false)
  | JObj kvs => (Some (insert_all kvs (match old with Some m => m | None => [] end)), false)
  | _ => (old, true)
  end.

Definition set_field (i : nat) (v : json) (a : Attributes) : Attributes * bool :=
  match i with
  | 0%nat => let '(x, e) := dec_int int64_min int64_max (ifVer a) v in
       (mkAttrs x (username a) (hostname a) (sshClientVersion a) (caPubKeyAlgo a) (signatureAlgo a) (hardKey a) (touch2SSH a) (touchlessSudo a) (exts a), e)
  | 1%nat => let '(x, e) := dec_str (username a) v in
       (mkAttrs (ifVer a) x (hostname a) (sshClientVersion a) (caPubKeyAlgo a) (signatureAlgo a) (hardKey a) (touch2SSH a) (touchlessSudo a) (exts a), e)
  | 2%nat => let '(x, e) := dec_str (hostname a) v in
       (mkAttrs (ifVer a) (username a) x (sshClientVersion a) (caPubKeyAlgo a) (signatureAlgo a) (hardKey a) (touch2SSH a) (touchlessSudo a) (exts a), e)
  | 3%nat => let '(x, e) := dec_str (sshClientVersion a) v in
       (mkAttrs (ifVer a) (username a) (hostname a) x (caPubKeyAlgo a) (signatureAlgo a) (hardKey a) (touch2SSH a) (touchlessSudo a) (exts a), e)
  | 4%nat => let '(x, e) := dec_int int64_min int64_max (caPubKeyAlgo a) v in
       (mkAttrs (ifVer a) (username a) (hostname a) (sshClientVersion a) x (signatureAlgo a) (hardKey a) (touch2SSH a) (touchlessSudo a) (exts a), e)
  | 5%nat => let '(x, e) := dec_int int64_min int64_max (signatureAlgo a) v in
       (mkAttrs (ifVer a) (username a) (hostname a) (sshClientVersion a) (caPubKeyAlgo a) x (hardKey a) (touch2SSH a) (touchlessSudo a) (exts a), e)
  | 6%nat => let '(x, e) := dec_bool (hardKey a) v in
       (mkAttrs (ifVer a) (username a) (hostname a) (sshClientVersion a) (caPubKeyAlgo a) (signatureAlgo a) x (touch2SSH a) (touchlessSudo a) (exts a), e)
  | 7%nat => let '(x, e) := dec_bool (touch2SSH a) v in
       (mkAttrs (ifVer a) (username a) (hostname a) (sshClientVersion a) (caPubKeyAlgo a) (signatureAlgo a) (hardKey a) x (touchlessSudo a) (exts a), e)
  | 8%nat => let '(x, e) := dec_ts (touchlessSudo a) v in
       (mkAttrs (ifVer a) (username a) (hostname a) (sshClientVersion a) (caPubKeyAlgo a) (signatureAlgo a) (hardKey a) (touch2SSH a) x (exts a), e)
  | 9%nat => let '(x, e) := dec_exts (exts a) v in
       (mkAttrs (ifVer a) (username a) (hostname a) (sshClientVersion a) (caPubKeyAlgo a) (signatureAlgo a) (hardKey a) (touch2SSH a) (touchlessSudo a) x, e)
  | _ => (a, false)
  end.

Fixpoint decode_fields (kvs : list (str * json)) (a : Attributes) (e : bool) : Attributes * bool :=
  match kvs with
  | [] => (a, e)
  | (key, v) :: r =>
      match find_field attrs_json_names key with
      | Some i => let '(a', e') := set_field i v a in decode_fields r a' (e || e')
      | None => decode_fields r a e
      end
  end.

(** [None] = json.Unmarshal returns an error (a type error somewhere); the
    top-level [null] is a no-op on the struct. *)
Definition decode_struct (j : json) : option Attributes :=
  match j with
  | JObj kvs => let '(a, e) := decode_fields kvs zeroAttrs false in
                if e then None else Some a
  | JNull => Some zeroAttrs
  | _ => None
  end.

(** ** message.Unmarshal.  The input is the text (code points) together with
    its JSON tree ([None] = not syntactically valid JSON). *)
Definition unmarshal (text : str) (tree : option json) : outcome (result merr Attributes) :=
  match match tree with Some j => decode_struct j | None => None end with
  | None => unmarshal_legacy text
  | Some a =>
      match sanity a with
      | Some c => Val (Err c)
      | None => Val (Ok (populate a))
      end
  end.

(** ** The property's own words. *)
(** "non-empty client version, user and host" *)
Definition sanity_spec (a : Attributes) : bool :=
  negb (is_empty (sshClientVersion a)) && negb (is_empty (username a)) && negb (is_empty (hostname a)).

(** "free of whitespace and '@'" *)
Definition clean (s : str) : bool := negb (has_space s) && negb (contains_char 64%N s).
Definition legacy_clean (a : Attributes) : bool :=
  clean (sshClientVersion a) && clean (username a) && clean (hostname a) &&
  match touchlessSudo a with Some t => clean (tsHosts t) | None => true end.
(** What the round-trip proof actually needs (weaker): no whitespace anywhere,
    no '@' in user and host. *)
Definition legacy_clean_min (a : Attributes) : bool :=
  negb (has_space (sshClientVersion a)) && clean (username a) && clean (hostname a) &&
  match touchlessSudo a with Some t => negb (has_space (tsHosts t)) | None => true end.

Definition ts_eqb (a b : TouchlessSudo) : bool :=
  Bool.eqb (tsFF a) (tsFF b) && str_eqb (tsHosts a) (tsHosts b) && Z.eqb (tsTime a) (tsTime b).
(** touchless-sudo fields: the nil pointer stands for all-zero fields *)
Definition ts_fields (t : option TouchlessSudo) : TouchlessSudo :=
  match t with Some x => x | None => zeroTS end.
(** extension maps: nil and empty maps hold the same (no) entries *)
Definition exts_entries (e : option (list (str * json))) : list (str * json) :=
  match e with Some m => m | None => [] end.
Definition kvs_eqb (a b : list (str * json)) : bool := json_eqb (JObj a) (JObj b).

(** all fields equal *)
Definition attrs_equiv (a b : Attributes) : bool :=
  Z.eqb (ifVer a) (ifVer b) && str_eqb (username a) (username b) &&
  str_eqb (hostname a) (hostname b) && str_eqb (sshClientVersion a) (sshClientVersion b) &&
  Z.eqb (caPubKeyAlgo a) (caPubKeyAlgo b) && Z.eqb (signatureAlgo a) (signatureAlgo b) &&
  Bool.eqb (hardKey a) (hardKey b) && Bool.eqb (touch2SSH a) (touch2SSH b) &&
  ts_eqb (ts_fields (touchlessSudo a)) (ts_fields (touchlessSudo b)) &&
  kvs_eqb (exts_entries (exts a)) (exts_entries (exts b)).

(** exact equality of the Go values (nil-ness included), for model-vs-
    implementation comparison *)
Definition attrs_eqb (a b : Attributes) : bool :=
  Z.eqb (ifVer a) (ifVer b) && str_eqb (username a) (username b) &&
  str_eqb (hostname a) (hostname b) && str_eqb (sshClientVersion a) (sshClientVersion b) &&
  Z.eqb (caPubKeyAlgo a) (caPubKeyAlgo b) && Z.eqb (signatureAlgo a) (signatureAlgo b) &&
  Bool.eqb (hardKey a) (hardKey b) && Bool.eqb (touch2SSH a) (touch2SSH b) &&
  option_eqb ts_eqb (touchlessSudo a) (touchlessSudo b) &&
  option_eqb kvs_eqb (exts a) (exts b).

(** The raw tokens the legacy format carries for [a], as the extension map
    must mirror them (written from the property text, not from the parser). *)
Definition legacy_spec_pairs (a : Attributes) : list (str * str) :=
  [ (tx "IFVer", tx "6"); (tx "SSHClientVersion", sshClientVersion a);
    (tx "req", username a ++ 64%N :: hostname a) ] ++
  (if hardKey a then [(tx "HardKey", tx "true")] else []) ++
  (if touch2SSH a then [(tx "Touch2SSH", tx "true")] else []) ++
  (let t := ts_fields (touchlessSudo a) in
   (if tsFF t then [(tx "IsFirefighter", tx "true")] else []) ++
   (if is_empty (tsHosts t) then [] else [(tx "TouchlessSudoHosts", tsHosts t)]) ++
   (if Z.eqb (tsTime t) 0 then [] else [(tx "TouchlessSudoTime", print_Z (tsTime t))])).
Definition spec_exts (a : Attributes) : list (str * json) :=
  insert_all (map (fun p => (fst p, JStr (snd p))) (legacy_spec_pairs a)) [].

(** Go-representable, canonical attribute sets. *)
Definition in_int64 (z : Z) : bool := (int64_min <=? z)%Z && (z <=? int64_max)%Z.
Definition in_range (a : Attributes) : bool :=
  in_int64 (ifVer a) && in_int64 (caPubKeyAlgo a) && in_int64 (signatureAlgo a) &&
  match touchlessSudo a with Some t => in_int64 (tsTime t) | None => true end.
Definition exts_canonical (a : Attributes) : bool :=
  match exts a with Some m => is_canon (JObj m) | None => true end.

(** [normalize]: what "comes back equal" means on the Go values: populate's
    allocation of the touchless-sudo struct, and an empty map reads back as nil
    (omitempty drops it). *)
Definition norm_exts (x : option (list (str * json))) : option (list (str * json)) :=
  match x with Some [] => None | y => y end.
Definition normalize (a : Attributes) : Attributes :=
  let p := populate a in
  mkAttrs (ifVer p) (username p) (hostname p) (sshClientVersion p) (caPubKeyAlgo p)
          (signatureAlgo p) (hardKey p) (touch2SSH p) (touchlessSudo p)
          (norm_exts (exts p)).
