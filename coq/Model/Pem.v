(** Model of agent/utils/parse.go: ParsePEMCertificates / ParsePEMCertificate.

    [pem.Decode] (standard library) is the argument [decode]: the first block
    of [data] and the rest, or None; the certificate parser is the argument
    [parse_cert].  The loop `for len(data) != 0` runs on fuel = length of the
    input; [None] = fuel exhausted, which cannot happen when [decode] returns a
    strictly shorter rest ([PemProofs.pem_fuel]).  No proofs here. *)
From Verif Require Import Lib.Base Lib.Bytes.
Local Open Scope N_scope.

(** bytes.TrimSpace(data) is empty: every rune of [data] is white space.
    ASCII: \t \n \v \f \r space; beyond ASCII, unicode.IsSpace on the UTF-8
    decoding: U+0085, U+00A0, U+1680, U+2000..U+200A, U+2028, U+2029, U+202F,
    U+205F, U+3000 (an invalid or non-minimal sequence decodes to U+FFFD, not
    a space). *)
Definition ascii_space (b : N) : bool :=
  (b =? 9) || (b =? 10) || (b =? 11) || (b =? 12) || (b =? 13) || (b =? 32).
Definition space2 (b c : N) : bool := (b =? 194) && ((c =? 133) || (c =? 160)).
Definition space3 (b c d : N) : bool :=
  ((b =? 225) && (c =? 154) && (d =? 128)) ||
  ((b =? 226) && (c =? 128) && (((128 <=? d) && (d <=? 138)) || (d =? 168) || (d =? 169) || (d =? 175))) ||
  ((b =? 226) && (c =? 129) && (d =? 159)) ||
  ((b =? 227) && (c =? 128) && (d =? 128)).

Fixpoint is_blank (bs : bytes) : bool :=
  match bs with
  | [] => true
  | b :: r =>
      if ascii_space b then is_blank r
      else match r with
           | [] => false
           | c :: r2 =>
               if space2 b c then is_blank r2
               else match r2 with
                    | [] => false
                    | d :: r3 => if space3 b c d then is_blank r3 else false
                    end
           end
  end.

Inductive pemerr := PGarbage | PParse.

Section Loop.
  Context {block cert : Type}.
  Variable decode : bytes -> option (block * bytes).
  Variable parse_cert : block -> option cert.

  Fixpoint pem_loop (fuel : nat) (data : bytes) (certs : list cert) : option (result pemerr (list cert)) :=
    match data with
    | [] => Some (Ok certs)
    | _ :: _ =>
        match fuel with
        | O => None
        | S f =>
            match decode data with
            | None => if is_blank data then Some (Ok certs) else Some (Err PGarbage)
            | Some (b, rest) =>
                match parse_cert b with
                | None => Some (Err PParse)
                | Some c => pem_loop f rest (certs ++ [c])
                end
            end
        end
    end.

  Definition parse_pem_certificates (data : bytes) : option (result pemerr (list cert)) :=
    pem_loop (length data) data [].

  (** ParsePEMCertificate: the first certificate; an empty bundle is an error. *)
  Inductive pem1err := P1 (e : pemerr) | P1NotFound.
  Definition parse_pem_certificate (data : bytes) : option (result pem1err cert) :=
    match parse_pem_certificates data with
    | None => None
    | Some (Err e) => Some (Err (P1 e))
    | Some (Ok []) => Some (Err P1NotFound)
    | Some (Ok (c :: _)) => Some (Ok c)
    end.
End Loop.
