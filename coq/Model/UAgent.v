(** The underlying ssh-agent as the shim sees it through one connection.

    This is the Gallina twin of the harness's scripted agent
    (harness/shimsim/agent.go + proxy.go); both are ours, so the model is exact
    by construction:

    - identities are an ordered list of blob ids (comments are projected away);
    - add: replace-in-place when the blob is already held (the list of blob ids
      is then unchanged), append otherwise;
    - remove: fails when the blob is missing, keeps the order of the rest;
    - passphrase lock: while locked, list answers the empty list, every other
      request fails; unlock needs the same passphrase; lock when locked and
      unlock when not locked fail;
    - sign: fails when the blob is missing or the agent is locked;
    - a frame-level proxy in front of it numbers the request frames it receives
      ([reqno]) and injects the fault the script gives for that index, either
      instead of executing the request or after executing it; [FClose] also
      ends the connection, after which no request reaches the agent any more.

    The x/crypto client and server codec between the shim and this agent is
    trusted, not modelled: every fault (failure byte, malformed body, oversized
    length prefix, closed connection) is an error return of the client call. *)
From Verif Require Import Lib.Base.

Definition blob := N.

Definition mem_b (b : N) (l : list N) : bool := existsb (N.eqb b) l.
Definition remove_blob (b : N) (l : list N) : list N :=
  filter (fun x => negb (N.eqb x b)) l.
(** Removal of the first occurrence only (what the swap-remove closure does). *)
Fixpoint remove_first (b : N) (l : list N) : list N :=
  match l with
  | [] => []
  | x :: r => if N.eqb x b then r else x :: remove_first b r
  end.

(** [FWrongType]: a well-formed agent message of a type the request does not
    expect (the x/crypto client panics on it for list and sign requests; the
    shim's safeAgent wrapper turns that into an error). *)
Inductive fkind := FFail | FMalformed | FOversize | FClose | FWrongType.
Record fault := mkFault { f_exec : bool; f_kind : fkind }.

Definition is_close (k : fkind) : bool :=
  match k with FClose => true | _ => false end.

Record uagent := mkU {
  ids : list N;               (* identities, in the agent's order *)
  upass : option (list N);    (* Some p = locked with passphrase p *)
  alive : bool;               (* the proxy has not closed the connection *)
  reqno : nat;                (* request frames received so far *)
  rawlog : list N             (* raw (uninterpreted) request bodies received, oldest first *)
}.

Definition set_ids (l : list N) (u : uagent) : uagent :=
  mkU l (upass u) (alive u) (reqno u) (rawlog u).
Definition set_pass (p : option (list N)) (u : uagent) : uagent :=
  mkU (ids u) p (alive u) (reqno u) (rawlog u).
Definition set_alive (a : bool) (u : uagent) : uagent :=
  mkU (ids u) (upass u) a (reqno u) (rawlog u).
Definition bump (u : uagent) : uagent :=
  mkU (ids u) (upass u) (alive u) (S (reqno u)) (rawlog u).
Definition log_raw (r : N) (u : uagent) : uagent :=
  mkU (ids u) (upass u) (alive u) (reqno u) (rawlog u ++ [r]).

Definition ulocked (u : uagent) : bool :=
  match upass u with Some _ => true | None => false end.

(** What the agent reports when asked for its identities. *)
Definition reported (u : uagent) : list N := if ulocked u then [] else ids u.

(** ** The agent's own request handlers ([None] = failure reply). *)
Definition u_list (u : uagent) : uagent * option (list N) := (u, Some (reported u)).
Definition u_add (b : N) (u : uagent) : uagent * option unit :=
  if ulocked u then (u, None)
  else (set_ids (if mem_b b (ids u) then ids u else ids u ++ [b]) u, Some tt).
Definition u_remove (b : N) (u : uagent) : uagent * option unit :=
  if ulocked u then (u, None)
  else if mem_b b (ids u) then (set_ids (remove_blob b (ids u)) u, Some tt)
  else (u, None).
Definition u_remove_all (u : uagent) : uagent * option unit :=
  if ulocked u then (u, None) else (set_ids [] u, Some tt).
Definition u_lock (p : list N) (u : uagent) : uagent * option unit :=
  if ulocked u then (u, None) else (set_pass (Some p) u, Some tt).
Definition u_unlock (p : list N) (u : uagent) : uagent * option unit :=
  match upass u with
  | Some q => if list_eqb N.eqb p q then (set_pass None u, Some tt) else (u, None)
  | None => (u, None)
  end.
(** Signing answers with the identity that signed (the signature itself is
    symbolic, built by the caller). *)
Definition u_sign (b : N) (u : uagent) : uagent * option N :=
  if ulocked u then (u, None)
  else if mem_b b (ids u) then (u, Some b) else (u, None).

(** ** One client call through the proxy. *)
Section Script.
  Variable script : nat -> option fault.

  Definition call {A} (f : uagent -> uagent * option A) (u : uagent) : uagent * option A :=
    if negb (alive u) then (u, None)
    else
      let u1 := bump u in
      match script (reqno u) with
      | None => f u1
      | Some ft =>
          let u2 := if f_exec ft then fst (f u1) else u1 in
          (if is_close (f_kind ft) then set_alive false u2 else u2, None)
      end.

  (** A raw frame (Forward): the agent logs the body and answers the canned
      reply of that body; a failure byte or a malformed body injected by the
      proxy is simply a reply body for the shim; an oversized prefix or a
      closed connection is an error. *)
  Inductive rawreply := RawCanned (r : N) | RawInjected (k : fkind).

  Definition call_raw (r : N) (reply_too_large : bool) (u : uagent) : uagent * option rawreply :=
    if negb (alive u) then (u, None)
    else
      let u1 := bump u in
      match script (reqno u) with
      | None =>
          (* a canned reply above the frame bound is refused by the shim after
             the length prefix; the unread body leaves the stream unusable *)
          if reply_too_large then (set_alive false (log_raw r u1), None)
          else (log_raw r u1, Some (RawCanned r))
      | Some ft =>
          let u2 := if f_exec ft then log_raw r u1 else u1 in
          match f_kind ft with
          | FFail => (u2, Some (RawInjected FFail))
          | FMalformed => (u2, Some (RawInjected FMalformed))
          | FWrongType => (u2, Some (RawInjected FWrongType))
          | FOversize => (u2, None)
          | FClose => (set_alive false u2, None)
          end
      end.
End Script.

(** Environment moves: somebody else talks to the agent directly (no proxy,
    no fault, no request number). *)
Definition direct_add (b : N) (u : uagent) : uagent := fst (u_add b u).
Definition direct_remove (b : N) (u : uagent) : uagent := fst (u_remove b u).
