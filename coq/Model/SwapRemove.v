(** The slice aliasing inside [Server.filter], literally.

    Go source (shimserver.go):

        inAgentKeys, err = s.agent.List()
        remove := remover(func(pub ssh.PublicKey) error {
            if err := s.remove(pub); err != nil { return err }
            for i, key := range inAgentKeys {
                if bytes.Equal(key.Marshal(), pub.Marshal()) {
                    length := len(inAgentKeys)
                    inAgentKeys[i] = inAgentKeys[length-1]
                    inAgentKeys = inAgentKeys[:length-1]
                    break
                }
            }
            return nil
        })
        filterOrphanCerts(remove, inMemoryCerts, inAgentKeys)
        filterExpiredCerts(remove, inMemoryCerts, inAgentKeys)
        return inMemoryCerts, inAgentKeys, nil

    There is ONE backing array ([arr]).  The closure's variable [inAgentKeys]
    is a slice header over it whose length shrinks ([vlen]); the two filter
    functions receive a COPY of the header taken at call time and their
    [for _, key := range keysInAgent] loops run over that stale header: the
    original length, elements read from the backing array at iteration time -
    while the closure overwrites elements of the same array.

    Every index / slice expression goes through [go_index] / [go_set] /
    [go_slice], so "does not panic" is a theorem.  The model is generic in the
    server state [S] and in [rm] (= [s.remove]: new state, and whether it
    returned nil); [Model.Shim] instantiates it.  Proofs/SwapRemoveProofs.v
    shows that this literal version computes the same server state and error
    flag as the list-level loops of Model/Shim.v ([closure], [sweep]) and a
    view that is a permutation of theirs. *)
From Verif Require Import Lib.Base Model.UAgent Model.Shim.

(** l[i] = v *)
Definition go_set {A} (l : list A) (i : nat) (v : A) : outcome (list A) :=
  if (i <? length l)%nat then Val (firstn i l ++ v :: skipn (S i) l) else Panic.

(** index of the first element equal to [b] (the closure's range loop with its [break]) *)
Fixpoint find_index (b : N) (l : list N) : option nat :=
  match l with
  | [] => None
  | x :: r => if N.eqb x b then Some O else option_map S (find_index b r)
  end.

(** The backing array and the length of the closure's slice header. *)
Record slices := mkSl { arr : list N; vlen : nat }.
Definition view (sl : slices) : list N := firstn (vlen sl) (arr sl).

Section Generic.
  Variable S : Type.
  Variable rm : N -> S -> S * bool.

  Definition lstate := (S * slices * bool)%type.

  (** The closure. *)
  Definition lit_closure (b : N) (x : lstate) : outcome lstate :=
    let '(s, sl, e) := x in
    let '(s', ok) := rm b s in
    if negb ok then Val (s', sl, true)           (* return err: appended to errs by the caller *)
    else
      (* for i, key := range inAgentKeys { if equal { ...; break } } *)
      olet v := go_slice (arr sl) 0 (vlen sl) in
      match find_index b v with
      | None => Val (s', sl, e)
      | Some i =>
          let length := vlen sl in
          match length with
          | O => Panic                                        (* inAgentKeys[length-1] with length = 0 *)
          | Datatypes.S k =>
              (* index expressions are checked against the slice length *)
              if negb (k <? length)%nat || negb (i <? length)%nat then Panic
              else
                olet last := go_index (arr sl) k in           (* inAgentKeys[length-1] *)
                olet arr' := go_set (arr sl) i last in        (* inAgentKeys[i] = ...    *)
                olet _ := go_slice arr' 0 k in                (* inAgentKeys[:length-1]  *)
                Val (s', mkSl arr' k, e)
          end
      end.

  (** [for _, key := range keysInAgent { if p key { remove(key) } }] over a
      stale header: [n] more iterations starting at index [i]; the element is
      read from the backing array when its turn comes. *)
  Fixpoint lit_range (p : N -> bool) (i n : nat) (x : lstate) : outcome lstate :=
    match n with
    | O => Val x
    | Datatypes.S n' =>
        olet key := go_index (arr (snd (fst x))) i in
        olet x' := (if p key then lit_closure key x else Val x) in
        lit_range p (Datatypes.S i) n' x'
    end.

  (** [for _, cert := range certsInMemory { if p cert { remove(cert) } }]
      over a snapshot of the map's keys. *)
  Fixpoint lit_each (p : N -> bool) (l : list N) (x : lstate) : outcome lstate :=
    match l with
    | [] => Val x
    | b :: r => olet x' := (if p b then lit_closure b x else Val x) in lit_each p r x'
    end.

  (** The list-level counterparts (the shape of Model.Shim.closure / sweep). *)
  Definition abs_closure (b : N) (x : S * list N * bool) : S * list N * bool :=
    let '(s, v, e) := x in
    let '(s', ok) := rm b s in
    if ok then (s', remove_first b v, e) else (s', v, true).
  Definition abs_sweep (p : N -> bool) (l : list N) (x : S * list N * bool) : S * list N * bool :=
    fold_left (fun x b => if p b then abs_closure b x else x) l x.
End Generic.

(** ** Server.filter with the literal closure *)
Section World.
  Variable info : N -> option cinfo.
  Variable script : nat -> option fault.

  Definition filter_certs_lit (now : Z) (s : shim) : outcome (shim * option (list N)) :=
    let '(s0, r) := acall script u_list s in
    match r with
    | None => Val (s0, None)
    | Some L =>
        let rm := remove_key script in
        let sl0 := mkSl L (length L) in
        (* filterOrphanCerts(remove, s.certs, inAgentKeys): header copy of length |L| *)
        olet x1 :=
          if Nat.eqb (length L) 0 then Val (s0, sl0, false)   (* if len(keysInAgent) == 0 { return nil } *)
          else
            (* first loop: publicKeys from the stale header (no removal yet) *)
            olet keys := go_slice (arr sl0) 0 (length L) in
            lit_each shim rm (orphan_of info (map (pubkey_of info) keys)) (mem s0) (s0, sl0, false) in
        let '(s1, sl1, e1) := x1 in
        if e1 then Val (s1, None)
        else
          (* filterExpiredCerts(remove, s.certs, inAgentKeys): header copy of the current length *)
          olet x2 := lit_range shim rm (invalid_at info now) 0 (vlen sl1) (s1, sl1, false) in
          olet x3 := lit_each shim rm (invalid_at info now) (mem (fst (fst x2))) x2 in
          let '(s3, sl3, e3) := x3 in
          if e3 then Val (s3, None)
          else olet v := go_slice (arr sl3) 0 (vlen sl3) in Val (s3, Some v)
    end.
End World.
