(** [Serve]'s environment with x/crypto's standard server made concrete: the
    request handed to it through the forwarder is decoded by
    [AgentStd.dec_req], the served agent [ag] answers, [AgentStd.enc_resp]
    writes the reply; a panic of the decoder is what serveStandardRequest
    recovers from - an error that ends the connection ([None]).  This joins
    the relay (Model/Serve.v) and the two codecs (Model/AgentStd.v) into one
    path from the client's frame to the reply frame.  No proofs here. *)
From Verif Require Import Lib.Base Lib.Bytes Lib.Wire Model.Frames Model.Wire Model.Serve Model.AgentStd.
Local Open Scope N_scope.

Definition std_server (ag : nat -> sreq -> sresp) (i : nat) (req : bytes) : option bytes :=
  match dec_req req with
  | Panic => None
  | Val None => Some (enc_resp PFailure)
  | Val (Some q) => Some (enc_resp (ag i q))
  end.

Definition with_std (e : env) (ag : nat -> sreq -> sresp) : env :=
  mkEnv (e_parse_key e) (e_add e) (e_list e) (e_read e) (e_attest e) (e_wait e) (std_server ag) (e_fwd e).

(** the client's side of one standard operation over a served connection:
    write the request frame, read the reply frame, decode it *)
Definition client_std (e : env) (ag : nat -> sreq -> sresp) (q : sreq) : outcome (option sresp * ending) :=
  match serve (with_std e ag) (frame (enc_req q)) with
  | Panic => Panic
  | Val ([(_, rep)], en) => Val (dec_std_reply q rep, en)
  | Val (_, en) => Val (None, en)
  end.
