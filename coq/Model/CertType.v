(** Model of sshutils/cert/type.go and principal.go: certificate type, label
    and principal suffixes as functions of the decoded KeyID and of the
    touchless-sudo-hosts critical option. Enumerators, the label table and the
    suffixes come from [Generated.CertTypeGen]. *)
From Verif Require Import Lib.Base Lib.Json Generated.KeyIdGen Generated.CertTypeGen Model.KeyId.

(** [sudo] = the certificate has a non-empty touchless-sudo-hosts critical
    option (a nil option map, an absent key and an empty value are all false). *)
Definition get_type (k : option KeyID) (sudo : bool) : Z :=
  match k with
  | None => t_unknown
  | Some k =>
      if isNonce k then t_nonce
      else if isFF k && isHW k then t_firefighter
      else if isFF k && negb (isHW k) then
        (if sudo then t_touchless_sudo_in_agent else t_touchless_in_agent)
      else if Z.eqb (touch k) cached_touch || Z.eqb (touch k) always_touch then t_touch_sudo
      else if Z.eqb (touch k) never_touch then
        (if sudo then t_touchless_sudo else t_touchless)
      else t_unknown
  end.

(** GetType(cert): [None] = nil certificate; otherwise the tree of the KeyId
    text ([None] inside = not JSON) and the critical option. *)
Definition decoded (t : option json) : option KeyID :=
  match unmarshal t with Ok k => Some k | Err _ => None end.
Definition cert_type (cert : option (option json * bool)) : Z :=
  match cert with
  | None => t_unknown
  | Some (t, sudo) => get_type (decoded t) sudo
  end.

Fixpoint lookup_label (ty : Z) (tbl : list (Z * str)) : option str :=
  match tbl with
  | [] => None
  | (t, n) :: r => if Z.eqb t ty then Some n else lookup_label ty r
  end.

Definition ssh_dash : str := tx "SSH-".

(** Label(cert): name of the type ++ "SSH-" ++ transaction id; none for the
    unknown type (or a type without a name). *)
Definition label (cert : option (option json * bool)) : option str :=
  let ty := cert_type cert in
  if Z.eqb ty t_unknown then None
  else match lookup_label ty type_label, cert with
       | Some n, Some (t, _) =>
           match decoded t with
           | Some k => Some (n ++ ssh_dash ++ transID k)
           | None => None
           end
       | _, _ => None
       end.

(** GetPrincipals (nil and empty results are identified). *)
Definition get_principals (ps : list str) (ty : Z) : list str :=
  if Z.eqb ty t_unknown then []
  else if Z.eqb ty t_touch_sudo then map (fun p => p ++ touch_suffix) ps
  else if Z.eqb ty t_touchless_sudo || Z.eqb ty t_touchless then map (fun p => p ++ touchless_suffix) ps
  else ps.

(** ** The property's decision table, written from its text. *)
Inductive ctype := Unknown | TouchSudo | Touchless | TouchlessSudo | FireFighter | Nonce
                 | TouchlessInAgent | TouchlessSudoInAgent.
Definition ctype_code (c : ctype) : Z :=
  match c with
  | Unknown => 0 | TouchSudo => 1 | Touchless => 2 | TouchlessSudo => 3 | FireFighter => 4
  | Nonce => 5 | TouchlessInAgent => 7 | TouchlessSudoInAgent => 8
  end%Z.
Definition ctype_name (c : ctype) : option str :=
  match c with
  | Unknown => None
  | TouchSudo => Some (tx "TouchSudo") | Touchless => Some (tx "Touchless")
  | TouchlessSudo => Some (tx "TouchlessSudo") | FireFighter => Some (tx "FireFighterSudo")
  | Nonce => Some (tx "Nonce") | TouchlessInAgent => Some (tx "TouchlessInAgent")
  | TouchlessSudoInAgent => Some (tx "TouchlessSudoInAgent")
  end.
(** nonce, then firefighter (hardware-backed or not), then the touch policy
    (1 never, 2 always, 3 cached; anything else selects no rule). *)
Definition type_spec (nonce ff hw : bool) (policy : Z) (sudo : bool) : ctype :=
  if nonce then Nonce
  else if ff then (if hw then FireFighter else if sudo then TouchlessSudoInAgent else TouchlessInAgent)
  else if Z.eqb policy 2 || Z.eqb policy 3 then TouchSudo
  else if Z.eqb policy 1 then (if sudo then TouchlessSudo else Touchless)
  else Unknown.
Definition principals_spec (ps : list str) (c : ctype) : list str :=
  match c with
  | Unknown => []
  | TouchSudo => map (fun p => p ++ tx ":touch") ps
  | Touchless | TouchlessSudo => map (fun p => p ++ tx ":notouch") ps
  | _ => ps
  end.
Definition all_ctypes : list ctype :=
  [Unknown; TouchSudo; Touchless; TouchlessSudo; FireFighter; Nonce; TouchlessInAgent; TouchlessSudoInAgent].
