(** Correspondence check and property oracle for C06 (executable; no proofs).

    The oracle is the property's own sentence, written from the standards and
    not from the code: attestation succeeds exactly when the device certificate
    chains to the roots, the device key is RSA, the label is one of the
    SHA-1/256/384/512 families, and the signature value raised to the public
    exponent is the full-length block 00 01 FF..FF 00 || DigestInfo header
    (with or without the NULL parameter, computed by [Model.Der]) || digest. *)
From Verif Require Import Lib.Base Lib.Bytes Model.Der Model.Pkcs1.

(** ** Specification tables (RFC 8017 section 9.2 / RFC 5280; x509 label values) *)
Inductive shash := SHA1 | SHA256 | SHA384 | SHA512.

Definition shash_name (h : shash) : str :=
  match h with SHA1 => tx "SHA1" | SHA256 => tx "SHA256" | SHA384 => tx "SHA384" | SHA512 => tx "SHA512" end.
Definition shash_oid (h : shash) : list N :=
  match h with
  | SHA1 => [1; 3; 14; 3; 2; 26]
  | SHA256 => [2; 16; 840; 1; 101; 3; 4; 2; 1]
  | SHA384 => [2; 16; 840; 1; 101; 3; 4; 2; 2]
  | SHA512 => [2; 16; 840; 1; 101; 3; 4; 2; 3]
  end%N.
Definition shash_len (h : shash) : nat :=
  match h with SHA1 => 20 | SHA256 => 32 | SHA384 => 48 | SHA512 => 64 end.
Definition all_shash : list shash := [SHA1; SHA256; SHA384; SHA512].

(** DigestInfo header with ([true]) / without ([false]) the NULL parameter. *)
Definition spec_prefix (h : shash) (with_null : bool) : bytes :=
  digestinfo_prefix (shash_oid h) with_null (shash_len h).

(** What a signature-algorithm label stands for. Labels: 0 Unknown, 1 MD2WithRSA,
    2 MD5WithRSA, 3 SHA1WithRSA, 4 SHA256WithRSA, 5 SHA384WithRSA,
    6 SHA512WithRSA, 7 DSAWithSHA1, 8 DSAWithSHA256, 9 ECDSAWithSHA1,
    10 ECDSAWithSHA256, 11 ECDSAWithSHA384, 12 ECDSAWithSHA512,
    13..15 SHA256/384/512WithRSAPSS, 16 PureEd25519. *)
Inductive salgo := SHash (h : shash) | SInsecure | SUnsupported.
Definition spec_algo (label : N) : salgo :=
  match label with
  | 3 | 7 | 9 => SHash SHA1
  | 4 | 8 | 10 => SHash SHA256
  | 5 | 11 => SHash SHA384
  | 6 | 12 => SHash SHA512
  | 1 | 2 => SInsecure
  | _ => SUnsupported
  end%N.

(** ** The property on one observation *)

(** Is [em] a full-length PKCS#1 v1.5 block for [digest] under [h], with at
    least the eight padding octets that fit both identifier encodings? *)
Definition spec_block_ok (h : shash) (k : nat) (em digest : bytes) : bool :=
  (length (spec_prefix h true) + shash_len h + 11 <=? k)%nat &&
  (bytes_eqb em (EM k (spec_prefix h true) digest) || bytes_eqb em (EM k (spec_prefix h false) digest)).

(** Keys smaller than the property's range (below 1024 bits the quantifier is
    silent): a block with the shorter identifier and 8 or 9 padding octets is
    a valid PKCS#1 block that the code refuses; either verdict is accepted. *)
Definition spec_dont_care (h : shash) (k : nat) (em digest : bytes) : bool :=
  (k <? length (spec_prefix h true) + shash_len h + 11)%nat &&
  (length (spec_prefix h false) + shash_len h + 11 <=? k)%nat &&
  bytes_eqb em (EM k (spec_prefix h false) digest).

(** Some true: must be accepted; Some false: must be rejected; None: unspecified. *)
Definition spec_accept (chain_ok : bool) (algo : N) (digests : list (str * bytes)) (key : key) : option bool :=
  if negb chain_ok then Some false else
  match spec_algo algo, key with
  | SHash h, KRsa k em =>
      match lookup (shash_name h) digests with
      | Some digest =>
          if negb (Nat.eqb (length digest) (shash_len h)) then Some false
          else if spec_dont_care h k em digest then None
          else Some (spec_block_ok h k em digest)
      | None => Some false
      end
  | _, _ => Some false
  end.

Inductive obs := OOk | OVerification | OInsecure | OUnsupported | OChain | OOther | OPanic.

Definition oracle_attest (chain_ok : bool) (algo : N) (digests : list (str * bytes)) (key : key) (o : obs) : bool :=
  match o with
  | OPanic => false
  | _ =>
      match spec_accept chain_ok algo digests key with
      | Some b => Bool.eqb b (match o with OOk => true | _ => false end)
      | None => true
      end
  end.

Definition obs_of_model (m : outcome (result verr unit)) : obs :=
  match m with
  | Panic => OPanic
  | Val (Ok _) => OOk
  | Val (Err EVerification) => OVerification
  | Val (Err EInsecure) => OInsecure
  | Val (Err EUnsupported) => OUnsupported
  | Val (Err EChain) => OChain
  | Val (Err EHashInfo) => OOther
  end.

Definition obs_eqb (a b : obs) : bool :=
  match a, b with
  | OOk, OOk | OVerification, OVerification | OInsecure, OInsecure | OUnsupported, OUnsupported
  | OChain, OChain | OOther, OOther | OPanic, OPanic => true
  | _, _ => false
  end.

Definition key_wf (key : key) : bool :=
  match key with KRsa k em => Nat.eqb (length em) k && all_bytes em | KOther => true end.

Inductive case :=
| CAttest (chain_ok : bool) (algo : N) (digests : list (str * bytes)) (key : key) (observed : obs).

Definition check (c : case) : N :=
  match c with
  | CAttest chain_ok algo digests key o =>
      if negb (key_wf key) then 3
      else if negb (oracle_attest chain_ok algo digests key o) then 2
      else if obs_eqb (obs_of_model (attest chain_ok algo digests key)) o then 0 else 1
  end%N.

(** Model branch reached: 1 chain error, 2 insecure, 3 unsupported label,
    4 non-RSA key, 5 key too small, 10 accepted, 11.. rejected by the
    verifier with the first failing component (11 leading 00, 12 block type,
    13 digest, 14 identifier/separator, 15 padding), 20 other. *)
Definition reject_reason (h : shash) (k : nat) (em digest : bytes) : N :=
  let p1 := spec_prefix h true in
  let p2 := spec_prefix h false in
  let hl := shash_len h in
  let tl p := (length p + hl)%nat in
  let sep p := nth (k - tl p - 1) em 1%N in
  let pre p := firstn (length p) (skipn (k - tl p) em) in
  if negb (N.eqb (nth 0 em 1%N) 0) then 11
  else if negb (N.eqb (nth 1 em 0%N) 1) then 12
  else if negb (bytes_eqb (skipn (k - hl) em) digest) then 13
  else if negb ((bytes_eqb (pre p1) p1 && N.eqb (sep p1) 0) || (bytes_eqb (pre p2) p2 && N.eqb (sep p2) 0)) then 14
  else 15%N.

Definition classify (c : case) : N :=
  match c with
  | CAttest chain_ok algo digests key _ =>
      if negb chain_ok then 1 else
      match spec_algo algo with
      | SInsecure => 2
      | SUnsupported => 3
      | SHash h =>
          match key with
          | KOther => 4
          | KRsa k em =>
              if (k <? length (spec_prefix h true) + shash_len h + 11)%nat then 5
              else match attest chain_ok algo digests key with
                   | Val (Ok _) => 10
                   | Val (Err EVerification) =>
                       match lookup (shash_name h) digests with
                       | Some d => reject_reason h k em d
                       | None => 20
                       end
                   | _ => 20
                   end
          end
      end
  end%N.
