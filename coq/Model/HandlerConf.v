(** Model of the regular handler's configuration decoding
    (config/gensign.go ExtractHandlerConf + config/hook.go
    StringToX509PublicKeyAlgo + gensign/regular/conf.go defaults).

    The handler configuration is a JSON object decoded by mapstructure into
    [conf]; the only ysshra-specific step is the decode hook that turns the
    *keys* of "key_identifiers" into x509.PublicKeyAlgorithm values: the
    lower-cased key is looked up in [publicKeyAlgoName]; otherwise the key is
    parsed with strconv.ParseUint(key, 10, 0) and converted to the (signed)
    enumeration type.  No proofs in this file. *)
From Verif Require Import Lib.Base Generated.GensignGen.
Local Open Scope N_scope.

(** strings.ToLower, restricted to what can matter for a lookup in a table of
    ASCII keys: ASCII capitals, and the only two non-ASCII runes whose simple
    lower-case mapping is ASCII (U+212A KELVIN SIGN -> k, U+0130 -> i). Any
    other rune lower-cases to a non-ASCII rune and can never make the text
    equal to an ASCII key, so it is left unchanged. *)
Definition lower_rune (c : N) : N :=
  if (65 <=? c) && (c <=? 90) then c + 32
  else if c =? 8490 then 107
  else if c =? 304 then 105
  else c.
Definition to_lower (s : str) : str := map lower_rune s.

Fixpoint assoc_str {A} (k : str) (l : list (str * A)) : option A :=
  match l with
  | [] => None
  | (k', v) :: r => if str_eqb k k' then Some v else assoc_str k r
  end.

(** strconv.ParseUint(s, 10, 0) on a 64-bit platform: a non-empty string of
    ASCII digits (no sign, no underscore, leading zeros allowed) whose value
    fits 64 bits. *)
Definition digit_of (c : N) : option N :=
  if (48 <=? c) && (c <=? 57) then Some (c - 48) else None.
Fixpoint digits_value (acc : N) (s : str) : option N :=
  match s with
  | [] => Some acc
  | c :: r => match digit_of c with
              | Some d => digits_value (10 * acc + d) r
              | None => None
              end
  end.
Definition parse_uint64 (s : str) : option N :=
  match s with
  | [] => None
  | _ => match digits_value 0 s with
         | Some v => if v <? 2 ^ 64 then Some v else None
         | None => None
         end
  end.

(** x509.PublicKeyAlgorithm(u) for u : uint64 — the enumeration is a Go [int]
    (64-bit two's complement). *)
Definition int_of_uint64 (u : N) : Z :=
  if u <? 2 ^ 63 then Z.of_N u else (Z.of_N u - 2 ^ 64)%Z.

(** The decode hook: a key of "key_identifiers" -> algorithm, or an error. *)
Definition decode_alg (s : str) : option Z :=
  match assoc_str (to_lower s) public_key_algo_names with
  | Some a => Some a
  | None => match parse_uint64 s with
            | Some u => Some (int_of_uint64 u)
            | None => None
            end
  end.

(** The part of the JSON handler configuration the regular handler reads. *)
Record rawconf := mkRaw {
  rc_validity : option N;                (* "cert_validity_sec", when present *)
  rc_keyids : list (str * str) }.        (* "key_identifiers" object, in text order, keys distinct *)

(** The decoded configuration ([conf] of gensign/regular/conf.go, without the
    public-key directory, which is the world's [dir]). *)
Record hconf := mkHconf {
  hc_validity : N;
  hc_keyids : list (Z * str) }.

Fixpoint decode_keyids (l : list (str * str)) : option (list (Z * str)) :=
  match l with
  | [] => Some []
  | (k, v) :: r =>
      match decode_alg k, decode_keyids r with
      | Some a, Some r' => Some ((a, v) :: r')
      | _, _ => None
      end
  end.

(** regular.NewHandler's view of the configuration: [None] = NewHandler fails
    (a key of key_identifiers is neither a known name nor a decimal). *)
Definition decode_conf (r : rawconf) : option hconf :=
  match decode_keyids (rc_keyids r) with
  | Some m => Some (mkHconf (match rc_validity r with Some v => v | None => default_cert_validity_sec end) m)
  | None => None
  end.

(** h.conf.KeyIdentifiers[algo].  When two configuration keys denote the same
    algorithm the Go map keeps whichever mapstructure visited last (map
    iteration order); [unambiguous_b] excludes that. *)
Fixpoint lookup_keyid (m : list (Z * str)) (a : Z) : option str :=
  match m with
  | [] => None
  | (a', v) :: r => if Z.eqb a a' then Some v else lookup_keyid r a
  end.
Fixpoint nodup_z (l : list Z) : bool :=
  match l with
  | [] => true
  | x :: r => negb (existsb (Z.eqb x) r) && nodup_z r
  end.
Definition unambiguous_b (c : hconf) : bool := nodup_z (map fst (hc_keyids c)).

Definition empty_conf : hconf := mkHconf default_cert_validity_sec [].
Definition conf_of (r : rawconf) : hconf :=
  match decode_conf r with Some c => c | None => empty_conf end.
