(** Per-message-code condition variables of the shim agent (property C20).
    Executable model; no proofs here.

    [table] is [s.conds] seen as, per code, the goroutines parked on that
    condition (oldest first).  The two atomic events are
      [Register w c]  a call Wait(c) by waiter w: guard, index, park
                      (sync.Cond.Wait adds the caller to the notify list before
                      releasing L, so registration is atomic under L);
      [Request c]     ServeAgent received a request whose first byte is c on
                      some connection and called Broadcast(c).
    Atomicity of both under the condition's L is sync.Cond's contract
    (trusted).  The table lookup is Go indexing ([go_index]: out of range is a
    run-time panic), protected by the guard regenerated from the source. *)
From Verif Require Import Lib.Base.

Definition wid := N.
Definition code := N.
Definition table := list (list wid).

(** What the code says (filled from Generated.WaitCondGen in C20Check). *)
Record cfg := mkCfg {
  size : N;              (* len(s.conds) *)
  wguard : N;            (* guard of Wait: 0 none, 1 "msg < bound", 2 "msg <= bound", other: unknown *)
  bguard : N;            (* guard of Broadcast *)
  bound_byte : bool;     (* the bound is byte(len(s.conds)) *)
  parks : bool;          (* Wait calls cond.Wait() *)
  wake : N;              (* Broadcast calls: 1 cond.Broadcast(), 2 cond.Signal(), other: nothing *)
  before_dispatch : bool;(* ServeAgent broadcasts req[0] before handling the request *)
  wait_code : N          (* message code of the wait request itself *)
}.

Definition bound (k : cfg) : N := if bound_byte k then (size k mod 256)%N else size k.
Definition guard_passes (op : N) (k : cfg) (c : code) : bool :=
  match op with
  | 0%N => true
  | 1%N => (c <? bound k)%N
  | 2%N => (c <=? bound k)%N
  | _ => false
  end.

Fixpoint set_nth {A} (l : list A) (i : nat) (v : A) : list A :=
  match l, i with
  | [], _ => []
  | _ :: r, O => v :: r
  | x :: r, Datatypes.S j => x :: set_nth r j v
  end.

Definition init_table (k : cfg) : table := repeat [] (N.to_nat (size k)).

Inductive event := Register (w : wid) (c : code) | Request (c : code).

(** One atomic event: the new table and the waiters whose Wait returns. *)
Definition wait_step (k : cfg) (tbl : table) (w : wid) (c : code) : outcome (table * list wid) :=
  if guard_passes (wguard k) k c then
    olet ws := go_index tbl (N.to_nat c) in
    if parks k then Val (set_nth tbl (N.to_nat c) (ws ++ [w]), []) else Val (tbl, [w])
  else Val (tbl, [w]).

Definition broadcast_step (k : cfg) (tbl : table) (c : code) : outcome (table * list wid) :=
  if guard_passes (bguard k) k c then
    olet ws := go_index tbl (N.to_nat c) in
    match wake k with
    | 1%N => Val (set_nth tbl (N.to_nat c) [], ws)
    | 2%N => match ws with
             | [] => Val (tbl, [])
             | w :: r => Val (set_nth tbl (N.to_nat c) r, [w])
             end
    | _ => Val (tbl, [])
    end
  else Val (tbl, []).

Definition step (k : cfg) (tbl : table) (e : event) : outcome (table * list wid) :=
  match e with
  | Register w c => wait_step k tbl w c
  | Request c => broadcast_step k tbl c
  end.

(** A history: the released set of every event, in order. *)
Fixpoint run (k : cfg) (tbl : table) (es : list event) : outcome (list (list wid)) :=
  match es with
  | [] => Val []
  | e :: r =>
      obind (step k tbl e) (fun p =>
      obind (run k (fst p) r) (fun rest => Val (snd p :: rest)))
  end.

(** * The property's own sentence, written without the table.
    [pending_spec c rh]: the waiters registered on c with no later request for
    c, reading the history backwards ([rh] = most recent event first). *)
Fixpoint pending_spec (c : code) (rh : list event) : list wid :=
  match rh with
  | [] => []
  | Request c' :: r => if (c' =? c)%N then [] else pending_spec c r
  | Register w c' :: r => if (c' =? c)%N then pending_spec c r ++ [w] else pending_spec c r
  end.

(** Who must be released by event e after the (reversed) history rh, for a
    supported range of [sz] codes: a request for a supported code releases
    exactly the pending waiters of that code, together; a wait on an
    unsupported code returns at once; nothing else releases anybody. *)
Definition spec_released (sz : N) (rh : list event) (e : event) : list wid :=
  match e with
  | Request c => if (c <? sz)%N then pending_spec c rh else []
  | Register w c => if (c <? sz)%N then [] else [w]
  end.
Fixpoint spec_run (sz : N) (rh : list event) (es : list event) : list (list wid) :=
  match es with
  | [] => []
  | e :: r => spec_released sz rh e :: spec_run sz (e :: rh) r
  end.

(** The supported range named by the property: every defined message code
    (the largest is the wait request, 35) and the table of 40 the code has. *)
Definition spec_size : N := 40.
Definition spec_wait_code : N := 35.

(** The discipline the theorems need from the code. *)
Definition cfg_ok (k : cfg) : bool :=
  (0 <? size k)%N && (size k <? 256)%N && (wguard k =? 1)%N && (bguard k =? 1)%N &&
  parks k && (wake k =? 1)%N.

(** * Client level: what one connection does.  A wait request is itself a
    request (code [wait_code]) that ServeAgent broadcasts BEFORE the waiter
    registers; any other request is one broadcast. *)
Inductive cevent := CWait (w : wid) (c : code) | CReq (c : code).
Definition expand (k : cfg) (e : cevent) : list event :=
  match e with
  | CWait w c => if before_dispatch k then [Request (wait_code k); Register w c] else [Register w c]
  | CReq c => [Request c]
  end.

Fixpoint ins (x : N) (l : list N) : list N :=
  match l with
  | [] => [x]
  | y :: r => if (x <? y)%N then x :: l else if (x =? y)%N then l else y :: ins x r
  end.
Definition sort_ids (l : list N) : list N := fold_right ins [] l.

(** Several atomic events in a row: final table, all released waiters. *)
Fixpoint steps (k : cfg) (tbl : table) (evs : list event) : outcome (table * list wid) :=
  match evs with
  | [] => Val (tbl, [])
  | ev :: r =>
      obind (step k tbl ev) (fun p =>
      obind (steps k (fst p) r) (fun q => Val (fst q, snd p ++ snd q)))
  end.

(** Released sets per client event (sorted), from the model ... *)
Fixpoint crun (k : cfg) (tbl : table) (es : list cevent) : outcome (list (list wid)) :=
  match es with
  | [] => Val []
  | e :: r =>
      obind (steps k tbl (expand k e)) (fun p =>
      obind (crun k (fst p) r) (fun rest => Val (sort_ids (snd p) :: rest)))
  end.

(** ... and from the property's sentence (a wait request = request [wc] then registration). *)
Definition spec_expand (wc : N) (e : cevent) : list event :=
  match e with CWait w c => [Request wc; Register w c] | CReq c => [Request c] end.
Fixpoint spec_crun (sz wc : N) (rh : list event) (es : list cevent) : list (list wid) :=
  match es with
  | [] => []
  | e :: r =>
      let evs := spec_expand wc e in
      sort_ids (concat (spec_run sz rh evs)) :: spec_crun sz wc (rev evs ++ rh) r
  end.

Definition obs_eqb (a b : list (list N)) : bool := list_eqb (list_eqb N.eqb) a b.
