(** Correspondence check and property oracle for C17 (executable; no proofs).

    A case carries the implementation's observation; [check] evaluates the
    property's own sentence on it ([oracle_*]) and compares it with the model
    ([Failover.sign] over the harness' reply language, [Backoff.backoff_range]). *)
From Coq Require Import QArith.
From Verif Require Import Lib.Base Model.Failover Model.Backoff.
Local Open Scope N_scope.

(** What a harness CA endpoint does with the request. *)
Inductive beh :=
| BDown                       (* connection is accepted and closed: no RPC ever reaches a server *)
| BStatus (code : N)          (* the RPC fails with this gRPC status code (4 also stands for a per-try deadline) *)
| BReply (ls : list line).    (* the RPC succeeds with this key material *)

Inductive case :=
| CSign (eps : list N) (behs : list (N * beh)) (req : N)
        (log : list (N * N))          (* requests seen by the servers, in arrival order: (endpoint, request id; 0 = not the request sent) *)
        (certs : list N) (comments : list str)
        (err : option (N * N))        (* None = nil; Some (1,0) no endpoint, (2,code) RPC failed, (3,0) no key in the reply *)
| CBackoff (base : Z) (mult_n : Z) (mult_d : positive) (maxd : Z) (jit_n : Z) (jit_d : positive)
           (attempt : N) (obs : Z).   (* observed Backoff(attempt) in ns *)

Definition beh_of (behs : list (N * beh)) (e : N) : beh :=
  match find (fun p => N.eqb (fst p) e) behs with Some (_, b) => b | None => BDown end.
Definition is_down (b : beh) : bool := match b with BDown => true | _ => false end.
Definition reply_of (b : beh) : reply (list line) :=
  match b with BDown => RDialFail | BStatus c => RRpcFail c | BReply ls => RData ls end.

(** * The property's sentence, evaluated on an observation. *)
Definition beh_succeeds (b : beh) : option (list line) :=
  match b with
  | BReply ls => if (length (line_keys ls) =? 0)%nat then None else Some ls
  | _ => None
  end.

(** endpoints to be contacted, in order, and the reply to be returned *)
Fixpoint expected (behs : list (N * beh)) (eps : list N) : list N * option (list line) :=
  match eps with
  | [] => ([], None)
  | e :: rest =>
      match beh_succeeds (beh_of behs e) with
      | Some ls => ([e], Some ls)
      | None => let (c, r) := expected behs rest in (e :: c, r)
      end
  end.

Definition pairN_eqb (a b : N * N) : bool := N.eqb (fst a) (fst b) && N.eqb (snd a) (snd b).

Definition oracle_sign (eps : list N) (behs : list (N * beh)) (req : N)
           (log : list (N * N)) (certs : list N) (comments : list str) (err : option (N * N)) : bool :=
  let (contacted, res) := expected behs eps in
  let reached := filter (fun e => negb (is_down (beh_of behs e))) contacted in
  (* strictly in order, the request unmodified, nobody after the first success *)
  list_eqb pairN_eqb log (map (fun e => (e, req)) reached) &&
  match res with
  | Some ls =>
      (* the certificates of the first endpoint that answers successfully, one comment each, CA order *)
      match err with None => true | Some _ => false end &&
      list_eqb N.eqb certs (line_keys ls) && list_eqb str_eqb comments (line_comments ls) &&
      (length certs =? length comments)%nat && negb (length certs =? 0)%nat
  | None =>
      (* every endpoint fails, or none is configured: an error, never a success *)
      match err with Some _ => true | None => false end
  end.

(** [0 <= d <= max * (1 + jitter)]; binary64 rounding is not modelled, hence
    a slack of 1 ns + 2^-40 relative on the upper end. *)
Definition slack (q : Q) : Q := (1 + q / inject_Z (2 ^ 40))%Q.
Definition oracle_backoff (c : config) (obs : Z) : bool :=
  (0 <=? obs)%Z && Qle_bool (inject_Z obs) (upper c + slack (upper c))%Q.

(** * Model side. *)
Definition model_sign (eps : list N) (behs : list (N * beh)) (req : N) :=
  sign (fun e (_ : N) => post_lines (reply_of (beh_of behs e))) eps req.

Definition canon_err (e : option ekind) : option (option (N * N)) :=
  match e with
  | None => Some None
  | Some ENoEndpoint => Some (Some (1, 0))
  | Some EDial => Some (Some (2, 14))           (* a failed connection surfaces as Unavailable *)
  | Some (ERpc c) => Some (Some (2, c))
  | Some EParse => Some (Some (3, 0))
  | Some EDiverged => None
  end.

Definition check (c : case) : N :=
  match c with
  | CSign eps behs req log certs comments err =>
      if negb (oracle_sign eps behs req log certs comments err) then 2
      else
        let (r, mlog) := model_sign eps behs req in
        match canon_err (g_err r) with
        | None => 3
        | Some merr =>
            let mlog' := filter (fun p => negb (is_down (beh_of behs (fst p)))) mlog in
            if list_eqb pairN_eqb log mlog' && list_eqb N.eqb certs (g_certs r) &&
               list_eqb str_eqb comments (g_comments r) && option_eqb pairN_eqb err merr
            then 0 else 1
        end
  | CBackoff b mn md mx jn jd attempt obs =>
      let c := mkConfig b (Qmake mn md) mx (Qmake jn jd) in
      if negb (premises c) then 3
      else if negb (oracle_backoff c obs) then 2
      else
        let (lo, hi) := backoff_range c attempt in
        if Qle_bool (lo - slack hi)%Q (inject_Z obs) && Qle_bool (inject_Z obs) (hi + slack hi)%Q
        then 0 else 1
  end.

(** Which branch of the model a case reached. *)
Definition classify (c : case) : N :=
  match c with
  | CSign eps behs req _ _ _ _ =>
      let (r, mlog) := model_sign eps behs req in
      match g_err r with
      | None => if (length mlog =? 1)%nat then 11 else 12      (* first endpoint signs / fail-over happened *)
      | Some ENoEndpoint => 10
      | Some (ERpc _) => 13
      | Some EParse => 14
      | Some EDial => 15
      | Some EDiverged => 19
      end
  | CBackoff b mn md mx jn jd attempt _ =>
      let c := mkConfig b (Qmake mn md) mx (Qmake jn jd) in
      if attempt =? 0 then 20
      else if (b <=? 0)%Z then 21
      else match go_pow (mult c) attempt with
           | PInf => 23
           | _ => if Qle_bool (inject_Z mx) (capped c attempt) then 22 else 24
           end
  end.
