(** Correspondence check and property oracle for C19 (executable; no proofs). *)
From Verif Require Import Lib.Base Lib.Json Generated.KeyIdGen Generated.CertTypeGen Model.KeyId Model.CertType.

Inductive case :=
| CType (cert : option (option json * bool)) (impl_type : Z) (impl_label : option str)
    (* GetType / Label of a certificate: None = nil certificate; KeyId tree, sudo-hosts non-empty *)
| CPrins (ps : list str) (ty : Z) (impl : list str).
    (* GetPrincipals ps ty *)

(** The property evaluated on the implementation's observation: the type must
    be the decision table applied to the attributes of the *specification's*
    reading of the KeyID (C05 model), the label the table name ++ "SSH-" ++
    transaction id. *)
Definition oracle_type (cert : option (option json * bool)) (ty : Z) (lab : option str) : bool :=
  match cert with
  | None => Z.eqb ty 0 && match lab with None => true | Some _ => false end
  | Some (t, sudo) =>
      match decoded t with
      | None => Z.eqb ty 0 && match lab with None => true | Some _ => false end
      | Some k =>
          let c := type_spec (isNonce k) (isFF k) (isHW k) (touch k) sudo in
          Z.eqb ty (ctype_code c) &&
          option_eqb str_eqb lab
            (match ctype_name c with Some n => Some (n ++ tx "SSH-" ++ transID k) | None => None end)
      end
  end.

Definition ctype_of_code (z : Z) : option ctype :=
  find (fun c => Z.eqb (ctype_code c) z) all_ctypes.
Definition oracle_prins (ps : list str) (ty : Z) (out : list str) : bool :=
  match ctype_of_code ty with
  | Some c => list_eqb str_eqb out (principals_spec ps c)
  | None => list_eqb str_eqb out ps   (* values outside the enumeration: "other types" unchanged *)
  end.

Definition check (c : case) : N :=
  match c with
  | CType cert ty lab =>
      if negb (oracle_type cert ty lab) then 2
      else if Z.eqb (cert_type cert) ty && option_eqb str_eqb (label cert) lab then 0 else 1
  | CPrins ps ty out =>
      if negb (oracle_prins ps ty out) then 2
      else if list_eqb str_eqb (get_principals ps ty) out then 0 else 1
  end.

Definition classify (c : case) : N :=
  match c with
  | CType cert _ _ => Z.to_N (cert_type cert)          (* 0..8: the derived type *)
  | CPrins _ ty _ => (20 + Z.to_N (Z.max 0 (Z.min ty 9)))%N
  end.
