(** Lock discipline of a shared server object, and a small-step trace semantics
    of threads calling its methods (property C11).  Executable definitions and
    the step relation only; no proofs here.

    What is modelled: one readers/writer mutex ([wr]/[rds] = sync.RWMutex: a
    writer excludes everybody, readers exclude writers; NOT re-entrant), one
    inner mutex ([inner] = the mutex the x/crypto agent client holds for one
    whole request/response round trip on the connection), threads with queues
    of operations, and per operation the micro-steps
      acquire ; (begin access ; end access)* ; (nested acquisition)* ; commit ; release.
    The first access snapshots the shared state, [commit] writes back
    [exec op snapshot] and hands the reply to the calling thread: an operation
    whose body is not protected can therefore lose updates and answer from a
    stale state, exactly the read-modify-write anomaly of unprotected Go code.
    The step relation IS the assumed semantics of sync.RWMutex / sync.Mutex and
    of Go's memory model (trusted, not verified). *)
From Verif Require Import Lib.Base.

Inductive mode := Exclusive | Shared | NoLock.
Inductive res := RCerts | RCache | RLocked | RConn | RAgent.
Inductive rw := Rd | Wr.
Definition access := (res * rw)%type.

(** Facts about one method, regenerated from the Go AST:
    - [mf_mode]: which call on the server mutex comes first (Lock / RLock / none);
    - [mf_deferred]: the matching release is deferred right after it and is the
      only other call on the mutex (so it is held until return);
    - [mf_acc]: transitive accesses to the shared resources; [RConn] is direct
      stream I/O on the upstream connection, [RAgent] a round trip through the
      x/crypto client (which uses the same connection under its own mutex);
    - [mf_nested]: acquisitions of the server mutex attempted by callees while
      this method holds it (calls to lock-taking exported methods; blocking in
      Wait counts as [Exclusive]). *)
Record method_facts := mkFacts {
  mf_mode : mode; mf_deferred : bool; mf_acc : list access; mf_nested : list mode }.

Definition mode_eqb (a b : mode) : bool :=
  match a, b with Exclusive, Exclusive | Shared, Shared | NoLock, NoLock => true | _, _ => false end.
Definition res_eqb (a b : res) : bool :=
  match a, b with
  | RCerts, RCerts | RCache, RCache | RLocked, RLocked | RConn, RConn | RAgent, RAgent => true
  | _, _ => false end.

(** The mode that protects the whole body: a release that is not deferred
    protects nothing (the body may run after it). *)
Definition eff_mode (f : method_facts) : mode := if mf_deferred f then mf_mode f else NoLock.

(** A round trip through the agent client is I/O on the connection, made while
    holding the client's inner mutex. *)
Definition via_inner (a : access) : bool := match fst a with RAgent => true | _ => false end.
Definition phys (r : res) : res := match r with RAgent => RConn | _ => r end.
Definition is_write (a : access) : bool := match snd a with Wr => true | Rd => false end.
Definition conflict (a b : access) : bool :=
  res_eqb (phys (fst a)) (phys (fst b)) && (is_write a || is_write b).

(** Lockset condition for one pair of accesses made by two threads holding the
    server mutex in modes m1, m2: conflicting accesses must have a common lock
    that excludes them - the server mutex with at least one side exclusive, or
    the inner client mutex on both sides. *)
Definition pair_ok (m1 : mode) (a1 : access) (m2 : mode) (a2 : access) : bool :=
  negb (conflict a1 a2)
  || (mode_eqb m1 Exclusive && negb (mode_eqb m2 NoLock))
  || (mode_eqb m2 Exclusive && negb (mode_eqb m1 NoLock))
  || (via_inner a1 && via_inner a2).

Definition facts_pair_ok (f1 f2 : method_facts) : bool :=
  forallb (fun a1 => forallb (fun a2 => pair_ok (eff_mode f1) a1 (eff_mode f2) a2) (mf_acc f2)) (mf_acc f1).
Definition lockset_ok_facts (fs : list method_facts) : bool :=
  forallb (fun f1 => forallb (fun f2 => facts_pair_ok f1 f2) fs) fs.
Definition lockset_ok (tbl : list (str * method_facts)) : bool := lockset_ok_facts (map snd tbl).

Definition touches (f : method_facts) : bool := match mf_acc f with [] => false | _ => true end.
Definition exclusive_body (f : method_facts) : bool := mode_eqb (eff_mode f) Exclusive.
Definition exclusive_or_pure (f : method_facts) : bool := negb (touches f) || exclusive_body f.
Definition all_exclusive (tbl : list (str * method_facts)) : bool :=
  forallb exclusive_or_pure (map snd tbl).

Definition no_nested (f : method_facts) : bool := match mf_nested f with [] => true | _ => false end.
(** Lock order: the server mutex is never re-acquired (or a condition waited
    on) while held; the inner client mutex is only ever taken inside one access
    and released before the next step of the method, so the only order is
    server mutex -> inner mutex. *)
Definition lock_order_acyclic (tbl : list (str * method_facts)) : bool :=
  forallb no_nested (map snd tbl).

(** Pairs of methods that violate the lockset condition (diagnostics). *)
Definition lockset_offenders (tbl : list (str * method_facts)) : list (str * str) :=
  flat_map (fun p1 => flat_map (fun p2 =>
      if facts_pair_ok (snd p1) (snd p2) then [] else [(fst p1, fst p2)]) tbl) tbl.

Fixpoint lookup_facts (tbl : list (str * method_facts)) (name : str) : option method_facts :=
  match tbl with
  | [] => None
  | (n, f) :: r => if str_eqb n name then Some f else lookup_facts r name
  end.

(** Facts of an operation named by its method; a name that is not in the table
    gets the facts of a method that takes no lock and touches nothing. *)
Definition default_facts : method_facts := mkFacts NoLock true [] [].
Definition table_facts (tbl : list (str * method_facts)) {P : Type} (o : str * P) : method_facts :=
  match lookup_facts tbl (fst o) with Some f => f | None => default_facts end.

Section Trace.
  Variables (S Op Reply : Type).
  Variable exec : Op -> S -> S * Reply.       (* sequential semantics of one operation *)
  Variable facts : Op -> method_facts.
  Variable prog : nat -> list Op.             (* program of every thread (any number of threads) *)
  Variable s0 : S.

  Inductive action := AAcc (a : access) | ANest (m : mode).
  Definition body (f : method_facts) : list action :=
    map AAcc (mf_acc f) ++ map ANest (mf_nested f).

  Inductive pcstate :=
  | Idle
  | Run (o : Op) (todo : list action) (cur : option access) (snap : option S)
  | Fin (o : Op).        (* committed; the deferred release is still to run *)

  Record config := mkConfig {
    shared : S;
    wr : option nat; rds : list nat;            (* the readers/writer mutex *)
    inner : option nat;                         (* the agent client's mutex *)
    pcs : nat -> pcstate; queue : nat -> list Op;
    alog : list (nat * Op);                     (* ghost: acquisition order *)
    clog : list (nat * Op);                     (* ghost: commit order *)
    rlog : list (nat * Reply) }.                (* replies, tagged with the receiving thread *)

  Definition upd {A} (f : nat -> A) (t : nat) (v : A) : nat -> A :=
    fun t' => if Nat.eqb t' t then v else f t'.

  Definition init : config := mkConfig s0 None [] None (fun _ => Idle) prog [] [] [].

  Definition lock_free (m : mode) (c : config) : Prop :=
    match m with
    | Exclusive => wr c = None /\ rds c = []
    | Shared => wr c = None
    | NoLock => True
    end.
  Definition acq_wr (m : mode) (t : nat) (c : config) : option nat :=
    match m with Exclusive => Some t | _ => wr c end.
  Definition acq_rds (m : mode) (t : nat) (c : config) : list nat :=
    match m with Shared => t :: rds c | _ => rds c end.
  Definition rel_wr (m : mode) (c : config) : option nat :=
    match m with Exclusive => None | _ => wr c end.
  Definition rel_rds (m : mode) (t : nat) (c : config) : list nat :=
    match m with Shared => List.remove Nat.eq_dec t (rds c) | _ => rds c end.

  Definition snap_or (snap : option S) (s : S) : S := match snap with Some x => x | None => s end.

  Inductive step : config -> config -> Prop :=
  | step_acquire c t o q :
      pcs c t = Idle -> queue c t = o :: q -> lock_free (eff_mode (facts o)) c ->
      step c (mkConfig (shared c) (acq_wr (eff_mode (facts o)) t c) (acq_rds (eff_mode (facts o)) t c) (inner c)
                (upd (pcs c) t (Run o (body (facts o)) None None)) (upd (queue c) t q)
                (alog c ++ [(t, o)]) (clog c) (rlog c))
  | step_begin c t o a todo snap :
      pcs c t = Run o (AAcc a :: todo) None snap ->
      (via_inner a = true -> inner c = None) ->
      step c (mkConfig (shared c) (wr c) (rds c) (if via_inner a then Some t else inner c)
                (upd (pcs c) t (Run o todo (Some a) (Some (snap_or snap (shared c))))) (queue c)
                (alog c) (clog c) (rlog c))
  | step_end c t o a todo snap :
      pcs c t = Run o todo (Some a) snap ->
      step c (mkConfig (shared c) (wr c) (rds c) (if via_inner a then None else inner c)
                (upd (pcs c) t (Run o todo None snap)) (queue c)
                (alog c) (clog c) (rlog c))
  | step_nest c t o m todo snap :
      pcs c t = Run o (ANest m :: todo) None snap -> lock_free m c ->
      step c (mkConfig (shared c) (wr c) (rds c) (inner c)
                (upd (pcs c) t (Run o todo None snap)) (queue c)
                (alog c) (clog c) (rlog c))
  | step_commit c t o snap :
      pcs c t = Run o [] None snap ->
      step c (mkConfig (fst (exec o (snap_or snap (shared c)))) (wr c) (rds c) (inner c)
                (upd (pcs c) t (Fin o)) (queue c)
                (alog c) (clog c ++ [(t, o)]) (rlog c ++ [(t, snd (exec o (snap_or snap (shared c))))]))
  | step_release c t o :
      pcs c t = Fin o ->
      step c (mkConfig (shared c) (rel_wr (eff_mode (facts o)) c) (rel_rds (eff_mode (facts o)) t c) (inner c)
                (upd (pcs c) t Idle) (queue c)
                (alog c) (clog c) (rlog c)).

  (** Executable scheduler: the step thread [t] can take, if any (every thread
      has at most one enabled step).  Used to run the model on concrete
      schedules; [Proofs.LocksProofs.sched_step_sound] ties it to [step]. *)
  Definition lock_free_b (m : mode) (c : config) : bool :=
    match m with
    | Exclusive => match wr c, rds c with None, [] => true | _, _ => false end
    | Shared => match wr c with None => true | _ => false end
    | NoLock => true
    end.
  Definition sched_step (c : config) (t : nat) : option config :=
    match pcs c t with
    | Idle =>
        match queue c t with
        | o :: q =>
            if lock_free_b (eff_mode (facts o)) c
            then Some (mkConfig (shared c) (acq_wr (eff_mode (facts o)) t c) (acq_rds (eff_mode (facts o)) t c) (inner c)
                         (upd (pcs c) t (Run o (body (facts o)) None None)) (upd (queue c) t q)
                         (alog c ++ [(t, o)]) (clog c) (rlog c))
            else None
        | [] => None
        end
    | Run o todo (Some a) snap =>
        Some (mkConfig (shared c) (wr c) (rds c) (if via_inner a then None else inner c)
                (upd (pcs c) t (Run o todo None snap)) (queue c) (alog c) (clog c) (rlog c))
    | Run o (AAcc a :: todo) None snap =>
        if negb (via_inner a) || match inner c with None => true | Some _ => false end
        then Some (mkConfig (shared c) (wr c) (rds c) (if via_inner a then Some t else inner c)
                     (upd (pcs c) t (Run o todo (Some a) (Some (snap_or snap (shared c))))) (queue c)
                     (alog c) (clog c) (rlog c))
        else None
    | Run o (ANest m :: todo) None snap =>
        if lock_free_b m c
        then Some (mkConfig (shared c) (wr c) (rds c) (inner c)
                     (upd (pcs c) t (Run o todo None snap)) (queue c) (alog c) (clog c) (rlog c))
        else None
    | Run o [] None snap =>
        Some (mkConfig (fst (exec o (snap_or snap (shared c)))) (wr c) (rds c) (inner c)
                (upd (pcs c) t (Fin o)) (queue c)
                (alog c) (clog c ++ [(t, o)]) (rlog c ++ [(t, snd (exec o (snap_or snap (shared c))))]))
    | Fin o =>
        Some (mkConfig (shared c) (rel_wr (eff_mode (facts o)) c) (rel_rds (eff_mode (facts o)) t c) (inner c)
                (upd (pcs c) t Idle) (queue c) (alog c) (clog c) (rlog c))
    end.
  Fixpoint run_sched (sch : list nat) (c : config) : option config :=
    match sch with
    | [] => Some c
    | t :: r => match sched_step c t with Some c' => run_sched r c' | None => None end
    end.

  Inductive reachable : config -> Prop :=
  | reach_init : reachable init
  | reach_step c c' : reachable c -> step c c' -> reachable c'.

  (** Two different threads are inside conflicting accesses at the same time. *)
  Definition race (c : config) : Prop :=
    exists t1 t2 o1 o2 td1 td2 a1 a2 s1 s2,
      t1 <> t2 /\ pcs c t1 = Run o1 td1 (Some a1) s1 /\ pcs c t2 = Run o2 td2 (Some a2) s2 /\
      conflict a1 a2 = true.

  (** Sequential reference: run a log of (thread, op) in order. *)
  Fixpoint run_log (l : list (nat * Op)) (s : S) : S * list (nat * Reply) :=
    match l with
    | [] => (s, [])
    | (t, o) :: l' =>
        let r := run_log l' (fst (exec o s)) in
        (fst r, (t, snd (exec o s)) :: snd r)
    end.

  Definition ops_of (t : nat) (l : list (nat * Op)) : list Op :=
    map snd (filter (fun p => Nat.eqb (fst p) t) l).
  Definition replies_of (t : nat) (l : list (nat * Reply)) : list Reply :=
    map snd (filter (fun p => Nat.eqb (fst p) t) l).
  Definition xfilter (l : list (nat * Op)) : list (nat * Op) :=
    filter (fun p => exclusive_body (facts (snd p))) l.
  Definition inflight (c : config) (t : nat) : list Op :=
    match pcs c t with Run o _ _ _ => [o] | _ => [] end.

  Definition quiescent (c : config) : Prop := forall t, pcs c t = Idle /\ queue c t = [].
  Definition pending (c : config) : Prop := exists t, pcs c t <> Idle \/ queue c t <> [].

  (** The discipline, per operation. *)
  Definition lockset_discipline : Prop :=
    forall o1 o2 a1 a2, In a1 (mf_acc (facts o1)) -> In a2 (mf_acc (facts o2)) ->
      pair_ok (eff_mode (facts o1)) a1 (eff_mode (facts o2)) a2 = true.
  Definition exclusive_discipline : Prop := forall o, exclusive_or_pure (facts o) = true.
  Definition nesting_discipline : Prop := forall o, no_nested (facts o) = true.
  (** An operation whose method touches no shared resource neither changes the
      state nor lets its reply depend on it. *)
  Definition pure_ops : Prop :=
    forall o, touches (facts o) = false ->
      forall s, fst (exec o s) = s /\ forall s', snd (exec o s') = snd (exec o s).
End Trace.

Arguments Idle {S Op}.
Arguments Run {S Op} o todo cur snap.
Arguments Fin {S Op} o.
Arguments step {S Op Reply} exec facts _ _.
Arguments reachable {S Op Reply} exec facts prog s0 _.
Arguments init {S Op Reply} prog s0.
Arguments sched_step {S Op Reply} exec facts c t.
Arguments run_sched {S Op Reply} exec facts sch c.
Arguments lock_free_b {S Op Reply} m c.
Arguments race {S Op Reply} c.
Arguments run_log {S Op Reply} exec l s.
Arguments ops_of {Op} t l.
Arguments replies_of {Reply} t l.
Arguments xfilter {Op} facts l.
Arguments inflight {S Op Reply} c t.
Arguments lock_free {S Op Reply} m c.
Arguments quiescent {S Op Reply} c.
Arguments pending {S Op Reply} c.
Arguments lockset_discipline {Op} facts.
Arguments exclusive_discipline {Op} facts.
Arguments nesting_discipline {Op} facts.
Arguments pure_ops {S Op Reply} exec facts.
Arguments snap_or {S} snap s.
Arguments acq_wr {S Op Reply} m t c.
Arguments acq_rds {S Op Reply} m t c.
Arguments rel_wr {S Op Reply} m c.
Arguments rel_rds {S Op Reply} m t c.
Arguments mkConfig {S Op Reply}.
Arguments shared {S Op Reply} c.
Arguments wr {S Op Reply} c.
Arguments rds {S Op Reply} c.
Arguments inner {S Op Reply} c.
Arguments pcs {S Op Reply} c _.
Arguments queue {S Op Reply} c _.
Arguments alog {S Op Reply} c.
Arguments clog {S Op Reply} c.
Arguments rlog {S Op Reply} c.
