(** Model of csr/param.go (NewReqParam, parseForceCommand),
    sshutils/version (Unmarshal), csr/transid (Generate), common/nspolicy.

    External inputs are arguments: [valid_ip] is net.ParseIP(x) != nil (Go
    standard library, evaluated by the harness), [draw] the bytes crypto/rand
    delivered into transid.Generate's buffer.  Every Go index / slice is a
    [go_index] / [go_slice] / [go_from].  No proofs here. *)
From Verif Require Import Lib.Base Lib.Json Lib.Str Generated.MessageGen Model.Message.

(** ** version.Unmarshal *)
(** versionRE = ^\d+\.\d+$ (RE2: \d is ASCII 0-9; $ without the m flag is the
    end of the text only): one or more digits, a dot, one or more digits. *)
Fixpoint all_digits (s : str) : bool :=
  match s with [] => true | c :: r => is_digit c && all_digits r end.
Fixpoint version_re_tail (s : str) : bool :=   (* after at least one digit: \d*\.\d+$ *)
  match s with
  | [] => false
  | c :: r =>
      if is_digit c then version_re_tail r
      else (c =? 46)%N && negb (is_empty r) && all_digits r
  end.
Definition version_re_match (s : str) : bool :=
  match s with
  | c :: r => is_digit c && version_re_tail r
  | [] => false
  end.

Record Version := mkVersion { major : N; minor : N }.
Definition default_version : Version := mkVersion 0 0.

(** [Err tt] = any of the three error returns. *)
Definition version_unmarshal (s : str) : outcome (result unit Version) :=
  if negb (version_re_match s) then Val (Err tt)
  else
    match index_of_char 46%N s with
    | None => Panic   (* strings.Index = -1, then s[:-1] *)
    | Some i =>
        olet ma := go_slice s 0 i in
        match parse_uint_go version_bit_size ma with
        | PUOk a =>
            olet mi := go_from s (S i) in
            match parse_uint_go version_bit_size mi with
            | PUOk b => Val (Ok (mkVersion a b))
            | _ => Val (Err tt)
            end
        | _ => Val (Err tt)
        end
    end.

(** ** transid.Generate: hex of the bytes read from crypto/rand. *)
Definition transid_generate (draw : list N) : str := hex_of_bytes draw.

(** ** parseForceCommand *)
Definition flatten_args (argv : list str) : list str := flat_map (split_on 32%N) argv.
Definition valid_policy (p : str) : bool := existsb (str_eqb p) namespace_policies.

(** error codes of NewReqParam: 1 message, 2 LOGNAME, 3 client IP,
    4 too few tokens, 5 too many tokens, 6 invalid policy, 7 client version *)
Definition perr := N.

Definition parse_force_command (argv : list str) : outcome (result perr (str * str)) :=
  let args := flatten_args argv in
  let l := length args in
  if (l <? force_min_tokens)%nat then Val (Err 4%N)
  else if (force_max_tokens <? l)%nat then Val (Err 5%N)
  else
    olet pol := go_index args (l - force_policy_offset) in
    if negb (valid_policy pol) then Val (Err 6%N)
    else
      olet h := go_index args (l - force_handler_offset) in
      Val (Ok (pol, h)).

Record ReqParam := mkReqParam {
  rpPolicy : str; rpHandler : str; rpClientIP : str; rpLogName : str;
  rpReqUser : str; rpReqHost : str; rpTransID : str; rpVersion : Version;
  rpSignatureAlgo : Z; rpAttrs : Attributes }.

Section NewReqParam.
  Variable valid_ip : str -> bool.
  Variable draw : list N.

  Definition new_req_param (text : str) (tree : option json) (logname conn : str) (argv : list str)
    : outcome (result perr ReqParam) :=
    olet m := unmarshal text tree in
    match m with
    | Err _ => Val (Err 1%N)
    | Ok attrs =>
        if is_empty logname then Val (Err 2%N)
        else
          olet ip := go_index (split_on 32%N conn) conn_field_index in
          if negb (valid_ip ip) then Val (Err 3%N)
          else
            olet fc := parse_force_command argv in
            match fc with
            | Err c => Val (Err c)
            | Ok (pol, handler) =>
                olet ver :=
                  (if is_empty (sshClientVersion attrs) then Val (Ok default_version)
                   else version_unmarshal (sshClientVersion attrs)) in
                match ver with
                | Err _ => Val (Err 7%N)
                | Ok v =>
                    Val (Ok (mkReqParam pol handler ip logname (username attrs) (hostname attrs)
                                        (transid_generate draw) v (signatureAlgo attrs) attrs))
                end
            end
    end.
End NewReqParam.

(** ** The property's own words (independent of the code's shape). *)
(** the first space-separated field of the connection string *)
Fixpoint first_field (s : str) : str :=
  match s with
  | [] => []
  | c :: r => if (c =? 32)%N then [] else c :: first_field r
  end.
(** the tokens of the forced command: every argument cut at single spaces *)
Fixpoint cut_spaces (s : str) (cur : str) : list str :=
  match s with
  | [] => [rev cur]
  | c :: r => if (c =? 32)%N then rev cur :: cut_spaces r [] else cut_spaces r (c :: cur)
  end.
Definition spec_tokens (argv : list str) : list str := concat (map (fun a => cut_spaces a []) argv).
Definition spec_policies : list str := [tx "NONS"; tx "NSOK"].
(** "major.minor" with decimal 16-bit numbers *)
Fixpoint digits_value (s : str) (acc : N) : N :=
  match s with [] => acc | c :: r => digits_value r (10 * acc + (c - 48))%N end.
Fixpoint spec_split_dot (s : str) (cur : str) : option (str * str) :=
  match s with
  | [] => None
  | c :: r => if (c =? 46)%N then Some (rev cur, r) else spec_split_dot r (c :: cur)
  end.
Definition spec_version (s : str) : option (N * N) :=
  match spec_split_dot s [] with
  | Some (a, b) =>
      if negb (is_empty a) && negb (is_empty b) && forallb is_digit a && forallb is_digit b &&
         (digits_value a 0 <=? 65535)%N && (digits_value b 0 <=? 65535)%N
      then Some (digits_value a 0, digits_value b 0) else None
  | None => None
  end.
(** "a 10-hex-digit value" *)
Definition is_transid (s : str) : bool := Nat.eqb (length s) 10 && forallb is_lower_hex s.
