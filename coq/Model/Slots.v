(** Model of the parser inside the server's ListSlots method over the PIV tool's status output
    (agent/yubiagent/server.go) and of the remote-mode refusals.  The line
    guard, prefix and slice bounds come from [Generated.YubiAgentGen]; every
    Go slice expression is a [go_slice], so "never crashes" is a theorem.
    Output and slot names are byte strings. No proofs here. *)
From Verif Require Import Lib.Base Lib.Bytes Lib.Wire Generated.YubiAgentGen.

(** One iteration of the loop with explicit guard and bounds (so that the
    pre-repair guard can be instantiated too):
      if len(line) >= minlen && line[:phi] == prefix { slots = append(slots, line[lo:hi]) }
    [&&] is short-circuit: line[:phi] is evaluated only when the length test holds. *)
Definition parse_line_with (minlen phi : nat) (prefix : bytes) (lo hi : nat) (line : bytes)
  : outcome (list bytes) :=
  if (minlen <=? length line)%nat then
    olet p := go_slice line 0 phi in
    if bytes_eqb p prefix then
      olet s := go_slice line lo hi in Val [s]
    else Val []
  else Val [].

Fixpoint parse_lines_with (minlen phi : nat) (prefix : bytes) (lo hi : nat) (lines : list bytes)
  : outcome (list bytes) :=
  match lines with
  | [] => Val []
  | l :: r =>
      olet a := parse_line_with minlen phi prefix lo hi l in
      olet b := parse_lines_with minlen phi prefix lo hi r in
      Val (a ++ b)
  end.

Definition parse_status_with (minlen : nat) (out : bytes) : outcome (list bytes) :=
  parse_lines_with minlen slots_prefix_hi slots_prefix slots_lo slots_hi (split_on slots_sep out).

(** The code as it is now. *)
Definition parse_status (out : bytes) : outcome (list bytes) :=
  parse_status_with slots_min_len out.

(** ListSlots as a whole: remote mode refuses; a failing tool (non-zero exit)
    is an error; otherwise the parsed names.  [tool = None]: the tool failed. *)
Inductive slots_result := SlotsRefused | SlotsToolError | SlotsOk (l : list bytes).
Definition refuses (method : str) : bool :=
  match find (fun p => str_eqb (fst p) method) remote_refuses with
  | Some (_, b) => b
  | None => false
  end.
Definition list_slots (remote : bool) (tool : option bytes) : outcome slots_result :=
  if remote && refuses (tx "ListSlots") then Val SlotsRefused
  else match tool with
       | None => Val SlotsToolError
       | Some out => olet l := parse_status out in Val (SlotsOk l)
       end.

(** The property's own words: "the two characters that follow 'Slot ' on every
    line beginning with 'Slot'", a line being a maximal run between newlines;
    a line too short to have them contributes nothing. Written with
    firstn/skipn, independently of the code's guard. *)
Definition slot_word : bytes := [83; 108; 111; 116]%N.
Definition spec_line (line : bytes) : list bytes :=
  if bytes_eqb (firstn 4 line) slot_word && (7 <=? length line)%nat
  then [firstn 2 (skipn 5 line)] else [].
Definition spec_status (out : bytes) : list bytes :=
  flat_map spec_line (split_on 10%N out).
