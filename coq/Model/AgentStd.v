(** The standard ssh-agent requests as they travel between a yubiagent client
    and the agent behind [yubiagent.ServeAgent]: list, sign with flags, add
    with constraints, remove, remove-all, lock, unlock.

    In the repository both ends of these requests are x/crypto's agent client
    (embedded in yubiagent's client) and x/crypto's agent server (which
    [ServeAgent] hands the re-framed request to); the repository's own part is
    the relay ([Model/Serve.v]).  This file models the two codecs at the level
    of the wire format - message code, length-prefixed strings, uint32, the
    key-constraint list - so that "the served agent receives the same arguments
    and the caller receives the same result" is a theorem over all arguments
    and not only an observation ([Proofs/AgentStdProofs.v]); the harness
    records the real bytes of both directions and [C13Check.CStd] compares them
    with these definitions.

    Key material is opaque: an added key is its type name and its sequence of
    length-prefixed fields (ssh-rsa: n e d iqmp p q; ecdsa: curve point d;
    ed25519: public private; certificates: the certificate and the private
    parts); whether x/crypto can build a key object from the fields is outside
    the model (the harness sends real keys).  Replies of a type that does not
    belong to the request are outside it too (C10's safeAgent covers them).
    No proofs here. *)
From Verif Require Import Lib.Base Lib.Bytes Lib.Wire Model.Wire.
Local Open Scope N_scope.

(** * Values *)
Record added := mkAdded {
  a_type : bytes; a_fields : list bytes; a_comment : bytes;
  a_lifetime : N;                       (* 0 = none *)
  a_confirm : bool;
  a_exts : list (bytes * bytes) }.      (* constraint extensions: name, details *)

Inductive sreq :=
| QList
| QSign (blob data : bytes) (flags : N)
| QAdd (a : added)
| QRemove (blob : bytes)
| QRemoveAll
| QLock (p : bytes)
| QUnlock (p : bytes).

Inductive sresp :=
| PSuccess
| PFailure
| PIdents (l : list (bytes * bytes))           (* key blob, comment *)
| PSig (format blob rest : bytes).

(** number of length-prefixed fields between the type name and the comment *)
Definition key_fields (typ : bytes) : option nat :=
  if bytes_eqb typ (tx "ssh-rsa") then Some 6%nat
  else if bytes_eqb typ (tx "ssh-dss") then Some 5%nat
  else if bytes_eqb typ (tx "ecdsa-sha2-nistp256") || bytes_eqb typ (tx "ecdsa-sha2-nistp384")
          || bytes_eqb typ (tx "ecdsa-sha2-nistp521") then Some 3%nat
  else if bytes_eqb typ (tx "ssh-ed25519") then Some 2%nat
  else if bytes_eqb typ (tx "ssh-rsa-cert-v01@openssh.com") then Some 5%nat
  else if bytes_eqb typ (tx "ssh-dss-cert-v01@openssh.com") then Some 2%nat
  else if bytes_eqb typ (tx "ecdsa-sha2-nistp256-cert-v01@openssh.com")
          || bytes_eqb typ (tx "ecdsa-sha2-nistp384-cert-v01@openssh.com")
          || bytes_eqb typ (tx "ecdsa-sha2-nistp521-cert-v01@openssh.com") then Some 2%nat
  else if bytes_eqb typ (tx "ssh-ed25519-cert-v01@openssh.com") then Some 3%nat
  else None.

(** * Primitives *)
Fixpoint put_strings (l : list bytes) : bytes :=
  match l with [] => [] | x :: r => put_string x ++ put_strings r end.

Fixpoint parse_strings (n : nat) (l : bytes) : option (list bytes * bytes) :=
  match n with
  | O => Some ([], l)
  | S m =>
      match parse_string l with
      | None => None
      | Some (s, r) =>
          match parse_strings m r with
          | None => None
          | Some (ss, r') => Some (s :: ss, r')
          end
      end
  end.

(** a key blob is usable by the server when it starts with a string (its format name) *)
Definition blob_ok (b : bytes) : bool :=
  match parse_string b with Some _ => true | None => false end.

(** * Client side: requests *)
Definition enc_ext (e : bytes * bytes) : bytes := 255 :: put_string (fst e) ++ put_string (snd e).

Definition enc_constraints (life : N) (conf : bool) (exts : list (bytes * bytes)) : bytes :=
  (if life =? 0 then [] else 1 :: be32 life) ++ (if conf then [2] else []) ++ flat_map enc_ext exts.

Definition enc_req (r : sreq) : bytes :=
  match r with
  | QList => [11]
  | QSign blob data flags => 13 :: put_string blob ++ put_string data ++ be32 flags
  | QAdd a =>
      (* x/crypto's client (v0.35.0) writes the lifetime and the confirmation flag only:
         AddedKey.ConstraintExtensions never reach the wire (known finding K6) *)
      let cs := enc_constraints (a_lifetime a) (a_confirm a) [] in
      (match cs with [] => 17 | _ => 25 end)
        :: put_string (a_type a) ++ put_strings (a_fields a) ++ put_string (a_comment a) ++ cs
  | QRemove blob => 18 :: put_string blob
  | QRemoveAll => [19]
  | QLock p => 22 :: put_string p
  | QUnlock p => 23 :: put_string p
  end.

(** * Server side: requests.
    [Panic] = the x/crypto server panics (a lifetime constraint cut short:
    `constraints[1:5]`), which ServeAgent turns into an error that ends the
    connection; [Val None] = the request is refused (failure reply). *)
Fixpoint dec_constraints (fuel : nat) (c : bytes) (life : N) (conf : bool) (exts : list (bytes * bytes))
  : outcome (option (N * bool * list (bytes * bytes))) :=
  match c with
  | [] => Val (Some (life, conf, exts))
  | t :: rest =>
      match fuel with
      | O => Val None                       (* not reached with fuel >= length c, see AgentStdProofs.dec_constraints_fuel *)
      | S f =>
          if t =? 1 then
            match rest with
            | a :: b :: c' :: d :: r => dec_constraints f r (of_be32 a b c' d) conf exts
            | _ => Panic
            end
          else if t =? 2 then dec_constraints f rest life true exts
          else if (t =? 255) || (t =? 3) then
            match parse_string rest with
            | None => Val None
            | Some (name, r1) =>
                match parse_string r1 with
                | None => Val None
                | Some (det, r2) => dec_constraints f r2 life conf (exts ++ [(name, det)])
                end
            end
          else Val None
      end
  end.

Definition dec_blob_only (r : bytes) : option bytes :=
  match parse_string r with
  | Some (b, []) => Some b
  | _ => None
  end.

Definition dec_req (req : bytes) : outcome (option sreq) :=
  match req with
  | [] => Val None
  | t :: r =>
      if t =? 11 then Val (Some QList)
      else if t =? 19 then Val (Some QRemoveAll)
      else if t =? 18 then
        Val (match dec_blob_only r with
             | Some b => if blob_ok b then Some (QRemove b) else None
             | None => None end)
      else if t =? 22 then Val (match dec_blob_only r with Some p => Some (QLock p) | None => None end)
      else if t =? 23 then Val (match dec_blob_only r with Some p => Some (QUnlock p) | None => None end)
      else if t =? 13 then
        Val (match parse_string r with
             | Some (blob, r1) =>
                 match parse_string r1 with
                 | Some (data, r2) =>
                     match parse_u32 r2 with
                     | Some (flags, []) => if blob_ok blob then Some (QSign blob data flags) else None
                     | _ => None
                     end
                 | None => None
                 end
             | None => None
             end)
      else if (t =? 17) || (t =? 25) then
        match parse_string r with
        | None => Val None
        | Some (typ, r1) =>
            match key_fields typ with
            | None => Val None
            | Some n =>
                match parse_strings n r1 with
                | None => Val None
                | Some (fields, r2) =>
                    match parse_string r2 with
                    | None => Val None
                    | Some (comment, cs) =>
                        match dec_constraints (length cs) cs 0 false [] with
                        | Panic => Panic
                        | Val None => Val None
                        | Val (Some (life, conf, exts)) =>
                            Val (Some (QAdd (mkAdded typ fields comment life conf exts)))
                        end
                    end
                end
            end
        end
      else Val None
  end.

(** * Server side: replies *)
Definition enc_ident (k : bytes * bytes) : bytes := put_string (fst k) ++ put_string (snd k).

Definition enc_resp (p : sresp) : bytes :=
  match p with
  | PSuccess => [6]
  | PFailure => [5]
  | PIdents l => 12 :: be32 (N.of_nat (length l)) ++ flat_map enc_ident l
  | PSig f b rest => 14 :: put_string (put_string f ++ put_string b ++ rest)
  end.

(** * Client side: replies.  [None] = the operation returns an error. *)
Definition max_keys : N := 2097152.       (* maxAgentResponseBytes / 8 *)

Fixpoint parse_idents (n : nat) (l : bytes) : option (list (bytes * bytes)) :=
  match n with
  | O => Some []
  | S m =>
      match parse_string l with
      | None => None
      | Some (blob, r) =>
          match parse_string r with
          | None => None
          | Some (comment, r') =>
              if blob_ok blob then
                match parse_idents m r' with
                | None => None
                | Some ks => Some ((blob, comment) :: ks)
                end
              else None
          end
      end
  end.

Definition dec_list_reply (resp : bytes) : option (list (bytes * bytes)) :=
  match resp with
  | 12 :: r =>
      match parse_u32 r with
      | Some (n, keys) => if max_keys <? n then None else parse_idents (N.to_nat n) keys
      | None => None
      end
  | _ => None
  end.

Definition dec_sign_reply (resp : bytes) : option (bytes * bytes * bytes) :=
  match resp with
  | 14 :: r =>
      match dec_blob_only r with
      | Some sigblob =>
          match parse_string sigblob with
          | Some (f, r1) =>
              match parse_string r1 with
              | Some (b, rest) => Some (f, b, rest)
              | None => None
              end
          | None => None
          end
      | None => None
      end
  | _ => None
  end.

Definition dec_simple_reply (resp : bytes) : bool := bytes_eqb resp [6].

(** what the caller of the client gets for request [q] when the reply is [resp] *)
Definition dec_std_reply (q : sreq) (resp : bytes) : option sresp :=
  match q with
  | QList => match dec_list_reply resp with Some l => Some (PIdents l) | None => None end
  | QSign _ _ _ => match dec_sign_reply resp with Some (f, b, r) => Some (PSig f b r) | None => None end
  | _ => if dec_simple_reply resp then Some PSuccess else None
  end.

(** * The whole path: client encoder, relay (identity on the frame), server
    decoder, the served agent [ag], server encoder, client decoder. *)
Definition through (ag : sreq -> sresp) (q : sreq) : outcome (option sreq * option sresp) :=
  match dec_req (enc_req q) with
  | Panic => Panic
  | Val None => Val (None, dec_std_reply q (enc_resp PFailure))
  | Val (Some q') => Val (Some q', dec_std_reply q (enc_resp (ag q')))
  end.

(** the reply kinds an agent can give to a request *)
Definition resp_for (q : sreq) (p : sresp) : bool :=
  match q, p with
  | _, PFailure => true
  | QList, PIdents _ => true
  | QSign _ _ _, PSig _ _ _ => true
  | (QAdd _ | QRemove _ | QRemoveAll | QLock _ | QUnlock _), PSuccess => true
  | _, _ => false
  end.

(** * Well-formedness: every length fits the 32-bit prefix *)
Definition ext_ok (e : bytes * bytes) : Prop := fits32 (fst e) /\ fits32 (snd e).
Definition added_ok (a : added) : Prop :=
  fits32 (a_type a) /\ Forall fits32 (a_fields a) /\ fits32 (a_comment a) /\
  a_lifetime a < 4294967296 /\ a_exts a = [] /\
  key_fields (a_type a) = Some (length (a_fields a)).
Definition req_ok (q : sreq) : Prop :=
  match q with
  | QSign blob data flags => fits32 blob /\ blob_ok blob = true /\ fits32 data /\ flags < 4294967296
  | QAdd a => added_ok a
  | QRemove blob => fits32 blob /\ blob_ok blob = true
  | QLock p | QUnlock p => fits32 p
  | _ => True
  end.
Definition ident_ok (k : bytes * bytes) : Prop := fits32 (fst k) /\ blob_ok (fst k) = true /\ fits32 (snd k).
Definition resp_ok (p : sresp) : Prop :=
  match p with
  | PIdents l => Forall ident_ok l /\ N.of_nat (length l) <= max_keys
  | PSig f b rest => fits32 f /\ fits32 b /\ fits32 (put_string f ++ put_string b ++ rest)
  | _ => True
  end.
