(** Correspondence check and property oracle for C05 (executable; no proofs).

    A case carries the implementation's observation; [check] compares it with
    the model and evaluates the property's own statement on it. *)
From Verif Require Import Lib.Base Lib.Json Lib.JsonText Generated.KeyIdGen Model.KeyId.

Inductive case :=
| CRound (k : KeyID) (enc : option json) (dec : option KeyID)
    (* Marshal k = enc (None = error); dec = Unmarshal of the produced text *)
| CDecode (t : option json) (dec : option KeyID)
    (* Unmarshal of a text whose tree is t (None = not valid JSON) *)
| CText (s : str) (t : option json)
    (* the text s (valid UTF-8, as code points) tokenised by encoding/json: tree t, None = json.Valid says no *)
| CPrint (j : json) (s : str).
    (* encoding/json printed a value whose tree is j as the text s *)

(** The property, evaluated on the implementation's observation. *)
Definition oracle_round (k : KeyID) (enc : option json) (dec : option KeyID) : bool :=
  let should := supported_version (ver k) && consistent_spec k in
  match enc with
  | None => negb should
  | Some _ => should && match dec with Some k' => keyid_eqb k k' | None => false end
  end.

Definition oracle_decode (t : option json) (dec : option KeyID) : bool :=
  match dec with
  | None => true
  | Some k =>
      supported_version (ver k) && consistent_spec k &&
      match t with
      | Some (JObj kvs) => forallb (obj_has_key kvs) required_spec
      | _ => false
      end
  end.

(** Inputs on which the tree-level decoding model is exact: re-decoding a
    []string field into a non-nil slice reuses elements and spare capacity,
    which the model reproduces only when every element is a string. *)
Definition prins_occurrences (kvs : list (str * json)) : list json :=
  map snd (filter (fun p => match find_field keyid_json_names (fst p) with
                            | Some 0%nat => true | _ => false end) kvs).
Definition modelable (t : option json) : bool :=
  match t with
  | Some (JObj kvs) =>
      let occ := prins_occurrences kvs in
      (length occ <=? 1)%nat ||
      forallb (fun v => match v with JArr xs => all_strings xs | _ => true end) occ
  | _ => true
  end.

Definition res_eqb (m : result kerr KeyID) (i : option KeyID) : bool :=
  match m, i with
  | Ok a, Some b => keyid_eqb a b
  | Err _, None => true
  | _, _ => false
  end.

Definition check (c : case) : N :=
  match c with
  | CRound k enc dec =>
      if negb (oracle_round k enc dec) then 2
      else
        let agree :=
          match marshal k, enc with
          | Ok j, Some j' => json_eqb j j' && res_eqb (unmarshal (Some j)) dec
          | Err _, None => true
          | _, _ => false
          end in
        if agree then 0 else 1
  | CDecode t dec =>
      if negb (oracle_decode t dec) then 2
      else if negb (modelable t) then 0
      else if res_eqb (unmarshal t) dec then 0 else 1
  | CText s t =>
      (* the Gallina parser reads what Go's decoder reads *)
      if option_eqb json_eqb (parse s) t then 0 else 1
  | CPrint j s =>
      (* the Gallina printer prints what Go's encoder prints *)
      if str_eqb (print j) s then 0 else 1
  end.

(** Which branch of the model a case reached (input-distribution report). *)
Definition classify (c : case) : N :=
  match c with
  | CRound k _ _ =>
      match marshal k with
      | Ok _ => 10 | Err EUnsupportedVersion => 11 | Err _ => 12 end
  | CText _ t => match t with Some _ => 40 | None => 41 end
  | CPrint _ _ => 42
  | CDecode t _ =>
      if negb (modelable t) then 29 else
      match unmarshal t with
      | Ok _ => 20 | Err ESyntax => 21 | Err EType => 22
      | Err EUnsupportedVersion => 23 | Err (EMissingKey _) => 24 | Err ESanity => 25
      end
  end.
