(** Correspondence check and property oracle for C14 (executable; no proofs). *)
From Verif Require Import Lib.Base Lib.Json Lib.JsonText Lib.Str Generated.MessageGen Model.Message Model.ReqParam.

(** What the harness observes of a returned *ReqParam. *)
Record obs := mkObs {
  oPolicy : str; oHandler : str; oIP : str; oLog : str; oUser : str; oHost : str;
  oTrans : str; oMajor : N; oMinor : N; oSigAlgo : Z }.

(** One call of csr.NewReqParam with injected getters.  [ip_ok] is
    net.ParseIP(first field of conn) != nil, evaluated by the harness;
    [res] is the error class or the observed fields. *)
Inductive case :=
| CParam (text : str) (tree : option json) (logname conn : str) (ip_ok : bool)
         (argv : list str) (res : result N obs).

Definition nth_from_end (l : list str) (k : nat) : option str :=
  if (length l <? k)%nat then None else nth_error l (length l - k).

(** The property's sentence on an observation. *)
Definition oracle_param (text : str) (tree : option json) (logname conn : str) (ip_ok : bool)
           (argv : list str) (res : result N obs) : bool :=
  match res with
  | Err _ => true                                   (* "either fails or ..." *)
  | Ok o =>
      (* login name: the non-empty server-provided one *)
      str_eqb (oLog o) logname && negb (is_empty logname) &&
      (* client IP: the syntactically valid first field of the connection string *)
      str_eqb (oIP o) (first_field conn) && ip_ok &&
      (* namespace policy: one of the two defined values, taken from the forced
         command (program, [shell -c,] policy, handler: 3 to 6 tokens) *)
      existsb (str_eqb (oPolicy o)) spec_policies &&
      (let toks := spec_tokens argv in
       (3 <=? length toks)%nat && (length toks <=? 6)%nat &&
       option_eqb str_eqb (nth_from_end toks 2) (Some (oPolicy o)) &&
       option_eqb str_eqb (nth_from_end toks 1) (Some (oHandler o))) &&
      (* the message: client version = declared major.minor (0.0 when a legacy
         message omits it); user and host copied verbatim *)
      match unmarshal text tree with
      | Val (Ok a) =>
          (if is_empty (sshClientVersion a)
           then N.eqb (oMajor o) 0 && N.eqb (oMinor o) 0
           else match spec_version (sshClientVersion a) with
                | Some (ma, mi) => N.eqb (oMajor o) ma && N.eqb (oMinor o) mi
                | None => false
                end) &&
          str_eqb (oUser o) (username a) && str_eqb (oHost o) (hostname a)
      | _ => false                                   (* parameters for a refused message *)
      end &&
      (* transaction id: 10 hex digits (freshness over the run is checked on
         the Go side: pairwise distinct) *)
      is_transid (oTrans o)
  end.

Definition version_eqb (v : Version) (ma mi : N) : bool := N.eqb (major v) ma && N.eqb (minor v) mi.

Definition model_result (text : str) (tree : option json) (logname conn : str) (ip_ok : bool)
           (argv : list str) (res : result N obs) : outcome (result perr ReqParam) :=
  let draw := match res with
              | Ok o => match unhex (oTrans o) with Some d => d | None => [] end
              | Err _ => []
              end in
  new_req_param (fun _ => ip_ok) draw text tree logname conn argv.

Definition check (c : case) : N :=
  match c with
  | CParam text tree logname conn ip_ok argv res =>
      if negb (oracle_param text tree logname conn ip_ok argv res) then 2
      else if negb (option_eqb json_eqb (parse text) tree) then 1   (* text level: parser vs encoding/json *)
      else
        match model_result text tree logname conn ip_ok argv res, res with
        | Val (Ok p), Ok o =>
            if str_eqb (rpPolicy p) (oPolicy o) && str_eqb (rpHandler p) (oHandler o) &&
               str_eqb (rpClientIP p) (oIP o) && str_eqb (rpLogName p) (oLog o) &&
               str_eqb (rpReqUser p) (oUser o) && str_eqb (rpReqHost p) (oHost o) &&
               str_eqb (rpTransID p) (oTrans o) && version_eqb (rpVersion p) (oMajor o) (oMinor o) &&
               Z.eqb (rpSignatureAlgo p) (oSigAlgo o)
            then 0 else 1
        | Val (Err c1), Err c2 => if N.eqb c1 c2 then 0 else 1
        | _, _ => 1
        end
  end.

(** Which branch of the model a case reached. *)
Definition classify (c : case) : N :=
  match c with
  | CParam text tree logname conn ip_ok argv res =>
      match model_result text tree logname conn ip_ok argv res with
      | Val (Ok p) =>
          match match tree with Some j => decode_struct j | None => None end with
          | Some _ => 10                                   (* JSON message *)
          | None => if is_empty (sshClientVersion (rpAttrs p)) then 12 else 11   (* legacy *)
          end
      | Val (Err c) => c
      | Panic => 9
      end
  end.
