(** Model of agent/yubiagent/io.go: the framed read (io.ReadFull of a 4-byte
    big-endian length, the bound check, io.ReadFull of the body) and the framed
    write, over a connection whose input is a finite byte list (the peer sends
    [s] and then closes).  The bound, its comparison operator and the fact that
    it precedes the allocation come from [Generated.YubiAgentGen].
    No proofs here. *)
From Verif Require Import Lib.Base Lib.Bytes Lib.Wire Generated.YubiAgentGen.
Local Open Scope N_scope.

(** write(c, data): 4-byte big-endian length, then the data *)
Definition frame (body : bytes) : bytes := be32 (blen body) ++ body.

(** write refuses data longer than the bound *)
Definition write_ok (data : bytes) : bool :=
  negb (write_bound_checked && (write_bound <? blen data)).

(** `if l > maxAgentResponseBytes { return error }` placed before make([]byte, l) *)
Definition too_large (l : N) : bool :=
  read_bound_before_alloc && (if read_bound_strict then read_bound <? l else read_bound <=? l).

(** What read(c) does on the remaining input [s]:
    - io.ReadFull of the prefix returns io.EOF when no byte is left ([FEof]),
      io.ErrUnexpectedEOF when 1..3 bytes are left ([FTruncPrefix]);
    - a declared length above the bound is refused before anything is
      allocated or read ([FTooLarge]);
    - io.ReadFull of a zero-length body succeeds at once;
    - io.ReadFull of a non-empty body returns io.EOF when no byte follows
      ([FEofBody] - the very same error value as a clean end of stream),
      io.ErrUnexpectedEOF when fewer than declared follow ([FTruncBody]). *)
Inductive frame_read :=
| FEof | FTruncPrefix | FTooLarge (l : N) | FEofBody | FTruncBody
| FFrame (body rest : bytes).

Definition read_frame (s : bytes) : frame_read :=
  match s with
  | [] => FEof
  | a :: b :: c :: d :: r =>
      let l := of_be32 a b c d in
      if too_large l then FTooLarge l
      else if l =? 0 then FFrame [] r
      else match r with
           | [] => FEofBody
           | _ => if blen r <? l then FTruncBody
                  else FFrame (firstn (N.to_nat l) r) (skipn (N.to_nat l) r)
           end
  | _ => FTruncPrefix
  end.

(** The property's own reading of a stream (independent of [read_frame]'s
    shape; used by the oracle): the complete frames at the head of the stream
    whose declared length is in 1..2^24, and what comes after them. *)
Inductive tail_kind :=
| TClean          (* nothing left: a clean end between frames *)
| TPrefixCut      (* 1..3 bytes of a length prefix *)
| TOversize       (* a prefix declaring more than 16 MiB *)
| TZero           (* a prefix declaring length 0 *)
| TBodyMissing    (* a complete prefix, declared length > 0, no body byte at all *)
| TBodyCut.       (* a body shorter than declared *)

Definition spec_max : N := 16777216.

Fixpoint spec_frames (fuel : nat) (s : bytes) : list bytes * tail_kind :=
  match fuel with
  | O => ([], TClean)
  | S f =>
      match s with
      | [] => ([], TClean)
      | a :: b :: c :: d :: r =>
          let l := of_be32 a b c d in
          if spec_max <? l then ([], TOversize)
          else if l =? 0 then ([], TZero)
          else if blen r =? 0 then ([], TBodyMissing)
          else if blen r <? l then ([], TBodyCut)
          else let '(fs, t) := spec_frames f (skipn (N.to_nat l) r) in
               (firstn (N.to_nat l) r :: fs, t)
      | _ => ([], TPrefixCut)
      end
  end.
Definition stream_frames (s : bytes) : list bytes * tail_kind := spec_frames (S (length s)) s.

(** The byte stream carrying the request frames [fs] back to back. *)
Definition stream_of (fs : list bytes) : bytes := concat (map frame fs).
