(** Correspondence check and property oracle for C13 (executable; no proofs).

    The harness drives the REAL client (yubiagent.NewClientFromConn) against
    the REAL yubiagent.ServeAgent serving a recording agent, captures the exact
    bytes on the wire in both directions, and emits for each repo-defined
    message: the operation's arguments, the request bytes the client wrote, what
    the served agent recorded, the scripted result, the response bytes the
    server wrote, and what the client returned.  Big payloads (signatures,
    64 KiB data, standard agent requests) are compared on the Go side. *)
From Verif Require Import Lib.Base Lib.Bytes Lib.Wire Generated.YubiAgentGen
  Model.Wire Model.Slots Model.AgentStd.
Local Open Scope N_scope.

Inductive case :=
(* add-hard-cert. legacy: the request is the code byte + bare blob (sent
   hand-made); tail_parses: whether the real ssh.ParsePublicKey accepts the
   request minus its first byte; seen: (key.Marshal(), comment) recorded by the
   served agent (None = not called); scripted / client_err: error text or None. *)
| CAdd (legacy : bool) (blob comment : bytes) (tail_parses : bool)
       (req_wire : bytes) (seen : option (bytes * bytes))
       (scripted : option bytes) (resp_wire : bytes) (client_err : option bytes)
| CWait (code : N) (req_wire : bytes) (seen : option N)
        (scripted : option bytes) (resp_wire : bytes) (client_err : option bytes)
| CList (slots : list bytes) (err : option bytes) (req_wire resp_wire : bytes)
        (client_slots : list bytes) (client_err : option bytes)
(* read-slot / attest-slot. pem: PEM of the scripted certificate ([] when the
   agent returned none); cert_same: the client returned a certificate whose
   Raw bytes equal the scripted one's; client_err: the client's error text. *)
| CSlot (attest : bool) (slot : bytes) (req_wire : bytes) (seen : option bytes)
        (pem : bytes) (err : option bytes) (resp_wire : bytes)
        (cert_same : bool) (client_err : option bytes)
(* the PIV tool's status output (None = the tool exited non-zero) and what the
   concrete local-mode server's ListSlots returned (None = an error) *)
| CStatus (tool_out : option bytes) (result : option (list bytes))
(* a slot operation on the concrete remote-mode server: 0 list, 1 read, 2 attest *)
| CRemote (op : N) (refused : bool)
(* a standard agent request through the client: what the client was asked, the
   request frame it wrote, what the served agent received (None = not called),
   what the served agent answered, the reply frame the server wrote, what the
   client's caller got (None = an error) *)
| CStd (q : sreq) (req_wire : bytes) (seen : option sreq) (scripted : sresp)
       (resp_wire : bytes) (client : option sresp).

Definition obytes_eqb := option_eqb bytes_eqb.
Definition lbytes_eqb := list_eqb bytes_eqb.
Definition pair_eqb (a b : bytes * bytes) : bool :=
  bytes_eqb (fst a) (fst b) && bytes_eqb (snd a) (snd b).

Definition ext_eqb (a b : bytes * bytes) : bool := pair_eqb a b.
Definition added_eqb (a b : added) : bool :=
  bytes_eqb (a_type a) (a_type b) && lbytes_eqb (a_fields a) (a_fields b) &&
  bytes_eqb (a_comment a) (a_comment b) && N.eqb (a_lifetime a) (a_lifetime b) &&
  Bool.eqb (a_confirm a) (a_confirm b) && list_eqb ext_eqb (a_exts a) (a_exts b).
Definition sreq_eqb (a b : sreq) : bool :=
  match a, b with
  | QList, QList | QRemoveAll, QRemoveAll => true
  | QSign b1 d1 f1, QSign b2 d2 f2 => bytes_eqb b1 b2 && bytes_eqb d1 d2 && N.eqb f1 f2
  | QAdd x, QAdd y => added_eqb x y
  | QRemove x, QRemove y | QLock x, QLock y | QUnlock x, QUnlock y => bytes_eqb x y
  | _, _ => false
  end.
Definition sresp_eqb (a b : sresp) : bool :=
  match a, b with
  | PSuccess, PSuccess | PFailure, PFailure => true
  | PIdents x, PIdents y => list_eqb pair_eqb x y
  | PSig f1 b1 r1, PSig f2 b2 r2 => bytes_eqb f1 f2 && bytes_eqb b1 b2 && bytes_eqb r1 r2
  | _, _ => false
  end.

(** * The property, on the implementation's observation *)
(** "the served agent receives the same arguments and the caller receives the
    same result, with keys, certificates and signatures byte-identical and
    failures reported as errors" *)
Definition oracle_std (q : sreq) (seen : option sreq) (scripted : sresp) (client : option sresp) : bool :=
  option_eqb sreq_eqb seen (Some q) &&
  option_eqb sresp_eqb client (match scripted with PFailure => None | p => Some p end).

(** "the served agent receives the same arguments and the caller receives the
    same result ... failures reported as errors" *)
(** a failure is reported as an error, a success as none; the wording of the
    error is the implementation's (the model-vs-implementation comparison still looks at it) *)
Definition same_outcome (client_err scripted : option bytes) : bool :=
  match client_err, scripted with
  | None, None | Some _, Some _ => true
  | _, _ => false
  end.

Definition oracle_add (legacy : bool) (blob comment : bytes) (seen : option (bytes * bytes))
    (scripted client_err : option bytes) : bool :=
  option_eqb pair_eqb seen (Some (blob, if legacy then [] else comment)) &&
  same_outcome client_err scripted.

Definition oracle_wait (code : N) (seen : option N) (scripted client_err : option bytes) : bool :=
  option_eqb N.eqb seen (Some code) && same_outcome client_err scripted.

Definition oracle_list (slots : list bytes) (err : option bytes)
    (client_slots : list bytes) (client_err : option bytes) : bool :=
  match err with
  | None => lbytes_eqb client_slots slots && obytes_eqb client_err None
  | Some _ => match client_err with Some _ => true | None => false end
  end.

(** a scripted certificate comes back identical; a scripted failure comes back
    as an error, with the same text when there is one *)
Definition oracle_slot (slot : bytes) (seen : option bytes) (err : option bytes)
    (cert_same : bool) (client_err : option bytes) : bool :=
  obytes_eqb seen (Some slot) &&
  match err with
  | None => cert_same && obytes_eqb client_err None
  | Some _ => negb cert_same && match client_err with Some _ => true | None => false end
  end.

(** "returns, in order, the two characters that follow 'Slot ' on every line
    beginning with 'Slot' ..., never crashes ..." (a crash is reported by the
    harness as a native violation; a failing tool is an error) *)
Definition oracle_status (tool_out : option bytes) (result : option (list bytes)) : bool :=
  match tool_out, result with
  | Some out, Some l => lbytes_eqb l (spec_status out)
  | None, None => true
  | _, _ => false
  end.

(** * Model vs implementation *)
Definition key_oracle (blob tail : bytes) (tail_parses : bool) (b : bytes) : option bytes :=
  if bytes_eqb b blob then Some blob
  else if bytes_eqb b tail && tail_parses then Some tail
  else None.

Definition outcome_opt_eqb {A} (eqb : A -> A -> bool) (m : outcome (option A)) (i : option A) : bool :=
  match m with Val x => option_eqb eqb x i | Panic => false end.

Definition agree (c : case) : bool :=
  match c with
  | CAdd legacy blob comment tail_parses req_wire seen scripted resp_wire client_err =>
      obytes_eqb (if legacy then Some (enc_add_legacy blob) else enc_add_new blob comment) (Some req_wire) &&
      outcome_opt_eqb pair_eqb (dec_add (key_oracle blob (skipn 1 req_wire) tail_parses) req_wire) seen &&
      bytes_eqb (enc_reply scripted) resp_wire &&
      obytes_eqb (dec_reply resp_wire) client_err
  | CWait code req_wire seen scripted resp_wire client_err =>
      bytes_eqb (enc_wait_req code) req_wire &&
      match dec_wait_req req_wire with
      | Val (WaitCode c') => option_eqb N.eqb seen (Some c')
      | _ => false
      end &&
      bytes_eqb (enc_reply scripted) resp_wire &&
      obytes_eqb (dec_reply resp_wire) client_err
  | CList slots err req_wire resp_wire client_slots client_err =>
      bytes_eqb enc_list_req req_wire &&
      obytes_eqb (enc_list_resp slots err) (Some resp_wire) &&
      match dec_list_resp resp_wire with
      | Some (s, e) => lbytes_eqb s client_slots && obytes_eqb e client_err
      | None => false
      end
  | CSlot attest slot req_wire seen pem err resp_wire cert_same client_err =>
      bytes_eqb (enc_slot_req attest slot) req_wire &&
      match dec_slot_req req_wire with Val s => obytes_eqb seen (Some s) | Panic => false end &&
      obytes_eqb (enc_slot_resp attest pem err) (Some resp_wire) &&
      match dec_slot_resp resp_wire with
      | Some (SlotErr t) => negb cert_same && obytes_eqb client_err (Some t)
      | Some (SlotPem p) =>
          bytes_eqb p pem &&
          (* the PEM goes to the certificate parser (trusted): empty PEM is an error *)
          match p with [] => negb cert_same | _ => true end
      | None => false
      end
  | CStatus tool_out result =>
      match list_slots false tool_out, result with
      | Val (SlotsOk l), Some l' => lbytes_eqb l l'
      | Val SlotsToolError, None => true
      | _, _ => false
      end
  | CRemote op refused =>
      Bool.eqb refused
        (refuses (match op with 0 => tx "ListSlots" | 1 => tx "ReadSlot" | _ => tx "AttestSlot" end))
  | CStd q req_wire seen scripted resp_wire client =>
      bytes_eqb (enc_req q) req_wire &&
      match dec_req req_wire with
      | Val s => option_eqb sreq_eqb s seen
      | Panic => false
      end &&
      bytes_eqb (enc_resp scripted) resp_wire &&
      option_eqb sresp_eqb (dec_std_reply q resp_wire) client
  end.

Definition oracle (c : case) : bool :=
  match c with
  | CAdd legacy blob comment _ _ seen scripted _ client_err =>
      oracle_add legacy blob comment seen scripted client_err
  | CWait code _ seen scripted _ client_err => oracle_wait code seen scripted client_err
  | CList slots err _ _ cs ce => oracle_list slots err cs ce
  | CSlot _ slot _ seen _ err _ cert_same ce => oracle_slot slot seen err cert_same ce
  | CStatus tool_out result => oracle_status tool_out result
  | CRemote _ refused => refused
  | CStd q _ seen scripted _ client => oracle_std q seen scripted client
  end.

Definition check (c : case) : N :=
  if negb (oracle c) then 2 else if agree c then 0 else 1.

(** Model branch reached (coverage histogram). *)
Definition classify (c : case) : N :=
  match c with
  | CAdd false _ _ _ _ _ None _ _ => 10
  | CAdd false _ _ _ _ _ (Some _) _ _ => 11
  | CAdd true _ _ _ _ _ None _ _ => 12
  | CAdd true _ _ _ _ _ (Some _) _ _ => 13
  | CWait _ _ _ None _ _ => 20
  | CWait _ _ _ (Some _) _ _ => 21
  | CList [] None _ _ _ _ => 30
  | CList _ None _ _ _ _ => 31
  | CList _ (Some _) _ _ _ _ => 32
  | CSlot a _ _ _ _ None _ _ _ => if a then 42 else 40
  | CSlot a _ _ _ _ (Some _) _ _ _ => if a then 43 else 41
  | CStatus None _ => 50
  | CStatus (Some out) _ =>
      match parse_status out with
      | Val [] => 51
      | Val _ => 52
      | Panic => 59
      end
  | CRemote _ _ => 60
  | CStd q _ _ scripted _ _ =>
      (match q with QList => 70 | QSign _ _ _ => 72 | QAdd _ => 74 | QRemove _ => 76 | QRemoveAll => 78
                  | QLock _ => 80 | QUnlock _ => 82 end)
      + (match scripted with PFailure => 1 | _ => 0 end)
  end.
