(** Model of the CA fail-over of crypki Signer.Sign, of the result assembly
    of postUserSSHCertificate and of key.GetPublicKeysFromBytes
    (crypki/signer.go, sshutils/key/parse.go).  Executable; no proofs here.

    Go slices are lists (nil and the empty slice are both [[]]: the code and
    the property only ever look at [len]).  Go's named results
    [(certs, comments, err)] are the record [gores]. *)
From Verif Require Import Lib.Base.

(** * Errors, as a small enumeration. *)
Inductive ekind :=
| ENoEndpoint            (* Sign: "no crypki endpoint is configured" *)
| EDial                  (* connection could not be established (surfaces as an RPC error, code Unavailable) *)
| ERpc (code : N)        (* PostUserSSHCertificate returned a status error *)
| EParse                 (* GetPublicKeysFromBytes found no key in the reply *)
| EDiverged.             (* only if the authorized-key parser did not consume input; see [post_reply] *)

Definition ekind_eqb (a b : ekind) : bool :=
  match a, b with
  | ENoEndpoint, ENoEndpoint | EDial, EDial | EParse, EParse | EDiverged, EDiverged => true
  | ERpc x, ERpc y => N.eqb x y
  | _, _ => false
  end.

(** Go's [(certs []ssh.PublicKey, comments []string, err error)]. *)
Record gores (K C : Type) := mkRes { g_certs : list K; g_comments : list C; g_err : option ekind }.
Arguments mkRes {K C}.
Arguments g_certs {K C}.
Arguments g_comments {K C}.
Arguments g_err {K C}.

Definition is_nil_err {K C} (r : gores K C) : bool :=
  match g_err r with None => true | Some _ => false end.

(** * key.GetPublicKeysFromBytes over an abstract authorized-key parser.

    [parse data] stands for [ssh.ParseAuthorizedKey(data)]: the key ([None] =
    nil), its comment, the rest of the input, and whether err is non-nil.
    The Go loop is [for len(data) > 0]; it terminates because the parser
    consumes input, which is a HYPOTHESIS of the theorems, not of the model:
    here the loop runs on fuel [len(data)] and reports [None] if that does not
    suffice. *)
Section Parse.
  Variables D K C : Type.
  Variable dlen : D -> nat.
  Variable parse : D -> option K * C * D * bool.

  Fixpoint gpk_loop (fuel : nat) (data : D) (keys : list K) (comments : list C) (err : bool)
    : option (list K * list C * bool) :=
    if (dlen data =? 0)%nat then Some (keys, comments, err)
    else
      match fuel with
      | O => None
      | S f =>
          match parse data with
          | (Some key, c, rest, e) => gpk_loop f rest (keys ++ [key]) (comments ++ [c]) e
          | (None, _, rest, e) => gpk_loop f rest keys comments e
          end
      end.

  (** [(keys, comments, err != nil)], or [None] when the loop did not end. *)
  Definition get_public_keys (data : D) : option (list K * list C * bool) :=
    match gpk_loop (dlen data) data [] [] false with
    | None => None
    | Some (keys, comments, _) =>
        if (length keys =? 0)%nat then Some ([], [], true)   (* return nil, nil, fmt.Errorf(...) *)
        else Some (keys, comments, false)
    end.

  (** What one endpoint does with one request. *)
  Inductive reply := RDialFail | RRpcFail (code : N) | RData (d : D).

  (** postUserSSHCertificate after the RPC: on a parse error the code returns
      [pubKeys, nil, err] - the key slice GetPublicKeysFromBytes returned,
      which is nil whenever its error is non-nil. *)
  Definition post_reply (r : reply) : gores K C :=
    match r with
    | RDialFail => mkRes [] [] (Some EDial)
    | RRpcFail c => mkRes [] [] (Some (ERpc c))
    | RData d =>
        match get_public_keys d with
        | None => mkRes [] [] (Some EDiverged)
        | Some (keys, _, true) => mkRes keys [] (Some EParse)
        | Some (keys, comments, false) => mkRes keys comments None
        end
    end.
End Parse.

Arguments RDialFail {D}.
Arguments RRpcFail {D} code.
Arguments RData {D} d.

(** * Signer.Sign: the loop over the endpoints with named results.

    [post e req] is [s.postUserSSHCertificate(ctx, request, endpoint)].  The
    named results are overwritten by every iteration; the bare [return] after
    the loop yields the values of the LAST iteration.  The second component is
    the ordered list of calls made (endpoint, request passed). *)
Section Loop.
  Variables E R K C : Type.
  Variable post : E -> R -> gores K C.

  Fixpoint sign_loop (eps : list E) (req : R) (cur : gores K C) (log : list (E * R))
    : gores K C * list (E * R) :=
    match eps with
    | [] => (cur, log)                                  (* return *)
    | e :: rest =>
        let r := post e req in                           (* certs, comments, err = ... *)
        let log' := log ++ [(e, req)] in
        if is_nil_err r then (r, log')                   (* if err == nil { return } *)
        else sign_loop rest req r log'
    end.

  Definition sign (eps : list E) (req : R) : gores K C * list (E * R) :=
    match eps with
    | [] => (mkRes [] [] (Some ENoEndpoint), [])        (* if len(s.endpoints) == 0 { return nil, nil, errors.New(...) } *)
    | _ => sign_loop eps req (mkRes [] [] None) []
    end.
End Loop.

Arguments sign_loop {E R K C} post eps req cur log.
Arguments sign {E R K C} post eps req.

(** * The reply language of the harness CA servers.

    A reply text is a sequence of lines; a line either carries a key (id in the
    harness' blob table) with its comment, or is something
    ssh.ParseAuthorizedKey skips (blank, '#', undecodable).  ParseAuthorizedKey
    itself skips to the first key line; with no key line left it returns
    (nil, "", nil, nil, err). *)
Inductive line := LKey (k : N) (c : str) | LJunk.

Fixpoint parse_lines (d : list line) : option N * str * list line * bool :=
  match d with
  | [] => (None, [], [], true)
  | LKey k c :: rest => (Some k, c, rest, false)
  | LJunk :: rest => parse_lines rest
  end.

Definition gpk_lines : list line -> option (list N * list str * bool) :=
  get_public_keys (list line) N str (@length line) parse_lines.

Definition post_lines : reply (list line) -> gores N str :=
  post_reply (list line) N str (@length line) parse_lines.

Definition line_keys (d : list line) : list N :=
  flat_map (fun l => match l with LKey k _ => [k] | LJunk => [] end) d.
Definition line_comments (d : list line) : list str :=
  flat_map (fun l => match l with LKey _ c => [c] | LJunk => [] end) d.
