(** Model of attestation/yubiattest/modhex.go: ModHex.

    The extension loop, the length guard, the slice expression
    [ext.Value[from:]], the [switch len(serial)] table and the alphabet come
    from [Generated.AttestGen]; slicing, table indexing and the stores into
    [dst := make([]byte, 8)] go through [go_from] / [go_index] / [go_store], so
    "never crashes" is a theorem.  No proofs here. *)
From Verif Require Import Lib.Base Lib.Bytes Generated.AttestGen.

(** l[i] = v *)
Definition go_store {A} (l : list A) (i : nat) (v : A) : outcome (list A) :=
  if (i <? length l)%nat then Val (firstn i l ++ v :: skipn (S i) l) else Panic.

(** pkix.Extension, projected: Id (arcs; ext.Id.String() joins them with dots,
    so comparing the strings is comparing the arcs) and Value. *)
Definition ext := (list N * bytes)%type.

Definition oid_eqb (a b : list N) : bool := bytes_eqb a b.

Inductive mherr := MShortExt | MNotFound | MBadLen.

(** for _, ext := range cert.Extensions { if ext.Id.String() == OID { guard; serial = ext.Value[from:] } } *)
Fixpoint find_serial (guard : option N) (breaks : bool) (exts : list ext) (serial : option bytes)
  : outcome (result mherr (option bytes)) :=
  match exts with
  | [] => Val (Ok serial)
  | (id, v) :: r =>
      if oid_eqb id serial_ext_oid then
        if match guard with Some g => (N.of_nat (length v) <? g)%N | None => false end
        then Val (Err MShortExt)
        else olet s := go_from v (N.to_nat serial_from) in
             if breaks then Val (Ok (Some s)) else find_serial guard breaks r (Some s)
      else find_serial guard breaks r serial
  end.

(** dst[j] = modHexMap[p] for the constant stores of a switch case *)
Fixpoint store_pads (dst : bytes) (j : nat) (pads : list N) : outcome bytes :=
  match pads with
  | [] => Val dst
  | p :: r =>
      olet c := go_index modhex_map (N.to_nat p) in
      olet d := go_store dst j c in
      store_pads d (S j) r
  end.

(** for _, val := range serial { dst[dstidx] = modHexMap[(val>>4)&0xf]; dst[dstidx+1] = modHexMap[val&0xf]; dstidx += 2 } *)
Fixpoint hex_loop (serial : bytes) (dst : bytes) (dstidx : nat) : outcome bytes :=
  match serial with
  | [] => Val dst
  | val :: r =>
      olet hi := go_index modhex_map (N.to_nat (N.land (N.shiftr val 4) 15)) in
      olet d1 := go_store dst dstidx hi in
      olet lo := go_index modhex_map (N.to_nat (N.land val 15)) in
      olet d2 := go_store d1 (dstidx + 1) lo in
      hex_loop r d2 (dstidx + 2)
  end.

Definition encode_serial (serial : bytes) : outcome (result mherr bytes) :=
  let dst := repeat 0%N 8 in
  match find (fun c => N.eqb (fst c) (N.of_nat (length serial))) serial_switch with
  | Some (_, (pads, inc)) =>
      olet d := store_pads dst 0 pads in
      olet out := hex_loop serial d (N.to_nat inc) in
      Val (Ok out)
  | None =>
      if serial_switch_default_errors then Val (Err MBadLen)
      else olet out := hex_loop serial dst 0 in Val (Ok out)
  end.

Definition modhex_with (guard : option N) (exts : list ext) : outcome (result mherr bytes) :=
  olet r := find_serial guard serial_loop_breaks exts None in
  match r with
  | Err e => Val (Err e)
  | Ok None => Val (Err MNotFound)
  | Ok (Some serial) => encode_serial serial
  end.

Definition modhex : list ext -> outcome (result mherr bytes) := modhex_with serial_guard.
