(** The fields of a certificate below the envelope (RFC 5280 4.1), as functions
    on the DER subtrees [Model/X509Env.v] leaves opaque:

      version      [0] EXPLICIT INTEGER                      -> version number
      serialNumber INTEGER                                   -> integer (two's complement, minimal)
      validity     SEQUENCE { notBefore Time, notAfter Time } -> seconds since 1970-01-01T00:00:00Z
                   Time ::= UTCTime "YYMMDDHHMMSSZ" | GeneralizedTime "YYYYMMDDHHMMSSZ"
      issuer / subject  RDNSequence ::= SEQUENCE OF SET OF SEQUENCE { type OID, value ANY }
      extensions   [3] EXPLICIT SEQUENCE OF SEQUENCE { extnID OID, critical BOOLEAN DEFAULT FALSE,
                                                       extnValue OCTET STRING }

    This is what yubiattest.ParseCertificate (the lenient fork of the standard
    parser) must report in Version, SerialNumber, NotBefore / NotAfter,
    Issuer.Names / Subject.Names and Extensions.  Scope: the DER forms a
    conforming encoder produces (times in the two Z forms; attribute values of
    the directory-string kinds UTF8String, PrintableString, IA5String carry
    their content octets as text; other kinds are compared by type only).
    Executable; proofs in [Proofs/X509FieldsProofs.v]. *)
From Verif Require Import Lib.Base Lib.Bytes Model.Der Model.X509Env.
Local Open Scope Z_scope.

(** * INTEGER *)

(** exactly [k] big-endian octets of [n] (mod 256^k) *)
Fixpoint be_n (k : nat) (n : N) : bytes :=
  match k with
  | O => []
  | S k' => be_n k' (n / 256)%N ++ [(n mod 256)%N]
  end.

(** content octets -> value (two's complement) *)
Definition int_value (c : bytes) : Z :=
  match c with
  | [] => 0
  | b :: _ =>
      let u := Z.of_N (from_be c) in
      if (128 <=? b)%N then u - 2 ^ (8 * Z.of_nat (length c)) else u
  end.

(** encoding/asn1's checkInteger: not empty, minimally encoded *)
Definition int_ok (c : bytes) : bool :=
  match c with
  | [] => false
  | [_] => true
  | b0 :: b1 :: _ =>
      negb (((b0 =? 0)%N && (b1 <? 128)%N) || ((b0 =? 255)%N && (128 <=? b1)%N))
  end.

(** number of octets of the minimal two's complement form *)
Definition int_octets (z : Z) : nat :=
  let m := if z <? 0 then - z - 1 else z in
  let bits := if m =? 0 then 0 else Z.log2 m + 1 in
  S (Z.to_nat (bits / 8)).

Definition enc_int (z : Z) : bytes :=
  let k := int_octets z in
  be_n k (Z.to_N (z mod 2 ^ (8 * Z.of_nat k))).

(** * Time *)

Definition is_leap (y : Z) : bool :=
  ((y mod 4 =? 0) && negb (y mod 100 =? 0)) || (y mod 400 =? 0).

Definition month_len (y m : Z) : Z :=
  if m =? 2 then (if is_leap y then 29 else 28)
  else if (m =? 4) || (m =? 6) || (m =? 9) || (m =? 11) then 30 else 31.

(** days from 1970-01-01 to the civil date (proleptic Gregorian), closed form *)
Definition days_from_civil (y m d : Z) : Z :=
  let y' := if m <=? 2 then y - 1 else y in
  let era := y' / 400 in
  let yoe := y' - era * 400 in
  let mp := if 2 <? m then m - 3 else m + 9 in
  let doy := (153 * mp + 2) / 5 + d - 1 in
  let doe := yoe * 365 + yoe / 4 - yoe / 100 + doy in
  era * 146097 + doe - 719468.

(** the calendar itself: count the days of the years and months before *)
Definition year_len (y : Z) : Z := if is_leap y then 366 else 365.
Fixpoint sum_years (n : nat) : Z :=        (* days of the years 0 .. n-1 *)
  match n with O => 0 | S k => sum_years k + year_len (Z.of_nat k) end.
Fixpoint sum_months (y : Z) (n : nat) : Z := (* days of the months 1 .. n of year y *)
  match n with O => 0 | S k => sum_months y k + month_len y (Z.of_nat (S k)) end.
Definition days_naive (y m d : Z) : Z :=
  sum_years (Z.to_nat y) + sum_months y (Z.to_nat (m - 1)) + (d - 1) - 719528.

Definition digit (c : N) : option Z :=
  if ((48 <=? c) && (c <=? 57))%N then Some (Z.of_N c - 48) else None.

Definition two (a b : N) : option Z :=
  match digit a, digit b with
  | Some x, Some y => Some (10 * x + y)
  | _, _ => None
  end.

Definition clock_ok (y mo d h mi s : Z) : bool :=
  (1 <=? mo) && (mo <=? 12) && (1 <=? d) && (d <=? month_len y mo) && (h <? 24) && (mi <? 60) && (s <? 60).

Definition unix_of (y mo d h mi s : Z) : Z :=
  days_from_civil y mo d * 86400 + h * 3600 + mi * 60 + s.

(** UTCTime "YYMMDDHHMMSSZ": 50..99 -> 19YY, 00..49 -> 20YY *)
Definition parse_utctime (c : bytes) : option Z :=
  match c with
  | [y1; y2; m1; m2; d1; d2; h1; h2; i1; i2; s1; s2; z] =>
      if negb (z =? 90)%N then None else
      match two y1 y2, two m1 m2, two d1 d2, two h1 h2, two i1 i2, two s1 s2 with
      | Some yy, Some mo, Some d, Some h, Some mi, Some s =>
          let y := if 50 <=? yy then 1900 + yy else 2000 + yy in
          if clock_ok y mo d h mi s then Some (unix_of y mo d h mi s) else None
      | _, _, _, _, _, _ => None
      end
  | _ => None
  end.

(** GeneralizedTime "YYYYMMDDHHMMSSZ" *)
Definition parse_gentime (c : bytes) : option Z :=
  match c with
  | [y1; y2; y3; y4; m1; m2; d1; d2; h1; h2; i1; i2; s1; s2; z] =>
      if negb (z =? 90)%N then None else
      match two y1 y2, two y3 y4, two m1 m2, two d1 d2, two h1 h2, two i1 i2, two s1 s2 with
      | Some ya, Some yb, Some mo, Some d, Some h, Some mi, Some s =>
          let y := 100 * ya + yb in
          if clock_ok y mo d h mi s then Some (unix_of y mo d h mi s) else None
      | _, _, _, _, _, _, _ => None
      end
  | _ => None
  end.

Definition parse_time (t : der) : option Z :=
  match t with
  | DPrim tag c => if (tag =? 23)%N then parse_utctime c else if (tag =? 24)%N then parse_gentime c else None
  | DCons _ _ => None
  end.

(** printers (the forms a conforming encoder writes) *)
Definition dig (z : Z) : N := Z.to_N (48 + z mod 10).
Definition print2 (z : Z) : bytes := [dig (z / 10); dig z].
Definition print_utctime (y mo d h mi s : Z) : bytes :=
  print2 (y mod 100) ++ print2 mo ++ print2 d ++ print2 h ++ print2 mi ++ print2 s ++ [90%N].
Definition print_gentime (y mo d h mi s : Z) : bytes :=
  print2 (y / 100) ++ print2 (y mod 100) ++ print2 mo ++ print2 d ++ print2 h ++ print2 mi ++ print2 s ++ [90%N].

(** * Extensions *)
Definition ext := (bytes * bool * bytes)%type.   (* extnID content octets, critical, extnValue *)

Definition enc_ext (e : ext) : der :=
  let '(oid, crit, v) := e in
  DCons 48 (DPrim 6 oid :: (if crit then [DPrim 1 [255%N]] else []) ++ [DPrim 4 v]).

Definition dec_ext (t : der) : option ext :=
  match t with
  | DCons 48 [DPrim 6 oid; DPrim 4 v] => Some (oid, false, v)
  | DCons 48 [DPrim 6 oid; DPrim 1 [b]; DPrim 4 v] =>
      if (b =? 255)%N then Some (oid, true, v) else if (b =? 0)%N then Some (oid, false, v) else None
  | _ => None
  end.

Fixpoint map_opt {A B} (f : A -> option B) (l : list A) : option (list B) :=
  match l with
  | [] => Some []
  | x :: r => match f x, map_opt f r with Some y, Some ys => Some (y :: ys) | _, _ => None end
  end.

Definition is_ctx3 (t : der) : bool := match t with DCons tag _ => (tag =? 163)%N | DPrim _ _ => false end.

(** the [3] EXPLICIT node of the tail, when present *)
Definition exts_of_tail (tail : list der) : option (list ext) :=
  match find is_ctx3 tail with
  | None => Some []
  | Some (DCons _ [DCons 48 es]) => map_opt dec_ext es
  | Some _ => None
  end.

Definition ext_node (l : list ext) : der := DCons 163 [DCons 48 (map enc_ext l)].

(** * Names *)
Definition atv := (bytes * N * bytes)%type.   (* attribute type (OID content), value tag, value content *)

Definition enc_atv (a : atv) : der := let '(oid, tag, v) := a in DCons 48 [DPrim 6 oid; DPrim tag v].
Definition dec_atv (t : der) : option atv :=
  match t with
  | DCons 48 [DPrim 6 oid; DPrim tag v] => Some (oid, tag, v)
  | _ => None
  end.

Definition dec_rdn (t : der) : option (list atv) :=
  match t with
  | DCons 49 atvs => map_opt dec_atv atvs
  | _ => None
  end.

(** all attributes of the name, in order (as pkix.Name.Names lists them) *)
Definition dec_name (t : der) : option (list atv) :=
  match t with
  | DCons 48 rdns => match map_opt dec_rdn rdns with Some ls => Some (concat ls) | None => None end
  | _ => None
  end.

Definition enc_name (rdns : list (list atv)) : der := DCons 48 (map (fun r => DCons 49 (map enc_atv r)) rdns).

(** the kinds whose content octets are the text itself *)
Definition plain_string_tag (tag : N) : bool := ((tag =? 12) || (tag =? 19) || (tag =? 22))%N.

(** * The fields of a certificate *)
Record fields := mkFields {
  f_version : Z;
  f_serial : Z;
  f_not_before : Z;
  f_not_after : Z;
  f_issuer : list atv;
  f_subject : list atv;
  f_exts : list ext }.

Definition version_of (v : option der) : option Z :=
  match v with
  | None => Some 1
  | Some (DCons _ [DPrim 2 c]) => if int_ok c then Some (int_value c + 1) else None
  | Some _ => None
  end.

Definition serial_of (t : der) : option Z :=
  match t with
  | DPrim 2 c => if int_ok c then Some (int_value c) else None
  | _ => None
  end.

Definition validity_of (t : der) : option (Z * Z) :=
  match t with
  | DCons 48 [a; b] =>
      match parse_time a, parse_time b with
      | Some x, Some y => Some (x, y)
      | _, _ => None
      end
  | _ => None
  end.

Definition cert_fields (e : envelope) : option fields :=
  match version_of (e_version e), serial_of (e_serial e), validity_of (e_validity e),
        dec_name (e_issuer e), dec_name (e_subject e), exts_of_tail (e_tail e) with
  | Some v, Some s, Some (nb, na), Some i, Some su, Some x => Some (mkFields v s nb na i su x)
  | _, _, _, _, _, _ => None
  end.
