(** The X.509 certificate envelope as a function on DER trees (RFC 5280 4.1):

      Certificate ::= SEQUENCE { tbsCertificate, signatureAlgorithm, signatureValue BIT STRING }
      TBSCertificate ::= SEQUENCE { [0] version OPTIONAL, serialNumber, signature, issuer,
                                    validity, subject, subjectPublicKeyInfo, ... }
      SubjectPublicKeyInfo ::= SEQUENCE { SEQUENCE { algorithm OID, parameters OPTIONAL }, BIT STRING }

    with the key algorithm's parameters present (NULL for RSA per RFC 3279, a
    curve OID for EC) or ABSENT -- the leniency yubiattest.ParseCertificate
    exists for.  Names, validity, extensions stay opaque subtrees (C16 is
    partial there).  Executable; proofs in [Proofs/DerProofs.v]. *)
From Verif Require Import Lib.Base Lib.Bytes Model.Der.
Local Open Scope N_scope.

Record envelope := mkEnv {
  e_version : option der;      (* the [0] EXPLICIT node when present *)
  e_serial : der;
  e_sigalg_tbs : der;
  e_issuer : der;
  e_validity : der;
  e_subject : der;
  e_key_oid : bytes;           (* content octets of the key algorithm OID *)
  e_key_params : option der;   (* None = parameters absent *)
  e_key_bits : bytes;          (* BIT STRING content, first octet = unused bits *)
  e_tail : list der;           (* unique ids, [3] extensions *)
  e_sigalg : der;
  e_signature : bytes }.       (* BIT STRING content, first octet = unused bits *)

Definition opt_list {A} (o : option A) : list A := match o with Some x => [x] | None => [] end.

Definition spki_of (e : envelope) : der :=
  DCons 48 [DCons 48 (DPrim 6 (e_key_oid e) :: opt_list (e_key_params e)); DPrim 3 (e_key_bits e)].
Definition tbs_of (e : envelope) : der :=
  DCons 48 (opt_list (e_version e)
            ++ [e_serial e; e_sigalg_tbs e; e_issuer e; e_validity e; e_subject e; spki_of e]
            ++ e_tail e).
Definition der_of_env (e : envelope) : der :=
  DCons 48 [tbs_of e; e_sigalg e; DPrim 3 (e_signature e)].

(** Context tag [0], constructed: identifier octet 0xA0. *)
Definition is_ctx0 (t : der) : bool := match t with DCons tag _ => tag =? 160 | DPrim _ _ => false end.

Definition split_version (fields : list der) : option der * list der :=
  match fields with
  | f :: r => if is_ctx0 f then (Some f, r) else (None, fields)
  | [] => (None, [])
  end.

Definition spki_split (t : der) : option (bytes * option der * bytes) :=
  match t with
  | DCons tag [DCons atag (DPrim otag oid :: params); DPrim btag bits] =>
      if (tag =? 48) && (atag =? 48) && (otag =? 6) && (btag =? 3) then
        match params with
        | [] => Some (oid, None, bits)
        | [p] => Some (oid, Some p, bits)
        | _ => None
        end
      else None
  | _ => None
  end.

Definition env_of_der (t : der) : option envelope :=
  match t with
  | DCons tag [DCons ttag fields; sigalg; DPrim stag sig] =>
      if (tag =? 48) && (ttag =? 48) && (stag =? 3) then
        let (ver, rest) := split_version fields in
        match rest with
        | serial :: sa :: issuer :: validity :: subject :: spki :: tail =>
            match spki_split spki with
            | Some (oid, params, bits) =>
                Some (mkEnv ver serial sa issuer validity subject oid params bits tail sigalg sig)
            | None => None
            end
        | _ => None
        end
      else None
  | _ => None
  end.

(** The optional version is recognisable: it is a [0] node, the serial is not. *)
Definition env_wf (e : envelope) : bool :=
  match e_version e with
  | Some v => is_ctx0 v
  | None => negb (is_ctx0 (e_serial e))
  end.

(** A whole certificate: one DER value, nothing after it, with the envelope's shape. *)
Definition cert_parse (bs : bytes) : option envelope :=
  match parse_exact bs with
  | Some t => env_of_der t
  | None => None
  end.

(** Number of extensions: children of the SEQUENCE inside the [3] EXPLICIT node of the tail. *)
Definition ext_count (e : envelope) : N :=
  match find (fun t => match t with DCons tag _ => tag =? 163 | _ => false end) (e_tail e) with
  | Some (DCons _ [DCons _ exts]) => N.of_nat (length exts)
  | _ => 0
  end.
