(** KeyID at the text level: the certificate's KeyId field is the text Go's
    encoder prints for the KeyID's tree, and decoding starts from the text
    (executable; the round trip is in Proofs/KeyIdTextProofs.v). *)
From Verif Require Import Lib.Base Lib.Json Lib.JsonText Generated.KeyIdGen Model.KeyId.

Definition marshal_text (k : KeyID) : result kerr str :=
  match marshal k with Ok j => Ok (print j) | Err e => Err e end.

(** [parse s = None]: the text is not JSON *)
Definition unmarshal_text (s : str) : result kerr KeyID := unmarshal (parse s).

(** every string of the KeyID is text (Unicode scalar values) *)
Definition text_ok (k : KeyID) : bool :=
  match prins k with Some l => forallb (forallb scalar) l | None => true end &&
  forallb scalar (transID k) && forallb scalar (reqUser k) && forallb scalar (reqIP k) && forallb scalar (reqHost k).
