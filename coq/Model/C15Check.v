(** Correspondence check and property oracle for C15 (executable; no proofs).
    A case carries the implementation's observation; [check] compares it with
    the model and evaluates the property's own sentences on it. *)
From Verif Require Import Lib.Base Lib.Json Lib.JsonText Lib.Str Generated.MessageGen Model.Message.

Inductive case :=
| CRound (a : Attributes) (enc : result N wire) (dec : result N Attributes)
    (* a.Marshal() = enc; dec = message.Unmarshal of the produced text
       (only meaningful when enc is Ok) *)
| CDecode (text : str) (tree : option json) (dec : result N Attributes)
    (* message.Unmarshal(text); tree = the JSON tree of text (None: not JSON) *)
| CLegacy (text : str) (dec : result N Attributes)
    (* message.UnmarshalLegacy(text) *)
| CEnc (j : json) (s : str).
    (* encoding/json printed a value whose tree is j as the text s *)

(** ** The property, sentence by sentence, on the implementation's observation. *)

(** "in the legacy format ... the client version, user, host, hardware-key,
    touch-to-SSH and touchless-sudo fields come back equal ..., with the
    interface version reported as 6 and the raw tokens mirrored into the
    extension map" *)
Definition legacy_equiv (a b : Attributes) : bool :=
  str_eqb (sshClientVersion a) (sshClientVersion b) &&
  str_eqb (username a) (username b) && str_eqb (hostname a) (hostname b) &&
  Bool.eqb (hardKey a) (hardKey b) && Bool.eqb (touch2SSH a) (touch2SSH b) &&
  ts_eqb (ts_fields (touchlessSudo a)) (ts_fields (touchlessSudo b)) &&
  Z.eqb (ifVer b) 6 &&
  kvs_eqb (exts_entries (exts b)) (spec_exts a).

(** "Every attribute set the encoder accepts (non-empty client version, user
    and host) survives encoding and decoding: in the JSON format (interface
    version 7 and above) all fields including extension maps come back equal,
    and in the legacy ... format ... for all values free of whitespace and '@'
    ... the encoder ... refuses attribute sets missing a required field." *)
Definition oracle_round (a : Attributes) (enc : result N wire) (dec : result N Attributes) : bool :=
  match enc with
  | Err _ => negb (sanity_spec a)
  | Ok w =>
      sanity_spec a &&
      match w with
      | WJson _ =>
          (7 <=? ifVer a)%Z &&
          match dec with Ok b => attrs_equiv a b | Err _ => false end
      | WLegacy _ =>
          (ifVer a <? 7)%Z &&
          (if legacy_clean a
           then match dec with Ok b => legacy_equiv a b | Err _ => false end
           else true)
      end
  end.

(** Trees on which the tree-level model of decoding into interface{} is exact
    (numbers inside the extension map are integers of magnitude <= 2^53). *)
Definition exts_occurrences (kvs : list (str * json)) : list json :=
  map snd (filter (fun p => match find_field attrs_json_names (fst p) with
                            | Some 9%nat => true | _ => false end) kvs).
Definition modelable (tree : option json) : bool :=
  match tree with
  | Some (JObj kvs) => forallb nums_exact (exts_occurrences kvs)
  | _ => true
  end.

(** "Input that decodes as a JSON attribute object is never reinterpreted as
    legacy text and is subject to the same required-field checks as the
    encoder" *)
Definition oracle_decode (tree : option json) (dec : result N Attributes) : bool :=
  if negb (modelable tree) then true else
  match match tree with Some j => decode_struct j | None => None end with
  | Some a0 =>
      match dec with
      | Ok b => sanity_spec a0 && attrs_equiv a0 b
      | Err _ => negb (sanity_spec a0)
      end
  | None => true
  end.

Fixpoint kvs_lookup (k : str) (m : list (str * json)) : option json :=
  match m with
  | [] => None
  | (k', v) :: r => if str_eqb k k' then Some v else kvs_lookup k r
  end.
(** Legacy text: an accepted message has a requester of the form user@host,
    mirrored in the extension map; the touchless-sudo struct is allocated. *)
Definition oracle_legacy (dec : result N Attributes) : bool :=
  match dec with
  | Err _ => true
  | Ok b =>
      match kvs_lookup (tx "req") (exts_entries (exts b)) with
      | Some (JStr rq) => str_eqb rq (username b ++ 64%N :: hostname b)
      | _ => false
      end &&
      match touchlessSudo b with Some _ => true | None => false end
  end.

Definition res_eqb (m : outcome (result N Attributes)) (i : result N Attributes) : bool :=
  match m, i with
  | Val (Ok a), Ok b => attrs_eqb a b
  | Val (Err c), Err d => N.eqb c d
  | _, _ => false
  end.

Definition wire_eqb (a b : wire) : bool :=
  match a, b with
  | WJson x, WJson y => json_eqb x y
  | WLegacy x, WLegacy y => str_eqb x y
  | _, _ => false
  end.

(** Go values the harness generates are representable and canonical; a case
    that is not would be a harness defect (code 3). *)
Definition well_formed (a : Attributes) : bool := in_range a && exts_canonical a.

Definition model_decode (w : wire) : outcome (result N Attributes) :=
  match w with
  | WJson j => unmarshal [] (Some j)
  | WLegacy t => unmarshal t None
  end.

Definition check (c : case) : N :=
  match c with
  | CRound a enc dec =>
      if negb (well_formed a) then 3
      else if negb (oracle_round a enc dec) then 2
      else
        let agree :=
          match marshal a, enc with
          | Ok w, Ok w' => wire_eqb w w' && res_eqb (model_decode w) dec
          | Err c1, Err c2 => N.eqb c1 c2
          | _, _ => false
          end in
        if agree then 0 else 1
  | CDecode text tree dec =>
      if negb (oracle_decode tree dec) then 2
      (* text level: the Gallina parser reads the text as encoding/json's tokenizer does *)
      else if negb (option_eqb json_eqb (parse text) tree) then 1
      else if negb (modelable tree) then 0
      else if res_eqb (unmarshal text tree) dec then 0 else 1
  | CEnc j s =>
      (* the Gallina printer prints what Go's encoder prints (trees without fraction / exponent literals) *)
      if negb (wf j) then 0 else if str_eqb (print j) s then 0 else 1
  | CLegacy text dec =>
      if negb (oracle_legacy dec) then 2
      else if res_eqb (unmarshal_legacy text) dec then 0 else 1
  end.

(** Which branch of the model a case reached (input-distribution report). *)
Definition classify (c : case) : N :=
  match c with
  | CRound a _ _ =>
      match marshal a with
      | Ok (WJson _) => 10
      | Ok (WLegacy _) => if legacy_clean a then 11 else 12
      | Err _ => 13
      end
  | CDecode text tree _ =>
      if negb (modelable tree) then 29 else
      match tree with
      | Some j =>
          match decode_struct j with
          | Some a => match sanity a with None => 20 | Some _ => 21 end
          | None => match unmarshal_legacy text with Val (Ok _) => 22 | _ => 23 end
          end
      | None => match unmarshal_legacy text with Val (Ok _) => 24 | _ => 25 end
      end
  | CEnc j _ => if wf j then 60 else 61
  | CLegacy text _ =>
      match unmarshal_legacy text with
      | Val (Ok _) => 30 | Val (Err 4%N) => 31 | Val (Err _) => 32 | Panic => 33
      end
  end.
