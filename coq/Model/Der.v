(** DER (X.690) tag-length-value trees over bytes: encoder and parser.

    Scope: single-octet identifiers (tag numbers 0..30, every class, primitive
    or constructed -- bit 6 of the identifier octet), definite lengths in short
    form or in long form with one to four length octets under the DER
    minimal-length rule.  Executable; no proofs here ([Proofs/DerProofs.v]).

    Used (a) as the specification of the DigestInfo headers that
    signature.go's hashPrefixes1/2 must equal (C06) and (b) as the verified
    reference codec compared against encoding/asn1 by the C16 harness. *)
From Verif Require Import Lib.Base Lib.Bytes.
Local Open Scope N_scope.

(** * Lengths *)

(** Definite length, DER: short form below 128, else the minimal number of
    big-endian octets (at most four here, i.e. lengths below 2^32). *)
Definition enc_len (n : N) : bytes :=
  if n <? 128 then [n]
  else if n <? 256 then [129; n]
  else if n <? 65536 then [130; n / 256; n mod 256]
  else if n <? 16777216 then [131; n / 65536; (n / 256) mod 256; n mod 256]
  else [132; n / 16777216; (n / 65536) mod 256; (n / 256) mod 256; n mod 256].

Definition from_be (bs : bytes) : N := fold_left (fun a b => a * 256 + b) bs 0.

(** Parses a length; rejects the indefinite form (0x80), more than four length
    octets, a leading zero octet, and the long form for a length below 128. *)
Definition parse_len (bs : bytes) : option (N * bytes) :=
  match bs with
  | [] => None
  | b :: r =>
      if b <? 128 then Some (b, r)
      else
        let nb := N.to_nat (b - 128) in
        if (nb =? 0)%nat || (4 <? nb)%nat || (length r <? nb)%nat then None
        else
          let lb := firstn nb r in
          match lb with
          | [] => None
          | l0 :: _ =>
              if l0 =? 0 then None
              else let n := from_be lb in
                   if n <? 128 then None else Some (n, skipn nb r)
          end
  end.

(** * One level: identifier octet, content, rest *)

Definition low_tag (tag : N) : N := N.land tag 31.
Definition constructed (tag : N) : bool := N.testbit tag 5.

Definition enc_tlv (tag : N) (content : bytes) : bytes :=
  tag :: enc_len (N.of_nat (length content)) ++ content.

Definition parse_tlv (bs : bytes) : option (N * bytes * bytes) :=
  match bs with
  | [] => None
  | tag :: r =>
      if low_tag tag =? 31 then None          (* high-tag-number form: out of scope *)
      else match parse_len r with
           | None => None
           | Some (n, r') =>
               if n <=? N.of_nat (length r')
               then Some (tag, firstn (N.to_nat n) r', skipn (N.to_nat n) r')
               else None
           end
  end.

(** * Trees *)

Inductive der :=
| DPrim (tag : N) (content : bytes)
| DCons (tag : N) (kids : list der).

Fixpoint encode (t : der) : bytes :=
  match t with
  | DPrim tag c => enc_tlv tag c
  | DCons tag kids => enc_tlv tag (flat_map encode kids)
  end.

(** The trees on which the codec is defined: the constructed bit agrees with
    the node kind, the tag number is below 31, every content length is below
    2^32. *)
Fixpoint wf (t : der) : bool :=
  match t with
  | DPrim tag c =>
      negb (low_tag tag =? 31) && negb (constructed tag) && (N.of_nat (length c) <? 4294967296)
  | DCons tag kids =>
      negb (low_tag tag =? 31) && constructed tag && forallb wf kids
      && (N.of_nat (length (flat_map encode kids)) <? 4294967296)
  end.

(** Parser: [fuel] bounds the nesting/sequence depth; [parse] uses the input
    length, which always suffices ([DerProofs.parse_encode]). *)
Fixpoint parse_fuel (fuel : nat) (bs : bytes) {struct fuel} : option (der * bytes) :=
  match fuel with
  | O => None
  | S f =>
      match parse_tlv bs with
      | None => None
      | Some (tag, content, rest) =>
          if constructed tag
          then match parse_list_fuel f content with
               | Some kids => Some (DCons tag kids, rest)
               | None => None
               end
          else Some (DPrim tag content, rest)
      end
  end
with parse_list_fuel (fuel : nat) (bs : bytes) {struct fuel} : option (list der) :=
  match bs with
  | [] => Some []
  | _ :: _ =>
      match fuel with
      | O => None
      | S f =>
          match parse_fuel f bs with
          | None => None
          | Some (t, rest) =>
              match parse_list_fuel f rest with
              | Some ts => Some (t :: ts)
              | None => None
              end
          end
      end
  end.

Definition parse (bs : bytes) : option (der * bytes) := parse_fuel (length bs) bs.

(** A whole input: one tree and nothing after it. *)
Definition parse_exact (bs : bytes) : option der :=
  match parse bs with
  | Some (t, []) => Some t
  | _ => None
  end.

Fixpoint der_eqb (a b : der) : bool :=
  match a, b with
  | DPrim t c, DPrim t' c' => (t =? t') && bytes_eqb c c'
  | DCons t ks, DCons t' ks' =>
      (t =? t') &&
      (fix go (x y : list der) : bool :=
         match x, y with
         | [], [] => true
         | p :: x', q :: y' => der_eqb p q && go x' y'
         | _, _ => false
         end) ks ks'
  | _, _ => false
  end.

(** * OBJECT IDENTIFIER content octets *)

(** Base-128, most significant group first, bit 8 set on all but the last. *)
Fixpoint b128_hi (fuel : nat) (n : N) : bytes :=
  match fuel with
  | O => []
  | S f => if n =? 0 then [] else b128_hi f (n / 128) ++ [128 + n mod 128]
  end.
Definition base128 (n : N) : bytes := b128_hi (N.to_nat (N.size n)) (n / 128) ++ [n mod 128].

Definition enc_oid (arcs : list N) : bytes :=
  match arcs with
  | a :: b :: r => base128 (40 * a + b) ++ flat_map base128 r
  | _ => []
  end.

(** * The structures C06 needs *)

Definition der_null : der := DPrim 5 [].
Definition der_oid (arcs : list N) : der := DPrim 6 (enc_oid arcs).
Definition der_octets (c : bytes) : der := DPrim 4 c.
Definition der_seq (kids : list der) : der := DCons 48 kids.

(** DigestInfo ::= SEQUENCE { digestAlgorithm AlgorithmIdentifier, digest OCTET STRING }
    AlgorithmIdentifier ::= SEQUENCE { algorithm OBJECT IDENTIFIER, parameters NULL (or absent) } *)
Definition digest_info (oid : list N) (with_null : bool) (digest : bytes) : der :=
  der_seq [ der_seq (der_oid oid :: if with_null then [der_null] else []); der_octets digest ].

(** The DigestInfo encoding minus the digest octets, for a digest of [hashlen] octets. *)
Definition digestinfo_prefix (oid : list N) (with_null : bool) (hashlen : nat) : bytes :=
  let full := encode (digest_info oid with_null (repeat 0 hashlen)) in
  firstn (length full - hashlen) full.
