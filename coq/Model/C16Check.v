(** Correspondence check and property oracles for C16 (executable; no proofs).

    Coq-compared parts: the device-serial extractor (ModHex), the PEM bundle
    loop, and the DER codec of [Model.Der] against encoding/asn1.  The
    field-by-field comparison of the two certificate parsers is done on the Go
    side of the harness (three-way differential, see props/C16.json). *)
From Verif Require Import Lib.Base Lib.Bytes Model.Der Model.X509Env Model.X509Fields Model.ModHex Model.Pem.
Local Open Scope N_scope.

(** ** ModHex: the property's own sentence *)

(** Yubico ModHex alphabet and the vendor serial-number extension
    (1.3.6.1.4.1.41482.3.7), from the vendor documentation, not from the code. *)
Definition spec_alphabet : bytes := tx "cbdefghijklnrtuv".
Definition spec_serial_oid : list N := [1; 3; 6; 1; 4; 1; 41482; 3; 7].

Definition spec_char (n : N) : N := nth (N.to_nat n) spec_alphabet 0.
Definition spec_pair (v : N) : bytes := [spec_char (v / 16 mod 16); spec_char (v mod 16)].

(** 8 characters: a 3-byte (old) serial is padded with two 'c' (zero) digits. *)
Definition spec_modhex (serial : bytes) : option bytes :=
  match length serial with
  | 3%nat => Some (tx "cc" ++ flat_map spec_pair serial)
  | 4%nat => Some (flat_map spec_pair serial)
  | _ => None
  end.

(** The serial bytes of an extension value: the value is a DER INTEGER, two
    header bytes then the big-endian serial; a value shorter than its header
    holds no serial. *)
Definition spec_serial_of_value (v : bytes) : option bytes :=
  if (length v <? 2)%nat then None else Some (skipn 2 v).

Definition spec_result (v : bytes) : option bytes :=
  match spec_serial_of_value v with
  | Some s => spec_modhex s
  | None => None
  end.

Definition be_value (s : bytes) : N := fold_left (fun a b => a * 256 + b) s 0.

Inductive mh_obs := MOk (s : bytes) | MErrShort | MErrNotFound | MErrBadLen | MErrOther | MPanic.

Definition mh_matches (expected : option bytes) (o : mh_obs) : bool :=
  match expected, o with
  | Some s, MOk s' => bytes_eqb s s'
  | None, (MErrShort | MErrNotFound | MErrBadLen | MErrOther) => true
  | _, _ => false
  end.

(** No crash; no serial extension: an error; one: exactly its ModHex form or
    an error when it is not a 3- or 4-byte serial; several (the property does
    not say which one counts): the answer for one of them. *)
Definition oracle_modhex (exts : list ext) (o : mh_obs) : bool :=
  let matching := filter (fun e => bytes_eqb (fst e) spec_serial_oid) exts in
  match o with
  | MPanic => false
  | _ =>
      match matching with
      | [] => mh_matches None o
      | _ => existsb (fun e => mh_matches (spec_result (snd e)) o) matching
      end
  end.

Definition mh_obs_of_model (m : outcome (result mherr bytes)) : mh_obs :=
  match m with
  | Panic => MPanic
  | Val (Ok s) => MOk s
  | Val (Err MShortExt) => MErrShort
  | Val (Err MNotFound) => MErrNotFound
  | Val (Err MBadLen) => MErrBadLen
  end.

Definition mh_obs_eqb (a b : mh_obs) : bool :=
  match a, b with
  | MOk s, MOk s' => bytes_eqb s s'
  | MErrShort, MErrShort | MErrNotFound, MErrNotFound | MErrBadLen, MErrBadLen
  | MErrOther, MErrOther | MPanic, MPanic => true
  | _, _ => false
  end.

(** ** PEM bundles *)

(** The splitter's behaviour on one input, as observed by the harness with
    encoding/pem: keyed by the length of the remaining data (every rest is a
    strictly shorter suffix): None = no block found, Some (block id, length of
    the rest).  [blocks]: block id -> certificate id when
    yubiattest.ParseCertificate accepts the block's bytes. *)
Definition dec_table := list (N * option (N * N)).

Definition decode_of (t : dec_table) (data : bytes) : option (N * bytes) :=
  match find (fun p => N.eqb (fst p) (N.of_nat (length data))) t with
  | Some (_, Some (b, rl)) => Some (b, skipn (length data - N.to_nat rl) data)
  | _ => None
  end.

(** [n] copies of [b] (large contents in harness cases without a large literal). *)
Definition rep (b n : N) : bytes := N.iter n (cons b) [].

Definition parse_of (blocks : list (N * option N)) (b : N) : option N :=
  match find (fun p => N.eqb (fst p) b) blocks with
  | Some (_, r) => r
  | None => None
  end.

Inductive pem_obs := POk (ids : list N) | PErrGarbage | PErrParse | PErrOther | PPanic.

(** [expect]: Some ids = the bundle's certificates in order (only white space
    after the last block); None = must be refused (trailing garbage, or a
    block that is not a certificate). *)
Definition oracle_pem (expect : option (list N)) (o : pem_obs) : bool :=
  match o, expect with
  | PPanic, _ => false
  | POk ids, Some ids' => bytes_eqb ids ids'
  | POk _, None => false
  | _, Some _ => false
  | _, None => true
  end.

Definition pem_obs_of_model (m : option (result pemerr (list N))) : pem_obs :=
  match m with
  | None => PErrOther
  | Some (Ok ids) => POk ids
  | Some (Err PGarbage) => PErrGarbage
  | Some (Err PParse) => PErrParse
  end.

Definition pem_obs_eqb (a b : pem_obs) : bool :=
  match a, b with
  | POk x, POk y => bytes_eqb x y
  | PErrGarbage, PErrGarbage | PErrParse, PErrParse | PErrOther, PErrOther | PPanic, PPanic => true
  | _, _ => false
  end.

(** ** Certificate envelope: what the Go side saw of an accepted certificate *)
Record cert_obs := mkCertObs {
  o_tbs : N * N;          (* offset and length of RawTBSCertificate in the input *)
  o_spki : N * N;         (* RawSubjectPublicKeyInfo *)
  o_issuer : N * N;       (* RawIssuer *)
  o_subject : N * N;      (* RawSubject *)
  o_sig : N * N;          (* Signature (BIT STRING content without its first octet) *)
  o_serial : bytes;       (* asn1.Marshal(SerialNumber) *)
  o_key_oid : list N;     (* key algorithm, arcs *)
  o_params : N;           (* key algorithm parameters: 0 absent, 1 NULL, 2 anything else *)
  o_key : bytes;          (* BIT STRING bytes of the public key *)
  o_next : N }.           (* number of extensions *)

Definition slice (der : bytes) (p : N * N) : bytes :=
  firstn (N.to_nat (snd p)) (skipn (N.to_nat (fst p)) der).

Definition params_kind (p : option der) : N :=
  match p with
  | None => 0
  | Some (DPrim 5 []) => 1
  | Some _ => 2
  end.

Definition cert_agrees (der : bytes) (e : envelope) (o : cert_obs) : bool :=
  bytes_eqb (encode (tbs_of e)) (slice der (o_tbs o)) &&
  bytes_eqb (encode (spki_of e)) (slice der (o_spki o)) &&
  bytes_eqb (encode (e_issuer e)) (slice der (o_issuer o)) &&
  bytes_eqb (encode (e_subject e)) (slice der (o_subject o)) &&
  bytes_eqb (e_signature e) (0 :: slice der (o_sig o)) &&
  bytes_eqb (encode (e_serial e)) (o_serial o) &&
  bytes_eqb (e_key_oid e) (enc_oid (o_key_oid o)) &&
  (params_kind (e_key_params e) =? o_params o) &&
  bytes_eqb (e_key_bits e) (0 :: o_key o) &&
  (ext_count e =? o_next o).

(** ** Certificate fields: what yubiattest.ParseCertificate reported below the envelope *)
Record fields_obs := mkFieldsObs {
  fo_version : Z;
  fo_serial : Z;
  fo_not_before : Z;                         (* NotBefore.Unix() *)
  fo_not_after : Z;
  fo_issuer : list (list N * option bytes);  (* Issuer.Names: type arcs, the value when it is a string *)
  fo_subject : list (list N * option bytes);
  fo_exts : list (list N * bool * bytes) }.  (* Extensions: Id arcs, Critical, Value *)

Definition atv_agrees (a : atv) (o : list N * option bytes) : bool :=
  let '(oid, tag, v) := a in
  bytes_eqb oid (enc_oid (fst o)) &&
  (if plain_string_tag tag then match snd o with Some t => bytes_eqb v t | None => false end else true).

Fixpoint forallb2 {A B} (f : A -> B -> bool) (l1 : list A) (l2 : list B) : bool :=
  match l1, l2 with
  | [], [] => true
  | x :: r1, y :: r2 => f x y && forallb2 f r1 r2
  | _, _ => false
  end.

Definition ext_agrees (e : X509Fields.ext) (o : list N * bool * bytes) : bool :=
  let '(oid, crit, v) := e in
  let '(arcs, ocrit, ov) := o in
  bytes_eqb oid (enc_oid arcs) && Bool.eqb crit ocrit && bytes_eqb v ov.

Definition fields_agree (f : fields) (o : fields_obs) : bool :=
  (f_version f =? fo_version o)%Z && (f_serial f =? fo_serial o)%Z &&
  (f_not_before f =? fo_not_before o)%Z && (f_not_after f =? fo_not_after o)%Z &&
  forallb2 atv_agrees (f_issuer f) (fo_issuer o) && forallb2 atv_agrees (f_subject f) (fo_subject o) &&
  forallb2 ext_agrees (f_exts f) (fo_exts o).

(** ** Cases *)
Inductive case :=
| CCert (der : bytes) (o : option cert_obs)
    (* yubiattest.ParseCertificate: None = rejected (emitted for trailing data only) *)
| CModHex (exts : list ext) (o : mh_obs)
| CPem (data : bytes) (dec : dec_table) (blocks : list (N * option N)) (expect : option (list N)) (o : pem_obs)
| CBlank (data : bytes) (trimmed_empty : bool)
    (* len(bytes.TrimSpace(data)) == 0 *)
| CDer (t : der) (enc : bytes)
    (* asn1.Marshal of the tree built from asn1.RawValue *)
| CDerParse (bs : bytes) (go : option (N * bytes * bytes))
    (* asn1.Unmarshal into a RawValue: identifier octet, content, rest *)
| COid (arcs : list N) (enc : bytes)
    (* content octets of asn1.Marshal(asn1.ObjectIdentifier) *)
| CFields (der : bytes) (o : fields_obs)
    (* an accepted certificate: version, serial, validity, names, extension list *)
| CInt (z : Z) (enc : bytes)
    (* content octets of asn1.Marshal of a big.Int *)
| CIntParse (content : bytes) (v : option Z)
    (* asn1.Unmarshal of an INTEGER with these content octets into a big.Int *)
| CTime (tag : N) (content : bytes) (unix : option Z).
    (* asn1.Unmarshal of a UTCTime (23) / GeneralizedTime (24) into time.Time: Unix() *)

Definition tlv_eqb (a b : option (N * bytes * bytes)) : bool :=
  match a, b with
  | None, None => true
  | Some (t, c, r), Some (t', c', r') => (t =? t') && bytes_eqb c c' && bytes_eqb r r'
  | _, _ => false
  end.

Definition check (c : case) : N :=
  match c with
  | CModHex exts o =>
      if negb (oracle_modhex exts o) then 2
      else if mh_obs_eqb (mh_obs_of_model (modhex exts)) o then 0 else 1
  | CPem data dec blocks expect o =>
      if negb (oracle_pem expect o) then 2
      else if pem_obs_eqb (pem_obs_of_model (parse_pem_certificates (decode_of dec) (parse_of blocks) data)) o
           then 0 else 1
  | CBlank data e => if Bool.eqb (is_blank data) e then 0 else 1
  | CCert der o =>
      match cert_parse der, o with
      | None, None => 0
      | Some e, Some ob => if cert_agrees der e ob then 0 else 1
      | _, _ => 1
      end
  | CDer t enc =>
      if negb (wf t) then 3
      else if bytes_eqb (encode t) enc &&
              match parse enc with Some (t', []) => der_eqb t t' | _ => false end
           then 0 else 1
  | CDerParse bs go => if tlv_eqb (parse_tlv bs) go then 0 else 1
  | COid arcs enc => if bytes_eqb (enc_oid arcs) enc then 0 else 1
  | CFields der o =>
      match cert_parse der with
      | Some e => match cert_fields e with
                  | Some f => if fields_agree f o then 0 else 1
                  | None => 1
                  end
      | None => 1
      end
  | CInt z enc => if bytes_eqb (enc_int z) enc && (int_value enc =? z)%Z && int_ok enc then 0 else 1
  | CIntParse c v =>
      match v with
      | Some z => if int_ok c && (int_value c =? z)%Z then 0 else 1
      | None => if int_ok c then 1 else 0
      end
  | CTime tag c u =>
      match parse_time (DPrim tag c), u with
      | Some a, Some b => if (a =? b)%Z then 0 else 1
      | None, None => 0
      | _, _ => 1
      end
  end.

(** Model branch reached. ModHex: 30 3-byte serial, 31 4-byte serial, 32 short
    extension value, 33 no extension, 34 other length, 35 panic. PEM: 40 empty
    bundle, 41 non-empty bundle, 42 trailing garbage, 43 block that is not a
    certificate, 44 fuel. Blank test 45/46. DER: 50 primitive, 51 constructed,
    52 one-level parse accepts, 53 rejects, 54 OID. Certificate envelope:
    60 key parameters absent, 61 NULL, 62 other (curve), 63 rejected. *)
Definition classify (c : case) : N :=
  match c with
  | CModHex exts _ =>
      match modhex exts with
      | Panic => 35
      | Val (Ok s) => if existsb (fun e => bytes_eqb (fst e) spec_serial_oid && (length (snd e) =? 5)%nat) exts then 30 else 31
      | Val (Err MShortExt) => 32
      | Val (Err MNotFound) => 33
      | Val (Err MBadLen) => 34
      end
  | CPem data dec blocks _ _ =>
      match parse_pem_certificates (decode_of dec) (parse_of blocks) data with
      | None => 44
      | Some (Ok []) => 40
      | Some (Ok _) => 41
      | Some (Err PGarbage) => 42
      | Some (Err PParse) => 43
      end
  | CBlank data _ => if is_blank data then 45 else 46
  | CCert der _ =>
      match cert_parse der with
      | Some e => match params_kind (e_key_params e) with 0 => 60 | 1 => 61 | _ => 62 end
      | None => 63
      end
  | CDer (DPrim _ _) _ => 50
  | CDer (DCons _ _) _ => 51
  | CDerParse bs _ => match parse_tlv bs with Some _ => 52 | None => 53 end
  | COid _ _ => 54
  | CFields der _ =>
      match cert_parse der with
      | Some e => match cert_fields e with
                  | Some f => match f_exts f with [] => 70 | _ => 71 end
                  | None => 72
                  end
      | None => 72
      end
  | CInt z _ => if (z <? 0)%Z then 73 else 74
  | CIntParse c _ => if int_ok c then 75 else 76
  | CTime tag c _ => match parse_time (DPrim tag c) with Some _ => if tag =? 23 then 77 else 78 | None => 79 end
  end.
