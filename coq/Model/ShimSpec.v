(** The shim agent as the properties describe it: a loop-free functional
    specification over the stores (in-memory table, lock flag, connection
    state, mode, the underlying agent's identities / passphrase), for a
    fault-free underlying agent.  Proofs/ShimSpecProofs.v shows that the model
    of the code ([Model.Shim.step]) refines it on every state satisfying the
    invariant when no fault is injected; C09 and C10 read their statements off
    this specification.  The cache and the request counter are not part of the
    specification: no reply depends on them (under the invariant). *)
From Verif Require Import Lib.Base Lib.Json Model.KeyId Model.UAgent Model.Shim Generated.ShimGen.

Section Spec.
  Variable info : N -> option cinfo.

  Definition nonempty (L : list N) : bool := match L with [] => false | _ => true end.
  Definition valid_at (now : Z) (b : N) : bool := negb (invalid_at info now b).
  (** "valid and backed": what [filter] keeps in memory when the agent
      reported the list [L] (an empty report backs everything). *)
  Definition keeps (now : Z) (L : list N) (c : N) : bool :=
    negb (nonempty L && orphan_of info (map (pubkey_of info) L) c) && negb (invalid_at info now c).
  (** hidden: a certificate whose KeyID decodes as a YSSHCA KeyID, in
      no-upstream mode (applies to the underlying agent's identities only). *)
  Definition hidden (nu : bool) (b : N) : bool := nu && (is_cert info b && ysshca info b).
  Definition shown (nu : bool) (b : N) : bool := negb (hidden nu b).

  Record vs := mkVs {
    v_mem : list N; v_locked : bool; v_closed : bool; v_noup : bool;
    v_ids : list N; v_pass : option (list N); v_alive : bool }.

  Definition vs_of (s : shim) : vs :=
    mkVs (mem s) (locked s) (closed s) (noup s)
         (ids (ua s)) (upass (ua s)) (alive (ua s)).

  Definition v_live (v : vs) : bool := negb (v_closed v) && v_alive v.
  Definition v_ulocked (v : vs) : bool := match v_pass v with Some _ => true | None => false end.
  Definition v_reported (v : vs) : list N := if v_ulocked v then [] else v_ids v.

  Definition set_v_mem m v := mkVs m (v_locked v) (v_closed v) (v_noup v) (v_ids v) (v_pass v) (v_alive v).
  Definition set_v_ids i v := mkVs (v_mem v) (v_locked v) (v_closed v) (v_noup v) i (v_pass v) (v_alive v).
  Definition set_v_lock l p v := mkVs (v_mem v) l (v_closed v) (v_noup v) (v_ids v) p (v_alive v).

  (** What every List / Signers / Sign does first: purge both stores. *)
  Definition purge (now : Z) (v : vs) : vs :=
    set_v_ids (if v_ulocked v then v_ids v else filter (valid_at now) (v_ids v))
              (set_v_mem (filter (keeps now (v_reported v)) (v_mem v)) v).

  (** The listing: the kept in-memory certificates, then the agent's valid,
      non-hidden identities. *)
  Definition spec_listing (now : Z) (v : vs) : list N :=
    filter (keeps now (v_reported v)) (v_mem v) ++
    filter (shown (v_noup v)) (filter (valid_at now) (v_reported v)).

  (** The underlying agent signing with identity [t], once purged. *)
  Definition spec_sign_with (now : Z) (v : vs) (t data flags : N) : reply :=
    if mem_b t (filter (valid_at now) (v_reported v)) then RSig (pubkey_of info t) data flags
    else RErr EOther.

  Definition spec_step (now : Z) (v : vs) (o : op) : vs * reply :=
    match o with
    | List_ =>
        if v_locked v then (v, RList [])
        else if v_live v then (purge now v, RList (spec_listing now v)) else (v, RErr EOther)
    | Signers =>
        if v_locked v then (v, RErr ELocked)
        else if v_live v then (purge now v, RSigners (spec_listing now v)) else (v, RErr EOther)
    | Sign key data flags =>
        if v_locked v then (v, RErr ELocked)
        else if v_live v then
          (purge now v,
           if is_cert info key then
             if mem_b key (filter (keeps now (v_reported v)) (v_mem v))
             then spec_sign_with now v (pubkey_of info key) data flags     (* hardware certificate: its plain key signs *)
             else if ysshca info key && v_noup v then RErr EKeyNotFound
             else spec_sign_with now v key data flags
           else spec_sign_with now v key data flags)
        else (v, RErr EOther)
    | Add b =>
        if v_locked v then (v, RErr ELocked)
        else if v_live v && negb (v_ulocked v)
             then (set_v_ids (if mem_b b (v_ids v) then v_ids v else v_ids v ++ [b]) v, ROk)
             else (v, RErr EOther)
    | AddHardCert key =>
        if v_locked v then (v, RErr ELocked)
        else if mem_b key (v_mem v) then (v, ROk)
        else if negb (is_cert info key) then (v, RErr EOther)
        else if negb (v_live v) then (v, RErr EOther)
        else if mem_b (pubkey_of info key) (v_reported v) then (set_v_mem (v_mem v ++ [key]) v, ROk)
        else (v, RErr EKeyNotFound)
    | Remove key =>
        if v_locked v then (v, RErr ELocked)
        else
          let in_agent := v_live v && negb (v_ulocked v) && mem_b key (v_ids v) in
          (set_v_ids (if in_agent then remove_blob key (v_ids v) else v_ids v)
                     (set_v_mem (remove_blob key (v_mem v)) v),
           if mem_b key (v_mem v) || in_agent then ROk else RErr EOther)
    | RemoveAll =>
        if v_locked v then (v, RErr ELocked)
        else if v_live v && negb (v_ulocked v) then (set_v_ids [] (set_v_mem [] v), ROk)
        else (set_v_mem [] v, RErr EOther)
    | Lock p =>
        if v_locked v then (v, RErr ELocked)
        else if v_live v && negb (v_ulocked v) then (set_v_lock true (Some p) v, ROk)
        else (v, RErr EOther)
    | Unlock p =>
        if negb (v_locked v) then (v, RErr ENotLocked)
        else if v_live v && option_eqb (list_eqb N.eqb) (Some p) (v_pass v)
             then (set_v_lock false None v, ROk)
             else (v, RErr EOther)
    | Forward raw len rlen =>
        if (max_frame <? len)%N || negb (v_live v) then (v, RErr EOther)
        else if (max_frame <? rlen)%N
             then (mkVs (v_mem v) (v_locked v) (v_closed v) (v_noup v) (v_ids v) (v_pass v) false, RErr EOther)
             else (v, RRaw raw)
    | Close =>
        if v_locked v then (v, RErr ELocked)
        else if v_closed v then (v, RErr EOther)
        else (mkVs (v_mem v) (v_locked v) true (v_noup v) (v_ids v) (v_pass v) (v_alive v), ROk)
    | DirectAdd b =>
        (if v_ulocked v then v else set_v_ids (if mem_b b (v_ids v) then v_ids v else v_ids v ++ [b]) v, ROk)
    | DirectRemove b =>
        (if v_ulocked v then v else set_v_ids (remove_blob b (v_ids v)) v, ROk)
    end.
End Spec.
