(** Correspondence check and property oracle for C20 (executable; no proofs). *)
From Verif Require Import Lib.Base Model.WaitCond Generated.WaitCondGen.

(** What the regenerated facts say about the code. *)
Definition gen_cfg : cfg :=
  mkCfg conds_len wait_guard_op broadcast_guard_op guard_bound_is_byte wait_parks wake_kind
        (serve_broadcast_before_dispatch && serve_broadcast_arg_req0) agent_message_wait.

Inductive case :=
| CSched (evs : list cevent) (obs : list (list N))
    (* a choreography over real connections; per client event the waiters
       (sorted) whose client Wait call returned once the event had settled *)
| CRange (c : N) (wait_returned_at_once : bool) (no_panic : bool) (released_by_broadcast : bool).
    (* direct Server.Wait(c) then Server.Broadcast(c) on a fresh table *)

(** The property, evaluated on the implementation's observation. *)
Definition oracle_sched (evs : list cevent) (obs : list (list N)) : bool :=
  obs_eqb obs (spec_crun spec_size spec_wait_code [] evs).
Definition oracle_range (c : N) (ret nopanic rel : bool) : bool :=
  nopanic && (if (c <? spec_size)%N then negb ret && rel else ret).

Definition check (c : case) : N :=
  match c with
  | CSched evs obs =>
      if negb (oracle_sched evs obs) then 2
      else match crun gen_cfg (init_table gen_cfg) evs with
           | Val m => if obs_eqb obs m then 0 else 1
           | Panic => 1
           end
  | CRange c ret nopanic rel =>
      if negb (oracle_range c ret nopanic rel) then 2
      else
        match wait_step gen_cfg (init_table gen_cfg) 1%N c with
        | Val (tbl, r) =>
            let m_ret := match r with [] => false | _ => true end in
            match broadcast_step gen_cfg tbl c with
            | Val (_, r2) =>
                let m_rel := match r2 with [] => false | _ => true end in
                if Bool.eqb ret m_ret && (m_ret || Bool.eqb rel m_rel) then 0 else 1
            | Panic => 1
            end
        | Panic => 1
        end
  end.

Definition classify (c : case) : N :=
  match c with
  | CSched evs obs =>
      (* 10 + number of events that released somebody (capped), +100 when several waiters left together *)
      let rel := length (filter (fun l => match l with [] => false | _ => true end) obs) in
      let multi := existsb (fun l => (2 <=? length l)%nat) obs in
      (10 + N.min 9 (N.of_nat rel) + (if multi then 100 else 0))%N
  | CRange c _ _ _ => if (c <? spec_size)%N then 1%N else 2%N
  end.
