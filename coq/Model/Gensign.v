(** Executable model of gensign.Run (gensign/gensign.go) with the regular
    handler (gensign/regular/handler.go), its agent key (agent/ssh/key.go) and
    the world around them: the registered-key directory, the requester's
    forwarded ssh-agent (behaviour on challenges, identity store, per-request
    fault script), the entropy oracle (challenges, key pairs), the scripted
    signer (CA) and arbitrary other handlers.  Shared by C01-C04.

    Conventions (DESIGN.md section 3):
    - cryptography is symbolic: keys are ids, [Sig key data] is a constructor,
      [verify pk d s := s = Sig pk d];
    - entropy (crypto/rand) is an oracle stream indexed by a draw counter;
    - every function that talks to the outside returns the new state, the
      events it emitted (in order) and a result which is a value, a typed
      gensign error, or a Go panic ([RPanic]); [run] models the deferred
      recover of Run, so its result is never a Go panic.
    No proofs in this file. *)
From Verif Require Import Lib.Base Lib.Json Generated.KeyIdGen Generated.GensignGen
  Model.KeyId Model.HandlerConf.
Local Open Scope N_scope.

(** * Error kinds (gensign/error.go ErrorType); [KUntyped] stands for an error
    value that is not a *gensign.Error (a foreign handler may return one from
    Generate, and Run returns it as is). *)
Inductive gkind :=
| KUnknown | KHandlerDisabled | KHandlerAuthN | KInvalidParams | KHandlerGenCSRErr
| KHandlerConfErr | KAllAuthFailed | KSignerSignErr | KAgentOpCertErr | KPanic | KUntyped.

Definition gkind_code (k : gkind) : N :=
  match k with
  | KUnknown => 1 | KHandlerDisabled => 2 | KHandlerAuthN => 3 | KInvalidParams => 4
  | KHandlerGenCSRErr => 5 | KHandlerConfErr => 6 | KAllAuthFailed => 7
  | KSignerSignErr => 8 | KAgentOpCertErr => 9 | KPanic => 10 | KUntyped => 99
  end.
Definition gkind_name (k : gkind) : str :=
  match k with
  | KUnknown => tx "Unknown" | KHandlerDisabled => tx "HandlerDisabled"
  | KHandlerAuthN => tx "HandlerAuthN" | KInvalidParams => tx "InvalidParams"
  | KHandlerGenCSRErr => tx "HandlerGenCSRErr" | KHandlerConfErr => tx "HandlerConfErr"
  | KAllAuthFailed => tx "AllAuthFailed" | KSignerSignErr => tx "SignerSignErr"
  | KAgentOpCertErr => tx "AgentOpCertErr" | KPanic => tx "Panic" | KUntyped => tx "(untyped)"
  end.
Definition typed_kinds : list gkind :=
  [KUnknown; KHandlerDisabled; KHandlerAuthN; KInvalidParams; KHandlerGenCSRErr;
   KHandlerConfErr; KAllAuthFailed; KSignerSignErr; KAgentOpCertErr; KPanic].
Definition gkind_eqb (a b : gkind) : bool := N.eqb (gkind_code a) (gkind_code b).

(** * Symbolic signatures *)
Inductive sigv := Sig (key data : N) | SGarbage | SEmpty.
Definition sig_eqb (a b : sigv) : bool :=
  match a, b with
  | Sig k d, Sig k' d' => N.eqb k k' && N.eqb d d'
  | SGarbage, SGarbage => true
  | SEmpty, SEmpty => true
  | _, _ => false
  end.
(** ssh.PublicKey.Verify *)
Definition verify (pk d : N) (s : sigv) : bool := sig_eqb s (Sig pk d).

(** * The registered-key directory: file name -> content. *)
Inductive file := Unreadable | Unparsable | Key (pk : N).

(** lookupPubKeyFile + getPubKeyBytes + ssh.ParseAuthorizedKey:
    "<name>.pub" is used when it stats at all (whatever it is), otherwise the
    bare "<name>"; a missing, unreadable or unparsable file is an error. *)
Definition pub_suffix : str := tx ".pub".
Definition lookup_pubkey (dir : str -> option file) (name : str) : option N :=
  let p := match dir (name ++ pub_suffix) with
           | Some _ => name ++ pub_suffix
           | None => name
           end in
  match dir p with
  | Some (Key pk) => Some pk
  | _ => None
  end.

(** * The requester's agent *)
(** Wire identity of an agent entry: a plain public key, or a certificate
    (certified key [k], blob id [s]). *)
Inductive blob := BKey (k : N) | BCert (k s : N).
Definition blob_eqb (a b : blob) : bool :=
  match a, b with
  | BKey k, BKey k' => N.eqb k k'
  | BCert k s, BCert k' s' => N.eqb k k' && N.eqb s s'
  | _, _ => false
  end.
Definition blob_key (b : blob) : N := match b with BKey k => k | BCert k _ => k end.
Definition is_cert (b : blob) : bool := match b with BCert _ _ => true | BKey _ => false end.

(** An identity held by the agent: its blob, the private key stored with it
    (named by its public key id), comment, lifetime constraint in seconds
    (0 = none, i.e. the identity never expires). *)
Record ident := mkIdent { i_blob : blob; i_priv : N; i_comment : str; i_life : N }.
Definition ident_eqb (a b : ident) : bool :=
  blob_eqb (i_blob a) (i_blob b) && N.eqb (i_priv a) (i_priv b) &&
  str_eqb (i_comment a) (i_comment b) && N.eqb (i_life a) (i_life b).

(** The certificate can sign: it is stored with the private key it certifies. *)
Definition usable (i : ident) : bool := N.eqb (blob_key (i_blob i)) (i_priv i).

(** How the agent answers a challenge. *)
Inductive agent_beh :=
| Honest (held : N)        (* signs what it is asked to, with the key it is asked for, if it holds it *)
| HonestWithoutKey         (* holds no matching key: failure reply *)
| SignsWith (k : N)        (* signs the data with another key *)
| SignsOther (d : N)       (* signs other data with the requested key *)
| Replay (i : nat)         (* returns the i-th signature it produced earlier *)
| Garbage | Empty          (* a malformed / empty signature *)
| Fail                     (* failure reply *)
| Close.                   (* drops the connection *)

Inductive afault := FFail | FClose.

Definition sign_reply (b : agent_beh) (sigs : list sigv) (key data : N) : option sigv :=
  match b with
  | Honest held => if N.eqb key held then Some (Sig key data) else None
  | HonestWithoutKey => None
  | SignsWith k => Some (Sig k data)
  | SignsOther d => Some (Sig key d)
  | Replay i => Some (nth i sigs SEmpty)
  | Garbage => Some SGarbage
  | Empty => Some SEmpty
  | Fail => None
  | Close => None
  end.

(** Identity store: add replaces an entry with the same blob in place, else
    appends; remove deletes the entry with that blob and fails if none. *)
Fixpoint store_add (i : ident) (st : list ident) : list ident :=
  match st with
  | [] => [i]
  | x :: r => if blob_eqb (i_blob x) (i_blob i) then i :: r else x :: store_add i r
  end.
Definition store_has (b : blob) (st : list ident) : bool :=
  existsb (fun x => blob_eqb (i_blob x) b) st.
Definition store_remove (b : blob) (st : list ident) : list ident :=
  filter (fun x => negb (blob_eqb (i_blob x) b)) st.

(** * Signing requests and the signer (CA) *)
Record csr := mkCsr {
  c_ident : str;                    (* KeyMeta.Identifier *)
  c_exts : list (str * str);        (* Extensions, sorted by name *)
  c_validity : N;
  c_prins : list str;
  c_pubkey : N;                     (* the public key to certify *)
  c_keyid : json }.                 (* tree of the KeyId text *)

Definition ext_eqb (a b : str * str) : bool := str_eqb (fst a) (fst b) && str_eqb (snd a) (snd b).
Definition csr_eqb (a b : csr) : bool :=
  str_eqb (c_ident a) (c_ident b) && list_eqb ext_eqb (c_exts a) (c_exts b) &&
  N.eqb (c_validity a) (c_validity b) && list_eqb str_eqb (c_prins a) (c_prins b) &&
  N.eqb (c_pubkey a) (c_pubkey b) && json_eqb (c_keyid a) (c_keyid b).

(** What the signer returns per certificate slot: a certificate (over key [k],
    blob id [s]), a plain public key, or a nil interface value. *)
Inductive scert := SCert (k s : N) | SPlain (k : N) | SNil.
Definition scert_eqb (a b : scert) : bool :=
  match a, b with
  | SCert k s, SCert k' s' => N.eqb k k' && N.eqb s s'
  | SPlain k, SPlain k' => N.eqb k k'
  | SNil, SNil => true
  | _, _ => false
  end.
Inductive sout := SOk (certs : list scert) (comments : list str) | SErr | SPanic.

(** * Request parameters (csr.ReqParam; nil Attrs is representable) *)
Record attrs := mkAttrs { a_hardkey : bool; a_caalgo : Z }.
Record params := mkParams {
  p_ns : str; p_logname : str; p_requser : str; p_reqhost : str;
  p_clientip : str; p_transid : str; p_attrs : option attrs }.

(** * Handlers *)
Inductive hres (A : Type) := HOk (a : A) | HErr (k : gkind) | HPanic.
Arguments HOk {A} a.
Arguments HErr {A} k.
Arguments HPanic {A}.
Inductive fres := FOk | FErr | FPanic.
(** An agent key produced by a foreign handler: its CSRs (or CSRs() panics)
    and what its AddCertsToAgent does. *)
Record fkey := mkFkey { fk_csrs : list csr; fk_csrs_panics : bool; fk_add : fres }.
Inductive akey :=
| AReal (k : N) (cs : list csr) (life : N)      (* agent/ssh.AgentKey of the regular handler *)
| AFake (f : fkey).
Inductive handler :=
| Regular (c : hconf)
| Scripted (name_panics : bool) (auth : hres unit) (gen : hres (list fkey)).

Definition name_panics_of (h : handler) : bool :=
  match h with Regular _ => false | Scripted np _ _ => np end.

(** * Events (what the correspondence harness observes, in order) *)
Inductive phase := PAuth (i : nat) | PGen (i : nat) | PAdd (k : nat).
Inductive astatus := StOk | StFail | StClosed.
Inductive areq := RSign (key data : N) | RAdd (i : ident) | RList | RRemove (b : blob).
Inductive event :=
| EvAuth (i : nat)                       (* Authenticate of handler i called *)
| EvGen (i : nat)                        (* Generate of handler i called *)
| EvAgent (ph : phase) (r : areq) (st : astatus) (valid : bool)
     (* a request that reached the agent, how it was answered, and (for sign
        requests answered with a signature) whether that signature verifies
        under the requested key over the requested data *)
| EvSigner (n : nat) (c : csr)           (* n-th call of signer.Sign *)
| EvFakeAdd (k : nat) (certs : list scert). (* AddCertsToAgent of a foreign handler's key *)

Definition phase_eqb (a b : phase) : bool :=
  match a, b with
  | PAuth i, PAuth j => Nat.eqb i j
  | PGen i, PGen j => Nat.eqb i j
  | PAdd i, PAdd j => Nat.eqb i j
  | _, _ => false
  end.
Definition astatus_eqb (a b : astatus) : bool :=
  match a, b with
  | StOk, StOk => true | StFail, StFail => true | StClosed, StClosed => true
  | _, _ => false
  end.
Definition areq_eqb (a b : areq) : bool :=
  match a, b with
  | RSign k d, RSign k' d' => N.eqb k k' && N.eqb d d'
  | RAdd i, RAdd j => ident_eqb i j
  | RList, RList => true
  | RRemove x, RRemove y => blob_eqb x y
  | _, _ => false
  end.
Definition event_eqb (a b : event) : bool :=
  match a, b with
  | EvAuth i, EvAuth j => Nat.eqb i j
  | EvGen i, EvGen j => Nat.eqb i j
  | EvAgent p r s v, EvAgent p' r' s' v' =>
      phase_eqb p p' && areq_eqb r r' && astatus_eqb s s' && Bool.eqb v v'
  | EvSigner n c, EvSigner n' c' => Nat.eqb n n' && csr_eqb c c'
  | EvFakeAdd k cs, EvFakeAdd k' cs' => Nat.eqb k k' && list_eqb scert_eqb cs cs'
  | _, _ => false
  end.

(** * State, environment, results *)
Record state := mkSt {
  s_store : list ident;     (* the agent's identities *)
  s_sigs : list sigv;       (* signatures the agent produced so far (replay source) *)
  s_reqno : nat;            (* requests that reached the agent in this run *)
  s_closed : bool;          (* the forwarded connection is gone *)
  s_cdraws : nat;           (* challenges drawn so far *)
  s_kdraws : nat;           (* key pairs drawn so far *)
  s_scalls : nat }.         (* signer calls of this run *)

Record env := mkEnv {
  e_dir : str -> option file;
  e_chal : nat -> N;        (* entropy oracle: n-th challenge *)
  e_keypair : nat -> N;     (* entropy oracle: n-th generated key pair (public key id) *)
  e_beh : agent_beh;
  e_afault : nat -> option afault;   (* fault injected at the n-th agent request of the run *)
  e_signer : nat -> sout }.          (* outcome of the n-th signer call of the run *)

Inductive res (A : Type) := ROk (a : A) | RErr (k : gkind) | RPanic.
Arguments ROk {A} a.
Arguments RErr {A} k.
Arguments RPanic {A}.

Definition set_store (st : list ident) (s : state) : state :=
  mkSt st (s_sigs s) (s_reqno s) (s_closed s) (s_cdraws s) (s_kdraws s) (s_scalls s).
Definition push_sig (g : sigv) (s : state) : state :=
  mkSt (s_store s) (s_sigs s ++ [g]) (s_reqno s) (s_closed s) (s_cdraws s) (s_kdraws s) (s_scalls s).
Definition bump_reqno (s : state) : state :=
  mkSt (s_store s) (s_sigs s) (S (s_reqno s)) (s_closed s) (s_cdraws s) (s_kdraws s) (s_scalls s).
Definition set_closed (s : state) : state :=
  mkSt (s_store s) (s_sigs s) (s_reqno s) true (s_cdraws s) (s_kdraws s) (s_scalls s).
Definition bump_cdraws (s : state) : state :=
  mkSt (s_store s) (s_sigs s) (s_reqno s) (s_closed s) (S (s_cdraws s)) (s_kdraws s) (s_scalls s).
Definition bump_kdraws (s : state) : state :=
  mkSt (s_store s) (s_sigs s) (s_reqno s) (s_closed s) (s_cdraws s) (S (s_kdraws s)) (s_scalls s).
Definition bump_scalls (s : state) : state :=
  mkSt (s_store s) (s_sigs s) (s_reqno s) (s_closed s) (s_cdraws s) (s_kdraws s) (S (s_scalls s)).

(** * One request to the agent over the forwarded connection. *)
Inductive areply := AFailed | ASig (g : sigv) | ADone | AKeys (l : list (blob * str)).

Definition agent_req (e : env) (ph : phase) (r : areq) (s : state) : state * list event * areply :=
  if s_closed s then (s, [], AFailed)            (* nothing reaches the agent any more *)
  else
    let s1 := bump_reqno s in
    match e_afault e (s_reqno s) with
    | Some FFail => (s1, [EvAgent ph r StFail false], AFailed)
    | Some FClose => (set_closed s1, [EvAgent ph r StClosed false], AFailed)
    | None =>
        match r with
        | RSign key data =>
            match e_beh e with
            | Close => (set_closed s1, [EvAgent ph r StClosed false], AFailed)
            | b =>
                match sign_reply b (s_sigs s) key data with
                | None => (s1, [EvAgent ph r StFail false], AFailed)
                | Some g => (push_sig g s1, [EvAgent ph r StOk (verify key data g)], ASig g)
                end
            end
        | RAdd i => (set_store (store_add i (s_store s)) s1, [EvAgent ph r StOk false], ADone)
        | RList => (s1, [EvAgent ph r StOk false],
                    AKeys (map (fun i => (i_blob i, i_comment i)) (s_store s)))
        | RRemove b =>
            if store_has b (s_store s)
            then (set_store (store_remove b (s_store s)) s1, [EvAgent ph r StOk false], ADone)
            else (s1, [EvAgent ph r StFail false], AFailed)
        end
    end.

(** * regular.Handler.Authenticate / challengePubKey *)
Definition reg_authenticate (e : env) (i : nat) (po : option params) (s : state)
  : state * list event * res unit :=
  match po with
  | None => (s, [], RErr KInvalidParams)                       (* param.Validate() *)
  | Some p =>
      if negb (str_eqb (p_ns p) no_namespace) then (s, [], RErr KHandlerAuthN)
      else match p_attrs p with
      | None => (s, [], RPanic)                                (* param.Attrs.HardKey on nil Attrs *)
      | Some a =>
          if a_hardkey a then (s, [], RErr KHandlerAuthN)
          else match lookup_pubkey (e_dir e) (p_logname p) with
          | None => (s, [], RErr KHandlerAuthN)
          | Some pk =>
              let d := e_chal e (s_cdraws s) in               (* 64 bytes from crypto/rand *)
              let '(s2, ev, rep) := agent_req e (PAuth i) (RSign pk d) (bump_cdraws s) in
              match rep with
              | ASig g => if verify pk d g then (s2, ev, ROk tt) else (s2, ev, RErr KHandlerAuthN)
              | _ => (s2, ev, RErr KHandlerAuthN)
              end
          end
      end
  end.

Definition authenticate (e : env) (i : nat) (h : handler) (po : option params) (s : state)
  : state * list event * res unit :=
  match h with
  | Regular _ => reg_authenticate e i po s
  | Scripted _ (HOk _) _ => (s, [], ROk tt)
  | Scripted _ (HErr k) _ => (s, [], RErr k)
  | Scripted _ HPanic _ => (s, [], RPanic)
  end.

(** The handler loop of Run: the first handler whose Authenticate returns nil
    wins and later ones are not asked; after a failed one its Name() is read
    for the log line. *)
Fixpoint auth_loop (e : env) (po : option params) (i : nat) (hs : list handler) (s : state)
  : state * list event * res (option (nat * handler)) :=
  match hs with
  | [] => (s, [], ROk None)
  | h :: rest =>
      let '(s1, ev1, r) := authenticate e i h po s in
      match r with
      | ROk _ => (s1, EvAuth i :: ev1, ROk (Some (i, h)))
      | RPanic => (s1, EvAuth i :: ev1, RPanic)
      | RErr _ =>
          if name_panics_of h then (s1, EvAuth i :: ev1, RPanic)
          else let '(s2, ev2, r2) := auth_loop e po (S i) rest s1 in
               (s2, (EvAuth i :: ev1) ++ ev2, r2)
      end
  end.

(** * regular.Handler.Generate *)
Definition reg_keyid (p : params) : KeyID :=
  mkKeyID (Some [p_logname p]) (p_transid p) (p_requser p) (p_clientip p) (p_reqhost p)
          false false false false all_usage never_touch (Z.to_N default_version).

(** uint32(validity) + uint32(time.Hour.Seconds()), in uint32 arithmetic. *)
Definition lifetime_of (validity : N) : N :=
  ((validity mod 2 ^ 32) + (lifetime_extra_secs mod 2 ^ 32)) mod 2 ^ 32.

Definition reg_generate (e : env) (i : nat) (c : hconf) (po : option params) (s : state)
  : state * list event * res (list akey) :=
  match po with
  | None => (s, [], RErr KInvalidParams)
  | Some p =>
      (* generateAgentKey: new key pair, private key into the agent *)
      let k := e_keypair e (s_kdraws s) in
      let life := lifetime_of (hc_validity c) in
      let '(s2, ev, rep) :=
        agent_req e (PGen i) (RAdd (mkIdent (BKey k) k private_key_label life)) (bump_kdraws s) in
      match rep with
      | ADone =>
          match p_attrs p with
          | None => (s2, ev, RPanic)
          | Some a =>
              match lookup_keyid (hc_keyids c) (a_caalgo a) with
              | None => (s2, ev, RErr KHandlerConfErr)
              | Some identifier =>
                  match marshal (reg_keyid p) with
                  | Err _ => (s2, ev, RErr KHandlerGenCSRErr)
                  | Ok j =>
                      (s2, ev, ROk [AReal k [mkCsr identifier default_extensions (hc_validity c)
                                                   [p_logname p] k j] life])
                  end
              end
          end
      | _ => (s2, ev, RErr KHandlerGenCSRErr)
      end
  end.

Definition generate (e : env) (i : nat) (h : handler) (po : option params) (s : state)
  : state * list event * res (list akey) :=
  match h with
  | Regular c => reg_generate e i c po s
  | Scripted _ _ (HOk fks) => (s, [], ROk (map AFake fks))
  | Scripted _ _ (HErr k) => (s, [], RErr k)
  | Scripted _ _ HPanic => (s, [], RPanic)
  end.

(** * Signing all CSRs of one agent key (stops at the first failure). *)
Fixpoint sign_all (e : env) (cs : list csr) (s : state) : state * list event * res (list scert) :=
  match cs with
  | [] => (s, [], ROk [])
  | c :: rest =>
      let n := s_scalls s in
      let s1 := bump_scalls s in
      match e_signer e n with
      | SOk certs _ =>
          let '(s2, ev, r) := sign_all e rest s1 in
          (s2, EvSigner n c :: ev,
           match r with ROk more => ROk (certs ++ more) | RErr k => RErr k | RPanic => RPanic end)
      | SErr => (s1, [EvSigner n c], RErr KSignerSignErr)
      | SPanic => (s1, [EvSigner n c], RPanic)
      end
  end.

(** * agent/ssh.AgentKey.AddCertsToAgent *)
Fixpoint prefix_b (p s : str) : bool :=
  match p, s with
  | [], _ => true
  | x :: p', y :: s' => N.eqb x y && prefix_b p' s'
  | _ :: _, [] => false
  end.
(** strings.Contains *)
Fixpoint contains (s sub : str) : bool :=
  prefix_b sub s || match s with [] => false | _ :: s' => contains s' sub end.

(** keyFilter *)
Definition labelled (comment : str) : bool := contains comment handler_name.

(** refreshKeys, after the listing: remove every listed identity selected by
    the filter; the first failure aborts. *)
Fixpoint remove_listed (e : env) (ph : phase) (l : list (blob * str)) (s : state)
  : state * list event * res unit :=
  match l with
  | [] => (s, [], ROk tt)
  | (b, c) :: rest =>
      if labelled c then
        let '(s1, ev1, rep) := agent_req e ph (RRemove b) s in
        match rep with
        | ADone => let '(s2, ev2, r) := remove_listed e ph rest s1 in (s2, ev1 ++ ev2, r)
        | _ => (s1, ev1, RErr KAgentOpCertErr)
        end
      else remove_listed e ph rest s
  end.

Definition refresh (e : env) (ph : phase) (s : state) : state * list event * res unit :=
  let '(s1, ev1, rep) := agent_req e ph RList s in
  match rep with
  | AKeys l => let '(s2, ev2, r) := remove_listed e ph l s1 in (s2, ev1 ++ ev2, r)
  | _ => (s1, ev1, RErr KAgentOpCertErr)
  end.

(** The loop over the returned "certificates": a nil entry panics in the
    cast, a non-certificate is skipped, a certificate over another key is
    refused by the agent client before anything is sent, otherwise the
    private key is added once more together with the certificate, under the
    certificate label and with the same lifetime.  (The [comments] only ever
    modify the AgentKey's own copy of the comment, never what is sent.) *)
Fixpoint add_all (e : env) (ph : phase) (k life : N) (certs : list scert) (s : state)
  : state * list event * res unit :=
  match certs with
  | [] => (s, [], ROk tt)
  | SNil :: _ => (s, [], RPanic)
  | SPlain _ :: rest => add_all e ph k life rest s
  | SCert k' sn :: rest =>
      if N.eqb k' k then
        let '(s1, ev1, rep) := agent_req e ph (RAdd (mkIdent (BCert k' sn) k cert_label life)) s in
        match rep with
        | ADone => let '(s2, ev2, r) := add_all e ph k life rest s1 in (s2, ev1 ++ ev2, r)
        | _ => (s1, ev1, RErr KAgentOpCertErr)
        end
      else (s, [], RErr KAgentOpCertErr)
  end.

Definition add_certs (e : env) (ph : phase) (k life : N) (certs : list scert) (s : state)
  : state * list event * res unit :=
  let '(s1, ev1, r) := refresh e ph s in
  match r with
  | ROk _ => let '(s2, ev2, r2) := add_all e ph k life certs s1 in (s2, ev1 ++ ev2, r2)
  | RErr k' => (s1, ev1, RErr k')
  | RPanic => (s1, ev1, RPanic)
  end.

(** * The key loop of Run *)
Definition deliver_one (e : env) (ki : nat) (key : akey) (s : state) : state * list event * res unit :=
  match key with
  | AReal k cs life =>
      let '(s1, ev1, r) := sign_all e cs s in
      match r with
      | ROk certs => let '(s2, ev2, r2) := add_certs e (PAdd ki) k life certs s1 in (s2, ev1 ++ ev2, r2)
      | RErr k' => (s1, ev1, RErr k')
      | RPanic => (s1, ev1, RPanic)
      end
  | AFake f =>
      if fk_csrs_panics f then (s, [], RPanic)
      else
        let '(s1, ev1, r) := sign_all e (fk_csrs f) s in
        match r with
        | ROk certs =>
            (s1, ev1 ++ [EvFakeAdd ki certs],
             match fk_add f with FOk => ROk tt | FErr => RErr KAgentOpCertErr | FPanic => RPanic end)
        | RErr k' => (s1, ev1, RErr k')
        | RPanic => (s1, ev1, RPanic)
        end
  end.

Fixpoint deliver (e : env) (ki : nat) (keys : list akey) (s : state) : state * list event * res unit :=
  match keys with
  | [] => (s, [], ROk tt)
  | key :: rest =>
      let '(s1, ev1, r) := deliver_one e ki key s in
      match r with
      | ROk _ => let '(s2, ev2, r2) := deliver e (S ki) rest s1 in (s2, ev1 ++ ev2, r2)
      | RErr k => (s1, ev1, RErr k)
      | RPanic => (s1, ev1, RPanic)
      end
  end.

(** * The body of Run (before the deferred recover) *)
Definition after_select (e : env) (po : option params) (i : nat) (h : handler) (s : state)
  : state * list event * res unit :=
  let '(s1, ev1, r) := generate e i h po s in
  match r with
  | RErr k => (s1, EvGen i :: ev1, RErr k)                 (* returned as is *)
  | RPanic => (s1, EvGen i :: ev1, RPanic)
  | ROk keys =>
      match keys with
      | [] => (s1, EvGen i :: ev1, RErr KHandlerGenCSRErr)
      | _ =>
          let '(s2, ev2, r2) := deliver e 0 keys s1 in
          match r2 with
          | ROk _ =>
              (* the success log line reads params.TransID and handler.Name() *)
              if name_panics_of h then (s2, (EvGen i :: ev1) ++ ev2, RPanic)
              else match po with
                   | None => (s2, (EvGen i :: ev1) ++ ev2, RPanic)
                   | Some _ => (s2, (EvGen i :: ev1) ++ ev2, ROk tt)
                   end
          | RErr k => (s2, (EvGen i :: ev1) ++ ev2, RErr k)
          | RPanic => (s2, (EvGen i :: ev1) ++ ev2, RPanic)
          end
      end
  end.

Definition run_body (e : env) (po : option params) (hs : list handler) (s : state)
  : state * list event * res unit :=
  let '(s1, ev1, r) := auth_loop e po 0 hs s in
  match r with
  | ROk None => (s1, ev1, RErr KAllAuthFailed)
  | ROk (Some (i, h)) => let '(s2, ev2, r2) := after_select e po i h s1 in (s2, ev1 ++ ev2, r2)
  | RErr k => (s1, ev1, RErr k)
  | RPanic => (s1, ev1, RPanic)
  end.

(** * Run, with its deferred recover: a panic anywhere becomes the Panic-typed
    error; the result is a plain value in every case. *)
Record world := mkWorld { w_env : env; w_st : state; w_log : list event }.

Definition result_of (r : res unit) : result gkind unit :=
  match r with
  | ROk _ => Ok tt
  | RErr k => Err k
  | RPanic => Err KPanic
  end.

Definition run (w : world) (po : option params) (hs : list handler) : world * result gkind unit :=
  let '(s', ev, r) := run_body (w_env w) po hs (w_st w) in
  (mkWorld (w_env w) s' (w_log w ++ ev), result_of r).

(** * Sessions: consecutive runs against the same agent.  Each run has its own
    connection (fresh request counter, open), its own behaviour / fault /
    signer scripts; the identity store, the agent's memory of signatures and
    the entropy counters persist.  The registered-key directory is an input of
    each run (files are replaced, added and removed between runs). *)
Record run_in := mkRunIn {
  ri_dir : str -> option file;      (* the registered-key directory as it is during this run *)
  ri_params : option params;
  ri_handlers : list handler;
  ri_beh : agent_beh;
  ri_afault : nat -> option afault;
  ri_signer : nat -> sout }.

Definition start_run (s : state) : state :=
  mkSt (s_store s) (s_sigs s) 0%nat false (s_cdraws s) (s_kdraws s) 0%nat.

Definition run_env (chal keypair : nat -> N) (ri : run_in) : env :=
  mkEnv (ri_dir ri) chal keypair (ri_beh ri) (ri_afault ri) (ri_signer ri).

Record run_obs := mkObs {
  o_res : option gkind;        (* None = Run returned nil *)
  o_log : list event;
  o_store : list ident }.      (* the agent's identities after the run *)

Definition obs_res (r : res unit) : option gkind :=
  match result_of r with Ok _ => None | Err k => Some k end.

Definition run_once (chal keypair : nat -> N) (ri : run_in) (s : state)
  : state * run_obs :=
  let '(s', ev, r) := run_body (run_env chal keypair ri) (ri_params ri) (ri_handlers ri) (start_run s) in
  (s', mkObs (obs_res r) ev (s_store s')).

Fixpoint session (chal keypair : nat -> N) (rs : list run_in) (s : state)
  : state * list run_obs :=
  match rs with
  | [] => (s, [])
  | ri :: rest =>
      let '(s1, o) := run_once chal keypair ri s in
      let '(s2, os) := session chal keypair rest s1 in
      (s2, o :: os)
  end.

Definition init_state (store : list ident) : state := mkSt store [] 0%nat false 0%nat 0%nat 0%nat.
