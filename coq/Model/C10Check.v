(** C10 - hardware certificates are bound to a held key; everything else
    passes through intact; failures of the underlying agent surface as errors
    and never discard a still-valid in-memory certificate.  The property's own
    sentence evaluated on what was observed around one operation, under any
    fault script (executable; no proofs).

    Two kinds of clauses: those that hold whatever the underlying agent does
    (every fault script), and the exact pass-through clauses, which are about a
    healthy agent: they are evaluated on every operation that starts when no
    fault is pending any more ([pend k] = the script still holds a fault for a
    request number >= k) and the connection works. *)
From Verif Require Import Lib.Base Lib.Json Model.KeyId Model.UAgent Model.Shim Model.ShimCheck Model.C07Check
  Model.C09Check Generated.ShimGen.

(** The frame bound the property states: 16 MiB.  The oracle uses this constant, never a regenerated one: a
    translator that no longer finds the constant must not change what the oracle accepts. *)
Definition spec_max_frame : N := 16777216%N.

Section Oracle.
  Variable info : N -> option cinfo.

  (** "a certificate whose public key the underlying agent currently lists" *)
  Definition bound (pre : obs) (key : N) : bool :=
    spec_cert info key && mem_b (spec_pubkey info key) (obs_reported pre).
  Definition insert_set (k : N) (l : list N) : list N := if mem_b k l then l else k :: l.

  (** explicitly targeted by the operation (removal is exempt from "never discards") *)
  Definition targeted (o : op) (c : N) : bool :=
    match o with Remove k => N.eqb k c | RemoveAll => true | _ => false end.

  (** Never discards a still-valid in-memory certificate: whatever the agent
      does, a certificate that is inside its window and backed by what the
      agent reported before the operation is still in memory afterwards. *)
  Definition survive (pre post : obs) (now : Z) (o : op) : bool :=
    forallb (fun c => negb (spec_valid info now c && spec_backed info (obs_reported pre) c)
                      || mem_b c (o_mem post) || targeted o c) (o_mem pre).

  Definition is_ok_reply (r : reply) : bool := match r with ROk => true | _ => false end.

  Definition oracle_step (pend : nat -> bool) (nu : bool) (pre : obs) (st : sstep) : bool :=
    let post := s_obs st in
    let r := s_reply st in
    let healthy := negb (pend (o_reqno pre)) && obs_live pre in
    survive pre post (s_now st) (s_op st) &&
    if o_locked pre then true
    else
      match s_op st with
      | AddHardCert key =>
          listN_eqb (o_ids post) (o_ids pre) &&
          match r with
          | ROk =>
              (* accepted only if already held, or a certificate over a listed key; then held exactly once *)
              (mem_b key (o_mem pre) || bound pre key) && ms_eqb (o_mem post) (insert_set key (o_mem pre))
          | RErr _ =>
              listN_eqb (o_mem post) (o_mem pre) &&
              (* a healthy agent: refused only when the condition fails *)
              (negb healthy || negb (mem_b key (o_mem pre) || bound pre key))
          | _ => false
          end
      | Sign key d f =>
          match r with
          | RSig k d' f' =>
              (* the signature verifies under the certificate's / identity's public key, over the data asked for *)
              N.eqb k (spec_pubkey info key) && N.eqb d' d && N.eqb f' f
          | RErr _ => true
          | _ => false
          end &&
          (* a listed hardware certificate signs *)
          (negb healthy || negb (mem_b key (o_mem post) && mem_b (spec_pubkey info key) (obs_reported post))
           || is_sig r (spec_pubkey info key) d f)
      | List_ | Signers =>
          match r with
          | RList l | RSigners l =>
              (* nothing is invented: every entry is an in-memory certificate or an identity the agent held *)
              forallb (fun b => mem_b b (o_mem post) || mem_b b (o_ids pre)) l &&
              (* what stays in memory is listed *)
              forallb (fun b => mem_b b l) (o_mem post) &&
              (* healthy agent: every identity exactly once (hidden ones excepted, C09), blobs unchanged *)
              (negb healthy ||
               ms_eqb l (o_mem post ++ filter (fun b => negb (spec_hidden info nu b)) (obs_reported post)))
          | RErr _ => negb healthy
          | _ => false
          end
      | Add b =>
          listN_eqb (o_mem post) (o_mem pre) &&
          match r with
          | ROk => listN_eqb (o_ids post) (if mem_b b (o_ids pre) then o_ids pre else o_ids pre ++ [b])
          | RErr _ => negb healthy || match o_upass pre with Some _ => listN_eqb (o_ids post) (o_ids pre) | None => false end
          | _ => false
          end
      | Remove key =>
          match r with
          | ROk =>
              negb (mem_b key (o_mem post)) &&
              (negb healthy ||
               listN_eqb (o_ids post) (match o_upass pre with Some _ => o_ids pre | None => remove_blob key (o_ids pre) end))
          | RErr _ => listN_eqb (o_mem post) (o_mem pre) && negb (mem_b key (o_mem pre))
          | _ => false
          end &&
          ms_eqb (o_mem post) (remove_blob key (o_mem pre))
      | RemoveAll =>
          match o_mem post with [] => true | _ => false end &&
          match r with
          | ROk => match o_ids post with [] => true | _ => false end
          | RErr _ => negb healthy || match o_upass pre with Some _ => true | None => false end
          | _ => false
          end
      | Forward raw len rlen =>
          listN_eqb (o_mem post) (o_mem pre) && listN_eqb (o_ids post) (o_ids pre) &&
          if (spec_max_frame <? len)%N then
            is_err_reply r && listN_eqb (o_rawlog post) (o_rawlog pre) && Nat.eqb (o_reqno post) (o_reqno pre)
          else
            match r with
            | RRaw x => N.eqb x raw && listN_eqb (o_rawlog post) (o_rawlog pre ++ [raw])
            | RRawInjected _ => pend (o_reqno pre)
            | RErr _ => negb healthy || (spec_max_frame <? rlen)%N
            | _ => false
            end
      | _ => true
      end.

  Definition oracle (pend : nat -> bool) (nu : bool) (obs0 : obs) (steps : list sstep) : bool :=
    all_steps (oracle_step pend nu) obs0 steps.
End Oracle.

Definition is_nil {A} (l : list A) : bool := match l with [] => true | _ => false end.

(** [pending scr k]: the installed script holds a fault for a request number >= k. *)
Definition pending (scr : list (nat * fault)) (k : nat) : bool := existsb (fun p => Nat.leb k (fst p)) scr.

Definition check (c : case) : N :=
  match c with
  | CHist tbl nu ids0 scr built obs0 steps =>
      (* construction: a healthy agent always yields a server; a failure yields an error (a crash is reported natively) *)
      if negb (built || pending scr 0) then 2
      else if negb (oracle (info_of tbl) (pending scr) nu obs0 steps) then 2
      else if agree_hist tbl nu ids0 scr built obs0 steps then 0 else 1
  | _ => 3
  end.

(** Coverage (bit mask over a history): 1 non-empty listing, 2 signature,
    4 locked, 8 in-memory certificate, 16 cache entry, 32 error reply;
    +64 a fault fired, +128 a raw request was relayed, +256 a hardware
    certificate was accepted, +512 one was refused, +1024 a signature with an
    in-memory certificate, +2048 construction failed. *)
Definition classify (c : case) : N :=
  match c with
  | CHist tbl nu _ scr built obs0 steps =>
      (hist_flags steps +
       (if all_steps (fun pre st => negb (step_faulted (script_of scr) pre (s_obs st))) obs0 steps then 0 else 64) +
       (if existsb (fun st => match s_reply st with RRaw _ => true | _ => false end) steps then 128 else 0) +
       (if existsb (fun st => match s_op st, s_reply st with AddHardCert _, ROk => true | _, _ => false end) steps then 256 else 0) +
       (if existsb (fun st => match s_op st, s_reply st with AddHardCert _, RErr _ => true | _, _ => false end) steps then 512 else 0) +
       (if all_steps (fun pre st => negb (match s_op st, s_reply st with
                                          | Sign k _ _, RSig _ _ _ => mem_b k (o_mem (s_obs st)) | _, _ => false end)) obs0 steps
        then 0 else 1024) +
       (if built then 0 else 2048))%N
  | _ => 0%N
  end.
