(** C08 - a locked shim agent discloses and changes nothing; only the
    passphrase unlocks.  The property's own sentence, evaluated on what was
    observed around one operation (executable; no proofs), and the check of a
    harness case. *)
From Verif Require Import Lib.Base Lib.Json Model.KeyId Model.UAgent Model.Shim Model.ShimCheck.

(** The operations the property lists as refused while locked. *)
Definition guarded (o : op) : bool :=
  match o with
  | List_ | Signers | Sign _ _ _ | Add _ | AddHardCert _ | Remove _ | RemoveAll | Lock _ | Close => true
  | _ => false
  end.

(** Nothing at all moved: tables, identities, lock states, and no request was
    sent to the underlying agent. *)
Definition untouched (a b : obs) : bool :=
  listN_eqb (o_mem a) (o_mem b) && listN_eqb (o_cache a) (o_cache b) &&
  Bool.eqb (o_locked a) (o_locked b) && Bool.eqb (o_closed a) (o_closed b) &&
  listN_eqb (o_ids a) (o_ids b) && pass_eqb (o_upass a) (o_upass b) &&
  Nat.eqb (o_reqno a) (o_reqno b).

Definition oracle_step (script : nat -> option fault) (pre : obs) (st : sstep) : bool :=
  let post := s_obs st in
  let rep := s_reply st in
  match s_op st with
  | Unlock p =>
      if o_locked pre then
        (* only the passphrase unlocks; success restores the stores untouched *)
        match rep with
        | ROk =>
            negb (o_locked post) && same_stores pre post &&
            pass_eqb (Some p) (o_upass pre) && pass_eqb None (o_upass post)
        | RErr _ => o_locked post && same_stores pre post
        | _ => false
        end &&
        (* a wrong passphrase fails *)
        (pass_eqb (Some p) (o_upass pre) || is_err_reply rep) &&
        (* the right one succeeds unless the underlying agent refuses (fault, dead connection) *)
        (negb (pass_eqb (Some p) (o_upass pre)) || negb (o_alive pre) || o_closed pre ||
         step_faulted script pre post || match rep with ROk => true | _ => false end)
      else
        (* unlocking an unlocked agent is an error *)
        match rep with RErr _ => untouched pre post | _ => false end
  | Lock p =>
      if o_locked pre then is_err_reply rep && untouched pre post
      else
        match rep with
        | ROk => o_locked post && pass_eqb (Some p) (o_upass post) && same_stores pre post
        | RErr _ => negb (o_locked post) && same_stores pre post   (* refused: flag unchanged *)
        | _ => false
        end
  | o =>
      if o_locked pre && guarded o then
        untouched pre post &&
        match o with
        | List_ => match rep with RList [] => true | _ => false end
        | _ => is_err_reply rep
        end
      else
        (* only Lock / Unlock move the lock flag *)
        Bool.eqb (o_locked post) (o_locked pre) &&
        (* a raw request is relayed whatever it says, locked or not (the lock does not stop it): it changes nothing
           the shim holds - in particular nothing is lost that unlocking would have to restore *)
        match o with
        | Forward _ _ _ =>
            listN_eqb (o_mem pre) (o_mem post) && listN_eqb (o_cache pre) (o_cache post) &&
            listN_eqb (o_ids pre) (o_ids post)
        | _ => true
        end
  end.

Definition oracle (script : nat -> option fault) (obs0 : obs) (steps : list sstep) : bool :=
  all_steps (oracle_step script) obs0 steps.

Definition check (c : case) : N :=
  match c with
  | CHist tbl nu ids0 scr built obs0 steps =>
      if negb (oracle (script_of scr) obs0 steps) then 2
      else if agree_hist tbl nu ids0 scr built obs0 steps then 0 else 1
  | _ => 3
  end.

(** Coverage: what the history exercised (bit mask: 1 non-empty listing,
    2 signature, 4 locked at some point, 8 in-memory certificate, 16 cache
    entry, 32 error reply; +64 an unlock succeeded; +128 a guarded operation ran
    while locked). *)
Definition classify (c : case) : N :=
  match c with
  | CHist _ _ _ _ _ obs0 steps =>
      hist_flags steps +
      (if existsb (fun st => match s_op st, s_reply st with Unlock _, ROk => true | _, _ => false end) steps then 64 else 0) +
      (if all_steps (fun pre st => negb (o_locked pre && guarded (s_op st))) obs0 steps then 0 else 128)
  | _ => 0
  end.
