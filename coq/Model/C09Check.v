(** C09 - no-upstream mode hides the underlying agent's YSSHCA certificates,
    nothing else.  The property's own sentence evaluated on what was observed
    around one operation of a fault-free history, the two-modes-same-history
    comparison, and the check of a harness case (executable; no proofs). *)
From Verif Require Import Lib.Base Lib.Json Model.KeyId Model.UAgent Model.Shim Model.ShimCheck Model.C07Check
  Generated.ShimGen.

(** Multiset equality by counting (listings carry no order). *)
Definition count (x : N) (l : list N) : nat := count_occ N.eq_dec l x.
Definition ms_eqb (a b : list N) : bool :=
  forallb (fun x => Nat.eqb (count x a) (count x b)) (a ++ b).

Section Oracle.
  Variable info : N -> option cinfo.

  (** "a certificate whose KeyID decodes as a YSSHCA KeyID": the C05 model of
      keyid.Unmarshal applied to the certificate's KeyId text. *)
  Definition spec_cert (b : N) : bool := match info b with Some _ => true | None => false end.
  Definition spec_ysshca (b : N) : bool :=
    match info b with Some ci => is_ok (unmarshal (kid ci)) | None => false end.
  (** hidden from listings of the underlying agent's identities in mode [nu] *)
  Definition spec_hidden (nu : bool) (b : N) : bool := nu && spec_cert b && spec_ysshca b.

  Definition obs_live (o : obs) : bool := negb (o_closed o) && o_alive o.

  (** The listing clause: the reply is, as a multiset, the in-memory
      certificates (whatever their KeyID) plus the agent's identities that are
      not hidden - so no hidden certificate of the agent is listed, every
      plain key / other certificate / in-memory certificate is, and with the
      mode off nothing is missing. [post] is the state after the purge of C07. *)
  Definition oracle_listing (nu : bool) (post : obs) (l : list N) : bool :=
    ms_eqb l (o_mem post ++ filter (fun b => negb (spec_hidden nu b)) (obs_reported post)).

  Definition is_sig (r : reply) (k d f : N) : bool :=
    match r with RSig k' d' f' => N.eqb k k' && N.eqb d d' && N.eqb f f' | _ => false end.

  Definition oracle_sign (nu : bool) (pre post : obs) (key d f : N) (r : reply) : bool :=
    let rep := obs_reported post in
    if mem_b key (o_mem post) then
      (* an in-memory hardware certificate stays usable: the plain key signs *)
      negb (mem_b (spec_pubkey info key) rep) || is_sig r (spec_pubkey info key) d f
    else if spec_hidden nu key then
      (* a hidden certificate held by the agent: key not found *)
      negb (mem_b key (obs_reported pre)) || match r with RErr EKeyNotFound => true | _ => false end
    else
      (* plain keys and other certificates held by the agent stay usable *)
      negb (mem_b key rep) || is_sig r (spec_pubkey info key) d f.

  Definition oracle_step (nu : bool) (pre : obs) (st : sstep) : bool :=
    let post := s_obs st in
    (* with the mode off the cache stays empty: nothing can ever be hidden *)
    (nu || match o_cache post with [] => true | _ => false end) &&
    (* the cache only ever names YSSHCA certificates *)
    forallb (fun b => spec_cert b && spec_ysshca b) (o_cache post) &&
    (if o_locked pre || negb (obs_live pre) then true
     else
       match s_op st, s_reply st with
       | List_, RList l => oracle_listing nu post l
       | Signers, RSigners l => oracle_listing nu post l
       | List_, _ | Signers, _ => false
       | Sign key d f, r => oracle_sign nu pre post key d f r
       | Remove key, r =>
           (* a hidden certificate can still be removed *)
           if spec_hidden nu key && mem_b key (obs_reported pre) then
             match r with ROk => true | _ => false end &&
             negb (mem_b key (o_ids post)) && negb (mem_b key (o_cache post))
           else true
       | RemoveAll, ROk => match o_cache post, o_ids post with [], [] => true | _, _ => false end
       | _, _ => true
       end).

  Definition oracle (nu : bool) (obs0 : obs) (steps : list sstep) : bool :=
    all_steps (oracle_step nu) obs0 steps.

  (** The same history on two shims, mode off ([u]) and on ([n]): the stores
      evolve identically, a listing in no-upstream mode is the other mode's
      listing without the hidden certificates of the agent, a signing request
      differs only by "key not found" for a hidden certificate, every other
      reply is the same. *)
  Definition two_core (lk lv : bool) (o : op) (ru rn : reply) (mem_n rep_n : list N) : bool :=
    if lk || negb lv then reply_eqb ru rn
    else
      match ru, rn with
      | RList lu, RList ln | RSigners lu, RSigners ln =>
          ms_eqb lu (ln ++ filter (spec_hidden true) rep_n)
      | _, RErr EKeyNotFound =>
          match o with
          | Sign key _ _ => reply_eqb ru rn || (spec_hidden true key && negb (mem_b key mem_n))
          | _ => reply_eqb ru rn
          end
      | _, _ => reply_eqb ru rn
      end.
  (** [pre]: the state of the no-upstream shim before the operation *)
  Definition oracle_two_step (pre : obs) (su sn : sstep) : bool :=
    let pu := s_obs su in let pn := s_obs sn in
    listN_eqb (o_mem pu) (o_mem pn) && listN_eqb (o_ids pu) (o_ids pn) &&
    pass_eqb (o_upass pu) (o_upass pn) && Bool.eqb (o_locked pu) (o_locked pn) &&
    two_core (o_locked pre) (obs_live pre) (s_op sn) (s_reply su) (s_reply sn) (o_mem pn) (obs_reported pn).
  Fixpoint oracle_two (pre : obs) (su sn : list sstep) : bool :=
    match su, sn with
    | [], [] => true
    | a :: ru, b :: rn => oracle_two_step pre a b && oracle_two (s_obs b) ru rn
    | _, _ => false
    end.
End Oracle.

Definition check (c : case) : N :=
  match c with
  | CHist tbl nu ids0 scr built obs0 steps =>
      match scr with
      | [] =>
          if negb (oracle (info_of tbl) nu obs0 steps) then 2
          else if agree_hist tbl nu ids0 scr built obs0 steps then 0 else 1
      | _ => 3   (* C09 is about fault-free histories *)
      end
  | CTwo tbl ids0 o0u su o0n sn =>
      let info := info_of tbl in
      if negb (oracle info false o0u su && oracle info true o0n sn && oracle_two info o0n su sn) then 2
      else if agree_hist tbl false ids0 [] true o0u su && agree_hist tbl true ids0 [] true o0n sn then 0 else 1
  | _ => 3
  end.

(** Coverage (bit mask over a history): 1 non-empty listing, 2 signature,
    4 locked, 8 in-memory certificate, 16 cache entry, 32 error reply;
    +64 a listing left out a hidden certificate, +128 a signing request named
    a hidden certificate, +256 a hidden certificate was removed, +512 a YSSHCA
    certificate reached the agent after construction (cache grew during the
    history); +1024 two-mode case. *)
Definition hist_class (info : N -> option cinfo) (nu : bool) (obs0 : obs) (steps : list sstep) : N :=
  (hist_flags steps +
   (if all_steps (fun pre st =>
        negb (match s_reply st with
              | RList _ | RSigners _ => existsb (spec_hidden info nu) (obs_reported (s_obs st))
              | _ => false end)) obs0 steps then 0 else 64) +
   (if existsb (fun st => match s_op st with Sign k _ _ => spec_hidden info nu k | _ => false end) steps then 128 else 0) +
   (if all_steps (fun pre st =>
        negb (match s_op st, s_reply st with
              | Remove k, ROk => spec_hidden info nu k && mem_b k (o_ids pre)
              | _, _ => false end)) obs0 steps then 0 else 256) +
   (if all_steps (fun pre st => Nat.leb (length (o_cache (s_obs st))) (length (o_cache pre))) obs0 steps then 0 else 512))%N.
Definition classify (c : case) : N :=
  match c with
  | CHist tbl nu _ _ _ obs0 steps => hist_class (info_of tbl) nu obs0 steps
  | CTwo tbl _ _ _ o0n sn => (hist_class (info_of tbl) true o0n sn + 1024)%N
  | _ => 0%N
  end.
