// Command harness is the correspondence-check driver: for one property it
// generates seeded inputs / operation histories / fault schedules, runs the
// real implementation (built from /repo's working tree with -tags verif),
// and writes the inputs together with the projected observations as Gallina
// case files that coqc evaluates against the executable Coq model and the
// property oracle (vm_compute). Go-side oracles (panics, byte identity of
// large payloads, timing choreography) are reported as native violations.
package main

import (
	"flag"
	"fmt"
	"os"
	"sort"
)

func main() {
	prop := flag.String("prop", "", "property id, e.g. C05")
	seed := flag.Int64("seed", 20260926, "PRNG seed")
	tier := flag.String("tier", "quick", "quick|thorough")
	out := flag.String("out", "", "output directory")
	only := flag.Int("only", -1, "replay: emit only the case with this index")
	corpus := flag.String("corpus", "", "corpus directory for this property")
	list := flag.Bool("list", false, "list registered properties")
	flag.Parse()
	if *list {
		var ids []string
		for id := range drivers {
			ids = append(ids, id)
		}
		sort.Strings(ids)
		for _, id := range ids {
			fmt.Println(id)
		}
		return
	}
	d, ok := drivers[*prop]
	if !ok {
		fmt.Fprintf(os.Stderr, "harness: no driver for %q\n", *prop)
		os.Exit(2)
	}
	if *out == "" {
		fmt.Fprintln(os.Stderr, "harness: need -out")
		os.Exit(2)
	}
	ctx := newCtx(*prop, *seed, *tier, *out, *only, *corpus, d)
	d.Run(ctx)
	if err := ctx.finish(); err != nil {
		fmt.Fprintf(os.Stderr, "harness: %v\n", err)
		os.Exit(2)
	}
}
