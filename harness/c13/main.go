// Harness for C13: a recording YubiAgent served by the REAL yubiagent.ServeAgent
// over net.Pipe and driven through the REAL client (NewClientFromConn), with the
// bytes on the wire captured in both directions.  Standard agent operations
// and big payloads are compared on the Go side (c.Native / c.NativeCheck); the
// repository's own codecs, the PIV-tool status parser and the remote-mode
// refusals are emitted as Coq cases for Model.C13Check.
package main

import (
	"bytes"
	"crypto/ecdsa"
	"crypto/ed25519"
	"crypto/elliptic"
	"crypto/rsa"
	"crypto/x509"
	"crypto/x509/pkix"
	"encoding/asn1"
	"encoding/binary"
	"encoding/hex"
	"encoding/pem"
	"errors"
	"fmt"
	"io"
	"log"
	"math/big"
	"math/rand"
	"net"
	"os"
	"os/exec"
	"path/filepath"
	"strings"
	"sync"
	"time"

	"github.com/rs/zerolog"
	"github.com/theparanoids/ysshra/agent/yubiagent"
	"golang.org/x/crypto/ssh"
	"golang.org/x/crypto/ssh/agent"
	"verifharness/core"
)

func main() {
	core.Main("C13", &core.Driver{
		Imports:   "From Verif Require Import Lib.Base Lib.Bytes Model.AgentStd Model.C13Check.",
		CheckFn:   "C13Check.check",
		ClassFn:   "C13Check.classify",
		CaseType:  "C13Check.case",
		Run:       runC13,
		ShardSize: 150,
	})
}

// ---------- deterministic key material ----------

type rngReader struct{ r *rand.Rand }

func (x rngReader) Read(p []byte) (int, error) {
	for i := range p {
		p[i] = byte(x.r.Intn(256))
	}
	return len(p), nil
}

func detPrime(r *rand.Rand, bits int) *big.Int {
	for {
		b := make([]byte, bits/8)
		rngReader{r}.Read(b)
		b[0] |= 0xc0
		b[len(b)-1] |= 1
		p := new(big.Int).SetBytes(b)
		if p.ProbablyPrime(20) {
			return p
		}
	}
}

func detRSA(r *rand.Rand) *rsa.PrivateKey {
	for {
		p, q := detPrime(r, 1024), detPrime(r, 1024)
		if p.Cmp(q) == 0 {
			continue
		}
		n := new(big.Int).Mul(p, q)
		if n.BitLen() != 2048 {
			continue
		}
		p1, q1 := new(big.Int).Sub(p, big.NewInt(1)), new(big.Int).Sub(q, big.NewInt(1))
		d := new(big.Int).ModInverse(big.NewInt(65537), new(big.Int).Mul(p1, q1))
		if d == nil {
			continue
		}
		k := &rsa.PrivateKey{PublicKey: rsa.PublicKey{N: n, E: 65537}, D: d, Primes: []*big.Int{p, q}}
		k.Precompute()
		if k.Validate() == nil {
			return k
		}
	}
}

func detECDSA(r *rand.Rand, c elliptic.Curve) *ecdsa.PrivateKey {
	n := c.Params().N
	for {
		b := make([]byte, (n.BitLen()+7)/8)
		rngReader{r}.Read(b)
		d := new(big.Int).SetBytes(b)
		d.Mod(d, n)
		if d.Sign() == 0 {
			continue
		}
		x, y := c.ScalarBaseMult(d.Bytes())
		return &ecdsa.PrivateKey{PublicKey: ecdsa.PublicKey{Curve: c, X: x, Y: y}, D: d}
	}
}

func detEd25519(r *rand.Rand) ed25519.PrivateKey {
	seed := make([]byte, ed25519.SeedSize)
	rngReader{r}.Read(seed)
	return ed25519.NewKeyFromSeed(seed)
}

type keyPair struct {
	kind   string
	priv   interface{} // *rsa.PrivateKey, *ecdsa.PrivateKey, *ed25519.PrivateKey (as agent.AddedKey wants them)
	signer ssh.Signer
	pub    ssh.PublicKey
	cert   *ssh.Certificate
}

type material struct {
	keys  []*keyPair
	x509s []*x509.Certificate // small ones first
	rnd   rngReader
}

func makeMaterial(r *rand.Rand, seed int64) (*material, error) {
	// randomness handed to crypto routines comes from its own stream: some of them read
	// a byte or not at random (randutil.MaybeReadByte), which must not shift the run's PRNG
	m := &material{rnd: rngReader{rand.New(rand.NewSource(seed*7919 + 13))}}
	caSigner, err := ssh.NewSignerFromKey(detEd25519(r))
	if err != nil {
		return nil, err
	}
	ed1, ed2 := detEd25519(r), detEd25519(r)
	raws := []struct {
		kind string
		priv interface{}
		sk   interface{}
	}{
		{"ed25519", &ed1, ed1}, {"ed25519", &ed2, ed2},
		{"ecdsa-p256", nil, detECDSA(r, elliptic.P256())}, {"ecdsa-p384", nil, detECDSA(r, elliptic.P384())},
		{"ecdsa-p521", nil, detECDSA(r, elliptic.P521())},
		{"rsa-2048", nil, detRSA(r)}, {"rsa-2048", nil, detRSA(r)},
	}
	for i, rw := range raws {
		kp := &keyPair{kind: rw.kind, priv: rw.priv}
		if kp.priv == nil {
			kp.priv = rw.sk
		}
		if kp.signer, err = ssh.NewSignerFromKey(rw.sk); err != nil {
			return nil, err
		}
		kp.pub = kp.signer.PublicKey()
		cert := &ssh.Certificate{Key: kp.pub, Serial: uint64(100 + i), CertType: ssh.UserCert, KeyId: fmt.Sprintf(`{"prins":["user%d"],"ver":1}`, i),
			ValidPrincipals: []string{fmt.Sprintf("user%d", i), "ünï"}, ValidAfter: 1, ValidBefore: ssh.CertTimeInfinity,
			Permissions: ssh.Permissions{CriticalOptions: map[string]string{"touch-policy": "1"}, Extensions: map[string]string{"permit-pty": "", "permit-agent-forwarding": ""}}}
		if err := cert.SignCert(m.rnd, caSigner); err != nil {
			return nil, err
		}
		kp.cert = cert
		m.keys = append(m.keys, kp)
	}
	// x509 certificates of several sizes (P-256 and RSA subjects), as the slot operations return them
	xk := detECDSA(r, elliptic.P256())
	rk := m.keys[5].priv.(*rsa.PrivateKey)
	for i, pad := range []int{0, 0, 40, 300, 1500, 7000} {
		tmpl := &x509.Certificate{SerialNumber: big.NewInt(int64(1000 + i)), Subject: pkix.Name{CommonName: fmt.Sprintf("YubiKey PIV Attestation 9%c", 'a'+i)},
			NotBefore: time.Unix(1700000000, 0), NotAfter: time.Unix(1900000000, 0)}
		if pad > 0 {
			v, _ := asn1.Marshal(bytes.Repeat([]byte{byte(i)}, pad))
			tmpl.ExtraExtensions = []pkix.Extension{{Id: asn1.ObjectIdentifier{1, 3, 6, 1, 4, 1, 41482, 3, 3}, Value: v}}
		}
		// issued by the RSA key: PKCS#1 v1.5 signing is deterministic, so the certificates are reproducible
		var der []byte
		if i%2 == 0 {
			der, err = x509.CreateCertificate(m.rnd, tmpl, tmpl, &xk.PublicKey, rk)
		} else {
			der, err = x509.CreateCertificate(m.rnd, tmpl, tmpl, &rk.PublicKey, rk)
		}
		if err != nil {
			return nil, err
		}
		crt, err := x509.ParseCertificate(der)
		if err != nil {
			return nil, err
		}
		m.x509s = append(m.x509s, crt)
		// the same certificate with a negative serial number (legal DER; the served agent hands over its bytes)
		if i < 3 {
			if nd, ok := core.NegativeSerialDER(der); ok {
				m.x509s = append(m.x509s, &x509.Certificate{Raw: nd})
			}
		}
	}
	return m, nil
}

// ---------- the recording agent ----------

type call struct {
	method   string
	key      []byte
	data     []byte
	flags    agent.SignatureFlags
	added    agent.AddedKey
	pass     []byte
	comment  string
	code     byte
	slot     string
	req      []byte
	extType  string
	contents []byte
}

type script struct {
	err   error
	keys  []*agent.Key
	sig   *ssh.Signature
	slots []string
	cert  *x509.Certificate
	resp  []byte
}

type recAgent struct {
	mu    sync.Mutex
	next  script
	calls []call
	// kept: key objects the served agent was handed and keeps (as shimagent keeps the certificates it is
	// given), with their encoding at the time of the call: they must not change under its feet afterwards
	kept []keptKey
}

type keptKey struct {
	obj  ssh.PublicKey
	snap []byte
	what string
}

func (a *recAgent) keep(k ssh.PublicKey, what string) {
	if k == nil {
		return
	}
	a.mu.Lock()
	if len(a.kept) >= 24 {
		a.kept = a.kept[1:]
	}
	a.kept = append(a.kept, keptKey{k, k.Marshal(), what})
	a.mu.Unlock()
}

// changedKept reports a kept key whose encoding is no longer what it was when the agent received it.
func (a *recAgent) changedKept() (string, bool) {
	a.mu.Lock()
	defer a.mu.Unlock()
	for _, k := range a.kept {
		var now []byte
		if p, _ := core.Guard(func() { now = k.obj.Marshal() }); p || !bytes.Equal(now, k.snap) {
			a.kept = nil
			return k.what, true
		}
	}
	return "", false
}

func (a *recAgent) arm(s script) {
	a.mu.Lock()
	a.next, a.calls = s, nil
	a.mu.Unlock()
}
func (a *recAgent) seen() []call {
	a.mu.Lock()
	defer a.mu.Unlock()
	return append([]call(nil), a.calls...)
}
func (a *recAgent) rec(c call) script {
	a.mu.Lock()
	defer a.mu.Unlock()
	a.calls = append(a.calls, c)
	return a.next
}
func cp(b []byte) []byte { return append([]byte(nil), b...) }

func (a *recAgent) List() ([]*agent.Key, error) {
	s := a.rec(call{method: "List"})
	return s.keys, s.err
}
func (a *recAgent) Sign(key ssh.PublicKey, data []byte) (*ssh.Signature, error) {
	s := a.rec(call{method: "Sign", key: key.Marshal(), data: cp(data)})
	return s.sig, s.err
}
func (a *recAgent) SignWithFlags(key ssh.PublicKey, data []byte, flags agent.SignatureFlags) (*ssh.Signature, error) {
	a.keep(key, "the key given to SignWithFlags")
	s := a.rec(call{method: "SignWithFlags", key: key.Marshal(), data: cp(data), flags: flags})
	return s.sig, s.err
}
func (a *recAgent) Add(key agent.AddedKey) error {
	return a.rec(call{method: "Add", added: key}).err
}
func (a *recAgent) Remove(key ssh.PublicKey) error {
	return a.rec(call{method: "Remove", key: key.Marshal()}).err
}
func (a *recAgent) RemoveAll() error      { return a.rec(call{method: "RemoveAll"}).err }
func (a *recAgent) Lock(p []byte) error   { return a.rec(call{method: "Lock", pass: cp(p)}).err }
func (a *recAgent) Unlock(p []byte) error { return a.rec(call{method: "Unlock", pass: cp(p)}).err }
func (a *recAgent) Signers() ([]ssh.Signer, error) {
	a.rec(call{method: "Signers"})
	return nil, errors.New("not reachable through the wire")
}
func (a *recAgent) Extension(t string, c []byte) ([]byte, error) {
	s := a.rec(call{method: "Extension", extType: t, contents: cp(c)})
	return s.resp, s.err
}
func (a *recAgent) Forward(req []byte) ([]byte, error) {
	s := a.rec(call{method: "Forward", req: cp(req)})
	return s.resp, s.err
}
func (a *recAgent) AddHardCert(key ssh.PublicKey, comment string) error {
	a.keep(key, "the key given to AddHardCert")
	return a.rec(call{method: "AddHardCert", key: key.Marshal(), comment: comment}).err
}
func (a *recAgent) Wait(code byte) error { return a.rec(call{method: "Wait", code: code}).err }
func (a *recAgent) Close() error         { return nil }
func (a *recAgent) ListSlots() ([]string, error) {
	s := a.rec(call{method: "ListSlots"})
	return s.slots, s.err
}
func (a *recAgent) ReadSlot(slot string) (*x509.Certificate, error) {
	s := a.rec(call{method: "ReadSlot", slot: slot})
	return s.cert, s.err
}
func (a *recAgent) AttestSlot(slot string) (*x509.Certificate, error) {
	s := a.rec(call{method: "AttestSlot", slot: slot})
	return s.cert, s.err
}
func (a *recAgent) AddSmartcardKey(string, []byte, time.Duration, bool) error {
	a.rec(call{method: "AddSmartcardKey"})
	return errors.New("not reachable through the wire")
}
func (a *recAgent) RemoveSmartcardKey(string, []byte) error {
	a.rec(call{method: "RemoveSmartcardKey"})
	return errors.New("not reachable through the wire")
}

// ---------- a client/server session with the wire captured ----------

type teeConn struct {
	net.Conn
	mu     sync.Mutex
	wr, rd bytes.Buffer
}

func (t *teeConn) Write(p []byte) (int, error) {
	n, err := t.Conn.Write(p)
	t.mu.Lock()
	t.wr.Write(p[:n])
	t.mu.Unlock()
	return n, err
}
func (t *teeConn) Read(p []byte) (int, error) {
	n, err := t.Conn.Read(p)
	t.mu.Lock()
	t.rd.Write(p[:n])
	t.mu.Unlock()
	return n, err
}
func (t *teeConn) reset() {
	t.mu.Lock()
	t.wr.Reset()
	t.rd.Reset()
	t.mu.Unlock()
}
func (t *teeConn) frames() (req, resp [][]byte) {
	t.mu.Lock()
	defer t.mu.Unlock()
	return parseFrames(t.wr.Bytes()), parseFrames(t.rd.Bytes())
}

func parseFrames(b []byte) (fs [][]byte) {
	b = cp(b)
	for len(b) >= 4 {
		l := int(binary.BigEndian.Uint32(b))
		if len(b)-4 < l {
			break
		}
		fs = append(fs, b[4:4+l])
		b = b[4+l:]
	}
	return
}

type session struct {
	cli      yubiagent.YubiAgent
	tee      *teeConn
	srvErr   chan string // panic text or "" when ServeAgent returned
	panicked string
}

// connPair: two ends of a unix stream socket.  (Not net.Pipe: a zero-length
// Write on a net.Pipe blocks until the peer's next Read, which deadlocks the
// strictly alternating protocol after an empty reply body; a real socket
// returns from a zero-length write at once.)
var pairDir string

func connPair() (net.Conn, net.Conn, error) {
	if pairDir == "" {
		d, err := os.MkdirTemp("", "verif-c13-pair-")
		if err != nil {
			return nil, nil, err
		}
		pairDir = d
	}
	path := filepath.Join(pairDir, fmt.Sprintf("p%d.sock", time.Now().UnixNano()))
	ln, err := net.Listen("unix", path)
	if err != nil {
		return nil, nil, err
	}
	defer ln.Close()
	defer os.Remove(path)
	type res struct {
		c   net.Conn
		err error
	}
	ch := make(chan res, 1)
	go func() { c, err := ln.Accept(); ch <- res{c, err} }()
	c1, err := net.Dial("unix", path)
	if err != nil {
		return nil, nil, err
	}
	r := <-ch
	if r.err != nil {
		c1.Close()
		return nil, nil, r.err
	}
	return c1, r.c, nil
}

func newSession(ag yubiagent.YubiAgent) (*session, error) {
	c1, c2, err := connPair()
	if err != nil {
		return nil, err
	}
	s := &session{tee: &teeConn{Conn: c1}, srvErr: make(chan string, 1)}
	go func() {
		defer c2.Close()
		p, msg := core.Guard(func() { _ = yubiagent.ServeAgent(ag, c2) })
		if p {
			s.srvErr <- msg
		} else {
			s.srvErr <- ""
		}
	}()
	cli, err := yubiagent.NewClientFromConn(s.tee)
	if err != nil {
		return nil, err
	}
	s.cli = cli
	return s, nil
}

// close ends the session and reports a server-side panic, if any.
func (s *session) close() string {
	s.tee.Conn.Close()
	select {
	case m := <-s.srvErr:
		return m
	case <-time.After(10 * time.Second):
		return "ServeAgent did not return after the client closed the connection"
	}
}

// do runs one client operation with a watchdog.
func do(f func()) (hung bool) {
	done := make(chan struct{})
	go func() { defer close(done); f() }()
	select {
	case <-done:
		return false
	case <-time.After(30 * time.Second):
		return true
	}
}

// ---------- Gallina printers ----------

func gHex(b []byte) string { return `(hx "` + hex.EncodeToString(b) + `")` }
func gOptHex(present bool, b []byte) string {
	if !present {
		return "None"
	}
	return "(Some " + gHex(b) + ")"
}
func gErr(e error) string {
	if e == nil {
		return "None"
	}
	return "(Some " + gHex([]byte(e.Error())) + ")"
}
func gHexList(l []string) string {
	var it []string
	for _, s := range l {
		it = append(it, gHex([]byte(s)))
	}
	return core.GList(it)
}
func short(b []byte) string {
	if len(b) > 64 {
		return fmt.Sprintf("%x...(%d bytes)", b[:64], len(b))
	}
	return fmt.Sprintf("%x", b)
}
func errText(e error) interface{} {
	if e == nil {
		return nil
	}
	return e.Error()
}

// ---------- generators ----------

type gen struct {
	r *rand.Rand
	m *material
}

func (g *gen) bytesN(n int) []byte {
	b := make([]byte, n)
	for i := range b {
		b[i] = byte(g.r.Intn(256))
	}
	return b
}

// sizes 0..64 KiB with the small ones and the edges likely
func (g *gen) size() int {
	switch g.r.Intn(8) {
	case 0:
		return 0
	case 1:
		return 1
	case 2:
		return 65536
	case 3:
		return g.r.Intn(65537)
	default:
		return g.r.Intn(300)
	}
}

func (g *gen) comment() string {
	switch g.r.Intn(10) {
	case 0:
		return ""
	case 1:
		return "日本語のコメント 😀"
	case 2:
		return strings.Repeat("長い", 1+g.r.Intn(100))
	case 3:
		return string(g.bytesN(g.r.Intn(20))) // not necessarily UTF-8: a Go string carries any bytes
	default:
		return core.GenText(g.r)
	}
}

// errText: an error text; the two texts the wire format cannot carry are kept
// out here and probed explicitly (known findings K1, K2).
func (g *gen) errText(forbidEmpty bool) string {
	for {
		var t string
		switch g.r.Intn(6) {
		case 0:
			t = "agent refused operation"
		case 1:
			t = "SUCCESS" + core.GenTextNonEmpty(g.r)
		case 2:
			t = "success"
		case 3:
			t = string(g.bytesN(1 + g.r.Intn(12)))
		case 4:
			t = ""
		default:
			t = core.GenText(g.r)
		}
		if t == "SUCCESS" || (forbidEmpty && t == "") {
			continue
		}
		return t
	}
}

func (g *gen) maybeErr(forbidEmpty bool) error {
	if g.r.Intn(3) == 0 {
		return errors.New(g.errText(forbidEmpty))
	}
	return nil
}

var slotPool = []string{"9a", "9c", "9d", "9e", "f9", "82", "83", "95", "9a", "9c"}

// slot-name lists the name-list encoding can carry (no ',' in a name, not the
// single empty name - those are probed as known finding K3)
func (g *gen) slots() []string {
	for {
		var l []string
		switch g.r.Intn(6) {
		case 0:
			l = nil
		case 1:
			l = []string{}
		default:
			n := 1 + g.r.Intn(6)
			for i := 0; i < n; i++ {
				switch g.r.Intn(8) {
				case 0:
					l = append(l, "")
				case 1:
					l = append(l, core.GenText(g.r))
				case 2:
					l = append(l, string(g.bytesN(1+g.r.Intn(4))))
				default:
					l = append(l, slotPool[g.r.Intn(len(slotPool))])
				}
			}
		}
		ok := !(len(l) == 1 && l[0] == "")
		for _, s := range l {
			if strings.Contains(s, ",") {
				ok = false
			}
		}
		if ok {
			return l
		}
	}
}

func (g *gen) slotName() string {
	switch g.r.Intn(6) {
	case 0:
		return ""
	case 1:
		return core.GenText(g.r)
	case 2:
		return string(g.bytesN(1 + g.r.Intn(5)))
	default:
		return slotPool[g.r.Intn(len(slotPool))]
	}
}

// ---------- the driver ----------

type runner struct {
	c    *core.Ctx
	g    *gen
	fake *recAgent
	s    *session
	ops  int
}

func (x *runner) session() *session {
	if x.s == nil || x.ops >= 40 {
		x.endSession()
		s, err := newSession(x.fake)
		if err != nil {
			x.c.Native("NewClientFromConn failed: "+err.Error(), nil)
			return nil
		}
		x.s, x.ops = s, 0
	}
	x.ops++
	return x.s
}

func (x *runner) endSession() {
	if x.s != nil {
		if m := x.s.close(); m != "" {
			x.c.Native("ServeAgent panicked or hung while serving the client: "+strings.SplitN(m, "\n", 2)[0], nil)
		}
		x.s = nil
	}
}

func (x *runner) bad(what string, input interface{}) {
	x.c.Native(what, input)
	x.endSession() // do not let a desynchronised connection taint later operations
}

// oneCall: exactly one call of the expected method reached the agent
func oneCall(cs []call, method string) (call, bool) {
	if len(cs) != 1 || cs[0].method != method {
		return call{}, false
	}
	return cs[0], true
}

func methods(cs []call) string {
	var m []string
	for _, c := range cs {
		m = append(m, c.method)
	}
	return strings.Join(m, ",")
}

func samePriv(a, b interface{}) bool {
	switch ka := a.(type) {
	case *ed25519.PrivateKey:
		kb, ok := b.(*ed25519.PrivateKey)
		return ok && bytes.Equal(*ka, *kb)
	case *ecdsa.PrivateKey:
		kb, ok := b.(*ecdsa.PrivateKey)
		return ok && ka.Curve == kb.Curve && ka.X.Cmp(kb.X) == 0 && ka.Y.Cmp(kb.Y) == 0 && ka.D.Cmp(kb.D) == 0
	case *rsa.PrivateKey:
		kb, ok := b.(*rsa.PrivateKey)
		return ok && ka.N.Cmp(kb.N) == 0 && ka.E == kb.E && ka.D.Cmp(kb.D) == 0 && len(kb.Primes) == 2 &&
			((ka.Primes[0].Cmp(kb.Primes[0]) == 0 && ka.Primes[1].Cmp(kb.Primes[1]) == 0) || (ka.Primes[0].Cmp(kb.Primes[1]) == 0 && ka.Primes[1].Cmp(kb.Primes[0]) == 0))
	}
	return false
}

func (x *runner) pubOf(kp *keyPair) ssh.PublicKey {
	if x.g.r.Intn(2) == 0 {
		return kp.cert
	}
	return kp.pub
}

func (x *runner) scriptedKeys() []*agent.Key {
	g := x.g
	n := g.r.Intn(6)
	var ks []*agent.Key
	for i := 0; i < n; i++ {
		p := x.pubOf(g.m.keys[g.r.Intn(len(g.m.keys))])
		ks = append(ks, &agent.Key{Format: p.Type(), Blob: p.Marshal(), Comment: g.comment()})
	}
	return ks
}

// --- standard operations (Go-side oracle: same arguments, same result, failures as errors) ---

func (x *runner) opList() {
	s := x.session()
	if s == nil {
		return
	}
	sc := script{keys: x.scriptedKeys(), err: x.g.maybeErr(false)}
	x.fake.arm(sc)
	s.tee.reset()
	var got []*agent.Key
	var err error
	if do(func() { got, err = s.cli.List() }) {
		x.bad("client List hung", nil)
		return
	}
	in := map[string]interface{}{"op": "List", "keys": len(sc.keys), "scripted_error": errText(sc.err)}
	if _, ok := oneCall(x.fake.seen(), "List"); !ok {
		x.bad("List: the served agent saw calls ["+methods(x.fake.seen())+"]", in)
		return
	}
	{
		scripted, client := "PFailure", ""
		if sc.err == nil {
			scripted = gIdents(sc.keys)
		}
		if err == nil {
			client = gIdents(got)
		}
		x.std("std-list", "QList", "QList", scripted, client, in)
	}
	if sc.err != nil {
		if err == nil {
			x.bad("List: the served agent failed but the client reported success", in)
			return
		}
		x.c.NativeCheck(1)
		return
	}
	ok := err == nil && len(got) == len(sc.keys)
	for i := 0; ok && i < len(got); i++ {
		ok = bytes.Equal(got[i].Blob, sc.keys[i].Blob) && got[i].Comment == sc.keys[i].Comment && got[i].Format == sc.keys[i].Format
	}
	if !ok {
		x.bad(fmt.Sprintf("List: the client's key list differs from the served agent's (err=%v, %d vs %d keys)", err, len(got), len(sc.keys)), in)
		return
	}
	x.c.NativeCheck(1)
}

func (x *runner) realSig(kp *keyPair, data []byte, flags agent.SignatureFlags) *ssh.Signature {
	var sig *ssh.Signature
	var err error
	if as, ok := kp.signer.(ssh.AlgorithmSigner); ok && kp.kind == "rsa-2048" && flags != 0 {
		alg := ssh.KeyAlgoRSASHA256
		if flags&agent.SignatureFlagRsaSha512 != 0 {
			alg = ssh.KeyAlgoRSASHA512
		}
		sig, err = as.SignWithAlgorithm(x.g.m.rnd, data, alg)
	} else {
		sig, err = kp.signer.Sign(x.g.m.rnd, data)
	}
	if err != nil {
		return &ssh.Signature{Format: kp.pub.Type(), Blob: x.g.bytesN(64)}
	}
	return sig
}

func (x *runner) opSign(withFlags bool) {
	s := x.session()
	if s == nil {
		return
	}
	g := x.g
	kp := g.m.keys[g.r.Intn(len(g.m.keys))]
	key := x.pubOf(kp)
	data := g.bytesN(g.size())
	var flags agent.SignatureFlags
	if withFlags {
		flags = core.Pick(g.r, agent.SignatureFlags(0), agent.SignatureFlagReserved, agent.SignatureFlagRsaSha256, agent.SignatureFlagRsaSha512,
			agent.SignatureFlagRsaSha256|agent.SignatureFlagRsaSha512, agent.SignatureFlags(0x80000000), agent.SignatureFlags(0xffffffff))
	}
	sc := script{sig: x.realSig(kp, data, flags), err: g.maybeErr(false)}
	if sc.err != nil {
		sc.sig = nil
	}
	x.fake.arm(sc)
	s.tee.reset()
	var got *ssh.Signature
	var err error
	if do(func() {
		if withFlags {
			got, err = s.cli.SignWithFlags(key, data, flags)
		} else {
			got, err = s.cli.Sign(key, data)
		}
	}) {
		x.bad("client Sign hung", nil)
		return
	}
	in := map[string]interface{}{"op": "Sign", "key": kp.kind, "data_len": len(data), "flags": uint32(flags), "with_flags": withFlags, "scripted_error": errText(sc.err)}
	cs := x.fake.seen()
	// x/crypto's server hands every sign request to SignWithFlags when the agent is an ExtendedAgent
	cl, ok := oneCall(cs, "SignWithFlags")
	if !ok {
		cl, ok = oneCall(cs, "Sign")
	}
	if !ok {
		x.bad("Sign: the served agent saw calls ["+methods(cs)+"]", in)
		return
	}
	{
		scripted, client := "PFailure", ""
		if sc.err == nil {
			scripted = gSig(sc.sig)
		}
		if err == nil && got != nil {
			client = gSig(got)
		}
		x.std("std-sign", gSign(key.Marshal(), data, flags), gSign(cl.key, cl.data, cl.flags), scripted, client, in)
	}
	if !bytes.Equal(cl.key, key.Marshal()) || !bytes.Equal(cl.data, data) || cl.flags != flags {
		x.bad(fmt.Sprintf("Sign: the served agent received different arguments (key equal=%v, data equal=%v, flags %d vs %d)",
			bytes.Equal(cl.key, key.Marshal()), bytes.Equal(cl.data, data), cl.flags, flags), in)
		return
	}
	if sc.err != nil {
		if err == nil {
			x.bad("Sign: the served agent failed but the client reported success", in)
			return
		}
		x.c.NativeCheck(1)
		return
	}
	if err != nil || got == nil || got.Format != sc.sig.Format || !bytes.Equal(got.Blob, sc.sig.Blob) || !bytes.Equal(got.Rest, sc.sig.Rest) {
		x.bad(fmt.Sprintf("Sign: the signature seen by the client is not byte-identical to the served agent's (err=%v)", err), in)
		return
	}
	x.c.NativeCheck(1)
}

func (x *runner) opAdd() {
	s := x.session()
	if s == nil {
		return
	}
	g := x.g
	kp := g.m.keys[g.r.Intn(len(g.m.keys))]
	ak := agent.AddedKey{PrivateKey: kp.priv, Comment: g.comment()}
	if g.r.Intn(2) == 0 {
		ak.Certificate = kp.cert
	}
	if g.r.Intn(2) == 0 {
		ak.LifetimeSecs = core.Pick(g.r, uint32(1), 30, 3600, 1<<31, 1<<32-1)
	}
	ak.ConfirmBeforeUse = g.r.Intn(3) == 0
	sc := script{err: g.maybeErr(false)}
	x.fake.arm(sc)
	s.tee.reset()
	var err error
	if do(func() { err = s.cli.Add(ak) }) {
		x.bad("client Add hung", nil)
		return
	}
	in := map[string]interface{}{"op": "Add", "key": kp.kind, "cert": ak.Certificate != nil, "lifetime": ak.LifetimeSecs, "confirm": ak.ConfirmBeforeUse,
		"comment": ak.Comment, "constraint_extensions": len(ak.ConstraintExtensions), "scripted_error": errText(sc.err)}
	cl, ok := oneCall(x.fake.seen(), "Add")
	if !ok {
		x.bad("Add: the served agent saw calls ["+methods(x.fake.seen())+"]", in)
		return
	}
	got := cl.added
	if q, ok := gAdded(ak); ok {
		// an RSA key is the same key with its two primes in either order (x/crypto's server builds the
		// object of a certified RSA key with the primes swapped)
		gotN := got
		if a, ok1 := ak.PrivateKey.(*rsa.PrivateKey); ok1 {
			if b, ok2 := got.PrivateKey.(*rsa.PrivateKey); ok2 && len(a.Primes) == 2 && len(b.Primes) == 2 &&
				a.Primes[0].Cmp(b.Primes[1]) == 0 && a.Primes[1].Cmp(b.Primes[0]) == 0 && a.Primes[0].Cmp(a.Primes[1]) != 0 {
				c := *b
				c.Primes = []*big.Int{b.Primes[1], b.Primes[0]}
				gotN.PrivateKey = &c
			}
		}
		seen, _ := gAdded(gotN)
		if seen != q {
			_, f1, _ := keyFields(ak.PrivateKey, ak.Certificate)
			_, f2, _ := keyFields(gotN.PrivateKey, gotN.Certificate)
			var diff []int
			for i := range f1 {
				if i >= len(f2) || !bytes.Equal(f1[i], f2[i]) {
					diff = append(diff, i)
				}
			}
			in["request_fields_that_differ"] = fmt.Sprint(diff, len(f1), len(f2))
		}
		scripted, client := "PFailure", ""
		if sc.err == nil {
			scripted = "PSuccess"
		}
		if err == nil {
			client = "PSuccess"
		}
		x.std("std-add", q, seen, scripted, client, in)
	}
	extSame := len(got.ConstraintExtensions) == len(ak.ConstraintExtensions)
	for i := 0; extSame && i < len(ak.ConstraintExtensions); i++ {
		extSame = got.ConstraintExtensions[i].ExtensionName == ak.ConstraintExtensions[i].ExtensionName &&
			bytes.Equal(got.ConstraintExtensions[i].ExtensionDetails, ak.ConstraintExtensions[i].ExtensionDetails)
	}
	certSame := (got.Certificate == nil) == (ak.Certificate == nil) && (got.Certificate == nil || bytes.Equal(got.Certificate.Marshal(), ak.Certificate.Marshal()))
	if !samePriv(ak.PrivateKey, got.PrivateKey) || !certSame || got.Comment != ak.Comment || got.LifetimeSecs != ak.LifetimeSecs ||
		got.ConfirmBeforeUse != ak.ConfirmBeforeUse || !extSame {
		x.bad(fmt.Sprintf("Add: the served agent received a different key or constraints (private equal=%v cert equal=%v comment equal=%v lifetime %d vs %d confirm %v vs %v)",
			samePriv(ak.PrivateKey, got.PrivateKey), certSame, got.Comment == ak.Comment, got.LifetimeSecs, ak.LifetimeSecs, got.ConfirmBeforeUse, ak.ConfirmBeforeUse), in)
		return
	}
	if (sc.err != nil) != (err != nil) {
		x.bad(fmt.Sprintf("Add: the served agent returned %v but the client returned %v", sc.err, err), in)
		return
	}
	x.c.NativeCheck(1)
}

func (x *runner) opSimple(kind int) {
	s := x.session()
	if s == nil {
		return
	}
	g := x.g
	sc := script{err: g.maybeErr(false)}
	x.fake.arm(sc)
	var err error
	var name string
	var okArgs bool
	kp := g.m.keys[g.r.Intn(len(g.m.keys))]
	key := x.pubOf(kp)
	pass := g.bytesN(core.Pick(g.r, 0, 1, 8, 33, 200))
	if g.r.Intn(2) == 0 {
		pass = []byte(core.GenText(g.r))
	}
	s.tee.reset()
	hung := do(func() {
		switch kind {
		case 0:
			name = "Remove"
			err = s.cli.Remove(key)
		case 1:
			name = "RemoveAll"
			err = s.cli.RemoveAll()
		case 2:
			name = "Lock"
			err = s.cli.Lock(pass)
		default:
			name = "Unlock"
			err = s.cli.Unlock(pass)
		}
	})
	if hung {
		x.bad("client "+name+" hung", nil)
		return
	}
	in := map[string]interface{}{"op": name, "key": kp.kind, "passphrase_hex": short(pass), "scripted_error": errText(sc.err)}
	cl, ok := oneCall(x.fake.seen(), name)
	if !ok {
		x.bad(name+": the served agent saw calls ["+methods(x.fake.seen())+"]", in)
		return
	}
	{
		var q, seen string
		switch kind {
		case 0:
			q, seen = core.GApp("QRemove", gHex(key.Marshal())), core.GApp("QRemove", gHex(cl.key))
		case 1:
			q, seen = "QRemoveAll", "QRemoveAll"
		case 2:
			q, seen = core.GApp("QLock", gHex(pass)), core.GApp("QLock", gHex(cl.pass))
		default:
			q, seen = core.GApp("QUnlock", gHex(pass)), core.GApp("QUnlock", gHex(cl.pass))
		}
		scripted, client := "PFailure", ""
		if sc.err == nil {
			scripted = "PSuccess"
		}
		if err == nil {
			client = "PSuccess"
		}
		x.std("std-"+strings.ToLower(name), q, seen, scripted, client, in)
	}
	switch kind {
	case 0:
		okArgs = bytes.Equal(cl.key, key.Marshal())
	case 1:
		okArgs = true
	default:
		okArgs = bytes.Equal(cl.pass, pass)
	}
	if !okArgs {
		x.bad(name+": the served agent received different arguments", in)
		return
	}
	if (sc.err != nil) != (err != nil) {
		x.bad(fmt.Sprintf("%s: the served agent returned %v but the client returned %v", name, sc.err, err), in)
		return
	}
	x.c.NativeCheck(1)
}

func (x *runner) opSigners() {
	s := x.session()
	if s == nil {
		return
	}
	g := x.g
	sc := script{keys: x.scriptedKeys()}
	x.fake.arm(sc)
	var signers []ssh.Signer
	var err error
	if do(func() { signers, err = s.cli.Signers() }) {
		x.bad("client Signers hung", nil)
		return
	}
	in := map[string]interface{}{"op": "Signers", "keys": len(sc.keys)}
	ok := err == nil && len(signers) == len(sc.keys)
	for i := 0; ok && i < len(signers); i++ {
		ok = bytes.Equal(signers[i].PublicKey().Marshal(), sc.keys[i].Blob)
	}
	if _, one := oneCall(x.fake.seen(), "List"); !one || !ok {
		x.bad(fmt.Sprintf("Signers: the client's signers do not match the served agent's keys (err=%v, calls [%s])", err, methods(x.fake.seen())), in)
		return
	}
	x.c.NativeCheck(1)
	if len(signers) == 0 {
		return
	}
	// signing through a returned signer reaches the served agent's Sign with the same key and data
	i := g.r.Intn(len(signers))
	data := g.bytesN(g.size())
	sig := &ssh.Signature{Format: signers[i].PublicKey().Type(), Blob: g.bytesN(1 + g.r.Intn(100))}
	x.fake.arm(script{sig: sig})
	var got *ssh.Signature
	if do(func() { got, err = signers[i].Sign(g.m.rnd, data) }) {
		x.bad("signer.Sign hung", nil)
		return
	}
	cl, one := oneCall(x.fake.seen(), "SignWithFlags")
	if !one {
		cl, one = oneCall(x.fake.seen(), "Sign")
	}
	if !one || !bytes.Equal(cl.key, sc.keys[i].Blob) || !bytes.Equal(cl.data, data) || err != nil || got == nil || !bytes.Equal(got.Blob, sig.Blob) || got.Format != sig.Format {
		x.bad(fmt.Sprintf("Signers: signing through signer %d did not reach the served agent unchanged (err=%v, calls [%s])", i, err, methods(x.fake.seen())), in)
		return
	}
	x.c.NativeCheck(1)
}

type extMsg struct {
	ExtensionType string `sshtype:"27"`
	Contents      []byte `ssh:"rest"`
}

func (x *runner) opExtension() {
	s := x.session()
	if s == nil {
		return
	}
	g := x.g
	et := core.Pick(g.r, "query", "session-bind@openssh.com", "", "ünï@example.com", core.GenText(g.r))
	contents := g.bytesN(g.size())
	// the reply is raw: first byte 5 = failure, 28 = extension unsupported, anything else is handed to the caller
	resp := append([]byte{core.Pick[byte](g.r, 6, 6, 29, 0, 200, 5, 28)}, g.bytesN(g.r.Intn(40))...)
	sc := script{resp: resp}
	x.fake.arm(sc)
	var got []byte
	var err error
	if do(func() { got, err = s.cli.Extension(et, contents) }) {
		x.bad("client Extension hung", nil)
		return
	}
	in := map[string]interface{}{"op": "Extension", "type": et, "contents_len": len(contents), "reply_first_byte": resp[0]}
	cl, ok := oneCall(x.fake.seen(), "Forward")
	if !ok || !bytes.Equal(cl.req, ssh.Marshal(extMsg{et, contents})) {
		x.bad("Extension: the served agent did not receive the extension request unchanged through Forward (calls ["+methods(x.fake.seen())+"])", in)
		return
	}
	switch resp[0] {
	case 5, 28:
		if err == nil {
			x.bad("Extension: a failure reply reached the client as success", in)
			return
		}
	default:
		if err != nil || !bytes.Equal(got, resp) {
			x.bad(fmt.Sprintf("Extension: the reply seen by the client is not the served agent's (err=%v)", err), in)
			return
		}
	}
	x.c.NativeCheck(1)
}

func (x *runner) opForward() {
	s := x.session()
	if s == nil {
		return
	}
	g := x.g
	var code byte
	for {
		code = byte(g.r.Intn(256))
		switch code {
		case 1, 11, 13, 17, 18, 19, 22, 23, 25, 31, 32, 33, 34, 35:
			continue
		}
		break
	}
	req := append([]byte{code}, g.bytesN(g.size())...)
	resp := g.bytesN(g.size())
	if g.r.Intn(3) == 0 {
		// replies that look like the agent protocol's own status messages (failure 5, success 6, extension
		// failure 28, ...) or like the server's texts are still the raw reply of a raw request
		resp = core.Pick(g.r, []byte{5}, []byte{6}, []byte{5, 0}, []byte{30}, []byte{28}, []byte{0}, []byte("SUCCESS"), []byte("agent: failure"), []byte{5, 5}, []byte{12, 0, 0, 0, 0})
	}
	x.fake.arm(script{resp: resp})
	var got []byte
	var err error
	if do(func() { got, err = s.cli.Forward(req) }) {
		x.bad("client Forward hung", nil)
		return
	}
	in := map[string]interface{}{"op": "Forward", "code": code, "req_len": len(req), "resp_len": len(resp)}
	cl, ok := oneCall(x.fake.seen(), "Forward")
	if !ok || !bytes.Equal(cl.req, req) || err != nil || !bytes.Equal(got, resp) {
		x.bad(fmt.Sprintf("Forward: request or reply changed on the way (err=%v, calls [%s])", err, methods(x.fake.seen())), in)
		return
	}
	x.c.NativeCheck(1)
}

type addSCReq struct {
	ID          string `sshtype:"26"`
	PIN         []byte
	Constraints []byte `ssh:"rest"`
}
type rmSCReq struct {
	ID  string `sshtype:"21"`
	PIN []byte
}

func (x *runner) opSmartcard() {
	s := x.session()
	if s == nil {
		return
	}
	g := x.g
	id, pin := core.GenText(g.r), g.bytesN(g.r.Intn(12))
	life := time.Duration(core.Pick(g.r, 0, 1, 30, 3600)) * time.Second
	confirm := g.r.Intn(2) == 0
	okReply := g.r.Intn(3) > 0
	resp := []byte{5}
	if okReply {
		resp = []byte{6}
	}
	x.fake.arm(script{resp: resp})
	add := g.r.Intn(2) == 0
	var err error
	if do(func() {
		if add {
			err = s.cli.AddSmartcardKey(id, pin, life, confirm)
		} else {
			err = s.cli.RemoveSmartcardKey(id, pin)
		}
	}) {
		x.bad("client smartcard operation hung", nil)
		return
	}
	in := map[string]interface{}{"op": "smartcard", "add": add, "id": id, "lifetime_s": life.Seconds(), "confirm": confirm, "agent_success": okReply}
	cl, ok := oneCall(x.fake.seen(), "Forward")
	if !ok {
		x.bad("smartcard: the served agent saw calls ["+methods(x.fake.seen())+"]", in)
		return
	}
	argsOK := false
	if add {
		var m addSCReq
		if ssh.Unmarshal(cl.req, &m) == nil {
			var want []byte
			if life != 0 {
				want = append(want, 1, 0, 0, 0, 0)
				binary.BigEndian.PutUint32(want[1:], uint32(life.Seconds()))
			}
			if confirm {
				want = append(want, 2)
			}
			argsOK = m.ID == id && bytes.Equal(m.PIN, pin) && bytes.Equal(m.Constraints, want)
		}
	} else {
		var m rmSCReq
		argsOK = ssh.Unmarshal(cl.req, &m) == nil && m.ID == id && bytes.Equal(m.PIN, pin)
	}
	if !argsOK || (err == nil) != okReply {
		x.bad(fmt.Sprintf("smartcard: arguments or result changed on the way (args ok=%v, err=%v, agent success=%v)", argsOK, err, okReply), in)
		return
	}
	x.c.NativeCheck(1)
}

// --- the repository's own messages (Coq-compared) ---

const coqFieldLimit = 1600 // bytes: larger payloads are compared on the Go side only

func (x *runner) opAddHardCert(legacy bool) {
	s := x.session()
	if s == nil {
		return
	}
	g := x.g
	kp := g.m.keys[g.r.Intn(len(g.m.keys))]
	key := x.pubOf(kp)
	blob := key.Marshal()
	comment := g.comment()
	if g.r.Intn(12) == 0 {
		comment = string(g.bytesN(g.size()))
	}
	var scErr error
	if g.r.Intn(3) == 0 {
		scErr = errors.New(g.errText(false))
	}
	x.fake.arm(script{err: scErr})
	s.tee.reset()
	var cliErr error
	var rawResp []byte
	var rawErr error
	if do(func() {
		if legacy {
			rawResp, rawErr = s.cli.Forward(append([]byte{yubiagent.AgentMessageAddHardCert}, blob...))
		} else {
			cliErr = s.cli.AddHardCert(key, comment)
		}
	}) {
		x.bad("client AddHardCert hung", nil)
		return
	}
	reqs, resps := s.tee.frames()
	in := map[string]interface{}{"op": "AddHardCert", "legacy": legacy, "key": kp.kind, "is_cert": key == ssh.PublicKey(kp.cert), "comment": short([]byte(comment)), "scripted_error": errText(scErr)}
	if legacy {
		if rawErr != nil {
			x.bad("AddHardCert (legacy frame): the connection failed: "+rawErr.Error(), in)
			return
		}
		// what a client of the legacy format concludes from the bare reply text
		if string(rawResp) != "SUCCESS" {
			cliErr = errors.New(string(rawResp))
		}
	}
	if len(reqs) != 1 || len(resps) != 1 {
		x.bad(fmt.Sprintf("AddHardCert: %d request / %d response frames on the wire (client err=%v)", len(reqs), len(resps), cliErr), in)
		return
	}
	cs := x.fake.seen()
	seen := "None"
	if cl, ok := oneCall(cs, "AddHardCert"); ok {
		seen = "(Some " + core.GPair(gHex(cl.key), gHex([]byte(cl.comment))) + ")"
		in["agent_saw_comment"] = short([]byte(cl.comment))
		in["agent_saw_same_key"] = bytes.Equal(cl.key, blob)
	} else if len(cs) != 0 {
		x.bad("AddHardCert: the served agent saw calls ["+methods(cs)+"]", in)
		return
	}
	in["client_error"] = errText(cliErr)
	if len(blob)+len(comment) > coqFieldLimit {
		// Go-side comparison only
		cl, ok := oneCall(cs, "AddHardCert")
		wantComment := comment
		if legacy {
			wantComment = ""
		}
		if !ok || !bytes.Equal(cl.key, blob) || cl.comment != wantComment || errText(cliErr) != errText(scErr) {
			x.bad("AddHardCert (large comment): arguments or result changed on the way", in)
			return
		}
		x.c.NativeCheck(1)
		return
	}
	_, tailErr := ssh.ParsePublicKey(reqs[0][1:])
	cmArg := []byte(comment)
	if legacy {
		cmArg = nil
	}
	term := core.GApp("CAdd", core.GBool(legacy), gHex(blob), gHex(cmArg), core.GBool(tailErr == nil), gHex(reqs[0]), seen, gErr(scErr), gHex(resps[0]), gErr(cliErr))
	class := "add-hard-cert-new"
	if legacy {
		class = "add-hard-cert-legacy"
	}
	x.c.Case(class, term, in)
}

func (x *runner) opWait() {
	s := x.session()
	if s == nil {
		return
	}
	g := x.g
	code := byte(g.r.Intn(256))
	var scErr error
	if g.r.Intn(3) == 0 {
		scErr = errors.New(g.errText(false))
	}
	x.fake.arm(script{err: scErr})
	s.tee.reset()
	var cliErr error
	if do(func() { cliErr = s.cli.Wait(code) }) {
		x.bad("client Wait hung", nil)
		return
	}
	reqs, resps := s.tee.frames()
	in := map[string]interface{}{"op": "Wait", "code": code, "scripted_error": errText(scErr), "client_error": errText(cliErr)}
	if len(reqs) != 1 || len(resps) != 1 {
		x.bad(fmt.Sprintf("Wait: %d request / %d response frames on the wire (client err=%v)", len(reqs), len(resps), cliErr), in)
		return
	}
	seen := "None"
	cs := x.fake.seen()
	if cl, ok := oneCall(cs, "Wait"); ok {
		seen = "(Some " + core.GN(uint64(cl.code)) + ")"
	} else if len(cs) != 0 {
		x.bad("Wait: the served agent saw calls ["+methods(cs)+"]", in)
		return
	}
	x.c.Case("wait", core.GApp("CWait", core.GN(uint64(code)), gHex(reqs[0]), seen, gErr(scErr), gHex(resps[0]), gErr(cliErr)), in)
}

func (x *runner) opListSlots() {
	s := x.session()
	if s == nil {
		return
	}
	g := x.g
	slots := g.slots()
	var scErr error
	if g.r.Intn(3) == 0 {
		scErr = errors.New(g.errText(true))
		if g.r.Intn(2) == 0 {
			slots = nil
		}
	}
	x.fake.arm(script{slots: slots, err: scErr})
	s.tee.reset()
	var got []string
	var cliErr error
	if do(func() { got, cliErr = s.cli.ListSlots() }) {
		x.bad("client ListSlots hung", nil)
		return
	}
	reqs, resps := s.tee.frames()
	in := map[string]interface{}{"op": "ListSlots", "slots": fmt.Sprintf("%q", slots), "scripted_error": errText(scErr), "client_slots": fmt.Sprintf("%q", got), "client_error": errText(cliErr)}
	if _, ok := oneCall(x.fake.seen(), "ListSlots"); !ok || len(reqs) != 1 || len(resps) != 1 {
		x.bad(fmt.Sprintf("ListSlots: calls [%s], %d request / %d response frames (client err=%v)", methods(x.fake.seen()), len(reqs), len(resps), cliErr), in)
		return
	}
	x.c.Case("list-slots", core.GApp("CList", gHexList(slots), gErr(scErr), gHex(reqs[0]), gHex(resps[0]), gHexList(got), gErr(cliErr)), in)
}

func (x *runner) opSlot(attest bool) {
	s := x.session()
	if s == nil {
		return
	}
	g := x.g
	slot := g.slotName()
	var sc script
	if g.r.Intn(3) == 0 {
		sc.err = errors.New(g.errText(false))
	} else {
		sc.cert = g.m.x509s[g.r.Intn(len(g.m.x509s))]
	}
	x.fake.arm(sc)
	s.tee.reset()
	var got *x509.Certificate
	var cliErr error
	name := "ReadSlot"
	if attest {
		name = "AttestSlot"
	}
	if do(func() {
		if attest {
			got, cliErr = s.cli.AttestSlot(slot)
		} else {
			got, cliErr = s.cli.ReadSlot(slot)
		}
	}) {
		x.bad("client "+name+" hung", nil)
		return
	}
	reqs, resps := s.tee.frames()
	in := map[string]interface{}{"op": name, "slot": fmt.Sprintf("%q", slot), "scripted_error": errText(sc.err), "client_error": errText(cliErr)}
	cl, ok := oneCall(x.fake.seen(), name)
	if !ok || len(reqs) != 1 || len(resps) != 1 {
		x.bad(fmt.Sprintf("%s: calls [%s], %d request / %d response frames (client err=%v)", name, methods(x.fake.seen()), len(reqs), len(resps), cliErr), in)
		return
	}
	var pemBytes []byte
	if sc.cert != nil {
		pemBytes = pem.EncodeToMemory(&pem.Block{Type: "CERTIFICATE", Bytes: sc.cert.Raw})
		in["cert_der_len"] = len(sc.cert.Raw)
	}
	same := got != nil && sc.cert != nil && bytes.Equal(got.Raw, sc.cert.Raw)
	in["cert_identical"] = same
	if len(pemBytes) > coqFieldLimit {
		if cl.slot != slot || !same || cliErr != nil {
			x.bad(name+" (large certificate): slot name or certificate changed on the way", in)
			return
		}
		x.c.NativeCheck(1)
		return
	}
	class := "read-slot"
	if attest {
		class = "attest-slot"
	}
	x.c.Case(class, core.GApp("CSlot", core.GBool(attest), gHex([]byte(slot)), gHex(reqs[0]), "(Some "+gHex([]byte(cl.slot))+")",
		gHex(pemBytes), gErr(sc.err), gHex(resps[0]), core.GBool(same), gErr(cliErr)), in)
}

// --- the three limitations of the wire format, probed explicitly ---

func (x *runner) probeKnown() {
	c, g := x.c, x.g
	kp := g.m.keys[0]
	// K1: an error whose text is exactly SUCCESS
	{
		var e1, e2 error
		s := x.session()
		x.fake.arm(script{err: errors.New("SUCCESS")})
		h1 := do(func() { e1 = s.cli.AddHardCert(kp.cert, "probe") })
		x.fake.arm(script{err: errors.New("SUCCESS")})
		h2 := do(func() { e2 = s.cli.Wait(200) })
		if !h1 && !h2 && (e1 == nil || e2 == nil) {
			c.KnownFindingProbe("K1-success-text", `a served agent's failure whose error text is exactly "SUCCESS" reaches the client as success`,
				map[string]interface{}{"AddHardCert_error": "SUCCESS", "client_AddHardCert_returned": errText(e1), "Wait_error": "SUCCESS", "client_Wait_returned": errText(e2)})
		}
	}
	// K2: a slot-listing failure with an empty error text
	{
		var e error
		s := x.session()
		x.fake.arm(script{err: errors.New("")})
		if !do(func() { _, e = s.cli.ListSlots() }) && e == nil {
			c.KnownFindingProbe("K2-empty-error", "a slot-listing failure with an empty error text reaches the client as success",
				map[string]interface{}{"ListSlots_error": "", "client_returned": nil})
		}
	}
	// K6: constraint extensions of an added key (x/crypto's client does not write them)
	{
		var e error
		s := x.session()
		kp := x.g.m.keys[0]
		ak := agent.AddedKey{PrivateKey: kp.priv, Comment: "k6", LifetimeSecs: 60, ConfirmBeforeUse: true,
			ConstraintExtensions: []agent.ConstraintExtension{{ExtensionName: "x@verif", ExtensionDetails: []byte{1, 2, 3}}}}
		x.fake.arm(script{})
		if !do(func() { e = s.cli.Add(ak) }) && e == nil {
			if cl, ok := oneCall(x.fake.seen(), "Add"); ok {
				got := cl.added
				rest := samePriv(ak.PrivateKey, got.PrivateKey) && got.Certificate == nil && got.Comment == ak.Comment &&
					got.LifetimeSecs == ak.LifetimeSecs && got.ConfirmBeforeUse == ak.ConfirmBeforeUse
				in := map[string]interface{}{"op": "Add", "constraint_extensions_given": 1, "constraint_extensions_received": len(got.ConstraintExtensions)}
				if rest && len(got.ConstraintExtensions) == 0 {
					c.KnownFindingProbe("K6-add-constraint-extensions", "constraint extensions of an added key do not reach the served agent", in)
				} else if !rest || len(got.ConstraintExtensions) != 1 || got.ConstraintExtensions[0].ExtensionName != "x@verif" ||
					!bytes.Equal(got.ConstraintExtensions[0].ExtensionDetails, []byte{1, 2, 3}) {
					c.Native("Add with a constraint extension: the served agent received a different key or constraints", in)
				}
			} else {
				c.Native("Add with a constraint extension: the served agent saw calls ["+methods(x.fake.seen())+"]", nil)
			}
		} else {
			c.Native(fmt.Sprintf("Add with a constraint extension failed or hung (err=%v)", e), nil)
		}
	}
	// K3: a slot name containing ',' (and the single empty name)
	{
		var got1, got2 []string
		s := x.session()
		want1, want2 := []string{",a", "9c"}, []string{""}
		x.fake.arm(script{slots: want1})
		h1 := do(func() { got1, _ = s.cli.ListSlots() })
		x.fake.arm(script{slots: want2})
		h2 := do(func() { got2, _ = s.cli.ListSlots() })
		d1 := fmt.Sprintf("%q", got1) != fmt.Sprintf("%q", want1)
		d2 := fmt.Sprintf("%q", got2) != fmt.Sprintf("%q", want2)
		if !h1 && !h2 && (d1 || d2) {
			c.KnownFindingProbe("K3-comma-slot", "a slot name containing ',' is split by the ssh name-list encoding (and the one-element list [\"\"] arrives empty)",
				map[string]interface{}{"served_slots": fmt.Sprintf("%q", want1), "client_saw": fmt.Sprintf("%q", got1), "served_slots_2": fmt.Sprintf("%q", want2), "client_saw_2": fmt.Sprintf("%q", got2)})
		}
	}
}

// blockingAgent: a served agent whose Wait blocks until released.
type blockingAgent struct {
	*recAgent
	release chan struct{}
}

func (b *blockingAgent) Wait(code byte) error { <-b.release; return nil }

func runC13(c *core.Ctx) {
	log.SetOutput(io.Discard)
	zerolog.SetGlobalLevel(zerolog.Disabled)
	r := c.Rng
	m, err := makeMaterial(r, c.Seed)
	if err != nil {
		c.Native("harness could not build key material: "+err.Error(), nil)
		return
	}
	g := &gen{r: r, m: m}
	x := &runner{c: c, g: g, fake: &recAgent{}}

	// (beside everything else) long-lived clients: a slot request, then more than ten seconds without traffic, then
	// further operations - and a Wait that stays blocked across that time.  The served agent answers everything.
	idleStart := time.Now()
	idle, idleErr := newSession(&recAgent{})
	idleW, idleWErr := newSession(&recAgent{})
	idleWaitDone := make(chan error, 1)
	if idleErr == nil {
		_, _ = idle.cli.ListSlots()
		_, _ = idle.cli.ReadSlot("9a")
	}
	if idleWErr == nil {
		_, _ = idleW.cli.ListSlots()
		blocker := &blockingAgent{recAgent: &recAgent{}, release: make(chan struct{})}
		if bs, err := newSession(blocker); err == nil {
			_, _ = bs.cli.ListSlots()
			go func() { idleWaitDone <- bs.cli.Wait(11) }()
			defer func() {
				// after the idle time: release the served Wait; the client must get its (nil) result
				close(blocker.release)
				select {
				case err := <-idleWaitDone:
					if err != nil {
						c.Native("a Wait that was blocked for more than ten seconds returned an error although the served agent's Wait returned nil: "+err.Error(), "ListSlots; Wait(11) blocked 10.6 s on the served agent, then released")
					} else {
						c.NativeCheck(1)
					}
				case <-time.After(10 * time.Second):
					c.Native("a Wait released by the served agent after a long block never returned to the client", nil)
				}
				bs.close()
			}()
		}
	}
	defer func() {
		if idleErr != nil || idleWErr != nil {
			return
		}
		if d := 10600*time.Millisecond - time.Since(idleStart); d > 0 {
			time.Sleep(d)
		}
		if _, err := idle.cli.List(); err != nil {
			c.Native("List on a client that had been idle for 10.6 s after a slot request failed although the served agent answers: "+err.Error(), "ListSlots; ReadSlot; 10.6 s without traffic; List")
		} else {
			c.NativeCheck(1)
		}
		if _, err := idleW.cli.ListSlots(); err != nil {
			c.Native("ListSlots on a client that had been idle for 10.6 s after a slot request failed although the served agent answers: "+err.Error(), "ListSlots; 10.6 s without traffic; ListSlots")
		} else {
			c.NativeCheck(1)
		}
		idle.close()
		idleW.close()
	}()

	// the PIV-tool parser and the remote-mode refusals first (regression input of the repaired defect runs first)
	runTool(c, g)

	x.probeKnown()

	// every operation, in a random order, many per connection (operation sequences)
	type op struct {
		n int
		f func()
	}
	ops := []op{
		{c.N(20, 600), x.opList},
		{c.N(50, 1500), func() { x.opSign(false) }},
		{c.N(40, 1200), func() { x.opSign(true) }},
		{c.N(40, 1200), x.opAdd},
		{c.N(12, 300), func() { x.opSimple(0) }}, {c.N(6, 100), func() { x.opSimple(1) }},
		{c.N(12, 300), func() { x.opSimple(2) }}, {c.N(12, 300), func() { x.opSimple(3) }},
		{c.N(10, 300), x.opSigners},
		{c.N(20, 600), x.opExtension},
		{c.N(40, 1200), x.opForward},
		{c.N(12, 300), x.opSmartcard},
		{c.N(110, 4000), func() { x.opAddHardCert(false) }},
		{c.N(60, 2000), func() { x.opAddHardCert(true) }},
		{c.N(60, 2000), x.opWait},
		{c.N(110, 4000), x.opListSlots},
		{c.N(50, 1500), func() { x.opSlot(false) }},
		{c.N(50, 1500), func() { x.opSlot(true) }},
	}
	var seq []func()
	for _, o := range ops {
		for i := 0; i < o.n; i++ {
			seq = append(seq, o.f)
		}
	}
	r.Shuffle(len(seq), func(i, j int) { seq[i], seq[j] = seq[j], seq[i] })
	for _, f := range seq {
		f()
		if what, changed := x.fake.changedKept(); changed {
			x.bad("an argument the served agent received earlier on this connection changed after its call returned ("+what+
				" no longer encodes to the bytes it had): it aliases a buffer that a later request overwrote", nil)
		} else {
			c.NativeCheck(1)
		}
	}
	x.endSession()
	if pairDir != "" {
		os.RemoveAll(pairDir)
	}
}

// ---------- the concrete server: PIV tool on PATH, remote mode ----------

const toolScript = `#!/bin/sh
# fake yubico-piv-tool written by the verification harness
d="$(dirname "$0")"
printf '%s\n' "$*" >> "$d/invocations"
[ -f "$d/exitcode" ] && code="$(cat "$d/exitcode")" || code=0
case "$2" in
  status) cat "$d/out" ;;
  read-certificate|attest) printf '%s' "$4" > "$d/slot"; cat "$d/out" ;;
esac
exit "$code"
`

func statusOutputs(g *gen) [][]byte {
	r := g.r
	var outs [][]byte
	add := func(s string) { outs = append(outs, []byte(s)) }
	// regression input of the repaired defect first
	add("Slot 9\n")
	add("Slot 9")
	wellFormed := "Version:\t5.2.7\nSerial Number:\t12345678\nCHUID:\t3019d4e739da739ced39ce739d836858210842108421c84210c3eb3410\nCCC:\tNo data available\n" +
		"Slot 9a:\t\n\tAlgorithm:\tECCP256\n\tSubject DN:\tCN=alice\n\tIssuer DN:\tCN=alice\n\tFingerprint:\tabcdef\n\tNot Before:\tJan  1 00:00:00 2024 GMT\n\tNot After:\tJan  1 00:00:00 2034 GMT\n" +
		"Slot 9c:\t\n\tAlgorithm:\tRSA2048\nSlot 9d:\t\n\tAlgorithm:\tECCP384\nSlot 9e:\t\n\tAlgorithm:\tECCP256\nPIN tries left:\t3\n"
	add(wellFormed)
	add(strings.ReplaceAll(wellFormed, "\n", "\r\n"))
	add("")
	add("\n")
	add("\n\n\n")
	add("PIN tries left:\t3\n")
	// lines of length 4..8 beginning with Slot, with and without a final newline
	for _, l := range []string{"Slot", "Slot ", "Slot 9", "Slot 9a", "Slot 9a:", "Slots", "Slots:", "Slots: x", "SlotXYZW", "slot 9a:", " Slot 9a:", "Slo", "Slot\t9a:", "Slot 日本"} {
		add(l)
		add(l + "\n")
		add("Slot 9a:\n" + l)
		add(l + "\nSlot 9c:\n")
		add(l + "\r\n")
	}
	add("Slot ,a:\nSlot 9c:\n")
	add("Slot 9a:\x00\nSlot \xff\xfe:\n")
	for i := 0; i < g.c13n(60, 3000); i++ {
		var b strings.Builder
		n := r.Intn(8)
		for j := 0; j < n; j++ {
			switch r.Intn(7) {
			case 0:
				b.WriteString("Slot " + slotPool[r.Intn(len(slotPool))] + ":\t")
			case 1:
				b.WriteString("Slot " + slotPool[r.Intn(len(slotPool))])
			case 2:
				s := "Slot 9a:"
				b.WriteString(s[:r.Intn(len(s)+1)])
			case 3:
				b.Write(g.bytesN(r.Intn(12)))
			case 4:
				b.WriteString("\tAlgorithm:\tECCP256")
			case 5:
				b.WriteString("Slot" + string(g.bytesN(r.Intn(5))))
			default:
			}
			switch r.Intn(5) {
			case 0:
				b.WriteString("\r\n")
			case 1:
			default:
				b.WriteString("\n")
			}
		}
		add(b.String())
	}
	return outs
}

var tier string

func (g *gen) c13n(q, t int) int {
	if tier == "thorough" {
		return t
	}
	return q
}

func runTool(c *core.Ctx, g *gen) {
	tier = c.Tier
	dir, err := os.MkdirTemp("", "verif-c13-")
	if err != nil {
		c.Native("harness: temp dir: "+err.Error(), nil)
		return
	}
	defer os.RemoveAll(dir)
	tool := filepath.Join(dir, "yubico-piv-tool")
	if err := os.WriteFile(tool, []byte(toolScript), 0o755); err != nil {
		c.Native("harness: "+err.Error(), nil)
		return
	}
	oldPath := os.Getenv("PATH")
	os.Setenv("PATH", dir+string(os.PathListSeparator)+oldPath)
	defer os.Setenv("PATH", oldPath)

	sock := filepath.Join(dir, "agent.sock")
	ln, err := net.Listen("unix", sock)
	if err != nil {
		c.Native("harness: listen: "+err.Error(), nil)
		return
	}
	defer ln.Close()
	keyring := agent.NewKeyring()
	go func() {
		for {
			conn, err := ln.Accept()
			if err != nil {
				return
			}
			go func() { defer conn.Close(); _ = agent.ServeAgent(keyring, conn) }()
		}
	}()
	// several servers in one process, the remote-mode one first: each keeps its own mode and its own tool
	remote, err := yubiagent.NewServer(sock, true)
	if err != nil {
		c.Native("yubiagent.NewServer(sock, true) failed: "+err.Error(), nil)
		return
	}
	defer remote.Close()
	local, err := yubiagent.NewServer(sock, false)
	if err != nil {
		c.Native("yubiagent.NewServer(sock, false) failed with yubico-piv-tool on PATH: "+err.Error(), nil)
		return
	}
	defer local.Close()
	setTool := func(out []byte, code int) {
		os.WriteFile(filepath.Join(dir, "out"), out, 0o644)
		os.WriteFile(filepath.Join(dir, "exitcode"), []byte(fmt.Sprint(code)), 0o644)
		os.Remove(filepath.Join(dir, "invocations"))
		os.Remove(filepath.Join(dir, "slot"))
	}
	invocations := func() string {
		b, _ := os.ReadFile(filepath.Join(dir, "invocations"))
		return strings.TrimSpace(string(b))
	}

	// the local server also behind ServeAgent + the real client
	sess, err := newSession(local)
	if err != nil {
		c.Native("NewClientFromConn failed: "+err.Error(), nil)
		return
	}
	defer func() {
		if m := sess.close(); m != "" {
			c.Native("ServeAgent (concrete local server) panicked: "+strings.SplitN(m, "\n", 2)[0], nil)
		}
	}()

	// --- ListSlots over generated status outputs
	for i, out := range statusOutputs(g) {
		code := 0
		if i > 8 && g.r.Intn(9) == 0 {
			code = 1 + g.r.Intn(3)
		}
		setTool(out, code)
		var slots []string
		var lerr error
		in := map[string]interface{}{"tool_output": fmt.Sprintf("%q", out), "tool_exit": code}
		if p, msg := core.Guard(func() { slots, lerr = local.ListSlots() }); p {
			c.Native("ListSlots panicked on the PIV tool's output: "+strings.SplitN(msg, "\n", 2)[0], in)
			continue
		}
		if inv := invocations(); inv != "-a status" {
			c.Native("ListSlots ran the PIV tool as ["+inv+"], expected [-a status]", in)
			continue
		}
		toolOut := "None"
		if code == 0 {
			toolOut = "(Some " + gHex(out) + ")"
		}
		res := "None"
		if lerr == nil {
			res = "(Some " + gHexList(slots) + ")"
		}
		in["slots"] = fmt.Sprintf("%q", slots)
		in["error"] = errText(lerr)
		c.Case("piv-status", core.GApp("CStatus", toolOut, res), in)

		// the same through ServeAgent and the client (when the name-list encoding can carry the names)
		carry := !(len(slots) == 1 && slots[0] == "")
		for _, s := range slots {
			if strings.Contains(s, ",") {
				carry = false
			}
		}
		if carry && i%3 == 0 {
			var cs []string
			var cerr error
			if do(func() { cs, cerr = sess.cli.ListSlots() }) {
				c.Native("client ListSlots against the concrete server hung", in)
				return
			}
			if (cerr != nil) != (lerr != nil) || fmt.Sprintf("%q", cs) != fmt.Sprintf("%q", append([]string{}, slots...)) {
				c.Native(fmt.Sprintf("ListSlots through the client differs from the server's own result: %q / %v", cs, cerr), in)
			} else {
				c.NativeCheck(1)
			}
		}
	}

	// --- ReadSlot / AttestSlot over PEM outputs (the certificate parser is trusted: Go-side oracle)
	pemOf := func(crt *x509.Certificate) []byte {
		return pem.EncodeToMemory(&pem.Block{Type: "CERTIFICATE", Bytes: crt.Raw})
	}
	type pemCase struct {
		out  []byte
		code int
		want *x509.Certificate // nil = an error is expected
	}
	var pcs []pemCase
	for _, crt := range g.m.x509s {
		p := pemOf(crt)
		pcs = append(pcs, pemCase{p, 0, crt}, pemCase{append(cp(p), "\n\n"...), 0, crt}, pemCase{append(cp(p), pemOf(g.m.x509s[0])...), 0, crt},
			pemCase{p, 2, nil}, pemCase{p[:len(p)/2], 0, nil}, pemCase{append([]byte("garbage\n"), p...), 0, crt},
			pemCase{append(cp(p), "trailing garbage"...), 0, crt})
	}
	pcs = append(pcs, pemCase{nil, 0, nil}, pemCase{[]byte("\n"), 0, nil}, pemCase{[]byte("not a certificate"), 0, nil},
		pemCase{pem.EncodeToMemory(&pem.Block{Type: "CERTIFICATE", Bytes: []byte{0x30, 0x03, 0x02, 0x01, 0x01}}), 0, nil},
		pemCase{g.bytesN(200), 0, nil}, pemCase{nil, 1, nil})
	slotsToTry := []string{"9a", "9c", "f9", "x y", "-s", "日本"}
	for i, pc := range pcs {
		for _, attest := range []bool{false, true} {
			slot := slotsToTry[(i+map[bool]int{false: 0, true: 1}[attest])%len(slotsToTry)]
			setTool(pc.out, pc.code)
			var crt *x509.Certificate
			var rerr error
			in := map[string]interface{}{"attest": attest, "slot": slot, "tool_output": short(pc.out), "tool_exit": pc.code}
			throughClient := i%2 == 1
			p, msg := core.Guard(func() {
				switch {
				case throughClient && attest:
					do(func() { crt, rerr = sess.cli.AttestSlot(slot) })
				case throughClient:
					do(func() { crt, rerr = sess.cli.ReadSlot(slot) })
				case attest:
					crt, rerr = local.AttestSlot(slot)
				default:
					crt, rerr = local.ReadSlot(slot)
				}
			})
			if p {
				c.Native("ReadSlot/AttestSlot panicked: "+strings.SplitN(msg, "\n", 2)[0], in)
				continue
			}
			action := "read-certificate"
			if attest {
				action = "attest"
			}
			gotSlot, _ := os.ReadFile(filepath.Join(dir, "slot"))
			if inv := invocations(); inv != "-a "+action+" -s "+slot || string(gotSlot) != slot {
				c.Native("the PIV tool was run as ["+inv+"], expected [-a "+action+" -s "+slot+"]", in)
				continue
			}
			// "trailing garbage" after a certificate: ParsePEMCertificates reports an error for non-blank text that is not PEM
			if pc.want != nil && bytes.HasSuffix(pc.out, []byte("trailing garbage")) {
				if rerr == nil && (crt == nil || !bytes.Equal(crt.Raw, pc.want.Raw)) {
					c.Native("ReadSlot/AttestSlot returned a different certificate", in)
				} else {
					c.NativeCheck(1)
				}
				continue
			}
			if pc.want == nil {
				if rerr == nil {
					c.Native("ReadSlot/AttestSlot reported success on unusable tool output", in)
				} else {
					c.NativeCheck(1)
				}
				continue
			}
			if rerr != nil || crt == nil || !bytes.Equal(crt.Raw, pc.want.Raw) {
				c.Native(fmt.Sprintf("ReadSlot/AttestSlot did not return the tool's certificate unchanged (err=%v)", rerr), in)
			} else {
				c.NativeCheck(1)
			}
		}
	}

	// --- remote mode refuses the three slot operations without running anything
	rs, err := newSession(remote)
	if err != nil {
		c.Native("NewClientFromConn failed: "+err.Error(), nil)
		return
	}
	defer rs.close()
	setTool([]byte("Slot 9a:\n"), 0)
	for round := 0; round < 3; round++ {
		for op := 0; op < 3; op++ {
			slot := slotsToTry[(round+op)%len(slotsToTry)]
			var derr, cerr error
			name := []string{"ListSlots", "ReadSlot", "AttestSlot"}[op]
			in := map[string]interface{}{"op": name, "slot": slot, "server": "NewServer(sock, true)"}
			if p, msg := core.Guard(func() {
				switch op {
				case 0:
					_, derr = remote.ListSlots()
					do(func() { _, cerr = rs.cli.ListSlots() })
				case 1:
					_, derr = remote.ReadSlot(slot)
					do(func() { _, cerr = rs.cli.ReadSlot(slot) })
				default:
					_, derr = remote.AttestSlot(slot)
					do(func() { _, cerr = rs.cli.AttestSlot(slot) })
				}
			}); p {
				c.Native(name+" panicked on the remote-mode server: "+strings.SplitN(msg, "\n", 2)[0], in)
				continue
			}
			// refused = an error that is the server's own decision, not a failed attempt to run a tool
			var ee *exec.Error
			var xe *exec.ExitError
			var pe *os.PathError
			attempted := errors.As(derr, &ee) || errors.As(derr, &xe) || errors.As(derr, &pe) || invocations() != "" ||
				(derr != nil && (strings.HasPrefix(derr.Error(), "exec:") || strings.HasPrefix(derr.Error(), "fork/exec")))
			refused := derr != nil && cerr != nil && !attempted
			in["error"] = errText(derr)
			in["client_error"] = errText(cerr)
			c.Case("remote-mode", core.GApp("CRemote", core.GN(uint64(op)), core.GBool(refused)), in)
		}
	}
}
