package main

// Standard agent requests at the level of the wire format: terms of Model/AgentStd.v (sreq, sresp) for
// what the client was asked, what the served agent received and answered, and what the client's caller
// got, emitted beside the frames captured in both directions (C13Check.CStd).

import (
	"crypto/ecdsa"
	"crypto/ed25519"
	"crypto/elliptic"
	"crypto/rsa"
	"fmt"
	"math/big"

	"golang.org/x/crypto/ssh"
	"golang.org/x/crypto/ssh/agent"
	"verifharness/core"
)

// stdMax: frames above this many bytes are compared on the Go side only
const stdMax = 5000

// mpint contents: two's complement, minimal, as ssh.Marshal writes a non-negative *big.Int
func mpint(n *big.Int) []byte {
	b := n.Bytes()
	if len(b) > 0 && b[0]&0x80 != 0 {
		b = append([]byte{0}, b...)
	}
	return b
}

// keyFields: the type name and the length-prefixed fields of an add-identity request for this key
func keyFields(priv interface{}, cert *ssh.Certificate) (typ string, fields [][]byte, ok bool) {
	var certBytes []byte
	if cert != nil {
		typ, certBytes = cert.Type(), cert.Marshal()
	}
	switch k := priv.(type) {
	case *rsa.PrivateKey:
		if len(k.Primes) != 2 {
			return "", nil, false
		}
		qinv := new(big.Int).ModInverse(k.Primes[1], k.Primes[0])
		if qinv == nil {
			return "", nil, false
		}
		if cert != nil {
			return typ, [][]byte{certBytes, mpint(k.D), mpint(qinv), mpint(k.Primes[0]), mpint(k.Primes[1])}, true
		}
		return ssh.KeyAlgoRSA, [][]byte{mpint(k.N), mpint(big.NewInt(int64(k.E))), mpint(k.D), mpint(qinv), mpint(k.Primes[0]), mpint(k.Primes[1])}, true
	case *ecdsa.PrivateKey:
		if cert != nil {
			return typ, [][]byte{certBytes, mpint(k.D)}, true
		}
		id := fmt.Sprintf("nistp%d", k.Params().BitSize)
		return "ecdsa-sha2-" + id, [][]byte{[]byte(id), elliptic.Marshal(k.Curve, k.X, k.Y), mpint(k.D)}, true
	case *ed25519.PrivateKey:
		return edFields(*k, typ, certBytes, cert != nil)
	case ed25519.PrivateKey:
		return edFields(k, typ, certBytes, cert != nil)
	}
	return "", nil, false
}

func edFields(k ed25519.PrivateKey, typ string, certBytes []byte, hasCert bool) (string, [][]byte, bool) {
	if len(k) != ed25519.PrivateKeySize {
		return "", nil, false
	}
	if hasCert {
		return typ, [][]byte{certBytes, []byte(k[32:]), []byte(k)}, true
	}
	return ssh.KeyAlgoED25519, [][]byte{[]byte(k[32:]), []byte(k)}, true
}

func gAdded(ak agent.AddedKey) (string, bool) {
	typ, fields, ok := keyFields(ak.PrivateKey, ak.Certificate)
	if !ok {
		return "", false
	}
	var fs, es []string
	for _, f := range fields {
		fs = append(fs, gHex(f))
	}
	for _, e := range ak.ConstraintExtensions {
		es = append(es, core.GPair(gHex([]byte(e.ExtensionName)), gHex(e.ExtensionDetails)))
	}
	return core.GApp("QAdd", core.GApp("mkAdded", gHex([]byte(typ)), core.GList(fs), gHex([]byte(ak.Comment)),
		core.GN(uint64(ak.LifetimeSecs)), core.GBool(ak.ConfirmBeforeUse), core.GList(es))), true
}

func gSign(blob, data []byte, flags agent.SignatureFlags) string {
	return core.GApp("QSign", gHex(blob), gHex(data), core.GN(uint64(uint32(flags))))
}

func gSig(s *ssh.Signature) string {
	return core.GApp("PSig", gHex([]byte(s.Format)), gHex(s.Blob), gHex(s.Rest))
}

func gIdents(ks []*agent.Key) string {
	var l []string
	for _, k := range ks {
		l = append(l, core.GPair(gHex(k.Blob), gHex([]byte(k.Comment))))
	}
	return core.GApp("PIdents", core.GList(l))
}

// std emits one CStd case when exactly one small frame travelled in each direction.
// seen == "" : the served agent was not called.
func (x *runner) std(class, q, seen, scripted, client string, in map[string]interface{}) {
	reqs, resps := x.s.tee.frames()
	if len(reqs) != 1 || len(resps) != 1 {
		x.c.Native(fmt.Sprintf("%s: %d request / %d response frames on the wire for one operation", class, len(reqs), len(resps)), in)
		return
	}
	if len(reqs[0])+len(resps[0]) > stdMax {
		return
	}
	if seen == "" {
		seen = "None"
	} else {
		seen = "(Some " + seen + ")"
	}
	if client == "" {
		client = "None"
	} else {
		client = "(Some " + client + ")"
	}
	x.c.Case(class, core.GApp("CStd", q, gHex(reqs[0]), seen, scripted, gHex(resps[0]), client), in)
}
