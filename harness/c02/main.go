// Command c02 is the C02 correspondence harness: sessions of gensign.Run
// against a scripted agent, mock signer and scripted handlers (package gensim),
// evaluated in Coq by Model/C02Check.v.
package main

import (
	"verifharness/core"
	"verifharness/gensim"
)

func main() {
	core.Main("C02", &core.Driver{
		Imports:   gensim.Imports + "\nFrom Verif Require Import Model.C02Check.",
		CheckFn:   "C02Check.check",
		ClassFn:   "C02Check.classify",
		CaseType:  "C02Check.case",
		ShardSize: 60,
		Run:       func(c *core.Ctx) { gensim.NewGen(c, "C02").DriveC02() },
	})
}
