// C08 harness: histories interleaving lock / unlock (right, wrong and empty
// passphrases) with every other operation, from every mix of in-memory and
// underlying identities, with the underlying agent refusing lock or unlock
// requests (injected failure replies, malformed replies, closed connection,
// executed-then-failed requests).
package main

import (
	"fmt"
	"golang.org/x/crypto/ssh/agent"
	"time"
	"verifharness/core"
	"verifharness/shimsim"
)

func main() {
	core.Main("C08", &core.Driver{
		Imports:   "From Verif Require Import Lib.Base Lib.Json Model.KeyId Model.UAgent Model.Shim Model.ShimCheck Model.C08Check.",
		CheckFn:   "C08Check.check",
		ClassFn:   "C08Check.classify",
		CaseType:  "ShimCheck.case",
		ShardSize: 16,
		Run:       run,
	})
}

func run(c *core.Ctx) {
	pool, err := shimsim.NewPool()
	if err != nil {
		c.Native("harness: key pool: "+err.Error(), nil)
		return
	}
	w := map[shimsim.OpKind]int{
		shimsim.OpList: 12, shimsim.OpSigners: 6, shimsim.OpSign: 10, shimsim.OpAdd: 8, shimsim.OpAddHard: 12, shimsim.OpRemove: 6,
		shimsim.OpRemoveAll: 1, shimsim.OpLock: 10, shimsim.OpUnlock: 14, shimsim.OpForward: 2, shimsim.OpClose: 2, shimsim.OpDirectAdd: 4, shimsim.OpDirectRemove: 2}
	calm := &shimsim.Cfg{MinOps: 8, MaxOps: 40, Weights: w, Windows: []string{"current", "current", "forever", "past", "epoch-forever"}}
	refusing := &shimsim.Cfg{MinOps: 8, MaxOps: 40, Weights: w, FaultPct: 2, FaultOps: map[shimsim.OpKind]int{shimsim.OpLock: 35, shimsim.OpUnlock: 30},
		Windows: []string{"current", "current", "forever", "past"}}
	var plans []*shimsim.Plan
	for i, n := 0, c.N(70, 1400); i < n; i++ {
		plans = append(plans, shimsim.GenPlan(c.Rng, pool, calm, "lock-unlock"))
	}
	for i, n := 0, c.N(60, 1200); i < n; i++ {
		plans = append(plans, shimsim.GenPlan(c.Rng, pool, refusing, "lock-unlock-refused-by-agent"))
	}
	// raw requests relayed while the shim is locked (Forward is the one operation the lock does not stop): smartcard
	// add / remove, extension - refused or answered by the locked agent, they change nothing the shim holds
	op := func(k shimsim.OpKind, b uint64) *shimsim.Op { return &shimsim.Op{Kind: k, Blob: b} }
	for i, n := 0, c.N(18, 240); i < n; i++ {
		r := c.Rng
		k := uint64(1 + r.Intn(len(pool.Keys)))
		p := &shimsim.Plan{Class: "raw-request-while-locked", NoUp: i%2 == 1, Data: map[uint64][]byte{1: []byte("data-1")}}
		t1, k1 := shimsim.GenKeyID(r)
		t2, k2 := shimsim.GenKeyID(r)
		hw := shimsim.CertSpec{ID: pool.ReserveID(), KeyID: k, Window: core.Pick(r, "current", "forever"), KidText: t1, KidKind: k1}
		hw2 := shimsim.CertSpec{ID: pool.ReserveID(), KeyID: k, Window: "current", KidText: t2, KidKind: k2}
		p.Certs = []shimsim.CertSpec{hw, hw2}
		p.Initial = []uint64{k}
		body := make([]byte, 12+r.Intn(20))
		r.Read(body)
		body[0] = []byte{21, 20, 26, 27, 21, 0x90}[i%6]
		rep := []byte{core.Pick[byte](r, 5, 6, 28)}
		fw := &shimsim.Op{Kind: shimsim.OpForward, RawID: 1, RawBody: body, RawRep: rep}
		pw := []byte("pw")
		p.Ops = []*shimsim.Op{op(shimsim.OpAddHard, hw.ID), op(shimsim.OpAddHard, hw2.ID), op(shimsim.OpList, 0),
			{Kind: shimsim.OpLock, Pass: pw}, fw, op(shimsim.OpList, 0), {Kind: shimsim.OpUnlock, Pass: pw},
			op(shimsim.OpList, 0), op(shimsim.OpSigners, 0), {Kind: shimsim.OpSign, Blob: hw.ID, DataID: 1}}
		plans = append(plans, p)
	}
	for _, r := range shimsim.RunAll(pool, plans, 8) {
		r.Emit(c)
	}
	overlapping(c, pool)
}

// overlapping: operations of different kinds overlap on a locked shim.  While an Unlock with a wrong passphrase is
// waiting for the (slow) underlying agent, Close / List / Add arrive.  Each waits its turn; the shim is still locked
// when it is served, so each is refused, nothing is disclosed or changed, and the right passphrase still unlocks.
func overlapping(c *core.Ctx, pool *shimsim.Pool) {
	for trial := 0; trial < c.N(4, 24); trial++ {
		other := []string{"Close", "List", "Add", "Close"}[trial%4]
		in := map[string]interface{}{"history": "Lock(pw); Unlock(wrong) takes 400 ms at the underlying agent; meanwhile " + other + "; Unlock(pw); List", "no_upstream": trial%2 == 1}
		sim, err := shimsim.NewSim(pool, trial%2 == 1, []uint64{1, 2}, nil, nil)
		if err != nil || !sim.Built {
			c.Native("harness: cannot build a shim", in)
			if sim != nil {
				sim.Stop()
			}
			continue
		}
		func() {
			defer sim.Stop()
			if err := sim.Shim.Lock([]byte("pw")); err != nil {
				c.Native("Lock on a fresh shim failed: "+err.Error(), in)
				return
			}
			sim.Proxy.SetDelay(sim.Proxy.Count(), 400*time.Millisecond)
			unlockErr := make(chan error, 1)
			go func() { unlockErr <- sim.Shim.Unlock([]byte("wrong")) }()
			time.Sleep(120 * time.Millisecond)
			var oerr error
			var listed int
			switch other {
			case "Close":
				oerr = sim.Shim.Close()
			case "List":
				var ks []*agent.Key
				ks, oerr = sim.Shim.List()
				listed = len(ks)
			case "Add":
				oerr = sim.Shim.Add(agent.AddedKey{PrivateKey: pool.Keys[2].Priv, Comment: "x"})
			}
			uerr := <-unlockErr
			bad := ""
			switch {
			case uerr == nil:
				bad = "Unlock with a wrong passphrase succeeded"
			case other == "Close" && oerr == nil:
				bad = "Close on a locked shim returned nil (it overlapped an Unlock that was waiting for the underlying agent)"
			case other == "Add" && oerr == nil:
				bad = "Add on a locked shim returned nil"
			case other == "List" && listed != 0:
				bad = "List on a locked shim disclosed identities"
			}
			if bad == "" {
				if err := sim.Shim.Unlock([]byte("pw")); err != nil {
					bad = "after the overlap the right passphrase no longer unlocks: " + err.Error()
				} else if ks, err := sim.Shim.List(); err != nil || len(ks) != 2 {
					bad = fmt.Sprintf("after unlocking, the view before the lock is not restored: %d identities, err=%v", len(ks), err)
				}
			}
			if bad != "" {
				c.Native(bad, in)
			} else {
				c.NativeCheck(1)
			}
		}()
	}
}
