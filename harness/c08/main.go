// C08 harness: histories interleaving lock / unlock (right, wrong and empty
// passphrases) with every other operation, from every mix of in-memory and
// underlying identities, with the underlying agent refusing lock or unlock
// requests (injected failure replies, malformed replies, closed connection,
// executed-then-failed requests).
package main

import (
	"verifharness/core"
	"verifharness/shimsim"
)

func main() {
	core.Main("C08", &core.Driver{
		Imports:   "From Verif Require Import Lib.Base Lib.Json Model.KeyId Model.UAgent Model.Shim Model.ShimCheck Model.C08Check.",
		CheckFn:   "C08Check.check",
		ClassFn:   "C08Check.classify",
		CaseType:  "ShimCheck.case",
		ShardSize: 16,
		Run:       run,
	})
}

func run(c *core.Ctx) {
	pool, err := shimsim.NewPool()
	if err != nil {
		c.Native("harness: key pool: "+err.Error(), nil)
		return
	}
	w := map[shimsim.OpKind]int{
		shimsim.OpList: 12, shimsim.OpSigners: 6, shimsim.OpSign: 10, shimsim.OpAdd: 8, shimsim.OpAddHard: 12, shimsim.OpRemove: 6,
		shimsim.OpRemoveAll: 1, shimsim.OpLock: 10, shimsim.OpUnlock: 14, shimsim.OpForward: 2, shimsim.OpClose: 2, shimsim.OpDirectAdd: 4, shimsim.OpDirectRemove: 2}
	calm := &shimsim.Cfg{MinOps: 8, MaxOps: 40, Weights: w, Windows: []string{"current", "current", "forever", "past", "epoch-forever"}}
	refusing := &shimsim.Cfg{MinOps: 8, MaxOps: 40, Weights: w, FaultPct: 2, FaultOps: map[shimsim.OpKind]int{shimsim.OpLock: 35, shimsim.OpUnlock: 30},
		Windows: []string{"current", "current", "forever", "past"}}
	var plans []*shimsim.Plan
	for i, n := 0, c.N(70, 1400); i < n; i++ {
		plans = append(plans, shimsim.GenPlan(c.Rng, pool, calm, "lock-unlock"))
	}
	for i, n := 0, c.N(60, 1200); i < n; i++ {
		plans = append(plans, shimsim.GenPlan(c.Rng, pool, refusing, "lock-unlock-refused-by-agent"))
	}
	for _, r := range shimsim.RunAll(pool, plans, 8) {
		r.Emit(c)
	}
}
