package gensim

import (
	"crypto/x509"
	"fmt"
	mrand "math/rand"
	"net"
	"strconv"
	"strings"

	"github.com/theparanoids/ysshra/csr"
	"github.com/theparanoids/ysshra/gensign"

	"verifharness/core"
)

// Driver state shared by the four property harnesses.
type Gen struct {
	C    *core.Ctx
	R    *mrand.Rand
	Pool *Pool
	// Focus is the property id ("C01".."C04"); it selects which Go-side
	// oracles report violations (each property reports only its own).
	Focus string
	// crashed: case indices during which a probe child died (core.Ctx.ProbeCrashes)
	crashed map[int]string
}

// SpecHuman renders a session specification (what was asked for, not what was observed).
func SpecHuman(spec SessionSpec) interface{} {
	var runs []string
	for n, rs := range spec.Runs {
		var hs []string
		for _, h := range rs.Handlers {
			if h.Regular {
				hs = append(hs, "regular")
			} else {
				hs = append(hs, fmt.Sprintf("scripted(namePanics=%v auth=%d gen=%d keys=%+v)", h.NamePanics, h.Auth, h.Gen, h.Keys))
			}
		}
		var sg []string
		for _, o := range rs.Signer {
			if o.CancelCtx {
				sg = append(sg, fmt.Sprintf("%d+context-cancelled-during-this-call", o.Kind))
				continue
			}
			sg = append(sg, fmt.Sprintf("%d", o.Kind))
		}
		if rs.CtxDone {
			sg = append(sg, "context-already-done-at-start")
		}
		runs = append(runs, fmt.Sprintf("run %d: handlers %v; signer outcome kinds %v (0 ok, %d error, %d panic); agent faults %v; agent behaviour %d",
			n, hs, sg, SigErr, SigPanic, rs.Faults, rs.Beh.Kind))
	}
	return runs
}

func NewGen(c *core.Ctx, focus string) *Gen {
	return &Gen{C: c, R: c.Rng, Pool: NewPool(), Focus: focus}
}

var LogNames = []string{"alice", "bob", "carol", "dave", "alice.pub", "ünï", "日本", "a b", "x-1_2"}

func u64(v uint64) *uint64 { return &v }

// StdKeyIDs is an unambiguous key-identifier map in assorted spellings.
func (g *Gen) KeyIDs() [][2]string {
	spell := map[int][]string{
		0:  {"default", "unknown", "0", "DEFAULT", "Unknown", "00", "unKnown"},
		1:  {"rsa", "RSA", "Rsa", "1", "01", "rSa"},
		2:  {"dsa", "DSA", "2"},
		3:  {"ecdsa", "ECDSA", "EcDsA", "3", "003"},
		4:  {"ed25519", "ED25519", "Ed25519", "4"},
		5:  {"5"},
		7:  {"7", "07"},
		-1: {"18446744073709551615"},
	}
	var out [][2]string
	for _, a := range []int{0, 1, 2, 3, 4, 5, 7, -1} {
		if g.R.Intn(3) == 0 {
			continue
		}
		s := spell[a][g.R.Intn(len(spell[a]))]
		out = append(out, [2]string{s, fmt.Sprintf("slot-%d-%s", a, core.Pick(g.R, "a", "b", "é", `q"`, "$2024", "${HOME}", "$USER x", "$$", "%s\\n"))})
	}
	g.R.Shuffle(len(out), func(i, j int) { out[i], out[j] = out[j], out[i] })
	return out
}

// FullKeyIDs: slot names as operators write them - with '$', braces, blanks
func FullKeyIDs() [][2]string {
	return [][2]string{{"default", "id-default"}, {"rsa", "ssh-user-key$2024-rsa"}, {"ECDSA", "id-ecdsa${HOME}"}, {"4", "$USER-ed25519 key"}, {"dsa", "id-dsa$"}}
}

func (g *Gen) Regular(validity *uint64, keyids [][2]string) HandlerSpec {
	// the key_label option is mostly left out (as in the shipped configuration), sometimes configured
	return HandlerSpec{Regular: true, Validity: validity, KeyIDs: keyids, KeyLabel: core.Pick(g.R, "", "", "", "regular", "bastion", "ops team")}
}

func Accepting(keys ...FakeKeySpec) HandlerSpec {
	return HandlerSpec{Auth: HOk, Gen: HOk, Keys: keys}
}
func Rejecting() HandlerSpec {
	return HandlerSpec{Auth: HErr, AuthKind: gensign.HandlerAuthN, Gen: HOk}
}

// DirFor builds a registered-key directory for logname in one of the states
// the property lists; user is the key the requester really owns.
// state: 0 no file, 1 "<name>.pub", 2 bare "<name>", 3 both (".pub" is another
// user's key, bare is the user's), 4 unparsable ".pub" (bare valid), 5 ".pub"
// is a directory (bare valid), 6 bare file holds another user's key,
// 7 unparsable bare, 8 both (".pub" is the user's, bare another's).
func (g *Gen) DirFor(logname string, state int, user, other *PoolKey) []DirEntry {
	var d []DirEntry
	switch state {
	case 1:
		d = append(d, DirEntry{Name: logname + ".pub", Kind: FileKey, Key: user})
	case 2:
		d = append(d, DirEntry{Name: logname, Kind: FileKey, Key: user})
	case 3:
		d = append(d, DirEntry{Name: logname + ".pub", Kind: FileKey, Key: other}, DirEntry{Name: logname, Kind: FileKey, Key: user})
	case 4:
		d = append(d, DirEntry{Name: logname + ".pub", Kind: FileUnparsable, Text: core.Pick(g.R, "", "not a key\n", "ssh-ed25519 AAAA!!!\n", "\x00\x01\x02")},
			DirEntry{Name: logname, Kind: FileKey, Key: user})
	case 5:
		d = append(d, DirEntry{Name: logname + ".pub", Kind: FileUnreadable}, DirEntry{Name: logname, Kind: FileKey, Key: user})
	case 6:
		d = append(d, DirEntry{Name: logname, Kind: FileKey, Key: other})
	case 7:
		d = append(d, DirEntry{Name: logname, Kind: FileUnparsable, Text: "garbage"})
	case 8:
		d = append(d, DirEntry{Name: logname + ".pub", Kind: FileKey, Key: user}, DirEntry{Name: logname, Kind: FileKey, Key: other})
	}
	return d
}

const NDirStates = 9

// addBystanders adds unrelated users' files.
func (g *Gen) addBystanders(d []DirEntry, logname string) []DirEntry {
	have := map[string]bool{}
	for _, e := range d {
		have[e.Name] = true
	}
	for i, n := range LogNames {
		if n == logname || g.R.Intn(3) != 0 {
			continue
		}
		name := n
		if g.R.Intn(2) == 0 {
			name += ".pub"
		}
		// "alice.pub" as a bare name of user "alice.pub" collides with alice's ".pub" file: keep only one
		if have[name] || name == logname+".pub" || name == logname {
			continue
		}
		have[name] = true
		d = append(d, DirEntry{Name: name, Kind: FileKey, Key: g.Pool.Users[i%len(g.Pool.Users)]})
	}
	return d
}

func (g *Gen) Text() string { return core.GenText(g.R) }

// ParamsFor builds request parameters with stress text in the client-declared fields.
func (g *Gen) ParamsFor(logname string, ns string, hard bool, algo int) *csr.ReqParam {
	ip := core.Pick(g.R, "10.0.0.7", "::1", "2001:db8::1", "192.168.1.254", "fe80::1%eth0", g.Text())
	user, host, trans := g.Text(), g.Text(), g.Text()
	// client-declared values of unusual length
	switch g.R.Intn(12) {
	case 0:
		user = core.GenLongText(g.R)
	case 1:
		host = core.GenLongText(g.R)
	case 2:
		user, host, trans = core.GenLongText(g.R), core.GenLongText(g.R), core.GenLongText(g.R)
	}
	p := Params(ns, logname, user, host, ip, trans, hard, algo, false)
	// other client claims that have no bearing on the request: the signature algorithm the client would like, the
	// declared interface version, extension attributes
	if p.Attrs != nil && g.R.Intn(2) == 0 {
		p.Attrs.SignatureAlgo = x509.SignatureAlgorithm(core.Pick(g.R, 3, 4, 5, 6, 10, 11, 13, 14, 16, 99))
		p.SignatureAlgo = p.Attrs.SignatureAlgo // NewReqParam copies it
		p.Attrs.IfVer = core.Pick(g.R, 0, 6, 7, 8)
		if g.R.Intn(3) == 0 {
			p.Attrs.Exts = map[string]interface{}{"caPubKeyAlgo": 3, "req": "root@bastion", "HardKey": true}
		}
	}
	return p
}

// Store0 builds pre-existing identities: plain keys, foreign certificates and
// comments that are near misses of the handler label.
var NearMiss = []string{"Paranoids.Regular-cert", "paranoids.regula", "PARANOIDS.REGULAR", "paranoids_regular-cert",
	"my-regular-key", "regular", "paranoids.regular", "xparanoids.regular-certy", "paranoids.regular-cert", "private-key", "", "user@laptop", "paranoids.regul ar"}

func (g *Gen) Store0(n int) []IdentSpec {
	var out []IdentSpec
	for i := 0; i < n; i++ {
		k := g.Pool.Foreign[g.R.Intn(len(g.Pool.Foreign))]
		if g.R.Intn(3) == 0 {
			k = g.Pool.Users[g.R.Intn(len(g.Pool.Users))]
		}
		out = append(out, IdentSpec{Key: k, Cert: g.R.Intn(2) == 0, Comment: NearMiss[g.R.Intn(len(NearMiss))], Life: core.Pick[uint32](g.R, 0, 0, 60, 3600)})
	}
	return out
}

func OneCert() []SOutSpec {
	return []SOutSpec{{Kind: SigOk, Certs: []int{CertGood}, Comments: []string{""}}}
}

func (g *Gen) SignerOutcome() SOutSpec {
	switch g.R.Intn(12) {
	case 0:
		return SOutSpec{Kind: SigErr}
	case 1:
		return SOutSpec{Kind: SigPanic}
	}
	n := core.Pick(g.R, 1, 1, 1, 0, 2, 3, 4)
	var certs []int
	var comments []string
	for i := 0; i < n; i++ {
		certs = append(certs, core.Pick(g.R, CertGood, CertGood, CertGood, CertGood, CertGood, CertPlain, CertDup, CertOther, CertNil))
	}
	for i := 0; i < core.Pick(g.R, n, n, 0, n+1); i++ {
		comments = append(comments, core.Pick(g.R, "", "c", "touch", "a b"))
	}
	return SOutSpec{Kind: SigOk, Certs: certs, Comments: comments}
}

// MostlyGoodOutcome: certificates only (1..3), occasionally a plain key or a duplicate.
func (g *Gen) MostlyGoodOutcome() SOutSpec {
	n := core.Pick(g.R, 1, 1, 2, 3, 4, 0)
	var certs []int
	var comments []string
	for i := 0; i < n; i++ {
		certs = append(certs, core.Pick(g.R, CertGood, CertGood, CertGood, CertGood, CertPlain, CertDup, CertFuture, CertNoExpiry, CertExpired, CertForever))
		comments = append(comments, core.Pick(g.R, "", "c", "label"))
	}
	return SOutSpec{Kind: SigOk, Certs: certs, Comments: comments}
}

func (g *Gen) AnyBeh(user *PoolKey) Beh {
	k := g.R.Intn(9)
	return g.BehOf(k, user)
}

func (g *Gen) BehOf(kind int, user *PoolKey) Beh {
	switch kind {
	case BHonest:
		return Beh{Kind: BHonest, Key: user}
	case BSignsWith:
		return Beh{Kind: BSignsWith, Key: g.Pool.Foreign[g.R.Intn(2)]}
	case BSignsOther:
		d := make([]byte, 64)
		g.R.Read(d)
		return Beh{Kind: BSignsOther, Data: d}
	case BReplay:
		return Beh{Kind: BReplay, Index: g.R.Intn(3)}
	}
	return Beh{Kind: kind}
}

// Emit runs a session, applies the Go-side oracles of the focus property and
// records the case.
func (g *Gen) Emit(class string, spec SessionSpec) *Session {
	c := g.C
	if c.Probing() {
		// probe child: run the same case stream, report which case is running, record nothing
		idx := c.NextIndex()
		if c.ProbeSkip(idx) || (c.Only >= 0 && idx != c.Only) {
			c.Advance()
			return nil
		}
		c.ProbeMark("BEGIN", idx)
		s := Execute(g.Pool, spec, g.R)
		c.ProbeMark("END", idx)
		c.Advance()
		return s
	}
	if g.crashed == nil {
		g.crashed = c.ProbeCrashes()
		if msg, ok := g.crashed[-1]; ok {
			c.Native("the harness does not survive a dry run of its own case stream: "+msg, nil)
		}
	}
	if msg, ok := g.crashed[c.NextIndex()]; ok && (c.Only < 0 || c.Only == c.NextIndex()) {
		c.Native("gensign.Run crashed the whole process (a panic outside Run's recover): "+msg, map[string]interface{}{"class": class, "session": SpecHuman(spec)})
		c.Case(class, "(CNewHandler (mkRaw None []) false)", map[string]string{"error": "process crash, see the native oracle report"})
		return nil
	}
	if c.Skip() {
		return nil
	}
	s := Execute(g.Pool, spec, g.R)
	if s.BuildErr != nil {
		c.Native("the session could not be built against the implementation: "+s.BuildErr.Error(), s.Human())
		c.Case(class, "(CNewHandler (mkRaw None []) false)", map[string]string{"error": s.BuildErr.Error()})
		return s
	}
	for n, res := range s.Results {
		if res.Crashed {
			c.Native(fmt.Sprintf("gensign.Run crashed (a panic escaped Run) in run %d: %.400s", n, res.CrashMsg), s.Human())
		} else {
			c.NativeCheck(1)
		}
		if g.Focus == "C01" {
			for _, l := range res.ChalLens {
				if l != 64 {
					c.Native(fmt.Sprintf("challenge of %d bytes (want 64) in run %d", l, n), s.Human())
				} else {
					c.NativeCheck(1)
				}
			}
		}
		c.Stat("runs")
		c.Stat("result:" + res.KindName)
	}
	if g.Focus == "C03" {
		// at most one generation, whatever the certificates are called: after a successful run through the regular
		// handler no certificate the CA issued in an EARLIER run of the session is left in the agent
		earlier := map[string]int{}
		for n, res := range s.Results {
			allRegular := len(spec.Runs[n].Handlers) > 0
			for _, h := range spec.Runs[n].Handlers {
				allRegular = allRegular && h.Regular
			}
			if res.KindName == "success" && allRegular {
				left := 0
				for _, b := range res.StoreBlobs {
					if m, ok := earlier[string(b)]; ok {
						left++
						c.Native(fmt.Sprintf("after the successful run %d the agent still holds a certificate the CA issued in run %d (more than one generation)", n, m), s.Human())
						break
					}
				}
				if left == 0 {
					c.NativeCheck(1)
				}
			}
			for _, b := range res.Issued {
				earlier[string(b)] = n
			}
		}
		// after the session: every labelled certificate the agent holds can sign
		n, err := s.Agent.CheckUsable(func(i *Identity) bool {
			return i.Comment == "paranoids.regular-cert" && i.Priv != nil && !g.poolOwns(i)
		})
		if err != nil {
			c.Native("a provisioned certificate cannot sign: "+err.Error(), s.Human())
		} else {
			c.NativeCheck(n)
		}
	}
	c.Case(class, s.Gallina(), s.Human())
	return s
}

func (g *Gen) poolOwns(i *Identity) bool { return g.Pool.byBlob(i.PrivPub.Marshal()) != nil }

// EmitNewHandler records a handler-construction case.
func (g *Gen) EmitNewHandler(class string, validity *uint64, keyids [][2]string) {
	c := g.C
	if c.Skip() {
		return
	}
	c1, c2 := net.Pipe()
	defer c1.Close()
	defer c2.Close()
	var err error
	if p, msg := core.Guard(func() { _, err = NewRegular("/nonexistent", validity, keyids, c1) }); p {
		c.Native("regular.NewHandler panicked: "+msg, keyids)
		return
	}
	v, l := GRawConf(validity, keyids)
	c.Case(class, core.GApp("CNewHandler", core.GApp("mkRaw", v, l), core.GBool(err == nil)),
		map[string]interface{}{"key_identifiers": keyids, "new_handler_error": fmt.Sprint(err)})
}

// AlgoKeySamples: spellings of configuration keys, valid and invalid.
var AlgoKeySamples = []string{"rsa", "RSA", "rSa", "dsa", "ecdsa", "ECDSA", "ed25519", "Ed25519", "default", "unknown", "UNKNOWN", "unKnown", "Default",
	"0", "1", "2", "3", "4", "5", "01", "007", "18446744073709551615", "18446744073709551616", "9223372036854775808", "99999999999999999999999",
	"", " rsa", "rsa ", "r sa", "-1", "+1", "1.0", "1e1", "0x1", "1_0", "x", "rsa1", "٣", "ⅠⅡ", "ed-25519", "İ", "default\n"}

func (g *Gen) NewHandlerCases(n int) {
	for _, k := range AlgoKeySamples {
		g.EmitNewHandler("newhandler/single", nil, [][2]string{{k, "id"}})
	}
	for i := 0; i < n; i++ {
		var kv [][2]string
		seen := map[string]bool{}
		for j := 0; j < 1+g.R.Intn(4); j++ {
			k := AlgoKeySamples[g.R.Intn(len(AlgoKeySamples))]
			if g.R.Intn(6) == 0 {
				k = g.Text()
			}
			if seen[k] {
				continue
			}
			seen[k] = true
			kv = append(kv, [2]string{k, g.Text()})
		}
		var v *uint64
		if g.R.Intn(2) == 0 {
			v = u64(uint64(g.R.Intn(100000)))
		}
		g.EmitNewHandler("newhandler/random", v, kv)
	}
}

// honestRun is the plain successful request of user `user` logged in as logname.
func (g *Gen) honestRun(logname string, user *PoolKey, h []HandlerSpec, signer []SOutSpec) RunSpec {
	return RunSpec{Params: g.ParamsFor(logname, "NONS", false, core.Pick(g.R, 0, 1, 3, 4)), Handlers: h, Beh: Beh{Kind: BHonest, Key: user}, Signer: signer}
}

var Validities = []uint64{1, 60, 3600, 43200, 86400, 315360000, 4294963695 /* 2^32-3601 */}
var WrapValidities = []uint64{4294963696 /* 2^32-3600: lifetime 0 */, 4294967295, 4294967296, 4294967297 + 7200, 0}

// NearNames: spellings that are close to a registered login name and are different accounts all the same.
func NearNames(base string) []string {
	up := strings.ToUpper(base)
	title := strings.ToUpper(base[:1]) + base[1:]
	return []string{title, up, base + "@partner.example.net", base + "@" + base, base + " ", " " + base, base + ".", base + "-", base + "_", base + "\t",
		base + "u\u0308", // a decomposed spelling next to a composed one
		base[:len(base)-1]}
}

// NearNameSessions: a key is registered for `base`; the request comes in under a spelling close to it.  Nothing is
// registered for that spelling (the holder of base's key must be refused), or another key is (only its holder passes).
func (g *Gen) NearNameSessions(class string, n int) {
	users := g.Pool.Users
	for i := 0; i < n; i++ {
		base := LogNames[i%4]
		if i%7 == 6 {
			base = "ünï"
		}
		var near string
		if base == "ünï" {
			near = core.Pick(g.R, "u\u0308nï", "ÜNÏ", "ünï@partner.example.net", "üni")
		} else {
			nn := NearNames(base)
			near = nn[(i/4)%len(nn)]
		}
		user, other := users[i%len(users)], users[(i+1)%len(users)]
		var dir []DirEntry
		if i%2 == 0 {
			dir = append(dir, DirEntry{Name: base + ".pub", Kind: FileKey, Key: user})
		} else {
			dir = append(dir, DirEntry{Name: base, Kind: FileKey, Key: user})
		}
		holder := user
		if i%3 == 2 {
			// the near spelling is an account of its own, with another key
			dir = append(dir, DirEntry{Name: near + ".pub", Kind: FileKey, Key: other})
			if i%2 == 0 {
				holder = other
			}
		}
		h := []HandlerSpec{g.Regular(nil, FullKeyIDs())}
		runs := []RunSpec{g.honestRun(near, holder, h, OneCert())}
		if i%5 == 0 {
			// and the registered spelling afterwards, through the same handlers
			runs = append(runs, g.honestRun(base, user, h, OneCert()))
		}
		g.Emit(class, SessionSpec{Dir: dir, Store0: g.Store0(g.R.Intn(2)), Runs: runs, Reuse: i%2 == 0})
	}
}

// ---------------------------------------------------------------- C01 ----

func (g *Gen) DriveC01() {
	c := g.C
	users := g.Pool.Users
	patterns := [][]HandlerSpec{
		{g.Regular(nil, FullKeyIDs())},
		{Rejecting(), g.Regular(nil, FullKeyIDs())},
		{g.Regular(nil, FullKeyIDs()), Accepting(FakeKeySpec{NCSRs: 1})},
		{Accepting(FakeKeySpec{NCSRs: 1}), g.Regular(nil, FullKeyIDs())},
	}
	// grid: strategy x directory state x namespace x hard key x handler pattern
	type combo struct{ beh, dir, ns, hard, pat int }
	var grid []combo
	for b := 0; b < 9; b++ {
		for d := 0; d < NDirStates; d++ {
			for ns := 0; ns < 2; ns++ {
				for hard := 0; hard < 2; hard++ {
					for p := range patterns {
						grid = append(grid, combo{b, d, ns, hard, p})
					}
				}
			}
		}
	}
	if !c.Thorough() {
		g.R.Shuffle(len(grid), func(i, j int) { grid[i], grid[j] = grid[j], grid[i] })
		// keep every (strategy, dir state) pair with the plain pattern, plus a sample of the rest
		var keep []combo
		for _, x := range grid {
			if x.ns == 0 && x.hard == 0 && x.pat == 0 {
				keep = append(keep, x)
			}
		}
		for _, x := range grid {
			if !(x.ns == 0 && x.hard == 0 && x.pat == 0) && len(keep) < 81+140 {
				keep = append(keep, x)
			}
		}
		grid = keep
	}
	for n, x := range grid {
		logname := LogNames[n%4]
		user, other := users[n%len(users)], users[(n+1)%len(users)]
		dir := g.addBystanders(g.DirFor(logname, x.dir, user, other), logname)
		p := g.ParamsFor(logname, []string{"NONS", "NSOK"}[x.ns], x.hard == 1, 1)
		run := RunSpec{Params: p, Handlers: patterns[x.pat], Beh: g.BehOf(x.beh, user), Signer: []SOutSpec{g.MostlyGoodOutcome(), g.MostlyGoodOutcome()}}
		g.Emit(fmt.Sprintf("grid/%s/dir%d", BehNames[x.beh], x.dir), SessionSpec{Dir: dir, Store0: g.Store0(g.R.Intn(3)), Runs: []RunSpec{run}})
	}

	g.NearNameSessions("near-name", c.N(40, 200))
	g.DecoySessions("second-handler-in-the-process", c.N(12, 90))

	// histories: honest runs interleaved with replays of earlier signatures and other strategies
	for i := 0; i < c.N(40, 600); i++ {
		logname := LogNames[g.R.Intn(len(LogNames))]
		user, other := users[g.R.Intn(len(users))], users[g.R.Intn(len(users))]
		st := core.Pick(g.R, 1, 2, 1, 2, 3, 8, 5, 4)
		dir := g.addBystanders(g.DirFor(logname, st, user, other), logname)
		h := []HandlerSpec{g.Regular(nil, FullKeyIDs())}
		var runs []RunSpec
		nruns := 2 + g.R.Intn(4)
		for k := 0; k < nruns; k++ {
			r := g.honestRun(logname, user, h, []SOutSpec{g.MostlyGoodOutcome()})
			if k > 0 && g.R.Intn(2) == 0 {
				r.Beh = Beh{Kind: BReplay, Index: g.R.Intn(k + 1)}
			} else if g.R.Intn(4) == 0 {
				r.Beh = g.AnyBeh(user)
			}
			runs = append(runs, r)
		}
		// transaction ids chosen by the caller: the same (long, structured) id in every run, or ids sharing a long prefix -
		// the challenge of each run is fresh all the same
		switch g.R.Intn(3) {
		case 0:
			shared := "gw7.example.net/2026-09-28/session-000042/attempt-0001/" + core.GenLongText(g.R)[:40]
			for k := range runs {
				runs[k].Params.TransID = shared
			}
		case 1:
			prefix := strings.Repeat("0123456789abcdef", 5)
			for k := range runs {
				runs[k].Params.TransID = prefix + fmt.Sprintf("-%04d", k)
			}
		}
		g.Emit("history/replay", SessionSpec{Dir: dir, Store0: g.Store0(g.R.Intn(3)), Runs: runs, Reuse: g.R.Intn(2) == 0})
	}

	// histories through long-lived handlers while the registered-key directory changes between runs: the key of
	// the login name is rotated, the user is deregistered, the file becomes unparsable, and registered again
	for i := 0; i < c.N(40, 600); i++ {
		logname := LogNames[g.R.Intn(len(LogNames))]
		user, other := users[g.R.Intn(len(users))], users[(1+g.R.Intn(len(users)-1))%len(users)]
		if other == user {
			other = users[(g.R.Intn(len(users))+1)%len(users)]
		}
		st := core.Pick(g.R, 1, 2, 8)
		dir := g.addBystanders(g.DirFor(logname, st, user, other), logname)
		h := []HandlerSpec{g.Regular(nil, FullKeyIDs())}
		var runs []RunSpec
		nruns := 2 + g.R.Intn(4)
		holder := user // whose key the requester's agent signs with
		for k := 0; k < nruns; k++ {
			r := g.honestRun(logname, holder, h, []SOutSpec{g.MostlyGoodOutcome()})
			if k > 0 && g.R.Intn(3) > 0 {
				switch g.R.Intn(5) {
				case 0: // rotated: the name now belongs to another key; the requester still holds the old one
					r.Dir = g.addBystanders(g.DirFor(logname, core.Pick(g.R, 1, 2, 6), other, other), logname)
				case 1: // deregistered
					r.Dir, r.DirSet = g.addBystanders(nil, logname), true
				case 2: // unparsable now
					r.Dir = g.addBystanders(g.DirFor(logname, 7, user, other), logname)
				case 3: // registered (again) under the key the requester holds
					r.Dir = g.addBystanders(g.DirFor(logname, core.Pick(g.R, 1, 2), holder, other), logname)
				default: // ".pub" takes precedence over the bare file
					r.Dir = g.addBystanders(g.DirFor(logname, core.Pick(g.R, 3, 8), user, other), logname)
				}
			}
			switch g.R.Intn(6) {
			case 0:
				holder = other
				r.Beh = Beh{Kind: BHonest, Key: other}
			case 1:
				holder = user
				r.Beh = Beh{Kind: BHonest, Key: user}
			case 2:
				if k > 0 {
					r.Beh = Beh{Kind: BReplay, Index: g.R.Intn(k + 1)}
				}
			}
			runs = append(runs, r)
		}
		g.Emit("history/directory-changes", SessionSpec{Dir: dir, Store0: g.Store0(g.R.Intn(3)), Runs: runs, Reuse: g.R.Intn(4) > 0})
	}

	// the request as it arrives: forced-command argv and sshd's environment, read by csr.NewReqParam as cmd/gensign
	// does.  Legacy and JSON messages, every spelling of the hardware-key flag, both namespace policies.
	for i, sp := range []string{"true", "True", "TRUE", "1", "t", "T", "false", "False", "FALSE", "0", "f", "F"} {
		for _, format := range []string{"legacy", "json"} {
			for _, ns := range []string{"NONS", "NSOK"} {
				if format == "json" && i >= 2 && i != 6 {
					continue // JSON has two spellings only
				}
				if ns == "NSOK" && i%3 != 0 {
					continue
				}
				logname := LogNames[i%4]
				user := users[i%len(users)]
				hard, _ := strconv.ParseBool(sp)
				var cmd string
				if format == "legacy" {
					cmd = fmt.Sprintf("IFVer=6 SSHClientVersion=8.1 req=%s@%s HardKey=%s Touch2SSH=%s", "wireuser", "wirehost.example.com", sp, core.Pick(g.R, "false", "true", "False"))
				} else {
					cmd = fmt.Sprintf(`{"ifVer":7,"username":"wireuser","hostname":"wirehost.example.com","sshClientVersion":"8.1","hardKey":%v}`, hard)
				}
				w := &WireSpec{Cmd: cmd, LogName: logname, Conn: "10.1.2.3 50000 10.0.0.1 22", Argv: []string{"/usr/bin/gensign", ns, "regular"}}
				p := Params(ns, logname, "wireuser", "wirehost.example.com", "10.1.2.3", "", hard, 0, false)
				run := RunSpec{Params: p, Wire: w, Handlers: []HandlerSpec{g.Regular(nil, FullKeyIDs())}, Beh: Beh{Kind: BHonest, Key: user}, Signer: OneCert()}
				dir := g.addBystanders(g.DirFor(logname, 1, user, user), logname)
				g.Emit("wire/"+format+"/hardkey="+sp, SessionSpec{Dir: dir, Store0: g.Store0(g.R.Intn(2)), Runs: []RunSpec{run}})
			}
		}
	}

	// handler lists with any accept / reject / panic pattern
	for i := 0; i < c.N(80, 1500); i++ {
		logname := LogNames[g.R.Intn(4)]
		user := users[g.R.Intn(len(users))]
		dir := g.DirFor(logname, core.Pick(g.R, 1, 2), user, user)
		var hs []HandlerSpec
		for k := 0; k < 1+g.R.Intn(4); k++ {
			switch g.R.Intn(8) {
			case 0, 1, 2:
				hs = append(hs, g.Regular(nil, FullKeyIDs()))
			case 3, 4:
				hs = append(hs, Rejecting())
			case 5:
				hs = append(hs, Accepting(FakeKeySpec{NCSRs: 1 + g.R.Intn(2)}))
			case 6:
				hs = append(hs, HandlerSpec{Auth: HPanic})
			case 7:
				hs = append(hs, HandlerSpec{Auth: HErr, AuthKind: gensign.HandlerDisabled, NamePanics: g.R.Intn(3) == 0})
			}
		}
		if g.R.Intn(10) == 0 {
			hs = nil
		}
		r := g.honestRun(logname, user, hs, []SOutSpec{g.MostlyGoodOutcome(), g.MostlyGoodOutcome(), g.MostlyGoodOutcome()})
		if g.R.Intn(3) == 0 {
			r.Beh = g.AnyBeh(user)
		}
		if g.R.Intn(4) == 0 {
			r.Params = g.ParamsFor(logname, core.Pick(g.R, "NSOK", "", "nons", "NONS "), g.R.Intn(2) == 0, 1)
		}
		if g.R.Intn(25) == 0 {
			r.Params = nil
		} else if g.R.Intn(25) == 0 {
			r.Params.Attrs = nil
		}
		g.Emit("handlers/pattern", SessionSpec{Dir: dir, Runs: []RunSpec{r}})
	}
}

// ---------------------------------------------------------------- C02 ----

func (g *Gen) DriveC02() {
	c := g.C
	users := g.Pool.Users
	g.NewHandlerCases(c.N(60, 2000))
	// every CA key algorithm value against assorted configurations
	for i := 0; i < c.N(120, 3000); i++ {
		logname := LogNames[g.R.Intn(len(LogNames))]
		user := users[g.R.Intn(len(users))]
		dir := g.addBystanders(g.DirFor(logname, core.Pick(g.R, 1, 2), user, user), logname)
		var v *uint64
		if g.R.Intn(4) != 0 {
			v = u64(core.Pick(g.R, Validities...))
			if g.R.Intn(6) == 0 {
				v = u64(uint64(g.R.Int63n(1 << 40)))
			}
		}
		h := []HandlerSpec{g.Regular(v, g.KeyIDs())}
		if g.R.Intn(8) == 0 {
			h = append([]HandlerSpec{Rejecting()}, h...)
		}
		var runs []RunSpec
		for k := 0; k < 1+g.R.Intn(4); k++ {
			algo := core.Pick(g.R, 0, 1, 2, 3, 4, 5, 6, 7, -1, 100)
			p := g.ParamsFor(logname, "NONS", false, algo)
			if g.R.Intn(3) == 0 { // client claims that imitate server-side values
				p.ReqUser = core.Pick(g.R, "root", LogNames[g.R.Intn(len(LogNames))], `","prins":["root"],"x":"`)
			}
			runs = append(runs, RunSpec{Params: p, Handlers: h, Beh: Beh{Kind: BHonest, Key: user}, Signer: []SOutSpec{g.MostlyGoodOutcome()}})
		}
		g.Emit("request/fields", SessionSpec{Dir: dir, Store0: g.Store0(g.R.Intn(3)), Runs: runs, Reuse: g.R.Intn(3) != 0})
	}
	g.NearNameSessions("request/near-name", c.N(24, 120))
	g.DecoySessions("request/second-handler-in-the-process", c.N(9, 60))
}

// DecoySessions: an unrelated second regular handler lives in the process (SessionSpec.Decoy).  The session's own
// handlers still look up keys in their own directory (the holder of the key the DECOY's directory registers is refused),
// still give their own lifetime, still send requests naming their own login name.
func (g *Gen) DecoySessions(class string, n int) {
	users := g.Pool.Users
	decoyUser := users[len(users)-1]
	for i := 0; i < n; i++ {
		logname := LogNames[i%4]
		user := users[i%(len(users)-1)]
		dir := g.DirFor(logname, 1+i%2, user, user)
		v := core.Pick(g.R, uint64(86400), 43200, 604800, 7200)
		h := []HandlerSpec{g.Regular(u64(v), FullKeyIDs())}
		var runs []RunSpec
		switch i % 3 {
		case 0: // the requester holds the registered key
			runs = []RunSpec{g.honestRun(logname, user, h, OneCert()), g.honestRun(logname, user, h, []SOutSpec{{Kind: SigOk, Certs: []int{CertGood, CertGood}, Comments: []string{"a", "b"}}})}
		case 1: // the requester holds the key the decoy's directory registers for the name
			runs = []RunSpec{g.honestRun(logname, decoyUser, h, OneCert())}
		default:
			runs = []RunSpec{g.honestRun(logname, decoyUser, h, OneCert()), g.honestRun(logname, user, h, OneCert())}
		}
		g.Emit(class, SessionSpec{Dir: dir, Store0: g.Store0(g.R.Intn(2)), Runs: runs, Reuse: i%2 == 0, Decoy: true})
	}
}

// CertWindowSessions: certificates whose validity window does not contain this host's clock (valid from the future, no
// expiry, already expired, valid forever) are still what the CA returned: every one of them is handed to the agent.
func (g *Gen) CertWindowSessions() {
	users := g.Pool.Users
	for _, w := range []struct {
		name string
		kind int
	}{{"valid-from-the-future", CertFuture}, {"no-expiry", CertNoExpiry}, {"already-expired", CertExpired}, {"valid-forever", CertForever}} {
		logname, user := "alice", users[0]
		h := []HandlerSpec{g.Regular(u64(3600), FullKeyIDs())}
		runs := []RunSpec{g.honestRun(logname, user, h, OneCert()),
			g.honestRun(logname, user, h, []SOutSpec{{Kind: SigOk, Certs: []int{w.kind, CertGood, w.kind}, Comments: []string{"a", "", "b"}}}),
			g.honestRun(logname, user, h, []SOutSpec{{Kind: SigOk, Certs: []int{w.kind}}})}
		g.Emit("certificate-window/"+w.name, SessionSpec{Dir: g.DirFor(logname, 1, user, user), Store0: g.Store0(2), Runs: runs})
	}
}

// ---------------------------------------------------------------- C03 ----

func (g *Gen) DriveC03() {
	c := g.C
	users := g.Pool.Users
	// regression shapes: every near-miss comment present, two generations
	for _, v := range append(append([]uint64{}, Validities...), WrapValidities...) {
		logname, user := "alice", users[0]
		var st []IdentSpec
		for i, nm := range NearMiss {
			st = append(st, IdentSpec{Key: g.Pool.Foreign[i%len(g.Pool.Foreign)], Cert: i%2 == 0, Comment: nm, Life: uint32(i % 3 * 100)})
		}
		h := []HandlerSpec{g.Regular(u64(v), FullKeyIDs())}
		runs := []RunSpec{g.honestRun(logname, user, h, []SOutSpec{{Kind: SigOk, Certs: []int{CertGood, CertGood}, Comments: []string{"a", ""}}}),
			g.honestRun(logname, user, h, OneCert())}
		g.Emit("nearmiss/two-generations", SessionSpec{Dir: g.DirFor(logname, 1, user, user), Store0: st, Runs: runs})
	}
	g.CertWindowSessions()
	g.DecoySessions("second-handler-in-the-process", g.C.N(9, 60))
	// the CA's answer travels as in production: a CA server sends authorized_keys text, the RA's real crypki.Signer
	// reads it - one, two or three certificates, the text with or without a final newline
	for i, shape := range []struct {
		n     int
		final bool
	}{{1, true}, {1, false}, {2, true}, {2, false}, {3, false}, {3, true}} {
		logname, user := LogNames[i%4], users[i%len(users)]
		h := []HandlerSpec{g.Regular(u64(3600), FullKeyIDs())}
		var kinds []int
		var cms []string
		for k := 0; k < shape.n; k++ {
			kinds = append(kinds, CertGood)
			cms = append(cms, core.Pick(g.R, "a", "touch", "label-x"))
		}
		out := SOutSpec{Kind: SigOk, Certs: kinds, Comments: cms, ViaCrypki: true, NoFinalNewline: !shape.final}
		runs := []RunSpec{g.honestRun(logname, user, h, OneCert()), g.honestRun(logname, user, h, []SOutSpec{out}), g.honestRun(logname, user, h, []SOutSpec{out})}
		g.Emit(fmt.Sprintf("through-the-ca-server/%d-certificates/final-newline=%v", shape.n, shape.final),
			SessionSpec{Dir: g.DirFor(logname, 1, user, user), Store0: g.Store0(2), Runs: runs})
	}
	for i := 0; i < c.N(110, 3000); i++ {
		logname := LogNames[g.R.Intn(len(LogNames))]
		user := users[g.R.Intn(len(users))]
		dir := g.DirFor(logname, core.Pick(g.R, 1, 2), user, user)
		v := core.Pick(g.R, Validities...)
		if g.R.Intn(10) == 0 {
			v = core.Pick(g.R, WrapValidities...)
		} else if g.R.Intn(4) == 0 {
			v = 1 + uint64(g.R.Int63n(315360000))
		}
		h := []HandlerSpec{g.Regular(u64(v), FullKeyIDs())}
		var runs []RunSpec
		for k := 0; k < 1+g.R.Intn(6); k++ {
			r := g.honestRun(logname, user, h, []SOutSpec{g.MostlyGoodOutcome()})
			switch g.R.Intn(10) {
			case 0:
				r.Beh = g.AnyBeh(user) // a failing authentication in between
			case 1:
				r.Signer = []SOutSpec{{Kind: core.Pick(g.R, SigErr, SigPanic)}}
			case 2:
				r.Signer = []SOutSpec{g.SignerOutcome()}
			case 3:
				r.Faults = map[int]int{g.R.Intn(7): core.Pick(g.R, FaultFail, FaultClose)}
			case 4:
				r.Handlers = []HandlerSpec{Accepting(FakeKeySpec{NCSRs: 1 + g.R.Intn(2)})}
			case 5:
				r.Params.Attrs.CAPubKeyAlgo = 2 + 40 // no key identifier configured: fails after the private key was added
			}
			runs = append(runs, r)
		}
		g.Emit("sequence", SessionSpec{Dir: dir, Store0: g.Store0(g.R.Intn(6)), Runs: runs, Reuse: g.R.Intn(2) == 0})
	}
}

// ---------------------------------------------------------------- C04 ----

type base struct {
	name     string
	handlers []HandlerSpec
	signer   []SOutSpec
	prior    bool // run a successful run first so that the refresh has something to remove
}

func (g *Gen) c04Bases() []base {
	reg := g.Regular(u64(3600), FullKeyIDs())
	one := SOutSpec{Kind: SigOk, Certs: []int{CertGood}, Comments: []string{"x"}}
	three := SOutSpec{Kind: SigOk, Certs: []int{CertGood, CertGood, CertGood}, Comments: []string{"a", "b", "c"}}
	two := SOutSpec{Kind: SigOk, Certs: []int{CertGood, CertGood}}
	return []base{
		{"regular/1cert", []HandlerSpec{reg}, []SOutSpec{one}, true},
		{"regular/3certs", []HandlerSpec{reg}, []SOutSpec{three}, true},
		{"regular/2certs-fresh-agent", []HandlerSpec{reg}, []SOutSpec{two}, false},
		{"rejecting+regular/1cert", []HandlerSpec{Rejecting(), reg}, []SOutSpec{one}, true},
		{"scripted/2keys-2csrs", []HandlerSpec{Accepting(FakeKeySpec{NCSRs: 2}, FakeKeySpec{NCSRs: 2})}, []SOutSpec{one, two, one, three}, false},
		{"regular-rejected+scripted", []HandlerSpec{reg, Accepting(FakeKeySpec{NCSRs: 1})}, []SOutSpec{two}, false},
	}
}

func (g *Gen) DriveC04() {
	g.CertWindowSessions()
	users := g.Pool.Users
	logname, user := "alice", users[0]
	dir := g.DirFor(logname, 1, user, user)
	mk := func(b base, mod func(r *RunSpec)) SessionSpec {
		var runs []RunSpec
		if b.prior {
			runs = append(runs, g.honestRun(logname, user, []HandlerSpec{g.Regular(u64(3600), FullKeyIDs())},
				[]SOutSpec{{Kind: SigOk, Certs: []int{CertGood, CertGood}}}))
		}
		r := g.honestRun(logname, user, b.handlers, b.signer)
		if b.name == "regular-rejected+scripted" {
			r.Beh = Beh{Kind: BGarbage}
		}
		if mod != nil {
			mod(&r)
		}
		runs = append(runs, r)
		return SessionSpec{Dir: dir, Store0: g.Store0(2), Runs: runs}
	}
	for _, b := range g.c04Bases() {
		// fault-free run: counts the agent requests and signer calls of the run under test
		s := g.Emit("fault-free/"+b.name, mk(b, nil))
		nreq, ncalls := 8, len(b.signer)
		if s != nil && s.BuildErr == nil {
			last := s.Results[len(s.Results)-1]
			nreq, ncalls = 0, 0
			for _, e := range last.Events {
				if strings.HasPrefix(e.G, "(EvAgent ") {
					nreq++
				}
				if strings.HasPrefix(e.G, "(EvSigner ") {
					ncalls++
				}
			}
			g.C.StatN("fault-points:agent", 2*nreq)
			g.C.StatN("fault-points:signer", 2*ncalls)
		}
		for i := 0; i < nreq; i++ {
			for _, f := range []int{FaultFail, FaultClose} {
				i, f := i, f
				g.Emit(fmt.Sprintf("agent-fault/%s", b.name), mk(b, func(r *RunSpec) { r.Faults = map[int]int{i: f} }))
			}
		}
		// the request context becomes done in the middle of the run (no operation fails)
		for j := 0; j < ncalls; j++ {
			j := j
			g.Emit(fmt.Sprintf("context-cancelled-during-signer-call/%s", b.name), mk(b, func(r *RunSpec) {
				sc := append([]SOutSpec{}, r.Signer...)
				sc[j].CancelCtx = true
				r.Signer = sc
			}))
		}
		g.Emit(fmt.Sprintf("context-done-at-start/%s", b.name), mk(b, func(r *RunSpec) { r.CtxDone = true }))
		for j := 0; j < ncalls; j++ {
			for _, k := range []int{SigErr, SigPanic} {
				j, k := j, k
				g.Emit(fmt.Sprintf("signer-fault/%s", b.name), mk(b, func(r *RunSpec) {
					sc := append([]SOutSpec{}, r.Signer...)
					sc[j] = SOutSpec{Kind: k}
					r.Signer = sc
				}))
			}
		}
	}
	// the CA server answers OK but delivers nothing (an empty key field, white space only), or one certificate, through
	// the RA's real crypki.Signer: a CA that delivered nothing is a failed CA
	for i, v := range []SOutSpec{
		{Kind: SigOk, Certs: []int{CertGood}, ViaCrypki: true, EmptyKey: true},
		{Kind: SigOk, Certs: []int{CertGood}, ViaCrypki: true},
		{Kind: SigOk, Certs: []int{CertGood, CertGood}, ViaCrypki: true, NoFinalNewline: true},
	} {
		reg := g.Regular(u64(3600), FullKeyIDs())
		prior := g.honestRun(logname, user, []HandlerSpec{reg}, []SOutSpec{{Kind: SigOk, Certs: []int{CertGood, CertGood}}})
		r := g.honestRun(logname, user, []HandlerSpec{reg}, []SOutSpec{v})
		g.Emit(fmt.Sprintf("through-the-ca-server/%d", i), SessionSpec{Dir: dir, Store0: g.Store0(2), Runs: []RunSpec{prior, r}})
	}
	// panics and failures inside every Handler / AgentKey method of a foreign handler
	one := SOutSpec{Kind: SigOk, Certs: []int{CertGood}}
	reg := g.Regular(u64(3600), FullKeyIDs())
	methodFaults := []struct {
		name string
		hs   []HandlerSpec
	}{
		{"Authenticate-panics", []HandlerSpec{{Auth: HPanic}, reg}},
		{"Authenticate-panics-after-reject", []HandlerSpec{Rejecting(), {Auth: HPanic}, reg}},
		{"Name-panics-after-refusal", []HandlerSpec{{Auth: HErr, AuthKind: gensign.HandlerAuthN, NamePanics: true}, reg}},
		{"Name-panics-at-success", []HandlerSpec{{Auth: HOk, Gen: HOk, NamePanics: true, Keys: []FakeKeySpec{{NCSRs: 1}}}}},
		{"Generate-panics", []HandlerSpec{{Auth: HOk, Gen: HPanic}}},
		{"Generate-untyped-error", []HandlerSpec{{Auth: HOk, Gen: HErr, GenKind: 0}}},
		{"Generate-empty", []HandlerSpec{{Auth: HOk, Gen: HOk}}},
		{"CSRs-panics", []HandlerSpec{Accepting(FakeKeySpec{NCSRs: 1, CSRsPanics: true})}},
		{"CSRs-panics-second-key", []HandlerSpec{Accepting(FakeKeySpec{NCSRs: 1}, FakeKeySpec{NCSRs: 1, CSRsPanics: true})}},
		{"AddCerts-fails", []HandlerSpec{Accepting(FakeKeySpec{NCSRs: 1, Add: FErr}, FakeKeySpec{NCSRs: 1})}},
		{"AddCerts-panics", []HandlerSpec{Accepting(FakeKeySpec{NCSRs: 2, Add: FPanic})}},
		{"AddCerts-fails-second-key", []HandlerSpec{Accepting(FakeKeySpec{NCSRs: 1}, FakeKeySpec{NCSRs: 1, Add: FErr})}},
		{"all-reject", []HandlerSpec{Rejecting(), Rejecting()}},
		{"no-handlers", nil},
	}
	for _, k := range AllKinds {
		methodFaults = append(methodFaults, struct {
			name string
			hs   []HandlerSpec
		}{"Generate-error-" + kindNames[k], []HandlerSpec{{Auth: HOk, Gen: HErr, GenKind: k}}})
	}
	for _, m := range methodFaults {
		r := g.honestRun(logname, user, m.hs, []SOutSpec{one, one, one})
		g.Emit("handler-fault/"+m.name, SessionSpec{Dir: dir, Store0: g.Store0(2), Runs: []RunSpec{r}})
	}
	// eventless failures: nil params / nil Attrs, unconfigured algorithm, nil and foreign "certificates"
	for _, v := range []struct {
		name string
		mod  func(r *RunSpec)
	}{
		{"nil-params", func(r *RunSpec) { r.Params = nil }},
		{"nil-params-scripted", func(r *RunSpec) { r.Params = nil; r.Handlers = []HandlerSpec{Accepting(FakeKeySpec{NCSRs: 1})} }},
		{"nil-attrs", func(r *RunSpec) { r.Params.Attrs = nil }},
		{"unconfigured-algorithm", func(r *RunSpec) { r.Params.Attrs.CAPubKeyAlgo = 77 }},
		{"nil-certificate", func(r *RunSpec) { r.Signer = []SOutSpec{{Kind: SigOk, Certs: []int{CertGood, CertNil, CertGood}}} }},
		{"certificate-over-another-key", func(r *RunSpec) { r.Signer = []SOutSpec{{Kind: SigOk, Certs: []int{CertGood, CertOther, CertGood}}} }},
		{"no-certificate-returned", func(r *RunSpec) { r.Signer = []SOutSpec{{Kind: SigOk}} }},
		{"plain-key-returned", func(r *RunSpec) { r.Signer = []SOutSpec{{Kind: SigOk, Certs: []int{CertPlain}}} }},
	} {
		r := g.honestRun(logname, user, []HandlerSpec{reg}, []SOutSpec{one})
		v.mod(&r)
		g.Emit("eventless/"+v.name, SessionSpec{Dir: dir, Store0: g.Store0(2), Runs: []RunSpec{r}})
	}
	// random fault schedules (several faults, any behaviour)
	for i := 0; i < g.C.N(60, 2000); i++ {
		bs := g.c04Bases()
		b := bs[g.R.Intn(len(bs))]
		g.Emit("random-faults/"+b.name, mk(b, func(r *RunSpec) {
			r.Faults = map[int]int{}
			for k := 0; k < 1+g.R.Intn(2); k++ {
				r.Faults[g.R.Intn(9)] = core.Pick(g.R, FaultFail, FaultClose)
			}
			if g.R.Intn(3) == 0 {
				sc := append([]SOutSpec{}, r.Signer...)
				sc[g.R.Intn(len(sc))] = g.SignerOutcome()
				r.Signer = sc
			}
			if g.R.Intn(5) == 0 {
				r.Beh = g.AnyBeh(user)
			}
		}))
	}
}
