// Package gensim is the shared driver of the C01-C04 correspondence
// harnesses: it runs the real gensign.Run with the real regular handler
// against a scripted forwarded ssh-agent (served with x/crypto's
// agent.ServeAgent over a net.Pipe), a mock csr.Signer (a harness CA issuing
// real ssh certificates), and scripted foreign handlers, and renders each
// session (inputs + observations) as a Gallina term of type
// GensignCheck.case.
package gensim

import (
	"context"
	"crypto/ecdsa"
	"crypto/ed25519"
	"crypto/elliptic"
	"crypto/rand"
	"crypto/rsa"
	"crypto/tls"
	"crypto/x509"
	"encoding/json"
	"errors"
	"fmt"
	"github.com/theparanoids/ysshra/crypki"
	"google.golang.org/grpc/codes"
	"google.golang.org/grpc/grpclog"
	"google.golang.org/grpc/status"
	"io"
	stdlog "log"
	mrand "math/rand"
	"net"
	"os"
	"path/filepath"
	"sort"
	"strings"
	"sync"
	"time"
	"verifharness/casim"

	"github.com/rs/zerolog"
	"github.com/theparanoids/crypki/proto"
	"github.com/theparanoids/ysshra/common"
	"github.com/theparanoids/ysshra/config"
	"github.com/theparanoids/ysshra/csr"
	"github.com/theparanoids/ysshra/gensign"
	"github.com/theparanoids/ysshra/gensign/regular"
	"github.com/theparanoids/ysshra/message"
	"golang.org/x/crypto/ssh"
	"golang.org/x/crypto/ssh/agent"

	"verifharness/core"
)

func init() {
	zerolog.SetGlobalLevel(zerolog.Disabled)
	stdlog.SetOutput(io.Discard)
}

// ---------------------------------------------------------------- keys ----

// PoolKey is a key pair owned by the harness.
type PoolKey struct {
	Priv   interface{} // *ecdsa.PrivateKey, ed25519.PrivateKey, *rsa.PrivateKey
	Signer ssh.Signer
	Pub    ssh.PublicKey
	Name   string
}

func newPoolKey(name string, kind int) *PoolKey {
	var priv interface{}
	var err error
	switch kind {
	case 0:
		_, p, e := ed25519.GenerateKey(rand.Reader)
		priv, err = p, e
	case 1:
		priv, err = ecdsa.GenerateKey(elliptic.P256(), rand.Reader)
	default:
		priv, err = rsa.GenerateKey(rand.Reader, 2048)
	}
	if err != nil {
		panic(err)
	}
	s, err := ssh.NewSignerFromKey(priv)
	if err != nil {
		panic(err)
	}
	return &PoolKey{Priv: priv, Signer: s, Pub: s.PublicKey(), Name: name}
}

// Pool holds the harness's long-lived keys: users' long-term keys, foreign
// keys (other people's identities, other CAs) and the harness CA.
type Pool struct {
	Users   []*PoolKey
	Foreign []*PoolKey
	CA      *PoolKey
	OtherCA *PoolKey
}

func (p *Pool) byBlob(blob []byte) *PoolKey {
	for _, k := range append(append([]*PoolKey{}, p.Users...), p.Foreign...) {
		if string(k.Pub.Marshal()) == string(blob) {
			return k
		}
	}
	return nil
}

func NewPool() *Pool {
	p := &Pool{}
	kinds := []int{0, 1, 0, 2, 1, 0}
	for i, k := range kinds {
		p.Users = append(p.Users, newPoolKey(fmt.Sprintf("user%d", i), k))
	}
	for i := 0; i < 5; i++ {
		p.Foreign = append(p.Foreign, newPoolKey(fmt.Sprintf("foreign%d", i), i%2))
	}
	p.CA = newPoolKey("ca", 1)
	p.OtherCA = newPoolKey("otherca", 0)
	return p
}

// ----------------------------------------------------------------- ids ----

// IDs assigns small numbers to blobs (public keys, certificates) and to
// challenge data; equal bytes get equal ids.
type IDs struct {
	mu    sync.Mutex
	blobs map[string]uint64
	data  map[string]uint64
	next  uint64
}

func NewIDs() *IDs {
	return &IDs{blobs: map[string]uint64{}, data: map[string]uint64{}, next: 1}
}

func (t *IDs) Blob(b []byte) uint64 {
	t.mu.Lock()
	defer t.mu.Unlock()
	if id, ok := t.blobs[string(b)]; ok {
		return id
	}
	id := t.next
	t.next++
	t.blobs[string(b)] = id
	return id
}

func (t *IDs) Data(b []byte) uint64 {
	t.mu.Lock()
	defer t.mu.Unlock()
	if id, ok := t.data[string(b)]; ok {
		return id
	}
	id := t.next
	t.next++
	t.data[string(b)] = id
	return id
}

func (t *IDs) Fresh() uint64 {
	t.mu.Lock()
	defer t.mu.Unlock()
	id := t.next
	t.next++
	return id
}

// GBlob renders the Gallina [blob] of a wire public key.
func (t *IDs) GBlob(pub ssh.PublicKey) string {
	if c, ok := pub.(*ssh.Certificate); ok {
		return core.GApp("BCert", core.GN(t.Blob(c.Key.Marshal())), core.GN(t.Blob(c.Marshal())))
	}
	return core.GApp("BKey", core.GN(t.Blob(pub.Marshal())))
}

func (t *IDs) gBlobBytes(blob []byte) string {
	pub, err := ssh.ParsePublicKey(blob)
	if err != nil {
		return core.GApp("BKey", core.GN(t.Blob(blob)))
	}
	return t.GBlob(pub)
}

// -------------------------------------------------------------- events ----

const (
	PhAuth = iota
	PhGen
	PhAdd
)

type phase struct {
	Kind, Idx int
}

func (p phase) gallina() string {
	n := core.GNat(p.Idx)
	switch p.Kind {
	case PhAuth:
		return core.GApp("PAuth", n)
	case PhGen:
		return core.GApp("PGen", n)
	}
	return core.GApp("PAdd", n)
}

// Event is one observed event, already rendered.
type Event struct {
	G     string // Gallina term
	Human string
}

// Recorder collects the ordered events of one run and tracks which handler
// method is executing.
type Recorder struct {
	mu     sync.Mutex
	Events []Event
	Phase  phase
}

func (r *Recorder) add(g, human string) {
	r.mu.Lock()
	r.Events = append(r.Events, Event{g, human})
	r.mu.Unlock()
}
func (r *Recorder) setPhase(p phase) {
	r.mu.Lock()
	r.Phase = p
	r.mu.Unlock()
}
func (r *Recorder) phase() phase {
	r.mu.Lock()
	defer r.mu.Unlock()
	return r.Phase
}

// --------------------------------------------------------------- agent ----

// Behaviours of the forwarded agent on sign requests.
const (
	BHonest = iota
	BHonestWithoutKey
	BSignsWith
	BSignsOther
	BReplay
	BGarbage
	BEmpty
	BFail
	BClose
)

var BehNames = []string{"Honest", "HonestWithoutKey", "SignsWith", "SignsOther", "Replay", "Garbage", "Empty", "Fail", "Close"}

type Beh struct {
	Kind  int
	Key   *PoolKey // Honest: the key held; SignsWith: the key used
	Data  []byte   // SignsOther
	Index int      // Replay
}

const (
	FaultFail  = 1
	FaultClose = 2
)

// Identity is one entry of the scripted agent.
type Identity struct {
	Pub     ssh.PublicKey // wire identity: plain key or certificate
	Priv    interface{}   // private key stored with it (may be nil for pre-loaded foreign entries)
	PrivPub ssh.PublicKey // its public key
	Comment string
	Life    uint32
}

func (t *IDs) gIdent(i *Identity) string {
	return core.GApp("mkIdent", t.GBlob(i.Pub), core.GN(t.Blob(i.PrivPub.Marshal())), core.GStr(i.Comment), core.GN(uint64(i.Life)))
}

// ScriptedAgent is the requester's forwarded agent. It implements agent.Agent.
type ScriptedAgent struct {
	mu   sync.Mutex
	ids  *IDs
	pool *Pool
	// entropy observed on the wire, in draw order
	onChal func(id uint64)
	onKey  func(id uint64)
	Idents []*Identity
	Sigs   []*ssh.Signature // every signature it produced, in order

	// per run
	rec    *Recorder
	beh    Beh
	faults map[int]int
	reqno  int
	closed bool
	conn   net.Conn // server side of the forwarded connection
	// observations
	ChalLens []int
}

func NewScriptedAgent(ids *IDs, pool *Pool) *ScriptedAgent {
	return &ScriptedAgent{ids: ids, pool: pool}
}

func (a *ScriptedAgent) BeginRun(rec *Recorder, beh Beh, faults map[int]int, conn net.Conn) {
	a.mu.Lock()
	defer a.mu.Unlock()
	a.rec, a.beh, a.faults, a.reqno, a.closed, a.conn = rec, beh, faults, 0, false, conn
}

func (a *ScriptedAgent) Closed() bool {
	a.mu.Lock()
	defer a.mu.Unlock()
	return a.closed
}

var errAgent = errors.New("scripted agent: failure")

// enter handles the per-request fault script. It returns (status, proceed).
func (a *ScriptedAgent) enter() (fault int) {
	n := a.reqno
	a.reqno++
	return a.faults[n]
}

func (a *ScriptedAgent) closeConn() {
	a.closed = true
	if a.conn != nil {
		a.conn.Close()
	}
}

func (a *ScriptedAgent) record(req, human, status string, valid bool) {
	ph := a.rec.phase()
	a.rec.add(core.GApp("EvAgent", ph.gallina(), req, status, core.GBool(valid)),
		fmt.Sprintf("agent[%s] %s -> %s valid=%v", ph.gallina(), human, status, valid))
}

func (a *ScriptedAgent) List() ([]*agent.Key, error) {
	a.mu.Lock()
	defer a.mu.Unlock()
	switch a.enter() {
	case FaultFail:
		a.record("RList", "list", "StFail", false)
		return nil, errAgent
	case FaultClose:
		a.record("RList", "list", "StClosed", false)
		a.closeConn()
		return nil, errAgent
	}
	a.record("RList", "list", "StOk", false)
	var out []*agent.Key
	for _, i := range a.Idents {
		out = append(out, &agent.Key{Format: i.Pub.Type(), Blob: i.Pub.Marshal(), Comment: i.Comment})
	}
	return out, nil
}

func (a *ScriptedAgent) Sign(key ssh.PublicKey, data []byte) (*ssh.Signature, error) {
	a.mu.Lock()
	defer a.mu.Unlock()
	a.ChalLens = append(a.ChalLens, len(data))
	if a.onChal != nil {
		a.onChal(a.ids.Data(data))
	}
	req := core.GApp("RSign", core.GN(a.ids.Blob(key.Marshal())), core.GN(a.ids.Data(data)))
	human := fmt.Sprintf("sign key=%d data=%d", a.ids.Blob(key.Marshal()), a.ids.Data(data))
	switch a.enter() {
	case FaultFail:
		a.record(req, human, "StFail", false)
		return nil, errAgent
	case FaultClose:
		a.record(req, human, "StClosed", false)
		a.closeConn()
		return nil, errAgent
	}
	var sig *ssh.Signature
	var err error
	switch a.beh.Kind {
	case BHonest:
		if a.beh.Key != nil && string(a.beh.Key.Pub.Marshal()) == string(key.Marshal()) {
			sig, err = a.beh.Key.Signer.Sign(rand.Reader, data)
		} else {
			err = errAgent
		}
	case BHonestWithoutKey, BFail:
		err = errAgent
	case BSignsWith:
		sig, err = a.beh.Key.Signer.Sign(rand.Reader, data)
	case BSignsOther:
		// signs other data with the requested key (this adversary holds every pool key)
		if k := a.pool.byBlob(key.Marshal()); k != nil {
			sig, err = k.Signer.Sign(rand.Reader, a.beh.Data)
		} else {
			err = errAgent
		}
	case BReplay:
		if a.beh.Index < len(a.Sigs) {
			sig = a.Sigs[a.beh.Index]
		} else {
			sig = &ssh.Signature{}
		}
	case BGarbage:
		blob := make([]byte, 64)
		rand.Read(blob)
		sig = &ssh.Signature{Format: key.Type(), Blob: blob}
	case BEmpty:
		sig = &ssh.Signature{}
	case BClose:
		a.record(req, human, "StClosed", false)
		a.closeConn()
		return nil, errAgent
	}
	if err != nil || sig == nil {
		a.record(req, human, "StFail", false)
		return nil, errAgent
	}
	a.Sigs = append(a.Sigs, sig)
	// Go-side crypto oracle: does the reply verify under the requested key over the requested data?
	valid := false
	if pk, perr := ssh.ParsePublicKey(key.Marshal()); perr == nil {
		valid = pk.Verify(data, sig) == nil
	}
	a.record(req, human, "StOk", valid)
	return sig, nil
}

func (a *ScriptedAgent) Add(key agent.AddedKey) error {
	a.mu.Lock()
	defer a.mu.Unlock()
	s, err := ssh.NewSignerFromKey(key.PrivateKey)
	if err != nil {
		return err
	}
	id := &Identity{Pub: s.PublicKey(), Priv: key.PrivateKey, PrivPub: s.PublicKey(), Comment: key.Comment, Life: key.LifetimeSecs}
	if key.Certificate != nil {
		id.Pub = key.Certificate
	}
	req := core.GApp("RAdd", a.ids.gIdent(id))
	if key.Certificate == nil && a.rec.phase().Kind == PhGen && a.onKey != nil {
		a.onKey(a.ids.Blob(id.Pub.Marshal()))
	}
	human := fmt.Sprintf("add %s comment=%q life=%d", a.ids.GBlob(id.Pub), key.Comment, key.LifetimeSecs)
	switch a.enter() {
	case FaultFail:
		a.record(req, human, "StFail", false)
		return errAgent
	case FaultClose:
		a.record(req, human, "StClosed", false)
		a.closeConn()
		return errAgent
	}
	a.record(req, human, "StOk", false)
	blob := string(id.Pub.Marshal())
	for n, x := range a.Idents {
		if string(x.Pub.Marshal()) == blob {
			a.Idents[n] = id
			return nil
		}
	}
	a.Idents = append(a.Idents, id)
	return nil
}

func (a *ScriptedAgent) Remove(key ssh.PublicKey) error {
	a.mu.Lock()
	defer a.mu.Unlock()
	req := core.GApp("RRemove", a.ids.gBlobBytes(key.Marshal()))
	human := "remove " + a.ids.gBlobBytes(key.Marshal())
	switch a.enter() {
	case FaultFail:
		a.record(req, human, "StFail", false)
		return errAgent
	case FaultClose:
		a.record(req, human, "StClosed", false)
		a.closeConn()
		return errAgent
	}
	blob := string(key.Marshal())
	var keep []*Identity
	found := false
	for _, x := range a.Idents {
		if string(x.Pub.Marshal()) == blob {
			found = true
			continue
		}
		keep = append(keep, x)
	}
	if !found {
		a.record(req, human, "StFail", false)
		return errAgent
	}
	a.record(req, human, "StOk", false)
	a.Idents = keep
	return nil
}

func (a *ScriptedAgent) RemoveAll() error { return errors.New("scripted agent: RemoveAll unsupported") }
func (a *ScriptedAgent) Lock(passphrase []byte) error {
	return errors.New("scripted agent: Lock unsupported")
}
func (a *ScriptedAgent) Unlock(passphrase []byte) error {
	return errors.New("scripted agent: Unlock unsupported")
}
func (a *ScriptedAgent) Signers() ([]ssh.Signer, error) {
	return nil, errors.New("scripted agent: Signers unsupported")
}

// Snapshot renders the identity list.
func (a *ScriptedAgent) Snapshot() (g string, human []string) {
	a.mu.Lock()
	defer a.mu.Unlock()
	var items []string
	for _, i := range a.Idents {
		items = append(items, a.ids.gIdent(i))
		human = append(human, fmt.Sprintf("%s priv=%d %q life=%d", a.ids.GBlob(i.Pub), a.ids.Blob(i.PrivPub.Marshal()), i.Comment, i.Life))
	}
	return core.GList(items), human
}

// Blobs: the public blobs of the identities held now.
func (a *ScriptedAgent) Blobs() [][]byte {
	a.mu.Lock()
	defer a.mu.Unlock()
	var out [][]byte
	for _, i := range a.Idents {
		out = append(out, i.Pub.Marshal())
	}
	return out
}

// CheckUsable is the Go-side oracle "the certificate can sign": for every
// certificate identity selected by pred, a signature made with the stored
// private key through a certificate signer verifies under the certificate.
// It returns the number of identities checked and the first failure.
func (a *ScriptedAgent) CheckUsable(pred func(*Identity) bool) (int, error) {
	a.mu.Lock()
	defer a.mu.Unlock()
	n := 0
	for _, i := range a.Idents {
		cert, ok := i.Pub.(*ssh.Certificate)
		if !ok || !pred(i) {
			continue
		}
		n++
		if i.Priv == nil {
			return n, fmt.Errorf("certificate identity %q has no private key", i.Comment)
		}
		s, err := ssh.NewSignerFromKey(i.Priv)
		if err != nil {
			return n, err
		}
		cs, err := ssh.NewCertSigner(cert, s)
		if err != nil {
			return n, fmt.Errorf("certificate %q is not bound to the stored private key: %v", i.Comment, err)
		}
		data := []byte("verif usable check")
		sig, err := cs.Sign(rand.Reader, data)
		if err != nil {
			return n, err
		}
		if err := cert.Key.Verify(data, sig); err != nil {
			return n, fmt.Errorf("signature made with certificate %q does not verify: %v", i.Comment, err)
		}
	}
	return n, nil
}

// -------------------------------------------------------------- signer ----

// Certificate slot kinds of a scripted signer outcome.
const (
	CertGood  = iota // a certificate over the requested public key
	CertOther        // a certificate over some other key
	CertPlain        // the requested public key itself (not a certificate)
	CertNil          // a nil ssh.PublicKey
	CertDup          // the same certificate as the previous slot
	// certificates over the requested key whose validity window does not contain this host's clock
	CertFuture   // valid from five minutes from now (the CA's clock runs ahead)
	CertNoExpiry // ValidBefore = 2^64-1 (no expiry)
	CertExpired  // expired ten seconds ago
	CertForever  // ValidAfter = 0, ValidBefore = 2^64-1
)

const (
	SigOk = iota
	SigErr
	SigPanic
)

type SOutSpec struct {
	Kind     int
	Certs    []int
	Comments []string
	// ViaCrypki: the answer travels the way it does in production - a CA server (TLS, gRPC) sends the certificates as
	// authorized_keys text and the RA's real crypki.Signer reads it.  NoFinalNewline: the text does not end in a
	// newline.  EmptyKey: the CA answers OK with an empty key field (it delivered nothing: a CA failure).
	ViaCrypki      bool
	NoFinalNewline bool
	EmptyKey       bool
	// CancelCtx: the run's context is cancelled while this call is being answered (the request timeout expires in
	// the middle of a run; the answer itself is unaffected)
	CancelCtx bool
}

// realCA is a CA server (casim farm, one address) with the RA's real crypki.Signer in front of it, built once per process.
type realCA struct {
	farm   *casim.Farm
	signer *crypki.Signer
	mu     sync.Mutex
	text   string
	fail   bool
	dir    string
}

var (
	realCAOnce sync.Once
	theRealCA  *realCA
	realCAErr  error
)

func getRealCA() (*realCA, error) {
	realCAOnce.Do(func() {
		dir, err := os.MkdirTemp("", "verif-gensim-ca-")
		if err != nil {
			realCAErr = err
			return
		}
		ca, err := casim.NewCA("gensim CA", 1)
		if err != nil {
			realCAErr = err
			return
		}
		clientCA, err := casim.NewCA("gensim client CA", 2)
		if err != nil {
			realCAErr = err
			return
		}
		client, err := clientCA.Issue(casim.Leaf{CN: "ra", Client: true})
		if err != nil {
			realCAErr = err
			return
		}
		keyPEM, err := casim.KeyPEM(client)
		if err != nil {
			realCAErr = err
			return
		}
		certFile, _ := casim.WriteFile(dir, "client.crt", casim.CertPEM(client))
		keyFile, _ := casim.WriteFile(dir, "client.key", keyPEM)
		caFile, _ := casim.WriteFile(dir, "ca.crt", ca.PEM)
		ip := "127.0.0.1"
		farm, err := casim.NewFarm([]string{ip})
		if err != nil {
			realCAErr = err
			return
		}
		leaf, err := ca.Issue(casim.Leaf{CN: "ca-1", IPs: []string{ip}})
		if err != nil {
			realCAErr = err
			return
		}
		farm.SetMode(ip, casim.Mode{TLS: casim.ServerTLS(leaf, tls.VersionTLS12, tls.VersionTLS13, tls.RequireAndVerifyClientCert, casim.Pool(clientCA))})
		grpclog.SetLoggerV2(grpclog.NewLoggerV2(io.Discard, io.Discard, io.Discard))
		r := &realCA{farm: farm, dir: dir}
		farm.SetHandler(func(string, *proto.SSHCertificateSigningRequest, int) casim.Answer {
			r.mu.Lock()
			defer r.mu.Unlock()
			if r.fail {
				return casim.Answer{Err: status.Error(codes.Internal, "harness CA refuses")}
			}
			return casim.Answer{Key: r.text}
		})
		r.signer, err = crypki.NewSigner(crypki.SignerConfig{TLSClientKeyFile: keyFile, TLSClientCertFile: certFile, TLSCACertFiles: []string{caFile},
			CrypkiEndpoints: []string{ip}, CrypkiPort: uint(farm.Port), Retries: 1, PerTryTimeout: 5 * time.Second})
		if err != nil {
			realCAErr = err
			return
		}
		theRealCA = r
	})
	return theRealCA, realCAErr
}

// MockSigner is the scripted CA.
type MockSigner struct {
	ids    *IDs
	pool   *Pool
	rec    *Recorder
	Script []SOutSpec
	cancel func()
	calls  int
	serial uint64
	// what each call actually returned, as Gallina [sout] terms
	Issued   [][]byte
	Outcomes []string
	Humans   []string
	Requests []*proto.SSHCertificateSigningRequest
	// decoy: another regular handler of the process (SessionSpec.Decoy)
	decoy gensign.Handler
}

func (m *MockSigner) issue(pub ssh.PublicKey, req *proto.SSHCertificateSigningRequest) *ssh.Certificate {
	return m.issueWindow(pub, req, CertGood)
}

func (m *MockSigner) issueWindow(pub ssh.PublicKey, req *proto.SSHCertificateSigningRequest, kind int) *ssh.Certificate {
	m.serial++
	now := uint64(time.Now().Unix())
	c := &ssh.Certificate{
		Key: pub, Serial: m.serial, CertType: ssh.UserCert, KeyId: req.KeyId,
		ValidPrincipals: req.Principals, ValidAfter: now - 60, ValidBefore: now + req.Validity + 60,
		Permissions: ssh.Permissions{Extensions: req.Extensions},
	}
	switch kind {
	case CertFuture:
		c.ValidAfter, c.ValidBefore = now+300, now+300+req.Validity
	case CertNoExpiry:
		c.ValidBefore = ssh.CertTimeInfinity
	case CertExpired:
		c.ValidAfter, c.ValidBefore = now-7200, now-10
	case CertForever:
		c.ValidAfter, c.ValidBefore = 0, ssh.CertTimeInfinity
	}
	if err := c.SignCert(rand.Reader, m.pool.CA.Signer); err != nil {
		panic(err)
	}
	m.Issued = append(m.Issued, c.Marshal())
	return c
}

func (m *MockSigner) gScert(pk ssh.PublicKey) string {
	if pk == nil {
		return "SNil"
	}
	if c, ok := pk.(*ssh.Certificate); ok {
		return core.GApp("SCert", core.GN(m.ids.Blob(c.Key.Marshal())), core.GN(m.ids.Blob(c.Marshal())))
	}
	return core.GApp("SPlain", core.GN(m.ids.Blob(pk.Marshal())))
}

func (m *MockSigner) Sign(ctx context.Context, req *proto.SSHCertificateSigningRequest) ([]ssh.PublicKey, []string, error) {
	if m.decoy != nil {
		// another handler of the process prepares a request of its own while this one is with the CA
		core.Guard(func() {
			_, _ = m.decoy.Generate(Params("NONS", "root", "decoy-user", "decoy-host", "192.0.2.99", "decoy-transaction", false, 1, false))
		})
	}
	n := m.calls
	m.calls++
	m.Requests = append(m.Requests, req)
	m.rec.add(core.GApp("EvSigner", core.GNat(n), GCsr(m.ids, req)), fmt.Sprintf("signer call %d: %s", n, HumanCsr(m.ids, req)))
	spec := SOutSpec{Kind: SigErr}
	if n < len(m.Script) {
		spec = m.Script[n]
	}
	if spec.CancelCtx && m.cancel != nil {
		m.cancel()
	}
	switch spec.Kind {
	case SigErr:
		m.Outcomes = append(m.Outcomes, "SErr")
		m.Humans = append(m.Humans, "error")
		return nil, nil, errors.New("mock signer: refused")
	case SigPanic:
		m.Outcomes = append(m.Outcomes, "SPanic")
		m.Humans = append(m.Humans, "panic")
		panic("mock signer: scripted panic")
	}
	var pub ssh.PublicKey
	if pk, _, _, _, err := ssh.ParseAuthorizedKey([]byte(req.PublicKey)); err == nil {
		pub = pk
	} else {
		pub = m.pool.Foreign[0].Pub
	}
	var certs []ssh.PublicKey
	var gs []string
	for _, k := range spec.Certs {
		var c ssh.PublicKey
		switch k {
		case CertGood:
			c = m.issue(pub, req)
		case CertFuture, CertNoExpiry, CertExpired, CertForever:
			c = m.issueWindow(pub, req, k)
		case CertOther:
			c = m.issue(m.pool.Foreign[1].Pub, req)
		case CertPlain:
			c = pub
		case CertNil:
			c = nil
		case CertDup:
			if len(certs) > 0 {
				c = certs[len(certs)-1]
			} else {
				c = m.issue(pub, req)
			}
		}
		certs = append(certs, c)
		gs = append(gs, m.gScert(c))
	}
	if spec.ViaCrypki {
		return m.viaCrypki(ctx, req, spec, certs, gs)
	}
	m.Outcomes = append(m.Outcomes, core.GApp("SOk", core.GList(gs), core.GStrList(spec.Comments)))
	m.Humans = append(m.Humans, fmt.Sprintf("ok %v comments=%q", gs, spec.Comments))
	return certs, spec.Comments, nil
}

// viaCrypki sends the answer through a real CA server and the RA's real crypki.Signer.
func (m *MockSigner) viaCrypki(ctx context.Context, req *proto.SSHCertificateSigningRequest, spec SOutSpec, certs []ssh.PublicKey, gs []string) ([]ssh.PublicKey, []string, error) {
	rca, err := getRealCA()
	if err != nil {
		m.Outcomes = append(m.Outcomes, "SErr")
		m.Humans = append(m.Humans, "real CA unavailable: "+err.Error())
		return nil, nil, err
	}
	var lines, comments []string
	for i, c := range certs {
		if c == nil {
			continue
		}
		cm := "k"
		if i < len(spec.Comments) && spec.Comments[i] != "" && !strings.ContainsAny(spec.Comments[i], "\r\n") {
			cm = spec.Comments[i]
		}
		comments = append(comments, cm)
		lines = append(lines, strings.TrimSuffix(string(ssh.MarshalAuthorizedKey(c)), "\n")+" "+cm)
	}
	text := strings.Join(lines, "\n")
	if !spec.NoFinalNewline && text != "" {
		text += "\n"
	}
	if spec.EmptyKey {
		text, lines = "", nil
	}
	rca.mu.Lock()
	rca.text, rca.fail = text, false
	rca.mu.Unlock()
	got, gotComments, serr := rca.signer.Sign(ctx, req)
	if len(lines) == 0 {
		// the CA delivered nothing: for the run this is a failing CA
		m.Outcomes = append(m.Outcomes, "SErr")
		m.Humans = append(m.Humans, fmt.Sprintf("CA server answered OK with %d key lines (real crypki.Signer returned %d keys, err=%v)", len(lines), len(got), serr))
		return got, gotComments, serr
	}
	var sent []string
	for _, c := range certs {
		if c != nil {
			sent = append(sent, m.gScert(c))
		}
	}
	m.Outcomes = append(m.Outcomes, core.GApp("SOk", core.GList(sent), core.GStrList(comments)))
	m.Humans = append(m.Humans, fmt.Sprintf("CA server sent %v comments=%q finalNewline=%v; real crypki.Signer returned %d keys, err=%v", sent, comments, !spec.NoFinalNewline, len(got), serr))
	return got, gotComments, serr
}

// GSignerScript renders the outcome list for the case: what was actually
// returned for the calls made, the script's kind for calls never made.
func (m *MockSigner) GSignerScript() string {
	items := append([]string{}, m.Outcomes...)
	for n := len(items); n < len(m.Script); n++ {
		switch m.Script[n].Kind {
		case SigErr:
			items = append(items, "SErr")
		case SigPanic:
			items = append(items, "SPanic")
		default:
			items = append(items, "(SOk [] [])")
		}
	}
	return core.GList(items)
}

// GCsr renders a signing request as a Gallina [csr].
func GCsr(ids *IDs, r *proto.SSHCertificateSigningRequest) string {
	ident := ""
	if r.KeyMeta != nil {
		ident = r.KeyMeta.Identifier
	}
	var exts []string
	var names []string
	for k := range r.Extensions {
		names = append(names, k)
	}
	sort.Strings(names)
	for _, k := range names {
		exts = append(exts, core.GPair(gText(k), gText(r.Extensions[k])))
	}
	names = nil
	for k := range r.CriticalOptions {
		names = append(names, k)
	}
	sort.Strings(names)
	for _, k := range names { // a critical option shows up as a foreign entry of the extension list
		exts = append(exts, core.GPair(gText("!critical:"+k), gText(r.CriticalOptions[k])))
	}
	var prins []string
	for _, p := range r.Principals {
		prins = append(prins, gText(p))
	}
	pub := uint64(0)
	if pk, _, _, _, err := ssh.ParseAuthorizedKey([]byte(r.PublicKey)); err == nil {
		pub = ids.Blob(pk.Marshal())
	}
	tree, ok := core.JSONTree([]byte(r.KeyId))
	if !ok {
		tree = "(JStr " + gText("<not JSON> "+r.KeyId) + ")"
	}
	return core.GApp("mkCsr", gText(ident), core.GList(exts), core.GN(r.Validity), core.GList(prins), core.GN(pub), tree)
}

func HumanCsr(ids *IDs, r *proto.SSHCertificateSigningRequest) string {
	ident := ""
	if r.KeyMeta != nil {
		ident = r.KeyMeta.Identifier
	}
	return fmt.Sprintf("ident=%q prins=%q validity=%d exts=%v crit=%v keyid=%s", ident, r.Principals, r.Validity, r.Extensions, r.CriticalOptions, r.KeyId)
}

func gText(s string) string {
	return core.GStr(strings.ToValidUTF8(s, "�"))
}

// ------------------------------------------------------------ handlers ----

const (
	HOk = iota
	HErr
	HPanic
)
const (
	FOk = iota
	FErr
	FPanic
)

type FakeKeySpec struct {
	NCSRs      int
	CSRsPanics bool
	Add        int
}

// HandlerSpec describes one handler of a run.
type HandlerSpec struct {
	Regular bool
	// Regular: the raw configuration
	Validity *uint64
	KeyIDs   [][2]string
	// KeyLabel: the "key_label" option of the handler configuration ("" = not configured)
	KeyLabel string
	// Scripted
	NamePanics bool
	Auth       int
	AuthKind   gensign.ErrorType
	Gen        int
	GenKind    gensign.ErrorType // 0 = an error that is not a *gensign.Error
	Keys       []FakeKeySpec
}

var kindNames = map[gensign.ErrorType]string{
	gensign.Unknown: "KUnknown", gensign.HandlerDisabled: "KHandlerDisabled", gensign.HandlerAuthN: "KHandlerAuthN",
	gensign.InvalidParams: "KInvalidParams", gensign.HandlerGenCSRErr: "KHandlerGenCSRErr", gensign.HandlerConfErr: "KHandlerConfErr",
	gensign.AllAuthFailed: "KAllAuthFailed", gensign.SignerSignErr: "KSignerSignErr", gensign.AgentOpCertErr: "KAgentOpCertErr",
	gensign.Panic: "KPanic", 0: "KUntyped",
}

var AllKinds = []gensign.ErrorType{gensign.Unknown, gensign.HandlerDisabled, gensign.HandlerAuthN, gensign.InvalidParams,
	gensign.HandlerGenCSRErr, gensign.HandlerConfErr, gensign.AllAuthFailed, gensign.SignerSignErr, gensign.AgentOpCertErr, gensign.Panic}

func GRawConf(validity *uint64, keyids [][2]string) (v, l string) {
	v = "None"
	if validity != nil {
		v = "(Some " + core.GN(*validity) + ")"
	}
	var items []string
	for _, kv := range keyids {
		items = append(items, core.GPair(core.GStr(kv[0]), core.GStr(kv[1])))
	}
	return v, core.GList(items)
}

func fresOf(k int) string { return []string{"FOk", "FErr", "FPanic"}[k] }

// fakeKey is an agent key produced by a scripted handler.
type fakeKey struct {
	idx    int
	spec   FakeKeySpec
	csrs   []*proto.SSHCertificateSigningRequest
	rec    *Recorder
	ids    *IDs
	signer *MockSigner
}

func (k *fakeKey) CSRs() []*proto.SSHCertificateSigningRequest {
	if k.spec.CSRsPanics {
		panic("scripted key: CSRs panics")
	}
	return k.csrs
}

func (k *fakeKey) AddCertsToAgent(certs []ssh.PublicKey, comments []string) error {
	var gs []string
	for _, c := range certs {
		gs = append(gs, k.signer.gScert(c))
	}
	k.rec.add(core.GApp("EvFakeAdd", core.GNat(k.idx), core.GList(gs)), fmt.Sprintf("scripted key %d AddCertsToAgent %v", k.idx, gs))
	switch k.spec.Add {
	case FErr:
		return errors.New("scripted key: add failed")
	case FPanic:
		panic("scripted key: AddCertsToAgent panics")
	}
	return nil
}

// scriptedHandler is a foreign handler.
type scriptedHandler struct {
	spec HandlerSpec
	keys []*fakeKey
}

func (h *scriptedHandler) Name() string {
	if h.spec.NamePanics {
		panic("scripted handler: Name panics")
	}
	return "verif.scripted"
}

func (h *scriptedHandler) Authenticate(p *csr.ReqParam) error {
	switch h.spec.Auth {
	case HErr:
		return gensign.NewError(h.spec.AuthKind, "verif.scripted", errors.New("scripted refusal"))
	case HPanic:
		panic("scripted handler: Authenticate panics")
	}
	return nil
}

func (h *scriptedHandler) Generate(p *csr.ReqParam) ([]csr.AgentKey, error) {
	switch h.spec.Gen {
	case HErr:
		if h.spec.GenKind == 0 {
			return nil, errors.New("scripted generate: plain error")
		}
		return nil, gensign.NewError(h.spec.GenKind, "verif.scripted", errors.New("scripted generate failure"))
	case HPanic:
		panic("scripted handler: Generate panics")
	}
	var out []csr.AgentKey
	for _, k := range h.keys {
		out = append(out, k)
	}
	return out, nil
}

// recHandler wraps every handler of a run: it records which method runs.
type recHandler struct {
	inner gensign.Handler
	idx   int
	run   *runCtx
	spec  HandlerSpec
}

func (h *recHandler) Name() string { return h.inner.Name() }

func (h *recHandler) Authenticate(p *csr.ReqParam) error {
	h.run.rec.add(core.GApp("EvAuth", core.GNat(h.idx)), fmt.Sprintf("Authenticate handler %d", h.idx))
	h.run.rec.setPhase(phase{PhAuth, h.idx})
	if h.spec.Regular && h.run.agent.Closed() && h.run.wouldDraw(p) {
		// the challenge is drawn but can no longer be observed on the wire
		h.run.sess.chal = append(h.run.sess.chal, h.run.sess.ids.Fresh())
	}
	return h.inner.Authenticate(p)
}

func (h *recHandler) Generate(p *csr.ReqParam) ([]csr.AgentKey, error) {
	h.run.rec.add(core.GApp("EvGen", core.GNat(h.idx)), fmt.Sprintf("Generate handler %d", h.idx))
	h.run.rec.setPhase(phase{PhGen, h.idx})
	keys, err := h.inner.Generate(p)
	var out []csr.AgentKey
	for i, k := range keys {
		out = append(out, &recKey{inner: k, idx: i, run: h.run})
	}
	if keys == nil {
		return nil, err
	}
	return out, err
}

type recKey struct {
	inner csr.AgentKey
	idx   int
	run   *runCtx
}

func (k *recKey) CSRs() []*proto.SSHCertificateSigningRequest { return k.inner.CSRs() }
func (k *recKey) AddCertsToAgent(certs []ssh.PublicKey, comments []string) error {
	k.run.rec.setPhase(phase{PhAdd, k.idx})
	return k.inner.AddCertsToAgent(certs, comments)
}

// ------------------------------------------------------------- session ----

const (
	FileUnreadable = iota
	FileUnparsable
	FileKey
)

type DirEntry struct {
	Name string
	Kind int
	Key  *PoolKey
	Text string // FileUnparsable: content; FileKey: optional prefix/suffix variations are applied by the builder
}

type IdentSpec struct {
	Key     *PoolKey // the private key stored
	Cert    bool     // a certificate over Key issued by a foreign CA
	Comment string
	Life    uint32
}

type RunSpec struct {
	Params   *csr.ReqParam
	Handlers []HandlerSpec
	Beh      Beh
	Faults   map[int]int
	Signer   []SOutSpec
	// CtxDone: the context handed to gensign.Run is already cancelled
	CtxDone bool
	// Dir: when non-nil, the content of the registered-key directory is replaced by these entries before the run
	// (keys are rotated, users are deregistered while the handlers live on); DirSet marks an explicit empty directory
	Dir    []DirEntry
	DirSet bool
	// Wire: the request as it arrives at the RA host - the forced command's argv and the environment sshd sets.
	// The parameters handed to gensign.Run are then the ones csr.NewReqParam derives from it (as cmd/gensign does);
	// Params holds what a correct reading of the same wire yields (the transaction id is taken over from the run).
	Wire *WireSpec
}

type WireSpec struct {
	Cmd     string // SSH_ORIGINAL_COMMAND
	LogName string
	Conn    string // SSH_CONNECTION
	Argv    []string
}

type SessionSpec struct {
	Dir    []DirEntry
	Store0 []IdentSpec
	Runs   []RunSpec
	// Reuse keeps the handler objects and the connection across runs (as long
	// as the connection is alive); otherwise every run builds new ones.
	Reuse bool
	// Decoy: a second, unrelated regular handler lives in the same process - built after the session's handlers, with its
	// own registered-key directory (every login name registered to the pool's last user key), a validity of one minute,
	// its own label and its own agent.  It generates a request for another login name in the middle of every signer call
	// of the session.  None of this is the session's business: its handlers keep their own directory, validity and requests.
	Decoy bool
}

// RunResult is what one run showed.
type RunResult struct {
	Kind      string // Gallina option gkind
	KindName  string
	Err       string
	Events    []Event
	StoreG    string
	Store     []string
	Crashed   bool
	CrashMsg  string
	ChalLens  []int
	SignerG   string
	SignerOut []string
	Requests  []*proto.SSHCertificateSigningRequest
	DirG      string // "None" or "(Some dir)": the directory written before this run
	// for the Go-side generation oracle: the certificates the mock CA issued in this run and the public blobs of the
	// agent's identities after it
	Issued     [][]byte
	StoreBlobs [][]byte
}

type Session struct {
	Spec     SessionSpec
	ids      *IDs
	pool     *Pool
	Agent    *ScriptedAgent
	dirPath  string
	chal     []uint64 // challenge ids in draw order
	keys     []uint64 // generated key ids in draw order
	Results  []RunResult
	Store0G  string
	DirG     string
	KeysG    []uint64
	BuildErr error
	curDir   []DirEntry // the directory as last written
	decoy    gensign.Handler
	decoyDir string
	// per run: the parameters csr.NewReqParam derived from the wire (nil when the run was given parameters directly)
	wireParams []*csr.ReqParam
}

type runCtx struct {
	sess   *Session
	rec    *Recorder
	agent  *ScriptedAgent
	params *csr.ReqParam
}

// wouldDraw: would regular.Authenticate reach the challenge draw for p?
func (r *runCtx) wouldDraw(p *csr.ReqParam) bool {
	if p == nil || p.NamespacePolicy != common.NoNamespace || p.Attrs == nil || p.Attrs.HardKey {
		return false
	}
	return r.sess.registeredParses(p.LogName)
}

func (s *Session) registeredParses(name string) bool {
	find := func(n string) *DirEntry {
		for i := range s.curDir {
			if s.curDir[i].Name == n {
				return &s.curDir[i]
			}
		}
		return nil
	}
	e := find(name + ".pub")
	if e == nil {
		e = find(name)
	}
	return e != nil && e.Kind == FileKey
}

// HandlerConfigJSON is the gensign configuration text for one regular handler.
func HandlerConfigJSON(dir string, validity *uint64, keyids [][2]string) string {
	return HandlerConfigJSONLabel(dir, validity, keyids, "")
}

// HandlerConfigJSONLabel: with the key_label option when label is not empty.
func HandlerConfigJSONLabel(dir string, validity *uint64, keyids [][2]string, label string) string {
	var b strings.Builder
	b.WriteString(`{"handlers":{"paranoids.regular":{"enable":true,"pub_key_dir":`)
	d, _ := json.Marshal(dir)
	b.Write(d)
	if validity != nil {
		fmt.Fprintf(&b, `,"cert_validity_sec":%d`, *validity)
	}
	if label != "" {
		l, _ := json.Marshal(label)
		b.WriteString(`,"key_label":`)
		b.Write(l)
	}
	b.WriteString(`,"key_identifiers":{`)
	for i, kv := range keyids {
		if i > 0 {
			b.WriteString(",")
		}
		k, _ := json.Marshal(kv[0])
		v, _ := json.Marshal(kv[1])
		b.Write(k)
		b.WriteString(":")
		b.Write(v)
	}
	b.WriteString(`}}}}`)
	return b.String()
}

// NewRegular builds the real regular handler from an in-memory configuration.
func NewRegular(dir string, validity *uint64, keyids [][2]string, conn net.Conn) (gensign.Handler, error) {
	return NewRegularLabel(dir, validity, keyids, "", conn)
}

func NewRegularLabel(dir string, validity *uint64, keyids [][2]string, label string, conn net.Conn) (gensign.Handler, error) {
	// through the application's own loader (config.NewGensignConfig: the file, its decoding, the defaults it fills in)
	f, err := os.CreateTemp("", "verif-gensign-conf-*.json")
	if err != nil {
		return nil, err
	}
	path := f.Name()
	defer os.Remove(path)
	if _, err := f.WriteString(HandlerConfigJSONLabel(dir, validity, keyids, label)); err != nil {
		f.Close()
		return nil, err
	}
	f.Close()
	gc, err := config.NewGensignConfig(path)
	if err != nil {
		return nil, err
	}
	return regular.NewHandler(gc, conn)
}

// buildDecoy: see SessionSpec.Decoy.
func (s *Session) buildDecoy(pool *Pool) error {
	if s.decoyDir == "" {
		d, err := os.MkdirTemp("", "verif-decoy-keys-")
		if err != nil {
			return err
		}
		s.decoyDir = d
		k := pool.Users[len(pool.Users)-1]
		for _, n := range append(append([]string{}, LogNames...), "root") {
			if err := os.WriteFile(filepath.Join(d, n+".pub"), ssh.MarshalAuthorizedKey(k.Pub), 0o644); err != nil {
				return err
			}
		}
	}
	c1, c2 := net.Pipe()
	go agent.ServeAgent(agent.NewKeyring(), c2)
	one := uint64(60)
	h, err := NewRegularLabel(s.decoyDir, &one, [][2]string{{"default", "decoy-slot"}, {"rsa", "decoy-slot"}}, "decoy", c1)
	if err != nil {
		return fmt.Errorf("decoy NewHandler: %v", err)
	}
	s.decoy = h
	return nil
}

func (s *Session) gDir(entries []DirEntry) string {
	var ditems []string
	for _, e := range entries {
		ditems = append(ditems, core.GPair(core.GStr(e.Name), gFile(s.ids, e)))
	}
	return core.GList(ditems)
}

// replaceDir empties the registered-key directory and writes the new entries.
func replaceDir(path string, entries []DirEntry, r *mrand.Rand) error {
	old, err := os.ReadDir(path)
	if err != nil {
		return err
	}
	for _, e := range old {
		if err := os.RemoveAll(filepath.Join(path, e.Name())); err != nil {
			return err
		}
	}
	return writeDir(path, entries, r)
}

func gFile(ids *IDs, e DirEntry) string {
	switch e.Kind {
	case FileUnreadable:
		return "Unreadable"
	case FileUnparsable:
		return "Unparsable"
	}
	return core.GApp("Key", core.GN(ids.Blob(e.Key.Pub.Marshal())))
}

// writeDir materialises the registered-key directory.
func writeDir(path string, entries []DirEntry, r *mrand.Rand) error {
	for _, e := range entries {
		p := filepath.Join(path, e.Name)
		switch e.Kind {
		case FileUnreadable:
			if err := os.Mkdir(p, 0o755); err != nil {
				return err
			}
		case FileUnparsable:
			if err := os.WriteFile(p, []byte(e.Text), 0o644); err != nil {
				return err
			}
		case FileKey:
			line := string(ssh.MarshalAuthorizedKey(e.Key.Pub))
			switch r.Intn(4) {
			case 0:
				line = strings.TrimSuffix(line, "\n") + " " + e.Key.Name + "@example\n"
			case 1:
				line = "# registered key\n\n" + line
			case 2:
				line = `no-pty,command="x y" ` + line
			}
			if err := os.WriteFile(p, []byte(line), 0o644); err != nil {
				return err
			}
		}
	}
	return nil
}

type liveHandlers struct {
	conn     net.Conn
	srvConn  net.Conn
	handlers []gensign.Handler // the real regular handlers, by position (nil for scripted)
	specs    []HandlerSpec
}

func sameRegularSpecs(a, b []HandlerSpec) bool {
	if len(a) != len(b) {
		return false
	}
	for i := range a {
		if a[i].Regular != b[i].Regular {
			return false
		}
		if !a[i].Regular {
			continue
		}
		if (a[i].Validity == nil) != (b[i].Validity == nil) || (a[i].Validity != nil && *a[i].Validity != *b[i].Validity) {
			return false
		}
		if fmt.Sprint(a[i].KeyIDs) != fmt.Sprint(b[i].KeyIDs) || a[i].KeyLabel != b[i].KeyLabel {
			return false
		}
	}
	return true
}

// Execute runs a session against the implementation.
func Execute(pool *Pool, spec SessionSpec, rng *mrand.Rand) *Session {
	s := &Session{Spec: spec, ids: NewIDs(), pool: pool}
	dir, err := os.MkdirTemp("", "verif-gensim-")
	if err != nil {
		s.BuildErr = err
		return s
	}
	defer os.RemoveAll(dir)
	s.dirPath = dir
	if err := writeDir(dir, spec.Dir, rng); err != nil {
		s.BuildErr = err
		return s
	}
	s.curDir = spec.Dir
	s.DirG = s.gDir(spec.Dir)

	s.Agent = NewScriptedAgent(s.ids, pool)
	s.Agent.onChal = func(id uint64) { s.chal = append(s.chal, id) }
	s.Agent.onKey = func(id uint64) { s.keys = append(s.keys, id) }
	for _, is := range spec.Store0 {
		id := &Identity{Pub: is.Key.Pub, Priv: is.Key.Priv, PrivPub: is.Key.Pub, Comment: is.Comment, Life: is.Life}
		if is.Cert {
			c := &ssh.Certificate{Key: is.Key.Pub, Serial: uint64(rng.Int63()), CertType: ssh.UserCert, KeyId: "foreign",
				ValidPrincipals: []string{"someone"}, ValidAfter: 0, ValidBefore: ssh.CertTimeInfinity}
			if err := c.SignCert(rand.Reader, pool.OtherCA.Signer); err != nil {
				s.BuildErr = err
				return s
			}
			id.Pub = c
		}
		// replace-on-same-blob, like Add
		dup := false
		for n, x := range s.Agent.Idents {
			if string(x.Pub.Marshal()) == string(id.Pub.Marshal()) {
				s.Agent.Idents[n] = id
				dup = true
			}
		}
		if !dup {
			s.Agent.Idents = append(s.Agent.Idents, id)
		}
	}
	s.Store0G, _ = s.Agent.Snapshot()

	var live *liveHandlers
	closeLive := func() {
		if live != nil {
			live.conn.Close()
			live.srvConn.Close()
			live = nil
		}
	}
	defer closeLive()

	for ri, rs := range spec.Runs {
		if rs.Wire != nil {
			w := rs.Wire
			env := map[string]string{"SSH_ORIGINAL_COMMAND": w.Cmd, "LOGNAME": w.LogName, "SSH_CONNECTION": w.Conn}
			var p *csr.ReqParam
			var perr error
			if pn, msg := core.Guard(func() {
				p, perr = csr.NewReqParam(func(k string) string { return env[k] }, func() []string { return w.Argv })
			}); pn {
				s.BuildErr = fmt.Errorf("csr.NewReqParam panicked: %s", msg)
				return s
			}
			if perr != nil || p == nil {
				s.BuildErr = fmt.Errorf("csr.NewReqParam refused a well-formed request (%q): %v", w.Cmd, perr)
				return s
			}
			// what is expected keeps its own reading of the wire; only the server-chosen transaction id is taken over
			spec2 := *rs.Params
			spec2.TransID = p.TransID
			s.Spec.Runs[ri].Params = &spec2
			s.wireParams = append(s.wireParams, p)
			rs.Params = p
		} else {
			s.wireParams = append(s.wireParams, nil)
		}
		rec := &Recorder{}
		rc := &runCtx{sess: s, rec: rec, agent: s.Agent, params: rs.Params}
		if !(spec.Reuse && live != nil && !s.Agent.Closed() && sameRegularSpecs(live.specs, rs.Handlers)) {
			closeLive()
			c1, c2 := net.Pipe()
			live = &liveHandlers{conn: c1, srvConn: c2, specs: rs.Handlers}
			go agent.ServeAgent(s.Agent, c2)
			for _, hs := range rs.Handlers {
				if !hs.Regular {
					live.handlers = append(live.handlers, nil)
					continue
				}
				h, err := NewRegularLabel(dir, hs.Validity, hs.KeyIDs, hs.KeyLabel, c1)
				if err != nil {
					s.BuildErr = fmt.Errorf("NewHandler: %v", err)
					return s
				}
				live.handlers = append(live.handlers, h)
			}
			if spec.Decoy {
				if err := s.buildDecoy(pool); err != nil {
					s.BuildErr = err
					return s
				}
			}
		}
		dirG := "None"
		if rs.Dir != nil || rs.DirSet {
			if err := replaceDir(dir, rs.Dir, rng); err != nil {
				s.BuildErr = err
				return s
			}
			s.curDir = rs.Dir
			dirG = "(Some " + s.gDir(rs.Dir) + ")"
		}
		s.Agent.BeginRun(rec, rs.Beh, rs.Faults, live.srvConn)
		signer := &MockSigner{ids: s.ids, pool: pool, rec: rec, Script: rs.Signer, decoy: s.decoy}
		var handlers []gensign.Handler
		csrNo := 0
		for i, hs := range rs.Handlers {
			var inner gensign.Handler
			if hs.Regular {
				inner = live.handlers[i]
			} else {
				sh := &scriptedHandler{spec: hs}
				for ki, ks := range hs.Keys {
					fk := &fakeKey{idx: ki, spec: ks, rec: rec, ids: s.ids, signer: signer}
					for c := 0; c < ks.NCSRs; c++ {
						kid, _ := json.Marshal(fmt.Sprintf("scripted-%d-%d", i, csrNo))
						csrNo++
						fk.csrs = append(fk.csrs, &proto.SSHCertificateSigningRequest{
							KeyMeta:    &proto.KeyMeta{Identifier: fmt.Sprintf("scripted-id-%d", ki)},
							Principals: []string{"scripted"}, Validity: 60,
							PublicKey: string(ssh.MarshalAuthorizedKey(pool.Foreign[2+ki%3].Pub)),
							KeyId:     string(kid),
						})
					}
					sh.keys = append(sh.keys, fk)
				}
				inner = sh
			}
			handlers = append(handlers, &recHandler{inner: inner, idx: i, run: rc, spec: hs})
		}
		chalBefore := len(s.Agent.ChalLens)
		var runErr error
		res := RunResult{DirG: dirG}
		res.Crashed, res.CrashMsg = core.Guard(func() {
			// a cancellable context with a deadline, as cmd/gensign passes
			ctx, cancel := context.WithTimeout(context.Background(), 2*time.Minute)
			defer cancel()
			signer.cancel = cancel
			if rs.CtxDone {
				cancel()
			}
			// the run gets its own copy: what is expected of it is stated from the parameters as they were
			// before it started (a run that rewrites its parameters must not rewrite the expectation)
			var given *csr.ReqParam
			if rs.Params != nil {
				cp := *rs.Params
				if rs.Params.Attrs != nil {
					a := *rs.Params.Attrs
					cp.Attrs = &a
				}
				given = &cp
			}
			runErr = gensign.Run(ctx, given, handlers, signer)
		})
		res.Kind, res.KindName = "None", "success"
		if runErr != nil {
			res.Err = runErr.Error()
			if len(res.Err) > 300 {
				res.Err = res.Err[:300]
			}
			res.Kind, res.KindName = "(Some KUntyped)", "untyped"
			for _, k := range AllKinds {
				if gensign.IsErrorOfType(runErr, k) {
					res.Kind, res.KindName = "(Some "+kindNames[k]+")", kindNames[k]
				}
			}
		}
		res.Events = rec.Events
		res.StoreG, res.Store = s.Agent.Snapshot()
		res.ChalLens = append([]int{}, s.Agent.ChalLens[chalBefore:]...)
		res.Issued = signer.Issued
		res.StoreBlobs = s.Agent.Blobs()
		res.SignerG = signer.GSignerScript()
		res.SignerOut = signer.Humans
		res.Requests = signer.Requests
		s.Results = append(s.Results, res)
	}
	return s
}

// ----------------------------------------------------------- rendering ----

func gParams(p *csr.ReqParam) string {
	if p == nil {
		return "None"
	}
	at := "None"
	if p.Attrs != nil {
		at = "(Some " + core.GApp("mkAttrs", core.GBool(p.Attrs.HardKey), core.GZ(int64(p.Attrs.CAPubKeyAlgo))) + ")"
	}
	return "(Some " + core.GApp("mkParams", core.GStr(string(p.NamespacePolicy)), core.GStr(p.LogName), core.GStr(p.ReqUser),
		core.GStr(p.ReqHost), core.GStr(p.ClientIP), core.GStr(p.TransID), at) + ")"
}

func (s *Session) gBeh(b Beh) string {
	switch b.Kind {
	case BHonest:
		if b.Key == nil {
			return "HonestWithoutKey"
		}
		return core.GApp("Honest", core.GN(s.ids.Blob(b.Key.Pub.Marshal())))
	case BHonestWithoutKey:
		return "HonestWithoutKey"
	case BSignsWith:
		return core.GApp("SignsWith", core.GN(s.ids.Blob(b.Key.Pub.Marshal())))
	case BSignsOther:
		return core.GApp("SignsOther", core.GN(s.ids.Data(b.Data)))
	case BReplay:
		return core.GApp("Replay", core.GNat(b.Index))
	case BGarbage:
		return "Garbage"
	case BEmpty:
		return "Empty"
	case BFail:
		return "Fail"
	}
	return "Close"
}

func gHandler(ids *IDs, pool *Pool, i int, hs HandlerSpec, csrNo *int) string {
	if hs.Regular {
		v, l := GRawConf(hs.Validity, hs.KeyIDs)
		return core.GApp("RegularRaw", v, l)
	}
	auth := "(HOk tt)"
	switch hs.Auth {
	case HErr:
		auth = "(HErr " + kindNames[hs.AuthKind] + ")"
	case HPanic:
		auth = "HPanic"
	}
	gen := ""
	switch hs.Gen {
	case HErr:
		gen = "(HErr " + kindNames[hs.GenKind] + ")"
	case HPanic:
		gen = "HPanic"
	default:
		var keys []string
		for ki, ks := range hs.Keys {
			var csrs []string
			for c := 0; c < ks.NCSRs; c++ {
				kid, _ := json.Marshal(fmt.Sprintf("scripted-%d-%d", i, *csrNo))
				*csrNo++
				csrs = append(csrs, GCsr(ids, &proto.SSHCertificateSigningRequest{
					KeyMeta:    &proto.KeyMeta{Identifier: fmt.Sprintf("scripted-id-%d", ki)},
					Principals: []string{"scripted"}, Validity: 60,
					PublicKey: string(ssh.MarshalAuthorizedKey(pool.Foreign[2+ki%3].Pub)),
					KeyId:     string(kid),
				}))
			}
			keys = append(keys, core.GApp("mkFkey", core.GList(csrs), core.GBool(ks.CSRsPanics), fresOf(ks.Add)))
		}
		gen = "(HOk " + core.GList(keys) + ")"
	}
	return core.GApp("Scripted", core.GBool(hs.NamePanics), auth, gen)
}

// Gallina renders the whole session as a GensignCheck.case.
func (s *Session) Gallina() string {
	var runs []string
	for n, rs := range s.Spec.Runs {
		res := s.Results[n]
		var hs []string
		csrNo := 0
		for i, h := range rs.Handlers {
			hs = append(hs, gHandler(s.ids, s.pool, i, h, &csrNo))
		}
		var faults []string
		var fk []int
		for k := range rs.Faults {
			fk = append(fk, k)
		}
		sort.Ints(fk)
		for _, k := range fk {
			f := "FFail"
			if rs.Faults[k] == FaultClose {
				f = "FClose"
			}
			faults = append(faults, core.GPair(core.GNat(k), f))
		}
		var evs []string
		for _, e := range res.Events {
			evs = append(evs, e.G)
		}
		obs := core.GApp("mkObs", res.Kind, core.GList(evs), res.StoreG)
		runs = append(runs, core.GApp("mkCRun", res.DirG, gParams(rs.Params), core.GList(hs), s.gBeh(rs.Beh), core.GList(faults), res.SignerG, obs))
	}
	var chal, keys []string
	for _, c := range s.chalStream() {
		chal = append(chal, core.GN(c))
	}
	for _, k := range s.keyStream() {
		keys = append(keys, core.GN(k))
	}
	return core.GApp("CSession", s.DirG, s.Store0G, core.GList(chal), core.GList(keys), core.GList(runs))
}

func (s *Session) chalStream() []uint64 { return s.chal }
func (s *Session) keyStream() []uint64  { return s.keys }

// Human renders the session for samples and replay files.
func (s *Session) Human() interface{} {
	var runs []interface{}
	for n, rs := range s.Spec.Runs {
		res := s.Results[n]
		var evs []string
		for _, e := range res.Events {
			evs = append(evs, e.Human)
		}
		var hs []string
		for _, h := range rs.Handlers {
			if h.Regular {
				v := "default"
				if h.Validity != nil {
					v = fmt.Sprint(*h.Validity)
				}
				hs = append(hs, fmt.Sprintf("regular(validity=%s key_identifiers=%q key_label=%q)", v, h.KeyIDs, h.KeyLabel))
			} else {
				hs = append(hs, fmt.Sprintf("scripted(namePanics=%v auth=%d gen=%d/%s keys=%+v)", h.NamePanics, h.Auth, h.Gen, kindNames[h.GenKind], h.Keys))
			}
		}
		var params interface{} = nil
		if rs.Params != nil {
			p := *rs.Params
			params = map[string]interface{}{"NamespacePolicy": p.NamespacePolicy, "LogName": p.LogName, "ReqUser": p.ReqUser, "ReqHost": p.ReqHost,
				"ClientIP": p.ClientIP, "TransID": p.TransID, "Attrs": p.Attrs}
		}
		runs = append(runs, map[string]interface{}{
			"params": params, "wire": rs.Wire, "handlers": hs, "agent_behaviour": BehNames[rs.Beh.Kind], "replay_index": rs.Beh.Index,
			"agent_faults": rs.Faults, "signer_script": rs.Signer,
			"key_dir_replaced_before_run": dirHuman(rs.Dir, rs.Dir != nil || rs.DirSet),
			"result":                      res.KindName, "error": res.Err, "events": evs, "signer_returned": res.SignerOut, "agent_after": res.Store,
		})
	}
	dir := dirHuman(s.Spec.Dir, true)
	var st0 []string
	for _, i := range s.Spec.Store0 {
		st0 = append(st0, fmt.Sprintf("%s cert=%v %q life=%d", i.Key.Name, i.Cert, i.Comment, i.Life))
	}
	return map[string]interface{}{"key_dir": dir, "agent_before": st0, "reuse_handlers": s.Spec.Reuse, "runs": runs}
}

func dirHuman(entries []DirEntry, set bool) interface{} {
	if !set {
		return nil
	}
	dir := []string{}
	for _, e := range entries {
		k := []string{"unreadable(directory)", "unparsable", "key"}[e.Kind]
		if e.Kind == FileKey {
			k += ":" + e.Key.Name
		}
		dir = append(dir, e.Name+" = "+k)
	}
	return dir
}

// Imports is the Coq import line of the case files.
const Imports = "From Verif Require Import Lib.Base Lib.Json Model.KeyId Model.HandlerConf Model.Gensign Model.GensignCheck."

// Params builds a request parameter set.
func Params(ns, logname, requser, reqhost, ip, transid string, hard bool, algo int, nilAttrs bool) *csr.ReqParam {
	p := &csr.ReqParam{NamespacePolicy: common.NamespacePolicy(ns), HandlerName: "regular", ClientIP: ip, LogName: logname,
		ReqUser: requser, ReqHost: reqhost, TransID: transid}
	if !nilAttrs {
		p.Attrs = &message.Attributes{Username: requser, Hostname: reqhost, HardKey: hard, CAPubKeyAlgo: x509.PublicKeyAlgorithm(algo)}
	}
	return p
}
