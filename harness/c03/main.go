// Command c03 is the C03 correspondence harness: sessions of gensign.Run
// against a scripted agent, mock signer and scripted handlers (package gensim),
// evaluated in Coq by Model/C03Check.v.
package main

import (
	"verifharness/core"
	"verifharness/gensim"
)

func main() {
	core.Main("C03", &core.Driver{
		Imports:   gensim.Imports + "\nFrom Verif Require Import Model.C03Check.",
		CheckFn:   "C03Check.check",
		ClassFn:   "C03Check.classify",
		CaseType:  "C03Check.case",
		ShardSize: 60,
		Run:       func(c *core.Ctx) { gensim.NewGen(c, "C03").DriveC03() },
	})
}
