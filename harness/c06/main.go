// C06 correspondence harness: (*Attestor).Attest against Model.Pkcs1.attest and
// the property oracle (Model.C06Check), on slot certificates whose signature is
// EM^d mod N for a CHOSEN encoded message EM.
package main

import (
	"crypto"
	"crypto/ecdsa"
	"crypto/elliptic"
	"crypto/md5"
	crand "crypto/rand"
	"crypto/rsa"
	"crypto/sha1"
	"crypto/sha256"
	"crypto/sha512"
	"crypto/x509"
	"crypto/x509/pkix"
	"encoding/hex"
	"encoding/pem"
	"errors"
	"fmt"
	"math/big"
	"math/rand"
	"os"
	"path/filepath"
	"strings"
	"time"

	"github.com/theparanoids/ysshra/attestation/yubiattest"
	"verifharness/core"
)

// the harness-made "system" CA: crypto/x509's system pool is pointed at it before anything can load the host's
// roots, so that an attestor which falls back to the system trust store is observable
var (
	sysKey  *rsa.PrivateKey
	sysCert *x509.Certificate
	sysDir  string
)

func setupSystemRoots() {
	var err error
	sysDir, err = os.MkdirTemp("", "verif-c06-sys-")
	if err != nil {
		panic(err)
	}
	sysKey, err = rsa.GenerateKey(crand.Reader, 2048)
	if err != nil {
		panic(err)
	}
	t := &x509.Certificate{SerialNumber: big.NewInt(77), Subject: pkix.Name{CommonName: "harness system-trusted CA"},
		NotBefore: time.Now().Add(-time.Hour), NotAfter: time.Now().Add(24 * time.Hour), IsCA: true, BasicConstraintsValid: true,
		KeyUsage: x509.KeyUsageCertSign | x509.KeyUsageDigitalSignature}
	der, err := x509.CreateCertificate(crand.Reader, t, t, &sysKey.PublicKey, sysKey)
	if err != nil {
		panic(err)
	}
	sysCert, _ = x509.ParseCertificate(der)
	file := filepath.Join(sysDir, "system-roots.pem")
	if err := os.WriteFile(file, pem.EncodeToMemory(&pem.Block{Type: "CERTIFICATE", Bytes: der}), 0o600); err != nil {
		panic(err)
	}
	empty := filepath.Join(sysDir, "empty-dir")
	_ = os.Mkdir(empty, 0o755)
	os.Setenv("SSL_CERT_FILE", file)
	os.Setenv("SSL_CERT_DIR", empty)
}

func main() {
	setupSystemRoots()
	defer os.RemoveAll(sysDir)
	core.Main("C06", &core.Driver{
		Imports:   "From Verif Require Import Lib.Base Lib.Bytes Model.Pkcs1 Model.C06Check.",
		CheckFn:   "C06Check.check",
		ClassFn:   "C06Check.classify",
		CaseType:  "C06Check.case",
		Run:       run,
		ShardSize: 150,
	})
}

// ---- deterministic key generation (every choice from c.Rng) -----------------

type rngReader struct{ r *rand.Rand }

func (x rngReader) Read(p []byte) (int, error) { return x.r.Read(p) }

var bigOne = big.NewInt(1)

func genPrime(r *rand.Rand, bits int) *big.Int { return genPrimeE(r, bits, 65537) }

func genPrimeE(r *rand.Rand, bits int, exp int64) *big.Int {
	e := big.NewInt(exp)
	buf := make([]byte, (bits+7)/8)
	for {
		r.Read(buf)
		p := new(big.Int).SetBytes(buf)
		for i := p.BitLen() - 1; i >= bits; i-- {
			p.SetBit(p, i, 0)
		}
		p.SetBit(p, bits-1, 1)
		p.SetBit(p, bits-2, 1)
		p.SetBit(p, 0, 1)
		if !p.ProbablyPrime(20) {
			continue
		}
		pm1 := new(big.Int).Sub(p, bigOne)
		if new(big.Int).GCD(nil, nil, pm1, e).Cmp(bigOne) != 0 {
			continue
		}
		return p
	}
}

func genRSA(r *rand.Rand, bits int) *rsa.PrivateKey { return genRSAE(r, bits, 65537) }

// genRSAE: a key pair with the given public exponent.
func genRSAE(r *rand.Rand, bits int, exp int64) *rsa.PrivateKey {
	for {
		p := genPrimeE(r, (bits+1)/2, exp)
		q := genPrimeE(r, bits-(bits+1)/2, exp)
		if p.Cmp(q) == 0 {
			continue
		}
		n := new(big.Int).Mul(p, q)
		if n.BitLen() != bits {
			continue
		}
		phi := new(big.Int).Mul(new(big.Int).Sub(p, bigOne), new(big.Int).Sub(q, bigOne))
		d := new(big.Int).ModInverse(big.NewInt(exp), phi)
		if d == nil {
			continue
		}
		k := &rsa.PrivateKey{PublicKey: rsa.PublicKey{N: n, E: int(exp)}, D: d, Primes: []*big.Int{p, q}}
		if exp == 65537 {
			k.Precompute()
		}
		return k
	}
}

// ---- tables written from the standards (independent of /repo) ---------------

type hashSpec struct {
	name    string
	h       crypto.Hash
	withNul []byte // DigestInfo header, NULL parameter present
	without []byte // NULL parameter absent
	rsaAlgo x509.SignatureAlgorithm
}

func unhex(s string) []byte {
	b, err := hex.DecodeString(s)
	if err != nil {
		panic(err)
	}
	return b
}

var hashes = []hashSpec{
	{"SHA1", crypto.SHA1, unhex("3021300906052b0e03021a05000414"), unhex("301f300706052b0e03021a0414"), x509.SHA1WithRSA},
	{"SHA256", crypto.SHA256, unhex("3031300d060960864801650304020105000420"), unhex("302f300b06096086480165030402010420"), x509.SHA256WithRSA},
	{"SHA384", crypto.SHA384, unhex("3041300d060960864801650304020205000430"), unhex("303f300b06096086480165030402020430"), x509.SHA384WithRSA},
	{"SHA512", crypto.SHA512, unhex("3051300d060960864801650304020305000440"), unhex("304f300b06096086480165030402030440"), x509.SHA512WithRSA},
}
var md5Spec = hashSpec{"MD5", crypto.MD5, unhex("3020300c06082a864886f70d020505000410"), unhex("301e300a06082a864886f70d02050410"), x509.MD5WithRSA}

func hashSpecOfLabel(l int) *hashSpec {
	switch l {
	case 3, 7, 9:
		return &hashes[0]
	case 4, 8, 10:
		return &hashes[1]
	case 5, 11:
		return &hashes[2]
	case 6, 12:
		return &hashes[3]
	case 1, 2:
		return &md5Spec
	}
	return nil
}

func digestsOf(body []byte) map[string][]byte {
	m := md5.Sum(body)
	s1 := sha1.Sum(body)
	s256 := sha256.Sum256(body)
	s384 := sha512.Sum384(body)
	s512 := sha512.Sum512(body)
	return map[string][]byte{"MD5": m[:], "SHA1": s1[:], "SHA256": s256[:], "SHA384": s384[:], "SHA512": s512[:]}
}

var digestOrder = []string{"MD5", "SHA1", "SHA256", "SHA384", "SHA512"}

// buildEM: 00 01 FF..FF 00 prefix digest, of length k (nil when it does not fit with at least one FF... any run >= 0).
func buildEM(k int, prefix, digest []byte) []byte {
	n := k - len(prefix) - len(digest) - 3
	if n < 0 {
		return nil
	}
	em := make([]byte, 0, k)
	em = append(em, 0, 1)
	for i := 0; i < n; i++ {
		em = append(em, 0xff)
	}
	em = append(em, 0)
	em = append(em, prefix...)
	em = append(em, digest...)
	return em
}

// errText renders an error without the wall-clock time x509 puts into validity errors.
func errText(err error) string {
	t := fmt.Sprint(err)
	if i := strings.Index(t, "current time"); i >= 0 {
		t = t[:i] + "current time ..."
	}
	return t
}

func leftPad(b []byte, k int) []byte {
	out := make([]byte, k)
	n := len(b)
	if n > k {
		n = k
	}
	copy(out[k-n:], b[len(b)-n:])
	return out
}

// ---- the PKI ----------------------------------------------------------------

type device struct {
	name    string
	cert    *x509.Certificate
	rsaKey  *rsa.PrivateKey // nil for the ECDSA device
	chainOK bool
}

func mustCert(der []byte, err error) *x509.Certificate {
	if err != nil {
		panic(err)
	}
	c, err := x509.ParseCertificate(der)
	if err != nil {
		panic(err)
	}
	return c
}

func run(c *core.Ctx) {
	r := c.Rng
	rd := rngReader{r}
	now := time.Now()

	caTmpl := func(cn string, serial int64) *x509.Certificate {
		return &x509.Certificate{SerialNumber: big.NewInt(serial), Subject: pkix.Name{CommonName: cn},
			NotBefore: now.Add(-24 * time.Hour), NotAfter: now.Add(10 * 365 * 24 * time.Hour),
			IsCA: true, BasicConstraintsValid: true, KeyUsage: x509.KeyUsageCertSign | x509.KeyUsageDigitalSignature}
	}
	rootKey := genRSA(r, 2048)
	rootT := caTmpl("verif PIV Root CA", 1)
	root := mustCert(x509.CreateCertificate(rd, rootT, rootT, &rootKey.PublicKey, rootKey))
	otherKey := genRSA(r, 2048)
	otherT := caTmpl("verif other CA", 2)
	other := mustCert(x509.CreateCertificate(rd, otherT, otherT, &otherKey.PublicKey, otherKey))

	pool := x509.NewCertPool()
	pool.AddCert(root)
	attestor := yubiattest.NewAttestorWithCAPool(pool)

	serial := int64(100)
	devCert := func(cn string, pub interface{}, parent *x509.Certificate, signer *rsa.PrivateKey, nb, na time.Time) *x509.Certificate {
		serial++
		t := &x509.Certificate{SerialNumber: big.NewInt(serial), Subject: pkix.Name{CommonName: cn},
			NotBefore: nb, NotAfter: na, KeyUsage: x509.KeyUsageCertSign | x509.KeyUsageDigitalSignature,
			IsCA: true, BasicConstraintsValid: true}
		if parent == nil { // self-signed
			return mustCert(x509.CreateCertificate(rd, t, t, pub, signer))
		}
		return mustCert(x509.CreateCertificate(rd, t, parent, pub, signer))
	}
	okNB, okNA := now.Add(-time.Hour), now.Add(5*365*24*time.Hour)

	bitSizes := []int{1024, 2048}
	if c.Thorough() {
		bitSizes = append(bitSizes, 3072, 4096)
	}
	var good []*device
	for _, b := range bitSizes {
		k := genRSA(r, b)
		good = append(good, &device{fmt.Sprintf("rsa%d-by-root", b), devCert(fmt.Sprintf("f9 rsa %d", b), &k.PublicKey, root, rootKey, okNB, okNA), k, true})
	}
	k1024 := good[0].rsaKey
	related := []*device{
		{"rsa1024-by-other-ca", devCert("f9 other", &k1024.PublicKey, other, otherKey, okNB, okNA), k1024, false},
		{"rsa1024-self-signed", devCert("f9 self", &k1024.PublicKey, nil, k1024, okNB, okNA), k1024, false},
		{"rsa1024-expired", devCert("f9 expired", &k1024.PublicKey, root, rootKey, now.Add(-48*time.Hour), now.Add(-time.Hour)), k1024, false},
		{"rsa1024-not-yet-valid", devCert("f9 future", &k1024.PublicKey, root, rootKey, now.Add(24*time.Hour), now.Add(48*time.Hour)), k1024, false},
	}
	// an impostor that shares issuer NAME and SERIAL NUMBER with a genuine device certificate: issued by a CA with the
	// root's subject name but another key (a verifier that remembers "already verified" by issuer + serial would accept it)
	fakeKey := genRSA(r, 2048)
	fakeRootT := caTmpl("verif PIV Root CA", 1)
	fakeRoot := mustCert(x509.CreateCertificate(rd, fakeRootT, fakeRootT, &fakeKey.PublicKey, fakeKey))
	impKey := genRSA(r, 1024)
	impT := &x509.Certificate{SerialNumber: new(big.Int).Set(good[0].cert.SerialNumber), Subject: good[0].cert.Subject,
		NotBefore: okNB, NotAfter: okNA, KeyUsage: x509.KeyUsageCertSign | x509.KeyUsageDigitalSignature, IsCA: true, BasicConstraintsValid: true}
	related = append(related, &device{"rsa1024-impostor-same-issuer-and-serial", mustCert(x509.CreateCertificate(rd, impT, fakeRoot, &impKey.PublicKey, fakeKey)), impKey, false})
	// deterministic P-256 key (ecdsa.GenerateKey reads a random number of bytes from its reader)
	ecD := make([]byte, 32)
	r.Read(ecD)
	ecD[0] &= 0x7f
	ecD[31] |= 1
	ecX, ecY := elliptic.P256().ScalarBaseMult(ecD)
	ecPub := &ecdsa.PublicKey{Curve: elliptic.P256(), X: ecX, Y: ecY}
	ecDev := &device{"ecdsa-p256-by-root", devCert("f9 ec", ecPub, root, rootKey, okNB, okNA), nil, true}
	var small []*device
	for _, b := range []int{488, 496, 512} {
		k := genRSA(r, b)
		small = append(small, &device{fmt.Sprintf("rsa%d-by-root", b), devCert(fmt.Sprintf("f9 rsa %d", b), &k.PublicKey, root, rootKey, okNB, okNA), k, true})
	}

	newBody := func() []byte {
		b := make([]byte, 40+r.Intn(260))
		r.Read(b)
		return b
	}

	// slotNotBefore: the claimed generation time of the slot certificate of the next cases (zero = unset)
	var slotNotBefore time.Time
	// emit runs Attest on a slot certificate with the given signature bytes.
	emit := func(class string, d *device, label int, body, sig []byte, note string) {
		if c.Skip() {
			return
		}
		slot := &x509.Certificate{SignatureAlgorithm: x509.SignatureAlgorithm(label), RawTBSCertificate: body, Signature: sig, NotBefore: slotNotBefore}
		var aerr error
		obs := ""
		if p, msg := core.Guard(func() { aerr = attestor.Attest(d.cert, slot) }); p {
			obs = "OPanic"
			c.Stat("panic")
			_ = msg
		} else {
			var ins x509.InsecureAlgorithmError
			var ua x509.UnknownAuthorityError
			var ci x509.CertificateInvalidError
			switch {
			case aerr == nil:
				obs = "OOk"
			case errors.Is(aerr, rsa.ErrVerification):
				obs = "OVerification"
			case errors.As(aerr, &ins):
				obs = "OInsecure"
			case errors.Is(aerr, x509.ErrUnsupportedAlgorithm):
				obs = "OUnsupported"
			case errors.As(aerr, &ua), errors.As(aerr, &ci):
				obs = "OChain"
			default:
				obs = "OOther"
			}
		}
		c.Stat("obs-" + obs)
		key := "KOther"
		kk := 0
		var em []byte
		if d.rsaKey != nil {
			pub := &d.rsaKey.PublicKey
			kk = (pub.N.BitLen() + 7) / 8
			m := new(big.Int).Exp(new(big.Int).SetBytes(sig), big.NewInt(int64(pub.E)), pub.N)
			em = leftPad(m.Bytes(), kk)
			key = core.GApp("KRsa", core.GNat(kk), core.GBytes(em))
		}
		ds := digestsOf(body)
		var dl []string
		for _, n := range digestOrder {
			dl = append(dl, core.GPair(core.GStr(n), core.GBytes(ds[n])))
		}
		g := core.GApp("CAttest", core.GBool(d.chainOK), core.GN(uint64(label)), core.GList(dl), key, obs)
		c.Case(class, g, map[string]interface{}{"device": d.name, "label": label, "k": kk, "em": hex.EncodeToString(em),
			"body": hex.EncodeToString(body), "signature": hex.EncodeToString(sig), "observed": obs, "err": errText(aerr), "note": note})
	}
	// signEM: the signature whose public operation yields em (when em < N).
	signEM := func(d *device, em []byte) []byte {
		k := (d.rsaKey.N.BitLen() + 7) / 8
		m := new(big.Int).SetBytes(em)
		m.Mod(m, d.rsaKey.N)
		s := new(big.Int).Exp(m, d.rsaKey.D, d.rsaKey.N)
		return leftPad(s.Bytes(), k)
	}
	emitEM := func(class string, d *device, label int, body, em []byte, note string) {
		if em == nil {
			return
		}
		if c.Only >= 0 && c.NextIndex() != c.Only { // replay: skip the private-key operation
			c.Skip()
			return
		}
		emit(class, d, label, body, signEM(d, em), note)
	}

	// (1) valid blocks, both identifier encodings, every hash, every good key; and mutations of them
	for _, d := range good {
		k := (d.rsaKey.N.BitLen() + 7) / 8
		for hi := range hashes {
			hs := &hashes[hi]
			label := int(hs.rsaAlgo)
			body := newBody()
			dg := digestsOf(body)[hs.name]
			for pi, prefix := range [][]byte{hs.withNul, hs.without} {
				base := buildEM(k, prefix, dg)
				emitEM("valid", d, label, body, base, fmt.Sprintf("%s prefix%d", hs.name, pi+1))
				ffEnd := k - len(prefix) - len(dg) - 1 // index of the 00 separator
				// every byte position replaced
				var positions []int
				if c.Thorough() && k <= 256 {
					for i := 0; i < k; i++ {
						positions = append(positions, i)
					}
				} else {
					positions = []int{0, 1, 2, 3, ffEnd - 1, ffEnd, ffEnd + 1, ffEnd + 2, ffEnd + len(prefix) - 1, ffEnd + len(prefix), k - len(dg), k - 1,
						2 + r.Intn(ffEnd-2), 2 + r.Intn(ffEnd-2), ffEnd + 1 + r.Intn(len(prefix)), k - len(dg) + r.Intn(len(dg))}
					// the bytes that differ between the two encodings: sequence lengths and the NULL
					positions = append(positions, ffEnd+2, ffEnd+4)
				}
				for _, pos := range positions {
					vals := []byte{0x00, 0xff, base[pos] + 1, base[pos] - 1}
					if !(c.Thorough() && k <= 256) {
						vals = []byte{vals[r.Intn(4)], vals[r.Intn(4)]}
					}
					seen := map[byte]bool{base[pos]: true}
					for _, v := range vals {
						if seen[v] {
							continue
						}
						seen[v] = true
						em := append([]byte(nil), base...)
						em[pos] = v
						emitEM("byte-replaced", d, label, body, em, fmt.Sprintf("%s prefix%d pos %d: %02x -> %02x", hs.name, pi+1, pos, base[pos], v))
					}
				}
				// padding shortened, the rest moved towards the front, filler at the end
				for _, j := range []int{1, 2, 8, ffEnd - 2 - 8, ffEnd - 2} {
					if j <= 0 || j > ffEnd-2 {
						continue
					}
					em := append([]byte(nil), base[:ffEnd-j]...)
					em = append(em, base[ffEnd:]...)
					for len(em) < k {
						em = append(em, byte(r.Intn(256)))
					}
					emitEM("padding-shortened", d, label, body, em, fmt.Sprintf("%s prefix%d FF run shortened by %d, garbage appended", hs.name, pi+1, j))
				}
				// the same DigestInfo in encodings a lenient ASN.1 reader would take for it: extra octets inside either
				// SEQUENCE (lengths raised to match, padding shortened), long-form and indefinite lengths, a NULL with
				// content, other parameter types - none of them is the encoded message the property names
				if c.Thorough() || (hi+pi)%2 == 0 {
					oid := prefix[4 : 6+int(prefix[5])]
					tlv := func(tag byte, content []byte, longForm bool) []byte {
						if longForm || len(content) > 127 {
							return append([]byte{tag, 0x81, byte(len(content))}, content...)
						}
						return append([]byte{tag, byte(len(content))}, content...)
					}
					cat := func(parts ...[]byte) []byte {
						var o []byte
						for _, p := range parts {
							o = append(o, p...)
						}
						return o
					}
					null := []byte{5, 0}
					if pi == 1 {
						null = nil
					}
					oct := tlv(4, dg, false)
					type variant struct {
						name string
						di   []byte
					}
					vs := []variant{
						{"one extra octet at the end of the AlgorithmIdentifier", tlv(0x30, cat(tlv(0x30, cat(oid, null, []byte{0}), false), oct), false)},
						{"a second NULL at the end of the AlgorithmIdentifier", tlv(0x30, cat(tlv(0x30, cat(oid, null, []byte{5, 0}), false), oct), false)},
						{"eight extra octets at the end of the AlgorithmIdentifier", tlv(0x30, cat(tlv(0x30, cat(oid, null, []byte{4, 6, 1, 2, 3, 4, 5, 6}), false), oct), false)},
						{"extra octets after the digest inside the DigestInfo", tlv(0x30, cat(tlv(0x30, cat(oid, null), false), oct, []byte{5, 0}), false)},
						{"long-form length of the DigestInfo", tlv(0x30, cat(tlv(0x30, cat(oid, null), false), oct), true)},
						{"long-form length of the AlgorithmIdentifier", tlv(0x30, cat(tlv(0x30, cat(oid, null), true), oct), false)},
						{"long-form length of the digest", tlv(0x30, cat(tlv(0x30, cat(oid, null), false), tlv(4, dg, true)), false)},
						{"NULL with one content octet", tlv(0x30, cat(tlv(0x30, cat(oid, []byte{5, 1, 0}), false), oct), false)},
						{"parameters: an empty OCTET STRING", tlv(0x30, cat(tlv(0x30, cat(oid, []byte{4, 0}), false), oct), false)},
						{"indefinite-length DigestInfo", cat([]byte{0x30, 0x80}, tlv(0x30, cat(oid, null), false), oct, []byte{0, 0})},
					}
					for _, v := range vs {
						emitEM("digestinfo-reencoded", d, label, body, buildEM(k, nil, v.di), fmt.Sprintf("%s prefix%d: %s", hs.name, pi+1, v.name))
					}
				}
				// one FF replaced by 00 right before the separator / right after the block type
				{
					em := append([]byte{0}, base[:k-1]...) // shifted right: 00 00 01 FF.. (digest loses its last byte)
					emitEM("padding-shifted", d, label, body, em, "whole block shifted right by one")
					em = append([]byte(nil), base[1:]...) // shifted left
					em = append(em, 0)
					emitEM("padding-shifted", d, label, body, em, "whole block shifted left by one")
					// shorter run, 00 moved earlier, identifier and digest in place (one more 00)
					em = append([]byte(nil), base...)
					em[ffEnd-1] = 0
					emitEM("padding-shortened", d, label, body, em, "last FF replaced by 00")
				}
				// wrong separator
				for _, v := range []byte{0x01, 0xff, 0x80} {
					em := append([]byte(nil), base...)
					em[ffEnd] = v
					emitEM("wrong-separator", d, label, body, em, fmt.Sprintf("separator %02x", v))
				}
				// identifier of another hash in front of this digest
				for oi := range hashes {
					if oi == hi {
						continue
					}
					op := hashes[oi].withNul
					if pi == 1 {
						op = hashes[oi].without
					}
					emitEM("other-identifier", d, label, body, buildEM(k, op, dg), fmt.Sprintf("identifier of %s, digest %s", hashes[oi].name, hs.name))
				}
				// a valid block for another hash of the same body under this label
				{
					o := &hashes[(hi+1)%len(hashes)]
					emitEM("other-hash-block", d, label, body, buildEM(k, o.withNul, digestsOf(body)[o.name]), "valid block of "+o.name)
				}
				// digest bit flips
				nflip := c.N(3, 24)
				for i := 0; i < nflip; i++ {
					em := append([]byte(nil), base...)
					bit := r.Intn(len(dg) * 8)
					em[k-len(dg)+bit/8] ^= 1 << uint(bit%8)
					emitEM("digest-bit-flip", d, label, body, em, fmt.Sprintf("digest bit %d", bit))
				}
				// single-bit flips of the signature and of the body
				sig := signEM(d, base)
				for i, n := 0, c.N(3, 40); i < n; i++ {
					s2 := append([]byte(nil), sig...)
					bit := r.Intn(len(s2) * 8)
					s2[bit/8] ^= 1 << uint(bit%8)
					emit("signature-bit-flip", d, label, body, s2, fmt.Sprintf("signature bit %d", bit))
				}
				for i, n := 0, c.N(2, 40); i < n; i++ {
					b2 := append([]byte(nil), body...)
					bit := r.Intn(len(b2) * 8)
					b2[bit/8] ^= 1 << uint(bit%8)
					emit("body-bit-flip", d, label, b2, sig, fmt.Sprintf("body bit %d", bit))
				}
				// the same signature value with leading zero bytes (same value; accepted) and value + N
				if pi == 0 && hi == 1 {
					emit("signature-same-value", d, label, body, append([]byte{0, 0}, sig...), "two leading zero bytes")
					v := new(big.Int).Add(new(big.Int).SetBytes(sig), d.rsaKey.N)
					emit("signature-same-value", d, label, body, v.Bytes(), "signature + N")
					emit("signature-empty", d, label, body, nil, "empty signature")
				}
			}
		}
	}

	// (2) every signature-algorithm label 0..17, with a block that is valid for the hash the label names
	for _, d := range good[:c.N(2, len(good))] {
		k := (d.rsaKey.N.BitLen() + 7) / 8
		for label := 0; label <= 17; label++ {
			body := newBody()
			hs := hashSpecOfLabel(label)
			if hs == nil {
				hs = &hashes[1]
			}
			dg := digestsOf(body)[hs.name]
			emitEM("every-label", d, label, body, buildEM(k, hs.withNul, dg), fmt.Sprintf("label %d with a valid %s block (NULL present)", label, hs.name))
			emitEM("every-label", d, label, body, buildEM(k, hs.without, dg), fmt.Sprintf("label %d with a valid %s block (NULL absent)", label, hs.name))
		}
		for _, label := range []int{-1, 18, 255, 1 << 20} {
			body := newBody()
			emitEM("every-label", d, label&0x7fffffff, body, buildEM(k, hashes[1].withNul, digestsOf(body)["SHA256"]), "out-of-range label")
		}
		// every label with blocks that carry no digest algorithm identifier: the to-be-signed bytes themselves
		// (short enough to fit, as for a signature made "directly" over the data), and a bare digest
		for label := 0; label <= 17; label++ {
			for _, n := range []int{1, 32, k - 11, k - 12} {
				if n < 1 {
					continue
				}
				body := make([]byte, n)
				r.Read(body)
				body[0] = 0x30
				emitEM("every-label-raw-body-block", d, label, body, buildEM(k, nil, body), fmt.Sprintf("label %d, block 00 01 FF..FF 00 || the %d to-be-signed bytes, no identifier", label, n))
			}
			body := newBody()
			for _, hn := range digestOrder {
				emitEM("every-label-bare-digest-block", d, label, body, buildEM(k, nil, digestsOf(body)[hn]), fmt.Sprintf("label %d, block 00 01 FF..FF 00 || %s digest, no identifier", label, hn))
			}
		}
	}

	// (2') device keys with other public exponents (3, 17, beyond 32 bits): a valid block under each hash, the
	// encoded message itself presented as the "signature" (valid only if the exponent were 1), and a damaged block
	for _, exp := range []int64{3, 17, 1<<32 + 1, 1<<33 + 1<<32 + 1, 1<<40 + 65537} {
		k := genRSAE(r, 1024, exp)
		d := &device{fmt.Sprintf("rsa1024-exponent-%d-by-root", exp), devCert(fmt.Sprintf("f9 rsa e=%d", exp), &k.PublicKey, root, rootKey, okNB, okNA), k, true}
		kk := (k.N.BitLen() + 7) / 8
		for hi := range hashes {
			hs := &hashes[hi]
			body := newBody()
			em := buildEM(kk, hs.withNul, digestsOf(body)[hs.name])
			emitEM("exponent-valid", d, int(hs.rsaAlgo), body, em, fmt.Sprintf("e=%d, valid %s block", exp, hs.name))
			emit("exponent-block-as-signature", d, int(hs.rsaAlgo), body, em, fmt.Sprintf("e=%d, the encoded message itself as the signature value", exp))
			bad := append([]byte(nil), em...)
			bad[len(bad)-1] ^= 1
			emitEM("exponent-damaged", d, int(hs.rsaAlgo), body, bad, fmt.Sprintf("e=%d, last digest bit flipped", exp))
		}
	}

	// (2'') the attestor as the application builds it, from two root files: whatever files are named (also none, a
	// missing one, an empty one, one without a certificate), an attestor that IS returned accepts only device
	// certificates chaining to the certificates in those files - never the host's trust store
	{
		dir, err := os.MkdirTemp("", "verif-c06-roots-")
		if err == nil {
			pemOf := func(cr *x509.Certificate) []byte {
				return pem.EncodeToMemory(&pem.Block{Type: "CERTIFICATE", Bytes: cr.Raw})
			}
			write := func(name string, data []byte) string {
				p := filepath.Join(dir, name)
				_ = os.WriteFile(p, data, 0o600)
				return p
			}
			rootFile, otherFile := write("root.pem", pemOf(root)), write("other.pem", pemOf(other))
			emptyFile, textFile := write("empty.pem", nil), write("text.pem", []byte("no certificate here\n"))
			missing := filepath.Join(dir, "missing.pem")
			kSys := genRSA(r, 1024)
			serial++
			tSys := &x509.Certificate{SerialNumber: big.NewInt(serial), Subject: pkix.Name{CommonName: "f9 issued by the system-trusted CA"},
				NotBefore: okNB, NotAfter: okNA, KeyUsage: x509.KeyUsageCertSign | x509.KeyUsageDigitalSignature, IsCA: true, BasicConstraintsValid: true}
			devSys := mustCert(x509.CreateCertificate(rd, tSys, sysCert, &kSys.PublicKey, sysKey))
			slotFor := func(k *rsa.PrivateKey) *x509.Certificate {
				body := newBody()
				kk := (k.N.BitLen() + 7) / 8
				em := buildEM(kk, hashes[1].withNul, digestsOf(body)["SHA256"])
				m := new(big.Int).SetBytes(em)
				sg := new(big.Int).Exp(m, k.D, k.N)
				return &x509.Certificate{SignatureAlgorithm: x509.SHA256WithRSA, RawTBSCertificate: body, Signature: leftPad(sg.Bytes(), kk)}
			}
			pairs := [][2]string{{"", ""}, {rootFile, ""}, {"", rootFile}, {rootFile, rootFile}, {rootFile, otherFile}, {otherFile, otherFile},
				{missing, rootFile}, {rootFile, missing}, {emptyFile, rootFile}, {rootFile, emptyFile}, {textFile, textFile}, {emptyFile, emptyFile}, {dir, dir}}
			var byOther *device
			for _, d := range related {
				if d.name == "rsa1024-by-other-ca" {
					byOther = d
				}
			}
			type built struct {
				at *yubiattest.Attestor
				pr [2]string
			}
			var all []built
			judge := func(at *yubiattest.Attestor, pr [2]string, when string) {
				in := map[string]interface{}{"piv_root_file": filepath.Base(pr[0]), "u2f_root_file": filepath.Base(pr[1]), "when": when}
				var e1, e2, e3 error
				if p, msg := core.Guard(func() {
					e1 = at.Attest(devSys, slotFor(kSys))
					e2 = at.Attest(good[0].cert, slotFor(good[0].rsaKey))
					if byOther != nil {
						e3 = at.Attest(byOther.cert, slotFor(byOther.rsaKey))
					}
				}); p {
					c.Native("panic in Attest on an attestor built from root files: "+msg, in)
					return
				}
				rootNamed := pr[0] == rootFile || pr[1] == rootFile
				otherNamed := pr[0] == otherFile || pr[1] == otherFile
				switch {
				case e1 == nil:
					c.Native("an attestor built from the named root files attests a device certificate that chains only to the host's trust store", in)
				case rootNamed && e2 != nil:
					c.Native("an attestor built from files that contain the root refuses a genuine device certificate: "+errText(e2), in)
				case !rootNamed && e2 == nil:
					c.Native("an attestor built from files that do not contain the root attests a device certificate issued by it", in)
				case byOther != nil && !otherNamed && e3 == nil:
					c.Native("an attestor attests a device certificate issued by a CA that is in neither of ITS root files (another attestor of the process names that CA)", in)
				case byOther != nil && otherNamed && e3 != nil:
					c.Native("an attestor built from files that contain the other CA refuses a device certificate issued by it: "+errText(e3), in)
				default:
					c.NativeCheck(1)
				}
			}
			for _, pr := range pairs {
				in := map[string]interface{}{"piv_root_file": filepath.Base(pr[0]), "u2f_root_file": filepath.Base(pr[1])}
				var at *yubiattest.Attestor
				var cerr error
				if p, msg := core.Guard(func() { at, cerr = yubiattest.NewAttestor(pr[0], pr[1]) }); p {
					c.Native("panic in yubiattest.NewAttestor: "+msg, in)
					continue
				}
				if cerr != nil || at == nil {
					c.Stat("attestor-construction-refused")
					c.NativeCheck(1)
					continue
				}
				c.Stat("attestor-constructed")
				all = append(all, built{at, pr})
				judge(at, pr, "right after its construction")
			}
			// several attestors live in one process: each still accepts exactly what ITS files name
			for _, b := range all {
				judge(b.at, b.pr, "after every other attestor of the run was constructed")
			}
			os.RemoveAll(dir)
		}
	}

	// (3) relation of the device certificate to the root pool; non-RSA device key
	for _, d := range related {
		k := (d.rsaKey.N.BitLen() + 7) / 8
		for hi := range hashes {
			hs := &hashes[hi]
			body := newBody()
			emitEM("chain-"+d.name, d, int(hs.rsaAlgo), body, buildEM(k, hs.withNul, digestsOf(body)[hs.name]), "valid block, device certificate "+d.name)
		}
		body := newBody()
		emitEM("chain-"+d.name, d, int(x509.MD5WithRSA), body, buildEM(k, md5Spec.withNul, digestsOf(body)["MD5"]), "MD5 label, device certificate "+d.name)
		// the slot certificate claims a generation time inside the device certificate's own validity window
		// (the chain must be judged at the current time, not at a time the certificate under test names)
		for _, off := range []time.Duration{time.Minute, 12 * time.Hour} {
			slotNotBefore = d.cert.NotBefore.Add(off)
			hs := &hashes[1]
			body := newBody()
			emitEM("chain-"+d.name+"-slot-dated-inside-device-window", d, int(hs.rsaAlgo), body, buildEM(k, hs.withNul, digestsOf(body)[hs.name]),
				"valid block, device certificate "+d.name+", slot NotBefore "+slotNotBefore.UTC().Format(time.RFC3339))
		}
		slotNotBefore = time.Time{}
	}
	// genuine devices with slot certificates dated in the past and in the future
	for _, d := range good[:1] {
		k := (d.rsaKey.N.BitLen() + 7) / 8
		for _, t := range []time.Time{now.Add(-20 * 365 * 24 * time.Hour), now.Add(20 * 365 * 24 * time.Hour), time.Unix(0, 0)} {
			slotNotBefore = t
			hs := &hashes[1]
			body := newBody()
			emitEM("genuine-slot-dated-elsewhere", d, int(hs.rsaAlgo), body, buildEM(k, hs.withNul, digestsOf(body)[hs.name]), "valid block, genuine device, slot NotBefore "+t.UTC().Format(time.RFC3339))
		}
		slotNotBefore = time.Time{}
	}
	for label := 0; label <= 17; label++ {
		body := newBody()
		sig := make([]byte, 64)
		r.Read(sig)
		emit("non-rsa-device-key", ecDev, label, body, sig, "ECDSA P-256 device key")
	}

	// (4) below the property's key range: keys of 61, 62 and 64 bytes (guard k < tLen1+11)
	for _, d := range small {
		k := (d.rsaKey.N.BitLen() + 7) / 8
		for hi := range hashes {
			hs := &hashes[hi]
			body := newBody()
			dg := digestsOf(body)[hs.name]
			for pi, prefix := range [][]byte{hs.withNul, hs.without} {
				em := buildEM(k, prefix, dg)
				if em == nil { // does not fit: any block
					em = make([]byte, k)
					r.Read(em)
					em[0] = 0
				}
				emitEM("small-key", d, int(hs.rsaAlgo), body, em, fmt.Sprintf("k=%d %s prefix%d", k, hs.name, pi+1))
			}
		}
	}
	c.Note(fmt.Sprintf("device keys: RSA %v bits (+488/496/512 below the property's range), ECDSA P-256; root RSA 2048", bitSizes))
}
