// Command c04 is the C04 correspondence harness: sessions of gensign.Run
// against a scripted agent, mock signer and scripted handlers (package gensim),
// evaluated in Coq by Model/C04Check.v.
package main

import (
	"verifharness/core"
	"verifharness/gensim"
)

func main() {
	core.Main("C04", &core.Driver{
		Imports:   gensim.Imports + "\nFrom Verif Require Import Model.C04Check.",
		CheckFn:   "C04Check.check",
		ClassFn:   "C04Check.classify",
		CaseType:  "C04Check.case",
		ShardSize: 60,
		Run:       func(c *core.Ctx) { gensim.NewGen(c, "C04").DriveC04() },
	})
}
