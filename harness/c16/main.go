// C16 correspondence harness.
//
// Coq-compared (Model.C16Check): yubiattest.ModHex on hand-built extension
// lists; utils.ParsePEMCertificates on bundles, with encoding/pem's behaviour
// recorded per case; bytes.TrimSpace emptiness; Model.Der against
// encoding/asn1 (trees, one-level parses, OIDs).
//
// Go-side (c.Native / c.NativeCheck): yubiattest.ParseCertificate against
// crypto/x509.ParseCertificate field by field on generated and testdata
// certificates; the same certificates with the RSA key-algorithm NULL removed;
// trailing data; byte mutations / truncations (no panic).
package main

import (
	"bytes"
	"crypto"
	"crypto/ecdsa"
	"crypto/elliptic"
	"crypto/rsa"
	"crypto/x509"
	"crypto/x509/pkix"
	"encoding/asn1"
	"encoding/hex"
	"encoding/pem"
	"errors"
	"fmt"
	"io"
	"math/big"
	"math/rand"
	"net"
	"net/url"
	"os"
	"path/filepath"
	"sort"
	"strings"
	"time"

	"github.com/theparanoids/ysshra/agent/utils"
	"github.com/theparanoids/ysshra/attestation/yubiattest"
	"verifharness/core"
)

var driver *core.Driver

func main() {
	driver = &core.Driver{
		Imports:   "From Verif Require Import Lib.Base Lib.Bytes Model.Der Model.X509Env Model.ModHex Model.Pem Model.C16Check.",
		CheckFn:   "C16Check.check",
		ClassFn:   "C16Check.classify",
		CaseType:  "C16Check.case",
		Run:       run,
		ShardSize: 250,
	}
	core.Main("C16", driver)
}

type rngReader struct{ r *rand.Rand }

func (x rngReader) Read(p []byte) (int, error) { return x.r.Read(p) }

var bigOne = big.NewInt(1)

func genPrime(r *rand.Rand, bits int) *big.Int {
	e := big.NewInt(65537)
	buf := make([]byte, (bits+7)/8)
	for {
		r.Read(buf)
		p := new(big.Int).SetBytes(buf)
		for i := p.BitLen() - 1; i >= bits; i-- {
			p.SetBit(p, i, 0)
		}
		p.SetBit(p, bits-1, 1)
		p.SetBit(p, bits-2, 1)
		p.SetBit(p, 0, 1)
		if !p.ProbablyPrime(20) {
			continue
		}
		if new(big.Int).GCD(nil, nil, new(big.Int).Sub(p, bigOne), e).Cmp(bigOne) != 0 {
			continue
		}
		return p
	}
}

func genRSA(r *rand.Rand, bits int) *rsa.PrivateKey {
	for {
		p, q := genPrime(r, (bits+1)/2), genPrime(r, bits-(bits+1)/2)
		n := new(big.Int).Mul(p, q)
		if p.Cmp(q) == 0 || n.BitLen() != bits {
			continue
		}
		phi := new(big.Int).Mul(new(big.Int).Sub(p, bigOne), new(big.Int).Sub(q, bigOne))
		d := new(big.Int).ModInverse(big.NewInt(65537), phi)
		if d == nil {
			continue
		}
		k := &rsa.PrivateKey{PublicKey: rsa.PublicKey{N: n, E: 65537}, D: d, Primes: []*big.Int{p, q}}
		k.Precompute()
		return k
	}
}

// detECDSA is an ECDSA signer whose key and nonces come from the harness PRNG
// only (crypto/ecdsa reads a random number of bytes from its reader, which
// would make a (seed, index) replay inexact).
type detECDSA struct {
	pub ecdsa.PublicKey
	d   *big.Int
	r   *rand.Rand
}

func randScalar(r *rand.Rand, cv elliptic.Curve) *big.Int {
	n := cv.Params().N
	b := make([]byte, (n.BitLen()+7)/8+8)
	r.Read(b)
	k := new(big.Int).SetBytes(b)
	k.Mod(k, new(big.Int).Sub(n, bigOne))
	return k.Add(k, bigOne)
}

func newDetECDSA(r *rand.Rand, cv elliptic.Curve) *detECDSA {
	d := randScalar(r, cv)
	x, y := cv.ScalarBaseMult(d.Bytes())
	return &detECDSA{pub: ecdsa.PublicKey{Curve: cv, X: x, Y: y}, d: d, r: r}
}

func (k *detECDSA) Public() crypto.PublicKey { return &k.pub }

func (k *detECDSA) Sign(_ io.Reader, digest []byte, _ crypto.SignerOpts) ([]byte, error) {
	cv := k.pub.Curve
	n := cv.Params().N
	z := new(big.Int).SetBytes(digest)
	if excess := len(digest)*8 - n.BitLen(); excess > 0 {
		z.Rsh(z, uint(excess))
	}
	for {
		nonce := randScalar(k.r, cv)
		x, _ := cv.ScalarBaseMult(nonce.Bytes())
		rr := new(big.Int).Mod(x, n)
		if rr.Sign() == 0 {
			continue
		}
		s := new(big.Int).Mul(rr, k.d)
		s.Add(s, z)
		s.Mul(s, new(big.Int).ModInverse(nonce, n))
		s.Mod(s, n)
		if s.Sign() == 0 {
			continue
		}
		return asn1.Marshal(struct{ R, S *big.Int }{rr, s})
	}
}

func gNList(xs []int) string {
	items := make([]string, len(xs))
	for i, x := range xs {
		items[i] = core.GN(uint64(x))
	}
	return core.GList(items)
}

func gBytes(b []byte) string {
	if len(b) == 0 {
		return "[]"
	}
	return core.GBytes(b)
}

var serialOID = asn1.ObjectIdentifier{1, 3, 6, 1, 4, 1, 41482, 3, 7}

func run(c *core.Ctx) {
	runModHex(c)
	certs := runCertificates(c)
	runScalars(c)
	runPEM(c, certs)
	runDER(c)
}

// ---------------------------------------------------------------- ModHex ----

func emitModHex(c *core.Ctx, class string, exts []pkix.Extension) {
	cert := &x509.Certificate{Extensions: exts}
	var s string
	var err error
	obs := ""
	if p, _ := core.Guard(func() { s, err = yubiattest.ModHex(cert) }); p {
		obs = "MPanic"
	} else if err == nil {
		obs = core.GApp("MOk", gBytes([]byte(s)))
	} else {
		switch msg := err.Error(); {
		case strings.HasPrefix(msg, "invalid serial number extension length"):
			obs = "MErrShort"
		case strings.HasPrefix(msg, "cannot find serial number"):
			obs = "MErrNotFound"
		case strings.HasPrefix(msg, "invalid serial number length"):
			obs = "MErrBadLen"
		default:
			obs = "MErrOther"
		}
	}
	var items []string
	var human []string
	for _, e := range exts {
		items = append(items, core.GPair(gNList(e.Id), gBytes(e.Value)))
		human = append(human, fmt.Sprintf("%s=%x", e.Id.String(), e.Value))
	}
	c.Case(class, core.GApp("CModHex", core.GList(items), obs),
		map[string]interface{}{"op": "ModHex", "extensions": human, "result": s, "err": fmt.Sprint(err), "observed": obs})
}

func runModHex(c *core.Ctx) {
	r := c.Rng
	ext := func(id asn1.ObjectIdentifier, v []byte) pkix.Extension { return pkix.Extension{Id: id, Value: v} }
	// regression inputs of the fixed finding first (value shorter than its DER header)
	emitModHex(c, "modhex-regression", []pkix.Extension{ext(serialOID, []byte{0x02})})
	emitModHex(c, "modhex-regression", []pkix.Extension{ext(serialOID, []byte{})})
	emitModHex(c, "modhex-regression", []pkix.Extension{ext(serialOID, nil)})
	emitModHex(c, "modhex-regression", []pkix.Extension{ext(asn1.ObjectIdentifier{2, 5, 29, 14}, []byte{4, 1, 9}), ext(serialOID, []byte{0x02})})

	randVal := func(n int) []byte {
		v := make([]byte, n)
		r.Read(v)
		if n >= 2 && r.Intn(2) == 0 { // DER INTEGER header
			v[0], v[1] = 2, byte(n-2)
		}
		if n >= 3 && r.Intn(4) == 0 {
			v[2] = 0
		}
		return v
	}
	// every value length 0..8 (and a few longer), alone
	for n := 0; n <= 12; n++ {
		for i, m := 0, c.N(4, 40); i < m; i++ {
			emitModHex(c, "modhex-every-length", []pkix.Extension{ext(serialOID, randVal(n))})
		}
	}
	// extreme nibbles
	for _, b := range []byte{0x00, 0xff, 0x0f, 0xf0, 0x10, 0x01} {
		emitModHex(c, "modhex-every-length", []pkix.Extension{ext(serialOID, []byte{2, 3, b, b, b})})
		emitModHex(c, "modhex-every-length", []pkix.Extension{ext(serialOID, []byte{2, 4, b, b, b, b})})
	}
	near := []asn1.ObjectIdentifier{
		{1, 3, 6, 1, 4, 1, 41482, 3, 8}, {1, 3, 6, 1, 4, 1, 41482, 3, 3}, {1, 3, 6, 1, 4, 1, 41482, 3}, {1, 3, 6, 1, 4, 1, 41482, 3, 7, 1},
		{1, 3, 6, 1, 4, 1, 41483, 3, 7}, {2, 5, 29, 14}, {2, 5, 29, 19}, {1, 3, 6, 1, 4, 1, 41482, 3, 70}, {1, 3, 6, 1, 4, 1, 41482, 37}, {},
	}
	emitModHex(c, "modhex-no-extension", nil)
	for _, id := range near {
		emitModHex(c, "modhex-no-extension", []pkix.Extension{ext(id, []byte{2, 4, 1, 2, 3, 4})})
	}
	// several extensions, possibly several matching ones
	for i, m := 0, c.N(150, 2500); i < m; i++ {
		n := r.Intn(5)
		var exts []pkix.Extension
		for j := 0; j < n; j++ {
			if r.Intn(2) == 0 {
				exts = append(exts, ext(serialOID, randVal(core.Pick(r, 0, 1, 2, 3, 4, 5, 5, 5, 6, 6, 6, 7, 8))))
			} else {
				exts = append(exts, ext(near[r.Intn(len(near))], randVal(r.Intn(9))))
			}
		}
		class := "modhex-random-list"
		cnt := 0
		for _, e := range exts {
			if e.Id.Equal(serialOID) {
				cnt++
			}
		}
		if cnt > 1 {
			class = "modhex-several-matching"
		}
		emitModHex(c, class, exts)
	}
}

// ---------------------------------------------------- certificate parsers ----

type genCert struct {
	name string
	der  []byte
	rsa  bool // RSA subject key
	// refused by the lenient parser for the reason recorded as a known finding (K7): kept out of the PEM bundles, where
	// its refusal would be reported a second time as a bundle that does not yield all its certificates
	known bool
}

func nameString(n pkix.Name) string { return n.String() }

func pubEqual(a, b interface{}) bool {
	switch x := a.(type) {
	case *rsa.PublicKey:
		y, ok := b.(*rsa.PublicKey)
		return ok && x.Equal(y)
	case *ecdsa.PublicKey:
		y, ok := b.(*ecdsa.PublicKey)
		return ok && x.Equal(y)
	case nil:
		return b == nil
	}
	return false
}

// diffFields compares the fields C16 lists; raw says whether raw byte fields are compared too.
func diffFields(y, s *x509.Certificate, raw bool) []string {
	var d []string
	add := func(f string) { d = append(d, f) }
	if raw {
		if !bytes.Equal(y.Raw, s.Raw) {
			add("Raw")
		}
		if !bytes.Equal(y.RawTBSCertificate, s.RawTBSCertificate) {
			add("RawTBSCertificate")
		}
		if !bytes.Equal(y.RawSubjectPublicKeyInfo, s.RawSubjectPublicKeyInfo) {
			add("RawSubjectPublicKeyInfo")
		}
	}
	if !bytes.Equal(y.RawSubject, s.RawSubject) {
		add("RawSubject")
	}
	if !bytes.Equal(y.RawIssuer, s.RawIssuer) {
		add("RawIssuer")
	}
	if !pubEqual(y.PublicKey, s.PublicKey) {
		add("PublicKey")
	}
	if y.PublicKeyAlgorithm != s.PublicKeyAlgorithm {
		add("PublicKeyAlgorithm")
	}
	if !bytes.Equal(y.Signature, s.Signature) {
		add("Signature")
	}
	if y.SignatureAlgorithm != s.SignatureAlgorithm {
		add("SignatureAlgorithm")
	}
	if y.Version != s.Version {
		add("Version")
	}
	if y.SerialNumber == nil || s.SerialNumber == nil || y.SerialNumber.Cmp(s.SerialNumber) != 0 {
		add("SerialNumber")
	}
	if nameString(y.Issuer) != nameString(s.Issuer) {
		add("Issuer")
	}
	if nameString(y.Subject) != nameString(s.Subject) {
		add("Subject")
	}
	if !y.NotBefore.Equal(s.NotBefore) {
		add("NotBefore")
	}
	if !y.NotAfter.Equal(s.NotAfter) {
		add("NotAfter")
	}
	// names: the alternative names as well
	if fmt.Sprint(y.DNSNames) != fmt.Sprint(s.DNSNames) {
		add("DNSNames")
	}
	if fmt.Sprint(y.EmailAddresses) != fmt.Sprint(s.EmailAddresses) {
		add("EmailAddresses")
	}
	if fmt.Sprint(y.IPAddresses) != fmt.Sprint(s.IPAddresses) {
		add("IPAddresses")
	}
	if fmt.Sprint(y.URIs) != fmt.Sprint(s.URIs) {
		add("URIs")
	}
	if len(y.Extensions) != len(s.Extensions) {
		add("Extensions(len)")
	} else {
		for i := range y.Extensions {
			a, b := y.Extensions[i], s.Extensions[i]
			if !a.Id.Equal(b.Id) || a.Critical != b.Critical || !bytes.Equal(a.Value, b.Value) {
				add(fmt.Sprintf("Extensions[%d]", i))
			}
		}
	}
	return d
}

// ---- minimal DER surgery (Go side) ----

func tlv(b []byte) (id byte, content, full, rest []byte, ok bool) {
	var rv asn1.RawValue
	rest, err := asn1.Unmarshal(b, &rv)
	if err != nil || len(rv.FullBytes) == 0 {
		return 0, nil, nil, nil, false
	}
	return rv.FullBytes[0], rv.Bytes, rv.FullBytes, rest, true
}

func encLen(n int) []byte {
	switch {
	case n < 128:
		return []byte{byte(n)}
	case n < 256:
		return []byte{0x81, byte(n)}
	case n < 65536:
		return []byte{0x82, byte(n >> 8), byte(n)}
	case n < 1<<24:
		return []byte{0x83, byte(n >> 16), byte(n >> 8), byte(n)}
	}
	return []byte{0x84, byte(n >> 24), byte(n >> 16), byte(n >> 8), byte(n)}
}

func encTLV(id byte, content []byte) []byte {
	out := append([]byte{id}, encLen(len(content))...)
	return append(out, content...)
}

func children(content []byte) (ids []byte, fulls [][]byte, ok bool) {
	for len(content) > 0 {
		id, _, full, rest, ok := tlv(content)
		if !ok {
			return nil, nil, false
		}
		ids = append(ids, id)
		fulls = append(fulls, full)
		content = rest
	}
	return ids, fulls, true
}

var rsaAlgWithNull = []byte{0x30, 0x0d, 0x06, 0x09, 0x2a, 0x86, 0x48, 0x86, 0xf7, 0x0d, 0x01, 0x01, 0x01, 0x05, 0x00}
var rsaAlgNoNull = []byte{0x30, 0x0b, 0x06, 0x09, 0x2a, 0x86, 0x48, 0x86, 0xf7, 0x0d, 0x01, 0x01, 0x01}

// dropKeyAlgNull re-encodes a certificate whose SubjectPublicKeyInfo algorithm is
// rsaEncryption with the NULL parameter removed; the three enclosing lengths are recomputed.
func dropKeyAlgNull(der []byte) ([]byte, bool) {
	cid, cc, _, rest, ok := tlv(der)
	if !ok || len(rest) != 0 {
		return nil, false
	}
	_, top, ok := children(cc)
	if !ok || len(top) != 3 {
		return nil, false
	}
	tid, tc, _, _, ok := tlv(top[0])
	if !ok {
		return nil, false
	}
	_, fields, ok := children(tc)
	if !ok {
		return nil, false
	}
	done := false
	for i, f := range fields {
		sid, sc, _, _, ok := tlv(f)
		if !ok || sid != 0x30 || !bytes.HasPrefix(sc, rsaAlgWithNull) {
			continue
		}
		// SubjectPublicKeyInfo: AlgorithmIdentifier then BIT STRING
		nsc := append(append([]byte(nil), rsaAlgNoNull...), sc[len(rsaAlgWithNull):]...)
		fields[i] = encTLV(sid, nsc)
		done = true
		break
	}
	if !done {
		return nil, false
	}
	ntbs := encTLV(tid, bytes.Join(fields, nil))
	return encTLV(cid, bytes.Join([][]byte{ntbs, top[1], top[2]}, nil)), true
}

// certDefs collects `Definition cert_der_<n>` lines (the DER of each certificate
// once per cases file); a case refers to the name.
var certDefs strings.Builder
var certDefCount int

func defineDER(der []byte) string {
	name := fmt.Sprintf("cert_der_%d", certDefCount)
	certDefCount++
	fmt.Fprintf(&certDefs, "Definition %s : list N := Eval vm_compute in %s.\n", name, core.GBytes(der))
	return name
}

func offLen(der, part []byte, last bool) (string, bool) {
	i := bytes.Index(der, part)
	if last {
		i = bytes.LastIndex(der, part)
	}
	if i < 0 || len(part) == 0 {
		return "", false
	}
	return core.GPair(core.GN(uint64(i)), core.GN(uint64(len(part)))), true
}

// emitEnvelope: the certificate as yubiattest.ParseCertificate saw it, compared
// in Coq with Model.X509Env.cert_parse of the same bytes.
func emitEnvelope(c *core.Ctx, class, derName string, der []byte, y *x509.Certificate) {
	var spki struct {
		Raw       asn1.RawContent
		Algorithm pkix.AlgorithmIdentifier
		PublicKey asn1.BitString
	}
	if _, err := asn1.Unmarshal(y.RawSubjectPublicKeyInfo, &spki); err != nil || spki.PublicKey.BitLength%8 != 0 {
		c.Note("envelope case skipped: SPKI not re-parsable")
		return
	}
	tbs, ok1 := offLen(der, y.RawTBSCertificate, false)
	sp, ok2 := offLen(der, y.RawSubjectPublicKeyInfo, false)
	is, ok3 := offLen(der, y.RawIssuer, false)
	su, ok4 := offLen(der, y.RawSubject, true) // the subject follows the issuer (equal when self-issued: take the later one)
	sg, ok5 := offLen(der, y.Signature, true)
	if bytes.Equal(y.RawIssuer, y.RawSubject) {
		// first occurrence is the issuer, the next one the subject
		i := bytes.Index(der, y.RawIssuer)
		j := bytes.Index(der[i+len(y.RawIssuer):], y.RawSubject)
		if j >= 0 {
			su = core.GPair(core.GN(uint64(i+len(y.RawIssuer)+j)), core.GN(uint64(len(y.RawSubject))))
		}
	} else {
		su, ok4 = offLen(der, y.RawSubject, false)
	}
	if !(ok1 && ok2 && ok3 && ok4 && ok5) {
		c.Note("envelope case skipped: a raw field is not a sub-slice of the input")
		return
	}
	serial, err := asn1.Marshal(y.SerialNumber)
	if err != nil {
		return
	}
	params := 2
	switch {
	case len(spki.Algorithm.Parameters.FullBytes) == 0:
		params = 0
	case bytes.Equal(spki.Algorithm.Parameters.FullBytes, []byte{5, 0}):
		params = 1
	}
	obs := core.GApp("mkCertObs", tbs, sp, is, su, sg, gBytes(serial), gNList(spki.Algorithm.Algorithm),
		core.GN(uint64(params)), gBytes(spki.PublicKey.Bytes), core.GN(uint64(len(y.Extensions))))
	c.Case(class, core.GApp("CCert", derName, "(Some "+obs+")"),
		map[string]interface{}{"op": "ParseCertificate (envelope)", "der": hex.EncodeToString(der), "key_algorithm": spki.Algorithm.Algorithm.String(), "key_params": params, "extensions": len(y.Extensions)})
}

func gZBig(b *big.Int) string { return "(" + b.String() + ")%Z" }

func gNames(n pkix.Name) string {
	var items []string
	for _, a := range n.Names {
		v := "None"
		if str, ok := a.Value.(string); ok {
			v = "(Some " + gBytes([]byte(str)) + ")"
		}
		items = append(items, core.GPair(gNList(a.Type), v))
	}
	return core.GList(items)
}

// emitFields: what yubiattest.ParseCertificate reported below the envelope (version, serial, validity, names,
// extension list), compared in Coq with Model.X509Fields.cert_fields of the same bytes.
func emitFields(c *core.Ctx, class, derName string, der []byte, y *x509.Certificate) {
	if y.SerialNumber == nil {
		c.Native("yubiattest.ParseCertificate accepted a certificate without reporting a serial number", hex.EncodeToString(der))
		return
	}
	var exts []string
	for _, e := range y.Extensions {
		exts = append(exts, core.GPair(core.GPair(gNList(e.Id), core.GBool(e.Critical)), gBytes(e.Value)))
	}
	obs := core.GApp("mkFieldsObs", core.GZ(int64(y.Version)), gZBig(y.SerialNumber), core.GZ(y.NotBefore.Unix()), core.GZ(y.NotAfter.Unix()),
		gNames(y.Issuer), gNames(y.Subject), core.GList(exts))
	c.Case(class, core.GApp("CFields", derName, obs),
		map[string]interface{}{"op": "ParseCertificate (fields)", "der": hex.EncodeToString(der), "version": y.Version, "serial": y.SerialNumber.String(),
			"not_before": y.NotBefore.UTC().Format(time.RFC3339), "not_after": y.NotAfter.UTC().Format(time.RFC3339),
			"issuer": y.Issuer.String(), "subject": y.Subject.String(), "extensions": len(y.Extensions)})
}

// addUniqueIDs inserts issuerUniqueID [1] and / or subjectUniqueID [2] (RFC 5280 4.1.2.8) after the
// SubjectPublicKeyInfo of a certificate; the enclosing lengths are recomputed (the signature is not, no parser checks it).
func addUniqueIDs(der []byte, issuer, subject []byte) ([]byte, bool) {
	cid, cc, _, rest, ok := tlv(der)
	if !ok || len(rest) != 0 {
		return nil, false
	}
	_, top, ok := children(cc)
	if !ok || len(top) != 3 {
		return nil, false
	}
	tid, tc, _, _, ok := tlv(top[0])
	if !ok {
		return nil, false
	}
	ids, fields, ok := children(tc)
	if !ok {
		return nil, false
	}
	var out [][]byte
	done := false
	for i, f := range fields {
		if !done && ids[i] == 0xa3 { // before the extensions
			if issuer != nil {
				out = append(out, encTLV(0x81, append([]byte{0}, issuer...)))
			}
			if subject != nil {
				out = append(out, encTLV(0x82, append([]byte{0}, subject...)))
			}
			done = true
		}
		out = append(out, f)
	}
	if !done {
		return nil, false
	}
	ntbs := encTLV(tid, bytes.Join(out, nil))
	return encTLV(cid, bytes.Join([][]byte{ntbs, top[1], top[2]}, nil)), true
}

// runScalars: the INTEGER and time codecs of the model against encoding/asn1 (which the lenient parser uses for them).
func runScalars(c *core.Ctx) {
	r := c.Rng
	intContent := func(z *big.Int) []byte {
		enc, err := asn1.Marshal(z)
		if err != nil {
			return nil
		}
		_, content, _, _, ok := tlv(enc)
		if !ok {
			return nil
		}
		return content
	}
	var zs []*big.Int
	for k := uint(0); k <= 160; k += 8 {
		p := new(big.Int).Lsh(big.NewInt(1), k)
		half := new(big.Int).Rsh(p, 1)
		for _, d := range []int64{-2, -1, 0, 1} {
			zs = append(zs, new(big.Int).Add(p, big.NewInt(d)), new(big.Int).Neg(new(big.Int).Add(p, big.NewInt(d))),
				new(big.Int).Add(half, big.NewInt(d)), new(big.Int).Neg(new(big.Int).Add(half, big.NewInt(d))))
		}
	}
	for i, n := 0, c.N(150, 2000); i < n; i++ {
		b := make([]byte, 1+r.Intn(24))
		r.Read(b)
		z := new(big.Int).SetBytes(b)
		if r.Intn(2) == 0 {
			z.Neg(z)
		}
		zs = append(zs, z)
	}
	for _, z := range zs {
		if content := intContent(z); content != nil {
			c.Case("integer-encode", core.GApp("CInt", gZBig(z), gBytes(content)), map[string]interface{}{"op": "asn1.Marshal(big.Int)", "value": z.String(), "content": hex.EncodeToString(content)})
		}
	}
	parseInt := func(class string, content []byte) {
		var z *big.Int
		_, err := asn1.Unmarshal(encTLV(2, content), &z)
		g := "None"
		if err == nil && z != nil {
			g = "(Some " + gZBig(z) + ")"
		}
		c.Case(class, core.GApp("CIntParse", gBytes(content), g), map[string]interface{}{"op": "asn1.Unmarshal(INTEGER)", "content": hex.EncodeToString(content), "err": fmt.Sprint(err)})
	}
	parseInt("integer-parse", nil)
	for _, lead := range []byte{0x00, 0xff, 0x7f, 0x80, 0x01} {
		for _, next := range []byte{0x00, 0x7f, 0x80, 0xff} {
			parseInt("integer-parse-leading-octets", []byte{lead, next})
			parseInt("integer-parse-leading-octets", []byte{lead, next, 0x55})
		}
		parseInt("integer-parse-leading-octets", []byte{lead})
	}
	for i, n := 0, c.N(100, 2000); i < n; i++ {
		b := make([]byte, 1+r.Intn(20))
		r.Read(b)
		if r.Intn(3) == 0 {
			b[0] = core.Pick[byte](r, 0, 0xff)
		}
		parseInt("integer-parse", b)
	}
	// times
	parseTime := func(class string, tag byte, content []byte) {
		var t time.Time
		params := ""
		if tag == 24 {
			params = "generalized"
		}
		_, err := asn1.UnmarshalWithParams(encTLV(tag, content), &t, params)
		g := "None"
		if err == nil {
			g = "(Some " + core.GZ(t.Unix()) + ")"
		}
		c.Case(class, core.GApp("CTime", core.GN(uint64(tag)), gBytes(content), g),
			map[string]interface{}{"op": "asn1.Unmarshal(time)", "tag": tag, "content": string(content), "err": fmt.Sprint(err)})
	}
	for i, n := 0, c.N(150, 2000); i < n; i++ {
		y := 1950 + r.Intn(100)
		if r.Intn(4) == 0 {
			y = core.Pick(r, 1950, 1969, 1970, 1999, 2000, 2038, 2049)
		}
		mo, d := 1+r.Intn(12), 1+r.Intn(28)
		if r.Intn(4) == 0 {
			mo, d = core.Pick(r, 1, 2, 2, 12, 3), core.Pick(r, 1, 28, 29, 30, 31)
		}
		h, mi, sec := r.Intn(24), r.Intn(60), r.Intn(60)
		if r.Intn(8) == 0 {
			h, mi, sec = core.Pick(r, 0, 23, 24), core.Pick(r, 0, 59, 60), core.Pick(r, 0, 59, 60)
		}
		parseTime("utctime", 23, []byte(fmt.Sprintf("%02d%02d%02d%02d%02d%02dZ", y%100, mo, d, h, mi, sec)))
		gy := core.Pick(r, y, y+100, 2050, 2100, 2400, 9999, 1600, 1900, 1, 0)
		parseTime("generalizedtime", 24, []byte(fmt.Sprintf("%04d%02d%02d%02d%02d%02dZ", gy, mo, d, h, mi, sec)))
	}
	for _, bad := range []string{"", "Z", "240101000000", "2401010000000", "24010100000Z0", "24a101000000Z", "240101000000z", "24010100000 Z", "240100000000Z", "240001000000Z",
		"241301000000Z", "240132000000Z", "230229000000Z", "240229000000Z", "000229000000Z", "990229000000Z"} {
		parseTime("utctime-directed", 23, []byte(bad))
	}
	for _, bad := range []string{"", "20240101000000", "2024010100000Z", "202401010000000Z", "2024a101000000Z", "20240229000000Z", "21000229000000Z", "20000229000000Z",
		"19000229000000Z", "00000101000000Z", "99991231235959Z", "20241301000000Z", "20240100000000Z"} {
		parseTime("generalizedtime-directed", 24, []byte(bad))
	}
}

func runCertificates(c *core.Ctx) []genCert {
	r := c.Rng
	rd := rngReader{r}
	rsaKey := genRSA(r, 2048)
	rsaSigner := genRSA(r, 2048)
	ecKeys := map[string]*detECDSA{}
	for _, cv := range []elliptic.Curve{elliptic.P256(), elliptic.P384(), elliptic.P521()} {
		ecKeys[cv.Params().Name] = newDetECDSA(r, cv)
	}
	type subj struct {
		name string
		pub  interface{}
		rsa  bool
	}
	// RSA subject keys with public exponents beyond 31 and 32 bits (legal; crypto/x509 reads them)
	bigE1 := &rsa.PublicKey{N: rsaKey.N, E: 1<<31 + 1}
	bigE2 := &rsa.PublicKey{N: rsaSigner.N, E: 1<<32 + 1}
	smallE := &rsa.PublicKey{N: rsaKey.N, E: 3}
	subjects := []subj{{"RSA-2048", &rsaKey.PublicKey, true}, {"RSA-2048-e=2^31+1", bigE1, true}, {"RSA-2048-e=2^32+1", bigE2, true}, {"RSA-2048-e=3", smallE, true}, {"P-256", &ecKeys["P-256"].pub, false},
		{"P-384", &ecKeys["P-384"].pub, false}, {"P-521", &ecKeys["P-521"].pub, false}}
	type signer struct {
		name string
		key  interface{}
		alg  x509.SignatureAlgorithm
	}
	signers := []signer{
		{"SHA256WithRSA", rsaSigner, x509.SHA256WithRSA}, {"SHA384WithRSA", rsaSigner, x509.SHA384WithRSA},
		{"SHA512WithRSA", rsaSigner, x509.SHA512WithRSA}, {"SHA256WithRSAPSS", rsaSigner, x509.SHA256WithRSAPSS},
		{"ECDSAWithSHA256", ecKeys["P-256"], x509.ECDSAWithSHA256}, {"ECDSAWithSHA384", ecKeys["P-384"], x509.ECDSAWithSHA384},
		{"ECDSAWithSHA512", ecKeys["P-521"], x509.ECDSAWithSHA512},
	}
	vendor := func(last int, v []byte) pkix.Extension {
		return pkix.Extension{Id: asn1.ObjectIdentifier{1, 3, 6, 1, 4, 1, 41482, 3, last}, Value: v}
	}
	// extension profiles: the kinds found in PIV attestation certificates
	profiles := []struct {
		name string
		fill func(t *x509.Certificate)
	}{
		{"bare", func(t *x509.Certificate) {}},
		{"ca", func(t *x509.Certificate) {
			t.IsCA, t.BasicConstraintsValid, t.MaxPathLen = true, true, 1
			t.KeyUsage = x509.KeyUsageCertSign | x509.KeyUsageCRLSign
			t.SubjectKeyId = []byte{1, 2, 3, 4, 5, 6, 7, 8}
		}},
		{"attestation", func(t *x509.Certificate) {
			t.BasicConstraintsValid = true
			t.KeyUsage = x509.KeyUsageDigitalSignature
			t.ExtraExtensions = []pkix.Extension{vendor(3, []byte{5, 4, 3}), vendor(7, []byte{2, 4, 0, 0x5e, 0x2a, 0x11}),
				vendor(8, []byte{1, 2}), vendor(9, []byte{2})}
		}},
		{"old-serial", func(t *x509.Certificate) {
			t.ExtraExtensions = []pkix.Extension{vendor(3, []byte{4, 3, 3}), vendor(7, []byte{2, 3, 0x5e, 0x2a, 0x11})}
		}},
		{"leaf-full", func(t *x509.Certificate) {
			t.BasicConstraintsValid = true
			t.KeyUsage = x509.KeyUsageDigitalSignature | x509.KeyUsageKeyEncipherment
			t.ExtKeyUsage = []x509.ExtKeyUsage{x509.ExtKeyUsageClientAuth, x509.ExtKeyUsageServerAuth}
			t.UnknownExtKeyUsage = []asn1.ObjectIdentifier{{1, 3, 6, 1, 4, 1, 311, 20, 2, 2}}
			t.SubjectKeyId = []byte{9, 8, 7, 6}
			t.AuthorityKeyId = []byte{1, 1, 2, 3, 5, 8}
			t.DNSNames = []string{"host.example.com", "*.example.org"}
			t.EmailAddresses = []string{"user@example.com"}
			t.IPAddresses = []net.IP{net.ParseIP("10.1.2.3"), net.ParseIP("2001:db8::1")}
			t.PolicyIdentifiers = []asn1.ObjectIdentifier{{2, 23, 140, 1, 2, 1}, {1, 3, 6, 1, 4, 1, 41482, 13, 1}}
			t.ExtraExtensions = []pkix.Extension{{Id: asn1.ObjectIdentifier{1, 3, 6, 1, 4, 1, 41482, 3, 3}, Critical: false, Value: []byte{5, 2, 7}}}
		}},
		{"alternative-names", func(t *x509.Certificate) {
			u1, _ := url.Parse("https://device.example.com/piv/9a")
			u2, _ := url.Parse("urn:uuid:6e8bc430-9c3a-11d9-9669-0800200c9a66")
			t.URIs = []*url.URL{u1, u2}
			t.IPAddresses = []net.IP{net.ParseIP("192.0.2.7"), net.ParseIP("2001:db8::7")}
			t.DNSNames = []string{"piv.example.com"}
			t.EmailAddresses = []string{"piv@example.com"}
		}},
		{"alternative-names-uri-only", func(t *x509.Certificate) {
			u1, _ := url.Parse("spiffe://example.org/yubikey/1234")
			t.URIs = []*url.URL{u1}
		}},
		{"alternative-names-ip-only", func(t *x509.Certificate) {
			t.IPAddresses = []net.IP{net.ParseIP("10.0.0.1")}
		}},
	}
	// the extension kinds a CA certificate above an attestation certificate may carry: name constraints (permitted /
	// excluded, DNS and other name forms, critical or not), revocation and authority information
	type prof = struct {
		name string
		fill func(t *x509.Certificate)
	}
	profiles = append(profiles,
		prof{"name-constraints-permitted", func(t *x509.Certificate) {
			t.IsCA, t.BasicConstraintsValid = true, true
			t.KeyUsage = x509.KeyUsageCertSign
			t.PermittedDNSDomains = []string{"example.com", ".piv.example.org"}
		}},
		prof{"name-constraints-permitted-critical", func(t *x509.Certificate) {
			t.IsCA, t.BasicConstraintsValid = true, true
			t.KeyUsage = x509.KeyUsageCertSign
			t.PermittedDNSDomainsCritical = true
			t.PermittedDNSDomains = []string{"example.com"}
		}},
		prof{"name-constraints-excluded-critical", func(t *x509.Certificate) {
			t.IsCA, t.BasicConstraintsValid = true, true
			t.KeyUsage = x509.KeyUsageCertSign
			t.PermittedDNSDomainsCritical = true
			t.PermittedDNSDomains = []string{"example.com"}
			t.ExcludedDNSDomains = []string{"test.example.com"}
		}},
		prof{"name-constraints-other-forms-critical", func(t *x509.Certificate) {
			t.IsCA, t.BasicConstraintsValid = true, true
			t.KeyUsage = x509.KeyUsageCertSign
			t.PermittedDNSDomainsCritical = true
			_, n, _ := net.ParseCIDR("10.0.0.0/8")
			t.PermittedIPRanges = []*net.IPNet{n}
			t.PermittedEmailAddresses = []string{"example.com"}
		}},
		prof{"revocation-and-authority-information", func(t *x509.Certificate) {
			t.OCSPServer = []string{"http://ocsp.example.com"}
			t.IssuingCertificateURL = []string{"http://ca.example.com/ca.crt"}
			t.CRLDistributionPoints = []string{"http://crl.example.com/x.crl", "ldap://crl.example.com/cn=x"}
		}})
	if c.Thorough() {
		profiles = append(profiles, struct {
			name string
			fill func(t *x509.Certificate)
		}{"critical-vendor", func(t *x509.Certificate) {
			t.ExtraExtensions = []pkix.Extension{{Id: asn1.ObjectIdentifier{1, 3, 6, 1, 4, 1, 41482, 3, 7}, Critical: true, Value: []byte{2, 4, 1, 2, 3, 4}}}
			t.OCSPServer = []string{"http://ocsp.example.com"}
			t.IssuingCertificateURL = []string{"http://ca.example.com/ca.crt"}
			t.CRLDistributionPoints = []string{"http://crl.example.com/x.crl"}
		}})
	}
	names := []pkix.Name{
		{CommonName: "Yubico PIV Attestation"},
		{CommonName: "YubiKey PIV Attestation 9a", Organization: []string{"Yubico AB"}, OrganizationalUnit: []string{"Attestation"}, Country: []string{"SE"}},
		{CommonName: "Σ Acme Co ünï", Organization: []string{"Acme, Inc.", "Other=Org"}, Locality: []string{"Zürich"}, SerialNumber: "12345"},
	}
	var out []genCert
	serial := int64(1000)
	now := time.Unix(1700000000, 0)
	for si, s := range subjects {
		for gi, g := range signers {
			for pi, p := range profiles {
				if !c.Thorough() && (si+gi+pi)%3 != 0 && !(p.name == "attestation" && gi == 0) {
					continue
				}
				if !c.Thorough() && strings.HasPrefix(p.name, "alternative-names") && !(gi < 2 && (si == 0 || si == 4)) { // a few subjects are enough on the quick tier
					continue
				}
				if !c.Thorough() && (strings.HasPrefix(p.name, "name-constraints") || strings.HasPrefix(p.name, "revocation")) && !(gi < 3 && si < 3) {
					continue
				}
				if !c.Thorough() && strings.Contains(s.name, "-e=") && gi > 1 { // unusual exponents: two signers are enough on the quick tier
					continue
				}
				serial++
				sn := big.NewInt(serial)
				if (si+gi+pi)%4 == 1 {
					b := make([]byte, 19)
					r.Read(b)
					b[0] |= 0x40
					sn = new(big.Int).SetBytes(b)
				}
				switch (si + 2*gi + 3*pi) % 9 {
				case 2:
					sn = big.NewInt(core.Pick[int64](r, 1, 127, 128, 255, 256, 32767, 32768))
				case 5:
					sn = new(big.Int).Lsh(big.NewInt(1), core.Pick[uint](r, 63, 64, 127, 158))
				}
				nb, na := now.Add(-time.Duration(pi)*time.Hour), now.Add(time.Duration(100+gi)*24*time.Hour)
				switch (2*si + gi + pi) % 7 {
				case 1: // GeneralizedTime for the end of validity
					na = core.Pick(r, time.Date(2050, 1, 1, 0, 0, 0, 0, time.UTC), time.Date(9999, 12, 31, 23, 59, 59, 0, time.UTC), time.Date(2100, 2, 28, 12, 0, 1, 0, time.UTC))
				case 3: // the edges of the UTCTime window, leap days
					nb = core.Pick(r, time.Date(1950, 1, 1, 0, 0, 0, 0, time.UTC), time.Date(1970, 1, 1, 0, 0, 0, 0, time.UTC), time.Date(1999, 12, 31, 23, 59, 59, 0, time.UTC),
						time.Date(2000, 2, 29, 0, 0, 0, 0, time.UTC))
					na = core.Pick(r, time.Date(2049, 12, 31, 23, 59, 59, 0, time.UTC), time.Date(2024, 2, 29, 23, 59, 59, 0, time.UTC), time.Date(2038, 1, 19, 3, 14, 8, 0, time.UTC))
				}
				t := &x509.Certificate{SerialNumber: sn, Subject: names[(si+pi)%len(names)],
					NotBefore: nb, NotAfter: na,
					SignatureAlgorithm: g.alg}
				p.fill(t)
				parent := &x509.Certificate{SerialNumber: big.NewInt(1), Subject: names[(gi+1)%len(names)], SubjectKeyId: []byte{7, 7, 7}}
				der, err := x509.CreateCertificate(rd, t, parent, s.pub, g.key)
				if err != nil {
					c.Note(fmt.Sprintf("CreateCertificate %s/%s/%s: %v", s.name, g.name, p.name, err))
					continue
				}
				out = append(out, genCert{name: fmt.Sprintf("%s signed %s profile %s", s.name, g.name, p.name), der: der, rsa: s.rsa})
			}
		}
	}
	// testdata certificates of the repository
	repo := os.Getenv("VERIF_REPO")
	if repo == "" {
		repo = "/repo"
	}
	files, _ := filepath.Glob(filepath.Join(repo, "attestation/yubiattest/testdata/*.crt"))
	sort.Strings(files)
	for _, f := range files {
		data, err := os.ReadFile(f)
		if err != nil {
			continue
		}
		if blk, _ := pem.Decode(data); blk != nil {
			isRSA := false
			if sc, err := x509.ParseCertificate(blk.Bytes); err == nil {
				_, isRSA = sc.PublicKey.(*rsa.PublicKey)
			}
			out = append(out, genCert{name: "testdata " + filepath.Base(f), der: blk.Bytes, rsa: isRSA})
		}
	}
	c.StatN("certificates", len(out))

	parseY := func(der []byte) (y *x509.Certificate, err error, panicked bool, msg string) {
		panicked, msg = core.Guard(func() { y, err = yubiattest.ParseCertificate(der) })
		return
	}
	for gi, gc := range out {
		in := map[string]interface{}{"certificate": gc.name, "der": hex.EncodeToString(gc.der)}
		// (a) agreement with the standard library
		y, yerr, p, msg := parseY(gc.der)
		if p {
			c.Native("panic in yubiattest.ParseCertificate on a well-formed certificate: "+msg, in)
			continue
		}
		s, serr := x509.ParseCertificate(gc.der)
		if serr != nil {
			c.Note("crypto/x509 rejects generated certificate " + gc.name + ": " + serr.Error())
			continue
		}
		if yerr != nil {
			// known finding K7: a CRITICAL name-constraints extension that excludes subtrees, or constrains name forms other
			// than DNS names, is "unhandled" for the lenient parser (the fork predates their support in crypto/x509) and the
			// certificate is refused with exactly that error; every other refusal of a well-formed certificate is a violation
			var unhandled x509.UnhandledCriticalExtension
			otherForms := len(s.ExcludedDNSDomains)+len(s.PermittedIPRanges)+len(s.ExcludedIPRanges)+len(s.PermittedEmailAddresses)+
				len(s.ExcludedEmailAddresses)+len(s.PermittedURIDomains)+len(s.ExcludedURIDomains) > 0
			if errors.As(yerr, &unhandled) && s.PermittedDNSDomainsCritical && otherForms {
				out[gi].known = true
				c.KnownFindingProbe("K7-critical-name-constraints", "a certificate whose critical name-constraints extension excludes subtrees or constrains other name forms than DNS names is refused by yubiattest.ParseCertificate (unhandled critical extension)",
					map[string]interface{}{"certificate": gc.name, "lenient_error": yerr.Error()})
				continue
			}
			c.Native("yubiattest.ParseCertificate rejects a well-formed certificate that crypto/x509 accepts: "+yerr.Error(), in)
			continue
		}
		if d := diffFields(y, s, true); len(d) == 1 && d[0] == "URIs" && len(y.URIs) == 0 && len(s.URIs) > 0 {
			// known finding K5: the lenient parser (a fork of the pre-Go-1.10 parser) does not decode
			// uniformResourceIdentifier entries of subjectAltName; everything else about the certificate agrees
			c.KnownFindingProbe("K5-san-uri", "a URI entry in subjectAltName is not decoded by yubiattest.ParseCertificate (Certificate.URIs stays empty where crypto/x509 reports the URIs)",
				map[string]interface{}{"certificate": gc.name, "stdlib_URIs": fmt.Sprint(s.URIs), "lenient_URIs": fmt.Sprint(y.URIs)})
		} else if len(d) > 0 {
			c.Native("yubiattest.ParseCertificate disagrees with crypto/x509 on "+strings.Join(d, ","), in)
		} else {
			c.NativeCheck(1)
			c.Stat("parsers-agree")
		}
		// the extension list as a Coq-compared ModHex case
		emitModHex(c, "modhex-parsed-certificate", y.Extensions)
		// the envelope as a Coq-compared case
		derName := defineDER(gc.der)
		emitEnvelope(c, "envelope", derName, gc.der, y)
		emitFields(c, "fields", derName, gc.der, y)
		// the same certificate with a negative serial number (legal DER; recent crypto/x509 refuses it, so only the
		// model is consulted): when the lenient parser accepts it, the serial it reports is the negative integer
		if gi%3 == 0 {
			if nd, ok := core.NegativeSerialDER(gc.der); ok {
				y5, y5err, p, msg := parseY(nd)
				switch {
				case p:
					c.Native("panic in yubiattest.ParseCertificate (negative serial number): "+msg, hex.EncodeToString(nd))
				case y5err != nil:
					c.Stat("negative-serial-refused")
				default:
					c.Stat("negative-serial-accepted")
					emitFields(c, "fields-negative-serial", defineDER(nd), nd, y5)
				}
			}
		}
		// the same certificate carrying issuer / subject unique identifiers (legal, rarely used): everything else,
		// the extension list included, is reported as before
		for ui, ids := range [][2][]byte{{{1, 2, 3}, nil}, {nil, {9}}, {{0xaa}, {0xbb, 0xcc}}} {
			if !c.Thorough() && (gi+ui)%3 != 0 {
				continue
			}
			der4, ok := addUniqueIDs(gc.der, ids[0], ids[1])
			if !ok {
				continue
			}
			in4 := map[string]interface{}{"certificate": gc.name + " (unique identifiers added)", "der": hex.EncodeToString(der4)}
			y4, y4err, p, msg := parseY(der4)
			s4, s4err := x509.ParseCertificate(der4)
			switch {
			case p:
				c.Native("panic in yubiattest.ParseCertificate (unique identifiers): "+msg, in4)
			case s4err != nil:
				c.Stat("unique-ids-stdlib-rejects")
			case y4err != nil:
				c.Native("yubiattest.ParseCertificate rejects a certificate with unique identifiers that crypto/x509 accepts: "+y4err.Error(), in4)
			default:
				if d := diffFields(y4, s4, true); len(d) == 1 && d[0] == "URIs" && len(y4.URIs) == 0 && len(s4.URIs) > 0 {
					c.KnownFindingProbe("K5-san-uri", "a URI entry in subjectAltName is not decoded by yubiattest.ParseCertificate (Certificate.URIs stays empty where crypto/x509 reports the URIs)",
						map[string]interface{}{"certificate": gc.name + " (unique identifiers added)", "stdlib_URIs": fmt.Sprint(s4.URIs)})
				} else if len(d) > 0 {
					c.Native("yubiattest.ParseCertificate disagrees with crypto/x509 on "+strings.Join(d, ",")+" (unique identifiers present)", in4)
				} else {
					c.NativeCheck(1)
				}
				emitFields(c, "fields-unique-ids", defineDER(der4), der4, y4)
				emitModHex(c, "modhex-parsed-certificate", y4.Extensions)
			}
		}

		// (b) RSA key algorithm without the NULL parameter
		if gc.rsa {
			if der2, ok := dropKeyAlgNull(gc.der); ok {
				in2 := map[string]interface{}{"certificate": gc.name + " (key-algorithm NULL removed)", "der": hex.EncodeToString(der2)}
				y2, y2err, p, msg := parseY(der2)
				switch {
				case p:
					c.Native("panic in yubiattest.ParseCertificate (key-algorithm NULL removed): "+msg, in2)
				case y2err != nil:
					c.Native("yubiattest.ParseCertificate rejects an RSA certificate whose key algorithm omits the NULL parameter: "+y2err.Error(), in2)
				default:
					if d := diffFields(y2, y, false); len(d) > 0 {
						c.Native("without the key-algorithm NULL the parser decodes different "+strings.Join(d, ","), in2)
					} else if !bytes.Equal(y2.Raw, der2) {
						c.Native("Raw is not the input (key-algorithm NULL removed)", in2)
					} else {
						c.NativeCheck(1)
						c.Stat("null-removed-accepted")
						d2name := defineDER(der2)
						emitEnvelope(c, "envelope-null-removed", d2name, der2, y2)
						emitFields(c, "fields-null-removed", d2name, der2, y2)
					}
				}
				if _, e := x509.ParseCertificate(der2); e != nil {
					c.Stat("null-removed-stdlib-rejects")
				} else {
					c.Stat("null-removed-stdlib-accepts")
				}
			} else {
				c.Note("NULL surgery not applicable to " + gc.name)
			}
		}
		// (c) trailing data
		// (incl. trailing data that is itself one or two complete, well-formed certificates)
		other := out[(gi+1)%len(out)].der
		for _, tail := range [][]byte{{0}, {0x30, 0x00}, []byte("\n"), gc.der[:5], gc.der, other, append(append([]byte(nil), other...), gc.der...)} {
			d3 := append(append([]byte(nil), gc.der...), tail...)
			_, e, p, msg := parseY(d3)
			if p {
				c.Native("panic in yubiattest.ParseCertificate (trailing data): "+msg, hex.EncodeToString(d3))
			} else if e == nil {
				c.Native("yubiattest.ParseCertificate accepts trailing data", map[string]interface{}{"certificate": gc.name, "tail": hex.EncodeToString(tail)})
			} else {
				c.NativeCheck(1)
				c.Stat("trailing-rejected")
				c.Case("envelope-trailing-data", core.GApp("CCert", "("+derName+" ++ "+core.GBytes(tail)+")", "None"),
					map[string]interface{}{"op": "ParseCertificate (trailing data)", "certificate": gc.name, "tail": hex.EncodeToString(tail)})
			}
		}
		// (d) mutations and truncations: no panic (parser and serial extractor)
		nm := c.N(150, 4000)
		for i := 0; i < nm; i++ {
			m := append([]byte(nil), gc.der...)
			switch i % 5 {
			case 0:
				m = m[:r.Intn(len(m))]
			case 1:
				m[r.Intn(len(m))] ^= 1 << uint(r.Intn(8))
			case 2:
				m[r.Intn(len(m))] = byte(r.Intn(256))
			case 3:
				for j, n := 0, 1+r.Intn(4); j < n; j++ {
					m[r.Intn(len(m))] = core.Pick[byte](r, 0, 0xff, 0x80, 0x30, 0x05, 0x7f, 0x81)
				}
			default:
				a := r.Intn(len(m))
				b := a + r.Intn(len(m)-a)
				m = append(m[:a:a], m[b:]...)
			}
			var ym *x509.Certificate
			if p, msg := core.Guard(func() {
				var e error
				ym, e = yubiattest.ParseCertificate(m)
				if e == nil && ym != nil {
					yubiattest.ModHex(ym)
				}
			}); p {
				c.Native("panic in yubiattest.ParseCertificate / ModHex on mutated bytes: "+msg, hex.EncodeToString(m))
			} else {
				c.NativeCheck(1)
				if ym != nil {
					c.Stat("mutant-still-parses")
				} else {
					c.Stat("mutant-rejected")
				}
			}
		}
	}
	// arbitrary bytes
	for i, n := 0, c.N(2000, 100000); i < n; i++ {
		b := make([]byte, r.Intn(64))
		r.Read(b)
		if len(b) > 2 && r.Intn(2) == 0 {
			b[0], b[1] = 0x30, byte(len(b)-2)
		}
		if p, msg := core.Guard(func() { yubiattest.ParseCertificate(b) }); p {
			c.Native("panic in yubiattest.ParseCertificate on arbitrary bytes: "+msg, hex.EncodeToString(b))
		} else {
			c.NativeCheck(1)
		}
	}
	driver.Prelude = certDefs.String()
	var usable []genCert
	for _, g := range out {
		if !g.known {
			usable = append(usable, g)
		}
	}
	return usable
}

// ------------------------------------------------------------ PEM bundles ----

func runPEM(c *core.Ctx, all []genCert) {
	r := c.Rng
	// a pool of small certificates
	var pool []genCert
	for _, g := range all {
		if len(g.der) < 700 && len(pool) < 6 {
			pool = append(pool, g)
		}
	}
	if len(pool) < 3 {
		pool = all[:3]
	}
	certID := func(raw []byte) (int, bool) {
		for i, g := range pool {
			if bytes.Equal(g.der, raw) {
				return i, true
			}
		}
		return 0, false
	}
	notACert := []byte("this is not a certificate")
	texts := []string{"subject=CN = Yubico PIV Attestation\nissuer=CN = Yubico PIV Root CA Serial 263751\n", "# bundle\n", "Bag Attributes\n    friendlyName: x\n", "text without newline"}
	blanks := []string{"\n", " \n\t\r\n", "\r\n\r\n", "\v\f ", "\u00a0\n", "\u2028\u3000\u2003", "\u0085", "\u1680\u205f\u202f\u2029"}
	garbage := []string{"garbage", "-----BEGIN CERTIFICATE-----\n!!!not base64!!!\n-----END CERTIFICATE-----\n", "-----BEGIN CERTIFICATE-----\nMIIB", "x", "\x00", "\xc2", "\xe2\x80", "\u200b", "-----END CERTIFICATE-----\n", "\n.\n"}

	// The PEM text of the pool certificates is defined once per cases file
	// (LF and CRLF line ends); a bundle is a concatenation of those names and
	// of short literal pieces, so the case terms stay small.
	pemText := map[string][]byte{}
	var defs strings.Builder
	pemOf := func(i int, crlf bool) []byte {
		name := fmt.Sprintf("pem_blk_%d_lf", i)
		if crlf {
			name = fmt.Sprintf("pem_blk_%d_crlf", i)
		}
		if b, ok := pemText[name]; ok {
			return b
		}
		b := pem.EncodeToMemory(&pem.Block{Type: "CERTIFICATE", Bytes: pool[i].der})
		if crlf {
			b = bytes.ReplaceAll(b, []byte("\n"), []byte("\r\n"))
		}
		pemText[name] = b
		fmt.Fprintf(&defs, "Definition %s : list N := Eval vm_compute in %s.\n", name, core.GBytes(b))
		return b
	}
	for i := range pool {
		pemOf(i, false)
		pemOf(i, true)
	}
	driver.Prelude += "\n" + defs.String()
	gData := func(data []byte) string {
		var parts []string
		var lit []byte
		flush := func() {
			if len(lit) > 0 {
				parts = append(parts, core.GBytes(lit))
				lit = nil
			}
		}
	outer:
		for len(data) > 0 {
			if data[0] == '-' {
				for name, b := range pemText {
					if bytes.HasPrefix(data, b) && (len(name) > 0) {
						// prefer the longest match (CRLF text is never a prefix of LF text and vice versa)
						flush()
						parts = append(parts, name)
						data = data[len(b):]
						continue outer
					}
				}
			}
			lit = append(lit, data[0])
			data = data[1:]
		}
		flush()
		if len(parts) == 0 {
			return "[]"
		}
		return "(" + strings.Join(parts, " ++ ") + ")"
	}
	emit := func(class string, data []byte, expect []int, refuse bool) {
		// the splitter's behaviour on this input
		type step struct {
			n     int
			found bool
			blk   int
			rest  int
		}
		var steps []step
		var blockBytes [][]byte
		blockID := func(b []byte) int {
			for i, x := range blockBytes {
				if bytes.Equal(x, b) {
					return i
				}
			}
			blockBytes = append(blockBytes, b)
			return len(blockBytes) - 1
		}
		for d := data; len(d) != 0; {
			blk, rest := pem.Decode(d)
			if blk == nil {
				steps = append(steps, step{n: len(d)})
				break
			}
			steps = append(steps, step{len(d), true, blockID(blk.Bytes), len(rest)})
			if len(rest) >= len(d) {
				c.Native("encoding/pem returned a rest that is not shorter than its input (harness assumption)", hex.EncodeToString(d))
				return
			}
			d = rest
		}
		var dec, blocks []string
		for _, s := range steps {
			v := "None"
			if s.found {
				v = "(Some " + core.GPair(core.GN(uint64(s.blk)), core.GN(uint64(s.rest))) + ")"
			}
			dec = append(dec, core.GPair(core.GN(uint64(s.n)), v))
		}
		for i, b := range blockBytes {
			v := "None"
			if y, err := yubiattest.ParseCertificate(b); err == nil {
				if id, ok := certID(y.Raw); ok {
					v = "(Some " + core.GN(uint64(id)) + ")"
				} else {
					v = "(Some 99%N)"
				}
			}
			blocks = append(blocks, core.GPair(core.GN(uint64(i)), v))
		}
		var got []*x509.Certificate
		var err error
		obs := ""
		if p, _ := core.Guard(func() { got, err = utils.ParsePEMCertificates(data) }); p {
			obs = "PPanic"
		} else if err != nil {
			if strings.HasPrefix(err.Error(), "PEM: failed to decode") {
				obs = "PErrGarbage"
			} else {
				obs = "PErrParse"
			}
		} else {
			var ids []int
			for _, g := range got {
				id, ok := certID(g.Raw)
				if !ok {
					id = 99
				}
				ids = append(ids, id)
			}
			obs = core.GApp("POk", gNList(ids))
		}
		exp := "None"
		if !refuse {
			exp = "(Some " + gNList(expect) + ")"
		}
		c.Case(class, core.GApp("CPem", gData(data), core.GList(dec), core.GList(blocks), exp, obs),
			map[string]interface{}{"op": "ParsePEMCertificates", "data": string(data), "expected_certificates": expect, "must_refuse": refuse, "observed": obs, "err": fmt.Sprint(err)})

		// ParsePEMCertificate (singular): first certificate, or an error for an empty bundle
		var one *x509.Certificate
		var oerr error
		if p, msg := core.Guard(func() { one, oerr = utils.ParsePEMCertificate(data) }); p {
			c.Native("panic in utils.ParsePEMCertificate: "+msg, string(data))
		} else {
			switch {
			case err != nil && oerr == nil, err == nil && len(got) == 0 && oerr == nil,
				err == nil && len(got) > 0 && (oerr != nil || !bytes.Equal(one.Raw, got[0].Raw)):
				c.Native("utils.ParsePEMCertificate is not the first certificate of ParsePEMCertificates / error on an empty bundle", string(data))
			default:
				c.NativeCheck(1)
			}
		}
	}
	// fixed shapes first
	emit("pem-empty", nil, nil, false)
	emit("pem-empty", []byte{}, nil, false)
	for _, b := range blanks {
		emit("pem-blank", []byte(b), nil, false)
	}
	for _, g := range garbage {
		emit("pem-only-garbage", []byte(g), nil, true)
	}
	emit("pem-not-a-certificate", pem.EncodeToMemory(&pem.Block{Type: "CERTIFICATE", Bytes: notACert}), nil, true)
	for n := 0; n <= 5; n++ {
		var data []byte
		var ids []int
		for j := 0; j < n; j++ {
			ids = append(ids, j%len(pool))
			data = append(data, pemOf(j%len(pool), false)...)
		}
		emit("pem-bundle-plain", data, ids, false)
		emit("pem-bundle-trailing-space", append(append([]byte(nil), data...), " \n\t\n"...), ids, false)
		emit("pem-bundle-trailing-garbage", append(append([]byte(nil), data...), "garbage\n"...), ids, true)
		emit("pem-bundle-leading-text", append([]byte(texts[0]), data...), ids, n == 0)
	}
	// random bundles
	for i, m := 0, c.N(80, 2000); i < m; i++ {
		var data []byte
		var ids []int
		refuse := false
		n := r.Intn(6)
		class := "pem-random-ok"
		if r.Intn(2) == 0 {
			data = append(data, texts[r.Intn(len(texts))]...)
			if n > 0 || true {
				data = append(data, '\n')
			}
		}
		leading := len(data) > 0
		for j := 0; j < n; j++ {
			id := r.Intn(len(pool))
			if r.Intn(25) == 0 {
				data = append(data, pem.EncodeToMemory(&pem.Block{Type: "CERTIFICATE", Bytes: notACert})...)
				refuse = true
				class = "pem-random-bad-block"
			} else {
				ids = append(ids, id)
				data = append(data, pemOf(id, r.Intn(4) == 0)...)
			}
			// filler between blocks; a BEGIN line must start a line, so the filler ends one
			switch r.Intn(4) {
			case 0:
				data = append(data, blanks[r.Intn(len(blanks))]...)
				data = append(data, '\n')
			case 1:
				data = append(data, texts[r.Intn(3)]...)
			}
		}
		switch r.Intn(4) {
		case 0:
			data = append(data, blanks[r.Intn(len(blanks))]...)
		case 1:
			data = append(data, blanks[r.Intn(len(blanks))]...)
			data = append(data, garbage[r.Intn(len(garbage))]...)
			refuse = true
			if class == "pem-random-ok" {
				class = "pem-random-trailing-garbage"
			}
		case 2:
			data = append(data, garbage[r.Intn(len(garbage))]...)
			data = append(data, blanks[r.Intn(len(blanks))]...)
			refuse = true
			if class == "pem-random-ok" {
				class = "pem-random-trailing-garbage"
			}
		}
		// text after the last block (or with no block at all) is not white space: refused
		if !refuse {
			tail := data
			if idx := bytes.LastIndex(data, []byte("-----END CERTIFICATE-----")); idx >= 0 {
				tail = data[idx+len("-----END CERTIFICATE-----"):]
			} else if !leading {
				tail = data
			}
			if len(bytes.TrimSpace(tail)) != 0 {
				refuse = true
				class = "pem-random-trailing-text"
			}
		}
		emit(class, data, ids, refuse)
	}
	// bytes.TrimSpace emptiness against Model.Pem.is_blank
	atoms := []string{" ", "\t", "\n", "\v", "\f", "\r", "\u0085", "\u00a0", "\u1680", "\u2000", "\u2005", "\u200a", "\u2028", "\u2029", "\u202f",
		"\u205f", "\u3000", " \n", "\u200b", "\u3001", "\ufeff", "\u180e", "\u2060", "a", "\x00", "\x1c", "\x1f", "\xc2", "\xc2\x84", "\xc2\xa1", "\xe2\x80", "\xe2\x80\x8b", "\xe2\x80\x7f", "\xe1\x9a", "\xe1\x9a\x81", "\xc0\xa0", "\xe0\x80\xa0", "\x85", "\xa0", "\xe3\x80\x81", "\xe2\x81\x9e", "\xe2\x80\xaa"}
	for i, m := 0, c.N(250, 3000); i < m; i++ {
		var b []byte
		for j, n := 0, r.Intn(5); j < n; j++ {
			if r.Intn(3) == 0 {
				b = append(b, atoms[r.Intn(len(atoms))]...)
			} else {
				b = append(b, atoms[r.Intn(18)]...)
			}
		}
		if i < len(atoms) {
			b = []byte(atoms[i])
		}
		c.Case("trimspace", core.GApp("CBlank", gBytes(b), core.GBool(len(bytes.TrimSpace(b)) == 0)),
			map[string]interface{}{"op": "bytes.TrimSpace", "data": hex.EncodeToString(b)})
	}
}

// -------------------------------------------------------------------- DER ----

type node struct {
	id   byte
	prim []byte
	kids []*node
}

func (n *node) content() []byte {
	if n.id&0x20 == 0 {
		return n.prim
	}
	var b []byte
	for _, k := range n.kids {
		b = append(b, k.marshal()...)
	}
	return b
}

func (n *node) marshal() []byte {
	out, err := asn1.Marshal(asn1.RawValue{Class: int(n.id >> 6), Tag: int(n.id & 0x1f), IsCompound: n.id&0x20 != 0, Bytes: n.content()})
	if err != nil {
		panic(err)
	}
	return out
}

func (n *node) gallina() string {
	if n.id&0x20 == 0 {
		return core.GApp("DPrim", core.GN(uint64(n.id)), gBytes(n.prim))
	}
	var ks []string
	for _, k := range n.kids {
		ks = append(ks, k.gallina())
	}
	return core.GApp("DCons", core.GN(uint64(n.id)), core.GList(ks))
}

func genID(r *rand.Rand, cons bool) byte {
	id := byte(r.Intn(31)) | byte(r.Intn(4))<<6
	if r.Intn(2) == 0 { // common universal tags
		id = core.Pick[byte](r, 2, 3, 4, 5, 6, 12, 19, 23, 1, 10)
		if cons {
			id = core.Pick[byte](r, 0x10, 0x11, 0x80|0, 0x80|3)
		}
	}
	if cons {
		id |= 0x20
	} else {
		id &^= 0x20
	}
	return id
}

func genNode(r *rand.Rand, depth int) *node {
	if depth > 0 && r.Intn(2) == 0 {
		n := &node{id: genID(r, true)}
		for i, k := 0, r.Intn(4); i < k; i++ {
			n.kids = append(n.kids, genNode(r, depth-1))
		}
		return n
	}
	n := &node{id: genID(r, false)}
	n.prim = make([]byte, core.Pick(r, 0, 0, 1, 2, 3, 5, 8, 20, 33))
	r.Read(n.prim)
	return n
}

func runDER(c *core.Ctx) {
	r := c.Rng
	emitTree := func(class string, n *node) {
		enc := n.marshal()
		c.Case(class, core.GApp("CDer", n.gallina(), gBytes(enc)), map[string]interface{}{"op": "asn1.Marshal(RawValue tree)", "der": hex.EncodeToString(enc)})
	}
	// length-form boundaries
	for _, l := range []int{65535, 65536, 70000} { // three length octets: content given as (rep b n)
		p := bytes.Repeat([]byte{0x61}, l)
		enc := (&node{id: 4, prim: p}).marshal()
		hdr := enc[:len(enc)-l]
		rep := fmt.Sprintf("(rep 97%%N %d%%N)", l)
		c.Case("der-length-boundary", core.GApp("CDer", core.GApp("DPrim", "4%N", rep), "("+core.GBytes(hdr)+" ++ "+rep+")"),
			map[string]interface{}{"op": "asn1.Marshal(RawValue)", "content": fmt.Sprintf("%d x 61", l), "header": hex.EncodeToString(hdr)})
	}
	for _, l := range []int{0, 1, 126, 127, 128, 129, 255, 256, 257, 300} {
		p := make([]byte, l)
		r.Read(p)
		emitTree("der-length-boundary", &node{id: 4, prim: p})
		if l < 1000 {
			emitTree("der-length-boundary", &node{id: 0x30, kids: []*node{{id: 4, prim: p}}})
			if l >= 2 {
				emitTree("der-length-boundary", &node{id: 0x30, kids: []*node{{id: 4, prim: p[:l-2]}}})
			}
		}
	}
	for i, m := 0, c.N(250, 4000); i < m; i++ {
		emitTree("der-random-tree", genNode(r, 3))
	}
	// one-level parses of arbitrary / damaged encodings against asn1.Unmarshal(RawValue)
	emitParse := func(class string, b []byte) {
		if len(b) > 0 && b[0]&0x1f == 0x1f { // high-tag-number form: outside the model's scope
			return
		}
		var rv asn1.RawValue
		rest, err := asn1.Unmarshal(b, &rv)
		g := "None"
		if err == nil {
			g = "(Some " + core.GPair(core.GPair(core.GN(uint64(rv.FullBytes[0])), gBytes(rv.Bytes)), gBytes(rest)) + ")"
		}
		c.Case(class, core.GApp("CDerParse", gBytes(b), g), map[string]interface{}{"op": "asn1.Unmarshal(RawValue)", "bytes": hex.EncodeToString(b), "err": fmt.Sprint(err)})
	}
	for _, h := range []string{"", "30", "3000", "300100", "3001", "0500", "058100", "04810161", "048180" + strings.Repeat("61", 128), "0481ff", "04820001" + "61",
		"0482008061", "0480", "04ff", "0485010000000061", "0484000000016100", "048400000001", "04830000016100", "0483010000", "0484800000006161", "0401610402", "a003020102", "0482010061"} {
		b, _ := hex.DecodeString(h)
		emitParse("der-parse-fixed", b)
	}
	for i, m := 0, c.N(300, 5000); i < m; i++ {
		enc := genNode(r, 2).marshal()
		switch i % 4 {
		case 0:
			enc = append(enc, byte(r.Intn(256)), byte(r.Intn(256)))
		case 1:
			enc = enc[:r.Intn(len(enc)+1)]
		case 2:
			enc[r.Intn(len(enc))] = byte(r.Intn(256))
		default:
			enc = make([]byte, r.Intn(8))
			r.Read(enc)
			if len(enc) > 1 && r.Intn(2) == 0 {
				enc[1] = core.Pick[byte](r, 0x80, 0x81, 0x82, 0x83, 0x84, 0x85, 0xff, 0, 1, 2)
			}
		}
		emitParse("der-parse-damaged", enc)
	}
	// OBJECT IDENTIFIER content octets
	emitOID := func(oid asn1.ObjectIdentifier) {
		enc, err := asn1.Marshal(oid)
		if err != nil {
			return
		}
		var rv asn1.RawValue
		if _, err := asn1.Unmarshal(enc, &rv); err != nil {
			return
		}
		c.Case("der-oid", core.GApp("COid", gNList(oid), gBytes(rv.Bytes)), map[string]interface{}{"op": "asn1.Marshal(ObjectIdentifier)", "oid": oid.String(), "content": hex.EncodeToString(rv.Bytes)})
	}
	for _, o := range []asn1.ObjectIdentifier{{1, 3, 14, 3, 2, 26}, {2, 16, 840, 1, 101, 3, 4, 2, 1}, {2, 16, 840, 1, 101, 3, 4, 2, 2}, {2, 16, 840, 1, 101, 3, 4, 2, 3},
		{1, 2, 840, 113549, 2, 5}, serialOID, {1, 2, 840, 113549, 1, 1, 1}, {0, 0}, {2, 39}, {2, 40}, {2, 999, 3}, {1, 39, 127, 128, 16383, 16384, 2097151, 2097152, 268435455, 268435456, 2147483647}} {
		emitOID(o)
	}
	for i, m := 0, c.N(100, 2000); i < m; i++ {
		a := r.Intn(3)
		b := r.Intn(40)
		if a == 2 && r.Intn(2) == 0 {
			b = r.Intn(100000)
		}
		o := asn1.ObjectIdentifier{a, b}
		for j, n := 0, r.Intn(8); j < n; j++ {
			o = append(o, core.Pick(r, r.Intn(128), r.Intn(1<<14), r.Intn(1<<21), r.Intn(1<<31), 127, 128, 0))
		}
		emitOID(o)
	}
}
