// Correspondence harness for C14: csr.NewReqParam with injected environment
// and argument getters against Model/ReqParam.v.
package main

import (
	"encoding/json"
	"fmt"
	"math/rand"
	"net"
	"sort"
	"strings"
	"unicode/utf8"

	"github.com/theparanoids/ysshra/csr"
	"verifharness/core"
)

func main() {
	core.Main("C14", &core.Driver{
		Imports:  "From Verif Require Import Lib.Base Lib.Json Model.Message Model.ReqParam Model.C14Check.",
		CheckFn:  "C14Check.check",
		ClassFn:  "C14Check.classify",
		CaseType: "C14Check.case",
		Run:      run,
	})
}

type input struct {
	cmd, logname, conn string
	argv               []string
}

func errCode(err error) uint64 {
	s := err.Error()
	switch {
	case strings.HasPrefix(s, "failed to load attributes from SSH_ORIGINAL_COMMAND"):
		return 1
	case strings.HasPrefix(s, "failed to load log name"):
		return 2
	case strings.HasPrefix(s, "failed to load client IP"):
		return 3
	case strings.HasPrefix(s, "failed to get namespace policy and handler name"):
		return 4
	case strings.HasPrefix(s, "length of the force command arguments exceeds"):
		return 5
	case strings.HasPrefix(s, "failed to validate namespace policy"):
		return 6
	case strings.HasPrefix(s, "failed to unmarshal client version"):
		return 7
	}
	return 99
}

// ---- generators ------------------------------------------------------------

func jstr(s string) string { b, _ := json.Marshal(s); return string(b) }

var versions = []string{"8.1", "7.4", "9.0", "0.0", "65535.65535", "65536.1", "1.65536", "8", "8.", ".1", "8.1.2", "8.1\n", "\n8.1", "\uff18.1", "08.01", "+8.1", "8.-1",
	" 8.1", "8.1 ", "1e3.1", "8,1", "99999999999999999999.1", "1.99999999999999999999", "\u0668.\u0661", "8.1x", "x8.1", "007.000", "10.10"}

func genVersion(r *rand.Rand) string {
	if r.Intn(3) > 0 {
		// zero-padded components are decimal ("8.010" is 8.10, not 8.8), whatever digits they use
		return core.Pick(r, "8.1", "7.4", "9.0", "0.0", "65535.65535", "08.01", "10.10", "007.000", "8.010", "010.0", "0017.012", "8.0x10", "0x8.1", "8.0b1", "8.1_0", "00000065535.0000000000000000000000001")
	}
	return core.Pick(r, versions...)
}

func genName(r *rand.Rand) string {
	switch r.Intn(8) {
	case 0:
		return core.GenText(r)
	case 1:
		return core.Pick(r, "\u00fcser", "\u65e5\u672c", "root", "a b", "u@h", "LOGNAME", "user\x00")
	default:
		return core.Pick(r, "user", "alice", "bob", "example_user", "host.com", "host-1.example.com", "sd-user")
	}
}

func genJSONCmd(r *rand.Rand) string {
	type kv struct{ k, v string }
	var kvs []kv
	add := func(k, v string) { kvs = append(kvs, kv{k, v}) }
	add(core.Pick(r, "ifVer", "ifVer", "IFVER"), core.Pick(r, "7", "7", "8", "0", "6", `"7"`, "7.0", "null"))
	if r.Intn(8) > 0 {
		add(core.Pick(r, "username", "username", "Username", "USERNAME"), jstr(genName(r)))
	}
	if r.Intn(8) > 0 {
		add("hostname", jstr(genName(r)))
	}
	if r.Intn(8) > 0 {
		add(core.Pick(r, "sshClientVersion", "sshClientVersion", "sshclientversion", "\u017f\u017fhClientVersion"), jstr(genVersion(r)))
	}
	if r.Intn(2) == 0 {
		add("signatureAlgo", core.Pick(r, "3", "0", "16", "-1", `"3"`, "null", "9223372036854775807"))
	}
	if r.Intn(2) == 0 {
		add("hardKey", core.Pick(r, "true", "false", "1", "null"))
	}
	if r.Intn(3) == 0 {
		add("touchlessSudo", core.Pick(r, `{"isFirefighter":true,"hosts":"h1,h2","time":30}`, "null", "{}", `{"time":"x"}`, "[]",
			// members of the nested object with other JSON types than the field has
			`{"hosts":["h1",2]}`, `{"hosts":[null]}`, `{"hosts":["a","b"]}`, `{"hosts":[["a"]]}`, `{"hosts":[{"name":"x"}]}`, `{"hosts":[]}`, `{"hosts":{"a":1}}`, `{"hosts":5}`,
			`{"isFirefighter":"yes","hosts":"h"}`, `{"isFirefighter":[true]}`, `{"time":[30]}`, `{"time":{"s":30}}`, `{"time":1e400}`, `{"hosts":null,"time":null,"isFirefighter":null}`))
	}
	if r.Intn(3) == 0 {
		add("exts", core.Pick(r, `{"field1":"value1","field2":100}`, "null", "{}", `{"a":{"b":[1,null,"x"]}}`, `"x"`, `{"LogName":"root","logname":"root"}`))
	}
	if r.Intn(4) == 0 { // attempts to smuggle server-side fields
		add(core.Pick(r, "LogName", "logName", "LOGNAME", "ClientIP", "NamespacePolicy", "TransID", "HandlerName"), jstr(core.Pick(r, "root", "1.1.1.1", "NSOK", "0000000000")))
	}
	if r.Intn(5) == 0 { // duplicate
		add("username", jstr(genName(r)))
	}
	r.Shuffle(len(kvs), func(a, b int) { kvs[a], kvs[b] = kvs[b], kvs[a] })
	var parts []string
	for _, p := range kvs {
		parts = append(parts, jstr(p.k)+":"+p.v)
	}
	return "{" + strings.Join(parts, ",") + "}"
}

func genLegacyCmd(r *rand.Rand) string {
	var toks []string
	toks = append(toks, core.Pick(r, "IFVer=6", "IFVer=6", "IFVer=7", "IFVer=x", ""))
	switch r.Intn(6) {
	case 0: // omitted
	case 1:
		toks = append(toks, core.Pick(r, "SSHClientVersion=", "SSHClientVersion", "sshclientversion=8.1"))
	default:
		toks = append(toks, "SSHClientVersion="+genVersion(r))
	}
	if r.Intn(8) > 0 {
		toks = append(toks, "req="+core.Pick(r, "user@host.com", "u@h", genName(r)+"@"+genName(r), "@", "u@", "@h", "uh", "a@b@c"))
	}
	if r.Intn(2) == 0 {
		toks = append(toks, core.Pick(r, "HardKey=true", "Touch2SSH=true", "IsFirefighter=true", "TouchlessSudoHosts=a,b", "TouchlessSudoTime=30", "github=false", "nonce=12345",
			"LOGNAME=root", "LogName=root", "ClientIP=9.9.9.9", "SSH_CONNECTION=9.9.9.9", "NONS", "TransID=0000000000"))
	}
	if r.Intn(6) == 0 {
		toks = append(toks, "req="+core.Pick(r, "x@y", "second@wins", "bad"))
	}
	r.Shuffle(len(toks), func(a, b int) { toks[a], toks[b] = toks[b], toks[a] })
	return strings.Join(toks, core.Pick(r, " ", " ", "  ", "\t ", " \n"))
}

// a message that passes message.Unmarshal (the client version may still be malformed)
func genValidCmd(r *rand.Rand) string {
	nm := func() string {
		for {
			if s := genName(r); s != "" && !strings.ContainsAny(s, "@ \t\n") && strings.TrimSpace(s) == s {
				return s
			}
		}
	}
	ver := genVersion(r)
	if r.Intn(2) == 0 {
		extra := core.Pick(r, "", `,"hardKey":true`, `,"signatureAlgo":3`, `,"exts":{"LogName":"root"}`, `,"touchlessSudo":{"time":30}`, `,"LogName":"root","ClientIP":"9.9.9.9"`, `,"ifVer":7`)
		if ver == "" {
			ver = "8.1"
		}
		return `{"username":` + jstr(nm()) + `,"hostname":` + jstr(nm()) + `,"sshClientVersion":` + jstr(ver) + extra + `}`
	}
	t := "IFVer=6 req=" + nm() + "@" + nm()
	switch r.Intn(5) {
	case 0: // omitted
	case 1:
		t += core.Pick(r, " SSHClientVersion=", " SSHClientVersion")
	default:
		t += " SSHClientVersion=" + strings.TrimSpace(ver)
	}
	return t + core.Pick(r, "", " HardKey=true", " LOGNAME=root", " TouchlessSudoTime=30 IsFirefighter=true", "  ")
}

func genCmd(r *rand.Rand) string {
	if r.Intn(10) < 6 {
		return genValidCmd(r)
	}
	switch r.Intn(20) {
	case 0:
		return core.Pick(r, "null", " null", "null ", "[]", "[null]", "1", "-0", "1e5", `"x"`, `"req=a@b"`, "true", "false", "{}", `[" req=a@b SSHClientVersion=8.1 "]`, `{"ifVer":"x","k":" req=a@b "}`)
	case 1:
		return core.Pick(r, "", " ", "\n", "req", "=", "@", "req=@")
	case 2:
		return core.GenText(r)
	case 3, 4, 5, 6, 7, 8:
		return genLegacyCmd(r)
	default:
		return genJSONCmd(r)
	}
}

var conns = []string{"1.2.3.4 36673 192.168.223.229 22", "::1 5 ::1 22", "2001:db8::1 1 2001:db8::2 22", "", " 1.2.3.4", "1.2.3.4", "1.2.3.4 ", "host 1", "300.1.1.1 5 6 7",
	"  1.2.3.4 5 6 7", "1.2.3.4  5", "fe80::1%eth0 5 6 7", "fe80::1 5 6 7", "1.2.3.4\t5 6 7", "1.2.3.4\n 5", "01.2.3.4 5 6 7", "1.2.3 5", "::ffff:1.2.3.4 5 6 7", "1.2.3.4:22 5",
	"[::1] 5", "0.0.0.0 0 0.0.0.0 0", "255.255.255.255 1 2 3", "1.2.3.4.5 1", "\u0661.2.3.4 5", "1.2.3.4\u00a05 6 7", "::", ":: 1", "1::2::3 4", "x 1.2.3.4", "1.2.3.4,5"}

func genConn(r *rand.Rand) string {
	if r.Intn(3) > 0 {
		return core.Pick(r, conns[0], conns[1], conns[2], "10.0.0.7 1 10.0.0.8 22", "1.2.3.4")
	}
	if r.Intn(6) == 0 {
		return core.GenText(r)
	}
	return core.Pick(r, conns...)
}

func genLogname(r *rand.Rand) string {
	switch r.Intn(8) {
	case 0:
		return ""
	case 1:
		return genName(r)
	default:
		return core.Pick(r, "user", "sshra", "root", "\u00fcser", "a b", " ")
	}
}

var policyToks = []string{"NONS", "NSOK", "NONS", "NSOK", "nons", "NSOk", "", "NONS\t", "trash", "NONSX", "NS", "NSOKNONS", "\u039dONS"}

func genArgv(r *rand.Rand) []string {
	pol := func() string {
		if r.Intn(4) > 0 {
			return core.Pick(r, "NONS", "NSOK")
		}
		return core.Pick(r, policyToks...)
	}
	handler := func() string { return core.Pick(r, "Regular", "Regular", "Headless", "", "h", "NONS", "\u65e5") }
	switch r.Intn(10) {
	case 0, 1:
		return []string{"/usr/bin/gensign", pol(), handler()}
	case 2, 3:
		return []string{"gensign", "-c", "/usr/bin/gensign " + pol() + " " + handler()}
	case 4:
		return []string{core.Pick(r, "bash", "-bash", "/bin/sh"), "-c", "/usr/bin/gensign" + core.Pick(r, " ", "  ", " -x ") + pol() + core.Pick(r, " ", "  ") + handler()}
	case 5:
		return []string{"/usr/bin/gensign " + pol() + " " + handler()}
	}
	// free form: 0..8 arguments, each of 0..3 space-separated words
	n := r.Intn(9)
	argv := make([]string, n)
	for i := range argv {
		k := r.Intn(4)
		var ws []string
		for j := 0; j < k; j++ {
			ws = append(ws, core.Pick(r, "gensign", "-c", "NONS", "NSOK", "Regular", "x", "", "/usr/bin/gensign", "nsok"))
		}
		argv[i] = strings.Join(ws, " ")
	}
	if n >= 2 && r.Intn(2) == 0 {
		argv[n-2], argv[n-1] = pol(), handler()
	}
	return argv
}

// ---- driver ----------------------------------------------------------------

func run(c *core.Ctx) {
	r := c.Rng
	var transIDs []string

	emit := func(class string, in input) {
		var p *csr.ReqParam
		var err error
		argvCopy := append([]string(nil), in.argv...)
		if pn, msg := core.Guard(func() {
			p, err = csr.NewReqParam(func(k string) string {
				switch k {
				case "SSH_ORIGINAL_COMMAND":
					return in.cmd
				case "LOGNAME":
					return in.logname
				case "SSH_CONNECTION":
					return in.conn
				}
				return ""
			}, func() []string { return argvCopy })
		}); pn {
			c.Native("panic in csr.NewReqParam: "+msg, fmt.Sprintf("%+q", in))
			return
		}
		if err == nil && p == nil {
			c.Native("csr.NewReqParam returned (nil, nil)", fmt.Sprintf("%+q", in))
			return
		}
		valid := utf8.ValidString(in.cmd) && utf8.ValidString(in.logname) && utf8.ValidString(in.conn)
		for _, a := range in.argv {
			valid = valid && utf8.ValidString(a)
		}
		if !valid { // the model's text is code points: Go-side no-panic oracle only
			c.NativeCheck(1)
			return
		}
		first := in.conn
		if i := strings.IndexByte(first, ' '); i >= 0 {
			first = first[:i]
		}
		ipOK := net.ParseIP(first) != nil
		res := ""
		if err != nil {
			res = "(Err " + core.GN(errCode(err)) + ")"
		} else {
			var ma, mi uint64
			vs := p.SSHClientVersion.Marshal()
			if n, e := fmt.Sscanf(vs, "%d.%d", &ma, &mi); n != 2 || e != nil {
				c.Native("version does not print as major.minor: "+vs, fmt.Sprintf("%+q", in))
				return
			}
			if !utf8.ValidString(p.ReqUser) || !utf8.ValidString(p.ReqHost) || !utf8.ValidString(p.HandlerName) || !utf8.ValidString(p.TransID) {
				c.Native("invalid UTF-8 in a result built from valid UTF-8 input", fmt.Sprintf("%+q", in))
				return
			}
			if len(transIDs) < 3000 {
				transIDs = append(transIDs, p.TransID)
			}
			res = "(Ok " + core.GApp("mkObs", core.GStr(string(p.NamespacePolicy)), core.GStr(p.HandlerName), core.GStr(p.ClientIP), core.GStr(p.LogName),
				core.GStr(p.ReqUser), core.GStr(p.ReqHost), core.GStr(p.TransID), core.GN(ma), core.GN(mi), core.GZ(int64(p.SignatureAlgo))) + ")"
		}
		tree, ok := core.JSONTree([]byte(in.cmd))
		c.Case(class, core.GApp("CParam", core.GStr(in.cmd), core.GOpt(ok, tree), core.GStr(in.logname), core.GStr(in.conn), core.GBool(ipOK),
			core.GStrList(in.argv), res),
			map[string]interface{}{"SSH_ORIGINAL_COMMAND": in.cmd, "LOGNAME": in.logname, "SSH_CONNECTION": in.conn, "argv": in.argv,
				"err": fmt.Sprint(err), "result": fmt.Sprintf("%+v", p)})
	}

	goodJSON := `{"exts":{"field1":"value1","field2":100},"hardKey":true,"hostname":"host.com","ifVer":7,"signatureAlgo":3,"sshClientVersion":"8.1","touch2SSH":false,"username":"user"}`
	goodLegacy := "IFVer=6 SSHClientVersion=8.1 req=user@host.com HardKey=true"
	goodConn := "1.2.3.4 36673 192.168.223.229 22"
	goodArgv := []string{"/usr/bin/gen-sign", "NONS", "Regular"}

	// (0) regression input of the fixed finding first (JSON null used to crash), then the suite's rows
	for _, cmd := range []string{"null", " null ", "[null]", "[]", "0", `""`, "true", "{}", goodJSON, goodLegacy, "",
		"IFVer=6 req=user@host.com", `[" req=a@b SSHClientVersion=8.1 "]`} {
		emit("corpus", input{cmd, "user", goodConn, goodArgv})
	}
	// polyglots: valid JSON syntax, typed members that decode, ONE mistyped member (the struct decode reports a type
	// error and the text goes to the legacy parser), and a blank-delimited req=user@host token inside a string, without
	// an SSHClientVersion token: nothing of the rejected JSON may survive into the result (version 0.0, no algorithm)
	for i, n := 0, c.N(60, 1500); i < n; i++ {
		ver := core.Pick(r, "9.9", "8.1", "65535.65535", "1.0")
		typed := []string{`"sshClientVersion":` + jstr(ver), `"signatureAlgo":` + fmt.Sprint(core.Pick(r, 1, 3, 4, 10)), `"pubKeyAlgo":` + fmt.Sprint(core.Pick(r, 1, 2, 3)),
			`"hardKey":true`, `"touch2SSH":true`, `"username":"json-user"`, `"hostname":"json-host"`, `"touchlessSudo":{"isFirefighter":true,"hosts":"h1","time":30}`}
		r.Shuffle(len(typed), func(a, b int) { typed[a], typed[b] = typed[b], typed[a] })
		typed = typed[:1+r.Intn(len(typed))]
		bad := core.Pick(r, `"ifVer":"six"`, `"hardKey":"yes"`, `"touch2SSH":1`, `"ifVer":1.5`, `"username":7`, `"touchlessSudo":{"time":"soon"}`, `"exts":[]`)
		tok := " req=" + genName(r) + "@" + genName(r) + core.Pick(r, " ", " HardKey=false ", " IFVer=6 ")
		note := core.Pick(r, `"note":`, `"zz":`, `"A":`) + jstr(tok)
		parts := append(append([]string{}, typed...), bad, note)
		if r.Intn(2) == 0 {
			r.Shuffle(len(parts), func(a, b int) { parts[a], parts[b] = parts[b], parts[a] })
		}
		emit("json-type-error-with-typed-members-and-legacy-token", input{"{" + strings.Join(parts, ",") + "}", "user", goodConn, goodArgv})
	}
	// polyglots of the second kind: a JSON attribute object that decodes cleanly but lacks a required member (absent
	// or empty), with a blank-delimited req=user@host token (and other legacy tokens) inside a string value: such a
	// message is refused - nothing in it may be read as a legacy message
	for i, n := 0, c.N(60, 1500); i < n; i++ {
		members := map[string]string{"username": `"json-user"`, "hostname": `"json-host"`, "sshClientVersion": jstr(core.Pick(r, "9.9", "8.1", "1.0"))}
		victim := core.Pick(r, "username", "hostname", "sshClientVersion")
		if r.Intn(2) == 0 {
			delete(members, victim)
		} else {
			members[victim] = `""`
		}
		tok := " req=" + genName(r) + "@" + genName(r) + core.Pick(r, " ", " SSHClientVersion=7.4 ", " HardKey=true IFVer=6 ", " SSHClientVersion=8.8 HardKey=true ")
		var parts []string
		for k, v := range members {
			parts = append(parts, jstr(k)+":"+v)
		}
		sort.Strings(parts)
		parts = append(parts, `"ifVer":7`)
		switch r.Intn(3) {
		case 0:
			parts = append(parts, `"note":`+jstr(tok))
		case 1:
			parts = append(parts, `"exts":{"comment":`+jstr(tok)+`}`)
		default:
			other := core.Pick(r, "username", "hostname")
			if other == victim {
				other = "sshClientVersion"
			}
			for j := range parts {
				if strings.HasPrefix(parts[j], jstr(other)+":") {
					parts[j] = jstr(other) + ":" + jstr(tok)
				}
			}
		}
		if r.Intn(2) == 0 {
			r.Shuffle(len(parts), func(a, b int) { parts[a], parts[b] = parts[b], parts[a] })
		}
		emit("json-incomplete-with-legacy-token", input{"{" + strings.Join(parts, ",") + "}", "user", goodConn, goodArgv})
	}
	emit("corpus", input{goodJSON, "user", "", goodArgv})
	emit("corpus", input{goodJSON, "", goodConn, goodArgv})
	emit("corpus", input{goodJSON, "user", goodConn, []string{"/usr/bin/gen-sign", "Regular"}})
	emit("corpus", input{goodJSON, "user", goodConn, []string{"/usr/bin/gen-sign", "trash", "Regular"}})
	emit("corpus", input{goodJSON, "user", goodConn, []string{"gensign", "-c", "/usr/bin/gensign NONS Regular"}})

	// (i) one dimension at a time around a good call
	for _, conn := range conns {
		emit("conn-sweep", input{goodJSON, "user", conn, goodArgv})
	}
	for _, v := range versions {
		emit("version-sweep", input{`{"username":"u","hostname":"h","sshClientVersion":` + jstr(v) + `}`, "user", goodConn, goodArgv})
		emit("version-sweep", input{"req=u@h SSHClientVersion=" + v, "user", goodConn, goodArgv})
	}
	// forced-command shapes: token count crossing 3 and 6, policy position, empty arguments
	words := []string{"NONS", "NSOK", "x", ""}
	for n := 0; n <= 8; n++ {
		for k := 0; k < len(words)*len(words); k++ {
			toks := make([]string, n)
			for i := range toks {
				toks[i] = "w"
			}
			if n >= 1 {
				toks[n-1] = words[k%len(words)]
			}
			if n >= 2 {
				toks[n-2] = words[k/len(words)]
			}
			emit("argv-count", input{goodJSON, "user", goodConn, toks})                                // n separate arguments
			emit("argv-count", input{goodLegacy, "user", goodConn, []string{strings.Join(toks, " ")}}) // one argument with n-1 spaces
			if n >= 3 {
				emit("argv-count", input{goodJSON, "user", goodConn, []string{toks[0], strings.Join(toks[1:n-1], " "), toks[n-1]}})
			}
		}
	}
	for _, ln := range []string{"", "user", "\u00fcser", " ", "a b", "root", "u@h", "\u65e5\u672c\u8a9e"} {
		emit("logname-sweep", input{goodJSON, ln, goodConn, goodArgv})
		emit("logname-sweep", input{goodLegacy, ln, goodConn, goodArgv})
	}

	// (ii) random combinations, each dimension mostly valid
	for i, n := 0, c.N(2500, 40000); i < n; i++ {
		in := input{genCmd(r), genLogname(r), genConn(r), genArgv(r)}
		emit("random", in)
	}
	// same server-side inputs, two different client texts (non-interference is a theorem; here the pair is just run)
	for i, n := 0, c.N(300, 5000); i < n; i++ {
		ln, conn, argv := genLogname(r), genConn(r), genArgv(r)
		emit("pair", input{genCmd(r), ln, conn, argv})
		emit("pair", input{genCmd(r), ln, conn, argv})
	}

	// (iii) arbitrary bytes as the original command (invalid UTF-8: no-panic oracle only)
	for i, n := 0, c.N(400, 10000); i < n; i++ {
		b := make([]byte, r.Intn(60))
		for j := range b {
			if r.Intn(3) == 0 {
				b[j] = byte(r.Intn(256))
			} else {
				const alphabet = `{}[]":,0123456789.-eEtruefalsn \=@reqIFVuhostxsSSHClientVersion`
				b[j] = alphabet[r.Intn(len(alphabet))]
			}
		}
		if r.Intn(3) == 0 {
			t := genCmd(r)
			b = []byte(t[:r.Intn(len(t)+1)])
		}
		emit("arbitrary-bytes", input{string(b), "user", goodConn, goodArgv})
	}

	// Go-side oracle: transaction ids are 10 lower-case hex digits and pairwise distinct over the run
	seen := map[string]bool{}
	for _, id := range transIDs {
		okFmt := len(id) == 10
		for _, ch := range id {
			if !(ch >= '0' && ch <= '9' || ch >= 'a' && ch <= 'f') {
				okFmt = false
			}
		}
		if !okFmt {
			c.Native("transaction id is not 10 lower-case hex digits", id)
			return
		}
		if seen[id] {
			c.Native("transaction id repeated within one run", id)
			return
		}
		seen[id] = true
		// "fresh": five bytes of entropy each. An id with four or five zero bytes has probability < 1.3e-9
		// under a uniform source (about 1e-5 over a whole thorough run): seeing one means the id was not
		// drawn from five fresh random bytes (short read, reused buffer, ...).
		zeros := 0
		for b := 0; b < 10; b += 2 {
			if id[b:b+2] == "00" {
				zeros++
			}
		}
		if zeros >= 4 {
			c.Native(fmt.Sprintf("transaction id %q (number %d of this process) has %d zero bytes out of 5: it does not come from five fresh random bytes", id, len(seen), zeros),
				map[string]interface{}{"id": id, "ordinal_in_process": len(seen)})
			return
		}
	}
	// long-lived process: ids keep coming from fresh entropy whatever their ordinal (buffered readers run dry
	// at block boundaries): draw more through NewReqParam until at least 4500 have been seen
	for n := len(transIDs); n < 4500; n++ {
		p, err := csr.NewReqParam(func(k string) string {
			switch k {
			case "SSH_ORIGINAL_COMMAND":
				return goodJSON
			case "LOGNAME":
				return "user"
			case "SSH_CONNECTION":
				return goodConn
			}
			return ""
		}, func() []string { return goodArgv })
		if err != nil || p == nil {
			c.Native("NewReqParam fails on the reference input: "+fmt.Sprint(err), nil)
			return
		}
		id := p.TransID
		zeros := 0
		for b := 0; b+2 <= len(id) && b < 10; b += 2 {
			if id[b:b+2] == "00" {
				zeros++
			}
		}
		if len(id) != 10 || seen[id] || zeros >= 4 {
			c.Native(fmt.Sprintf("transaction id %q (number %d of this process) is repeated, malformed or has %d zero bytes out of 5: not fresh", id, n+1, zeros),
				map[string]interface{}{"id": id, "ordinal_in_process": n + 1})
			return
		}
		seen[id] = true
	}
	c.NativeCheck(len(seen))
}
