// C19 correspondence driver: cert.GetType / cert.Label / cert.GetPrincipals on
// real ssh.Certificate values, exhaustively over the KeyID attribute space.
package main

import (
	"encoding/json"
	"fmt"
	"strings"

	"golang.org/x/crypto/ssh"

	"github.com/theparanoids/ysshra/keyid"
	certutil "github.com/theparanoids/ysshra/sshutils/cert"
	"verifharness/core"
)

func main() {
	core.Main("C19", &core.Driver{
		Imports:  "From Verif Require Import Lib.Base Lib.Json Model.KeyId Model.CertType Model.C19Check.",
		CheckFn:  "C19Check.check",
		ClassFn:  "C19Check.classify",
		CaseType: "C19Check.case",
		Run:      run,
	})
}

const optName = "touchless-sudo-hosts"

type coState struct {
	name string
	opts map[string]string
	sudo bool
}

var coStates = []coState{
	{"nil-map", nil, false},
	{"absent", map[string]string{"force-command": "x"}, false},
	{"empty", map[string]string{optName: ""}, false},
	{"set", map[string]string{optName: "host1,host2"}, true},
	// non-empty values that name no host: the rule is about the option being non-empty, not about its content
	{"set-comma-only", map[string]string{optName: ","}, true},
	{"set-blank", map[string]string{optName: " "}, true},
	{"set-tab", map[string]string{optName: "\t"}, true},
	{"set-blanks-and-commas", map[string]string{optName: ", ,"}, true},
	{"set-with-other-options", map[string]string{optName: "*", "force-command": "x", "source-address": "10.0.0.0/8"}, true},
	{"other-option-with-similar-name", map[string]string{optName + "s": "host1", "Touchless-Sudo-Hosts": "host1"}, false},
}

func run(c *core.Ctx) {
	r := c.Rng
	emitType := func(class string, cert *ssh.Certificate, co coState) {
		var ty certutil.Type
		var lab string
		var lerr error
		if p, msg := core.Guard(func() {
			ty = certutil.GetType(cert)
			lab, lerr = certutil.Label(cert)
		}); p {
			c.Native("panic in cert.GetType/Label: "+msg, fmt.Sprintf("%+v", cert))
			return
		}
		certTerm := "None"
		human := map[string]interface{}{"type": int(ty), "label": lab, "label_err": fmt.Sprint(lerr)}
		if cert != nil {
			tree, ok := core.JSONTree([]byte(cert.KeyId))
			certTerm = "(Some " + core.GPair(core.GOpt(ok, tree), core.GBool(co.sudo)) + ")"
			human["keyid"] = cert.KeyId
			human["critical_option"] = co.name
		} else {
			human["cert"] = "nil"
		}
		c.Case(class, core.GApp("CType", certTerm, core.GZ(int64(ty)), core.GOpt(lerr == nil, core.GStr(lab))), human)
	}

	// nil certificate
	emitType("nil-cert", nil, coStates[0])

	// exhaustive: 16 flag sets x touch policies x critical option states, KeyID text built
	// directly as JSON so that inconsistent combinations are present too (they must not decode)
	policies := []int64{-1, 0, 1, 2, 3, 4, 100, 1 << 40}
	for flags := 0; flags < 16; flags++ {
		for _, pol := range policies {
			for _, co := range coStates {
				// transaction ids as they come: lower-case hex (what the RA generates), upper-case hex, mixed, other text
				tid := []string{fmt.Sprintf("tx%d", flags), "22DDE224", "00aaBBcc", "DEADBEEF00", "a1b2c3d4e5", "ABCDEF", "Tx-9F"}[(flags+int(pol&7))%7]
				kid := map[string]interface{}{"prins": []string{"alice"}, "transID": tid, "reqUser": "u", "reqIP": "1.2.3.4", "reqHost": "h",
					"isFirefighter": flags&1 != 0, "isHWKey": flags&2 != 0, "isHeadless": flags&4 != 0, "isNonce": flags&8 != 0,
					"usage": flags % 2, "touchPolicy": pol, "ver": 1}
				b, _ := json.Marshal(kid)
				cert := &ssh.Certificate{KeyId: string(b), Permissions: ssh.Permissions{CriticalOptions: co.opts}}
				emitType("grid", cert, co)
			}
		}
	}
	// undecodable / near-miss KeyIDs
	base := `{"prins":["a"],"transID":"T","reqUser":"u","reqIP":"i","reqHost":"h","isFirefighter":false,"isHWKey":false,"isHeadless":false,"isNonce":false,"usage":0,"touchPolicy":1,"ver":1}`
	for _, t := range []string{"", "free text", "null", "{}", "[]", `{"ver":1}`,
		strings.Replace(base, `"ver":1`, `"ver":2`, 1), strings.Replace(base, `"transID":"T",`, ``, 1),
		strings.Replace(base, `"touchPolicy":1`, `"touchPolicy":"1"`, 1), strings.Replace(base, `"isNonce":false`, `"isNonce":true,"isFirefighter":true`, 1),
		strings.Replace(base, `"transID":"T"`, `"transID":"q\"<>&é😀"`, 1), strings.Replace(base, `"touchPolicy":1`, `"TOUCHPOLICY":3,"touchPolicy":1`, 1),
		strings.Replace(base, `"touchPolicy":1`, `"touchPolicy":1,"TOUCHPOLICY":3`, 1), base[:len(base)-1],
		// a member that is present with the value null (what the encoder writes for a nil principal list)
		strings.Replace(base, `"prins":["a"]`, `"prins":null`, 1), strings.Replace(base, `"prins":["a"]`, `"prins":[]`, 1),
		strings.Replace(base, `"reqHost":"h"`, `"reqHost":null`, 1), strings.Replace(base, `"transID":"T"`, `"transID":null`, 1),
		strings.Replace(base, `"isHWKey":false`, `"isHWKey":null`, 1), strings.Replace(base, `"touchPolicy":1`, `"touchPolicy":null`, 1),
		strings.Replace(base, `"usage":0`, `"usage":null`, 1), strings.Replace(base, `"ver":1`, `"ver":null`, 1),
		strings.Replace(strings.Replace(base, `"prins":["a"]`, `"prins":null`, 1), `"isHWKey":false`, `"isHWKey":true`, 1),
		strings.Replace(strings.Replace(base, `"prins":["a"]`, `"prins":null`, 1), `"isNonce":false`, `"isNonce":true`, 1)} {
		for _, co := range coStates {
			emitType("near-miss", &ssh.Certificate{KeyId: t, Permissions: ssh.Permissions{CriticalOptions: co.opts}}, co)
		}
	}
	// random consistent KeyIDs produced by the real encoder with random strings
	for i, n := 0, c.N(150, 5000); i < n; i++ {
		k := &keyid.KeyID{Principals: core.GenTextList(r, 3), TransID: core.Pick(r, core.GenText(r), core.GenText(r), "22DDE224", "9FA0", "AbCdEf0123"), ReqUser: core.GenText(r), ReqIP: core.GenText(r), ReqHost: core.GenText(r),
			Version: 1, TouchPolicy: keyid.TouchPolicy(r.Intn(5)), Usage: keyid.Usage(r.Intn(2))}
		switch r.Intn(5) {
		case 0:
			k.IsNonce, k.TouchPolicy = true, 1
		case 1:
			k.IsFirefighter, k.IsHWKey = true, r.Intn(2) == 0
		case 2:
			k.IsHeadless, k.TouchPolicy = true, 1
		case 3:
			k.IsHWKey = true
		}
		switch r.Intn(6) {
		case 0:
			k.Principals = nil
		case 1:
			k.Principals = []string{}
		}
		var text string
		var err error
		if p, _ := core.Guard(func() { text, err = k.Marshal() }); p || err != nil {
			// the encoder is not under test here: the text is what a CA writes for this KeyID
			b, _ := json.Marshal(k)
			text = string(b)
		}
		co := coStates[r.Intn(len(coStates))]
		emitType("random-keyid", &ssh.Certificate{KeyId: text, Permissions: ssh.Permissions{CriticalOptions: co.opts}}, co)
	}

	// GetPrincipals: every type value -1..10 x principal lists
	lists := [][]string{nil, {}, {"alice"}, {"alice", "bob:touch", ""}, {"ünï", "日本", ":notouch"}}
	for i, n := 0, c.N(20, 500); i < n; i++ {
		lists = append(lists, core.GenTextList(r, 5))
	}
	for ty := -1; ty <= 10; ty++ {
		for _, ps := range lists {
			var out []string
			if p, msg := core.Guard(func() { out = certutil.GetPrincipals(ps, certutil.Type(ty)) }); p {
				c.Native("panic in cert.GetPrincipals: "+msg, fmt.Sprint(ty, ps))
				continue
			}
			c.Case("principals", core.GApp("CPrins", core.GStrList(ps), core.GZ(int64(ty)), core.GStrList(out)),
				map[string]interface{}{"principals": ps, "type": ty, "out": out})
		}
	}
}
