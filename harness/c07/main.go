// C07 harness: fault-free histories of add / add-hardware-certificate / remove /
// remove-all / list / signers / sign and direct removals on the underlying
// agent, over certificates whose validity windows are past, current, future,
// lapsing or dawning during the history (the harness sleeps across the edge),
// zero, inverted, 2^63 and 2^64-1, in memory and/or in the agent, in both modes;
// plus direct calls of certutil.ValidateSSHCertTime on boundary values.
package main

import (
	"fmt"
	"math"
	"time"

	"golang.org/x/crypto/ssh"

	certutil "github.com/theparanoids/ysshra/sshutils/cert"
	"verifharness/core"
	"verifharness/shimsim"
)

func main() {
	core.Main("C07", &core.Driver{
		Imports:   "From Verif Require Import Lib.Base Lib.Json Model.KeyId Model.UAgent Model.Shim Model.ShimCheck Model.C07Check.",
		CheckFn:   "C07Check.check",
		ClassFn:   "C07Check.classify",
		CaseType:  "ShimCheck.case",
		ShardSize: 90,
		Run:       run,
	})
}

func validCase(c *core.Ctx, class string, va, vb uint64, now int64) {
	var res bool
	if p, msg := core.Guard(func() { res = certutil.ValidateSSHCertTime(&ssh.Certificate{ValidAfter: va, ValidBefore: vb}, time.Unix(now, 0)) }); p {
		c.Native("panic in ValidateSSHCertTime: "+msg, fmt.Sprint(va, vb, now))
		return
	}
	c.Case(class, core.GApp("CValid", core.GN(va), core.GN(vb), core.GZ(now), core.GBool(res)),
		map[string]interface{}{"op": "ValidateSSHCertTime", "ValidAfter": va, "ValidBefore": vb, "now": now, "result": res})
}

func run(c *core.Ctx) {
	r := c.Rng
	// (i) the validity function on its boundaries (time.Unix(0,0) is not the zero time.Time)
	edges := []uint64{0, 1, 999, 1000, 1001, 1 << 62, math.MaxInt64 - 1, math.MaxInt64, 1 << 63, 1<<63 + 1, math.MaxUint64}
	nows := []int64{-1, 0, 1, 999, 1000, 1001, 1 << 62, math.MaxInt64 - 1, math.MaxInt64}
	for _, va := range edges {
		for _, vb := range edges {
			for _, now := range nows {
				validCase(c, "validity-grid", va, vb, now)
			}
		}
	}
	for i, n := 0, c.N(300, 20000); i < n; i++ {
		pick := func() uint64 {
			switch r.Intn(4) {
			case 0:
				return edges[r.Intn(len(edges))]
			case 1:
				return uint64(1_700_000_000 + r.Intn(200_000_000))
			case 2:
				return r.Uint64()
			default:
				return uint64(r.Intn(5000))
			}
		}
		va, vb := pick(), pick()
		now := int64(pick() >> 1)
		switch r.Intn(4) { // hit the edges exactly
		case 0:
			if va <= math.MaxInt64 {
				now = int64(va) + int64(r.Intn(3)) - 1
			}
		case 1:
			if vb <= math.MaxInt64 {
				now = int64(vb) + int64(r.Intn(3)) - 1
			}
		}
		validCase(c, "validity-random", va, vb, now)
	}

	// (ii) histories
	pool, err := shimsim.NewPool()
	if err != nil {
		c.Native("harness: key pool: "+err.Error(), nil)
		return
	}
	w := map[shimsim.OpKind]int{
		shimsim.OpList: 16, shimsim.OpSigners: 10, shimsim.OpSign: 16, shimsim.OpAdd: 10, shimsim.OpAddHard: 16, shimsim.OpRemove: 6,
		shimsim.OpRemoveAll: 1, shimsim.OpDirectAdd: 6, shimsim.OpDirectRemove: 10}
	mixed := &shimsim.Cfg{MinOps: 5, MaxOps: 40, Weights: w}
	lapse := &shimsim.Cfg{MinOps: 10, MaxOps: 24, Weights: w, Lapse: true}
	var plans []*shimsim.Plan
	for i, n := 0, c.N(4, 60); i < n; i++ {
		plans = append(plans, shimsim.GenPlan(r, pool, lapse, "lapses-during-history"))
	}
	plans = append(plans, shimsim.ScenarioPlans(r, pool, c.N(40, 800))...)
	for i, n := 0, c.N(110, 2200); i < n; i++ {
		plans = append(plans, shimsim.GenPlan(r, pool, mixed, "windows"))
	}
	for _, res := range shimsim.RunAll(pool, plans, 8) {
		res.Emit(c)
	}
}
