// C07 harness: fault-free histories of add / add-hardware-certificate / remove /
// remove-all / list / signers / sign and direct removals on the underlying
// agent, over certificates whose validity windows are past, current, future,
// lapsing or dawning during the history (the harness sleeps across the edge),
// zero, inverted, 2^63 and 2^64-1, in memory and/or in the agent, in both modes;
// plus direct calls of certutil.ValidateSSHCertTime on boundary values.
package main

import (
	"fmt"
	"math"
	"time"

	"golang.org/x/crypto/ssh"

	certutil "github.com/theparanoids/ysshra/sshutils/cert"
	"verifharness/core"
	"verifharness/shimsim"
)

func main() {
	core.Main("C07", &core.Driver{
		Imports:   "From Verif Require Import Lib.Base Lib.Json Model.KeyId Model.UAgent Model.Shim Model.ShimCheck Model.C07Check.",
		CheckFn:   "C07Check.check",
		ClassFn:   "C07Check.classify",
		CaseType:  "ShimCheck.case",
		ShardSize: 90,
		Run:       run,
	})
}

func validCase(c *core.Ctx, class string, va, vb uint64, now int64) {
	var res bool
	if p, msg := core.Guard(func() {
		res = certutil.ValidateSSHCertTime(&ssh.Certificate{ValidAfter: va, ValidBefore: vb}, time.Unix(now, 0))
	}); p {
		c.Native("panic in ValidateSSHCertTime: "+msg, fmt.Sprint(va, vb, now))
		return
	}
	c.Case(class, core.GApp("CValid", core.GN(va), core.GN(vb), core.GZ(now), core.GBool(res)),
		map[string]interface{}{"op": "ValidateSSHCertTime", "ValidAfter": va, "ValidBefore": vb, "now": now, "result": res})
}

func run(c *core.Ctx) {
	r := c.Rng
	// (i) the validity function on its boundaries (time.Unix(0,0) is not the zero time.Time)
	edges := []uint64{0, 1, 999, 1000, 1001, 1 << 62, math.MaxInt64 - 1, math.MaxInt64, 1 << 63, 1<<63 + 1, math.MaxUint64}
	nows := []int64{-1, 0, 1, 999, 1000, 1001, 1 << 62, math.MaxInt64 - 1, math.MaxInt64}
	for _, va := range edges {
		for _, vb := range edges {
			for _, now := range nows {
				validCase(c, "validity-grid", va, vb, now)
			}
		}
	}
	for i, n := 0, c.N(300, 20000); i < n; i++ {
		pick := func() uint64 {
			switch r.Intn(4) {
			case 0:
				return edges[r.Intn(len(edges))]
			case 1:
				return uint64(1_700_000_000 + r.Intn(200_000_000))
			case 2:
				return r.Uint64()
			default:
				return uint64(r.Intn(5000))
			}
		}
		va, vb := pick(), pick()
		now := int64(pick() >> 1)
		switch r.Intn(4) { // hit the edges exactly
		case 0:
			if va <= math.MaxInt64 {
				now = int64(va) + int64(r.Intn(3)) - 1
			}
		case 1:
			if vb <= math.MaxInt64 {
				now = int64(vb) + int64(r.Intn(3)) - 1
			}
		}
		validCase(c, "validity-random", va, vb, now)
	}

	// (ii) histories
	pool, err := shimsim.NewPool()
	if err != nil {
		c.Native("harness: key pool: "+err.Error(), nil)
		return
	}
	w := map[shimsim.OpKind]int{
		shimsim.OpList: 16, shimsim.OpSigners: 10, shimsim.OpSign: 16, shimsim.OpAdd: 10, shimsim.OpAddHard: 16, shimsim.OpRemove: 6,
		shimsim.OpRemoveAll: 1, shimsim.OpDirectAdd: 6, shimsim.OpDirectRemove: 10}
	mixed := &shimsim.Cfg{MinOps: 5, MaxOps: 40, Weights: w}
	lapse := &shimsim.Cfg{MinOps: 10, MaxOps: 24, Weights: w, Lapse: true}
	var plans []*shimsim.Plan
	for i, n := 0, c.N(4, 60); i < n; i++ {
		plans = append(plans, shimsim.GenPlan(r, pool, lapse, "lapses-during-history"))
	}
	plans = append(plans, shimsim.ScenarioPlans(r, pool, c.N(40, 800))...)
	for i, n := 0, c.N(110, 2200); i < n; i++ {
		plans = append(plans, shimsim.GenPlan(r, pool, mixed, "windows"))
	}
	// a misbehaving underlying agent: it refuses a removal (a read-only agent, a hardware token, a denied
	// confirmation), answers with garbage or hangs up - in the middle of List / Signers / Sign.  Whatever listing is
	// still returned, and whatever is still signed with, must be inside its validity window.
	op := func(k shimsim.OpKind, b uint64) *shimsim.Op { return &shimsim.Op{Kind: k, Blob: b} }
	nk := len(pool.Keys)
	for i, n := 0, c.N(24, 300); i < n; i++ {
		k := uint64(1 + r.Intn(nk))
		k2 := uint64(1 + (int(k)+r.Intn(nk-1))%nk)
		p := &shimsim.Plan{Class: "agent-refuses-removal", NoUp: r.Intn(2) == 0, Comp: core.Pick(r, 0, 1, 2),
			Data: map[uint64][]byte{1: []byte("data-1"), 2: []byte("data-2"), 3: []byte("data-3")}}
		kid := func() (string, string) { return shimsim.GenKeyID(r) }
		t1, k1 := kid()
		t2, kk2 := kid()
		t3, k3 := kid()
		bad := func() string {
			return core.Pick(r, "past", "future", "zero", "one-second-ago", "inverted", "soon", "just-expired")
		}
		e := shimsim.CertSpec{ID: pool.ReserveID(), KeyID: k2, Window: bad(), KidText: t1, KidKind: k1}
		e2 := shimsim.CertSpec{ID: pool.ReserveID(), KeyID: k, Window: bad(), KidText: t2, KidKind: kk2}
		g := shimsim.CertSpec{ID: pool.ReserveID(), KeyID: k, Window: core.Pick(r, "current", "forever"), KidText: t3, KidKind: k3}
		p.Certs = []shimsim.CertSpec{e, e2, g}
		p.Initial = []uint64{k, e.ID, g.ID}
		if r.Intn(2) == 0 {
			p.Initial = []uint64{e.ID, k, e2.ID, g.ID}
		}
		refused := func(o *shimsim.Op, idx int) *shimsim.Op {
			o.Faults = map[int]shimsim.Fault{idx: {Kind: core.Pick(r, shimsim.FFail, shimsim.FFail, shimsim.FMalformed, shimsim.FWrongType), Exec: false}}
			return o
		}
		sign := func(b uint64, d uint64) *shimsim.Op { return &shimsim.Op{Kind: shimsim.OpSign, Blob: b, DataID: d} }
		switch i % 4 {
		case 0:
			p.Ops = []*shimsim.Op{refused(op(shimsim.OpSigners, 0), 1), op(shimsim.OpList, 0), op(shimsim.OpSigners, 0)}
		case 1:
			p.Ops = []*shimsim.Op{refused(sign(e.ID, 1), 1), sign(e.ID, 2), op(shimsim.OpSigners, 0)}
		case 2:
			p.Ops = []*shimsim.Op{op(shimsim.OpAddHard, g.ID), refused(op(shimsim.OpList, 0), 1), refused(op(shimsim.OpSigners, 0), 1), refused(sign(e.ID, 1), 1), op(shimsim.OpList, 0)}
		default:
			p.Ops = []*shimsim.Op{refused(op(shimsim.OpSigners, 0), 1+r.Intn(2)), refused(sign(core.Pick(r, e.ID, e2.ID), 3), 1+r.Intn(2)), op(shimsim.OpDirectAdd, e2.ID),
				refused(op(shimsim.OpSigners, 0), 1), op(shimsim.OpSigners, 0), sign(e2.ID, 2)}
		}
		plans = append(plans, p)
	}
	// a certificate lapses (or dawns) while it is held, and nothing else changes: the same identity list before and
	// after, no additions or removals in between - only the clock moves.  In memory and in the agent, with longer-lived
	// certificates beside it, in both modes.
	for i, n := 0, c.N(8, 48); i < n; i++ {
		k := uint64(1 + r.Intn(nk))
		k2 := uint64(1 + (int(k)+r.Intn(nk-1))%nk)
		p := &shimsim.Plan{Class: "lapses-while-held", NoUp: i%2 == 1, Comp: core.Pick(r, 0, 1, 2),
			Data: map[uint64][]byte{1: []byte("data-1"), 2: []byte("data-2")}}
		cert := func(key uint64, win string) shimsim.CertSpec {
			t, kd := shimsim.GenKeyID(r)
			return shimsim.CertSpec{ID: pool.ReserveID(), KeyID: key, Window: win, KidText: t, KidKind: kd}
		}
		h := cert(k, core.Pick(r, "lapse", "lapse", "dawn")) // the one whose status changes
		g := cert(k2, core.Pick(r, "current", "forever"))    // a longer-lived one in the agent
		h2 := cert(k2, core.Pick(r, "current", "lapse"))     // another hardware certificate
		p.Certs = []shimsim.CertSpec{h, g, h2}
		sign := func(b uint64, d uint64) *shimsim.Op { return &shimsim.Op{Kind: shimsim.OpSign, Blob: b, DataID: d} }
		sleep := &shimsim.Op{Kind: shimsim.OpSleep, SleepMs: 4200}
		switch i % 4 {
		case 0, 1: // in memory
			p.Initial = []uint64{k, k2, g.ID}
			p.Ops = []*shimsim.Op{op(shimsim.OpAddHard, h.ID), op(shimsim.OpAddHard, h2.ID), op(shimsim.OpList, 0), op(shimsim.OpSigners, 0), sign(h.ID, 1),
				sleep, op(shimsim.OpList, 0), op(shimsim.OpSigners, 0), sign(h.ID, 2), sign(h2.ID, 1), op(shimsim.OpList, 0)}
		case 2: // in the agent
			p.Initial = []uint64{k, k2, g.ID, h.ID}
			p.Ops = []*shimsim.Op{op(shimsim.OpList, 0), op(shimsim.OpSigners, 0), sleep, op(shimsim.OpSigners, 0), op(shimsim.OpList, 0), sign(h.ID, 1)}
		default: // both, and the first request after the edge is a signature
			p.Initial = []uint64{k, k2, h.ID}
			p.Ops = []*shimsim.Op{op(shimsim.OpAddHard, h2.ID), op(shimsim.OpList, 0), sleep, sign(h.ID, 1), sign(h2.ID, 2), op(shimsim.OpList, 0), op(shimsim.OpSigners, 0)}
		}
		plans = append(plans, p)
	}
	misbehaving := &shimsim.Cfg{MinOps: 5, MaxOps: 30, Weights: w, FaultPct: 6,
		FaultOps: map[shimsim.OpKind]int{shimsim.OpList: 25, shimsim.OpSigners: 30, shimsim.OpSign: 30}}
	for i, n := 0, c.N(60, 1200); i < n; i++ {
		plans = append(plans, shimsim.GenPlan(r, pool, misbehaving, "agent-misbehaves"))
	}
	for _, res := range shimsim.RunAll(pool, plans, 8) {
		res.Emit(c)
	}
}
